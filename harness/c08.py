"""C08 -- the hyper-optimizer returns its best trial and reports that trial's true costs.

Three ties of the Lean models (Model/Hyper.lean, Model/HyperTrial.lean and the extended transcription
Model/HyperX.lean: NaN / -inf scores, raising workers, clean-up of in-flight futures, times, get_trials())
to /repo, on every run:

  A  scripted searches: the real `HyperOptimizer` with a harness-registered optlib (scripted
     settings) and path function (scripted scores / BadTrial / exceptions / delays), run serially,
     on a *scripted executor* that forces a chosen completion order, on a real thread pool and on
     a real process pool; one to three consecutive searches on the same object; every stop rule.
     The observed completion order (and, for wall-clock rules, the observed stop decisions) is fed
     to the driver ops `c08.xsearch` (always) and `c08.search` (cases the earlier model covers); lists,
     best record, cancelled / finished-and-dropped / left-behind futures, whether the search was left by
     an exception and the number of submissions must coincide (E); `c08.xprefixes`: the best score seen by
     the sampler after every assessed trial is that of the model run over the same prefix of the log.
  B  worker stack: the real trial function built by `HyperOptimizer.setup` (wrappers +
     `ComputeScore` + real objectives) on a table-driven mock tree versus `c08.worker` (E).
  F  source-derived facts (AST of scoring.py / hyper.py): which objectives fill flops/write/size,
     whether `ComputeScore` does, the nesting order of the wrappers in `setup`, that every wrapper
     ends with `trial.update(tree.contract_stats())`; closed `decide` obligations over them.

Implementation-side oracles (no model): arg-min / first-minimum / alignment / budget / isolation
computed directly from the script; for real methods x objectives x option sets:
`best[flops|write|size] == best["tree"].contract_stats()` == from-scratch `refimpl.spec_costs`,
tree complete and built over the queried network.
"""

import ast
import concurrent.futures as cf
import glob
import json
import math
import os
import random
import sys
import time
import warnings

import cotengra as ctg
from cotengra.hyperoptimizers import hyper as H
from cotengra.scoring import ensure_basic_quantities_are_computed
from cotengra.utils import BadTrial

from . import common, gen, refimpl

PROP = "C08"
LEVEL = "proof"
LEVEL_TEXT = (
    "Lean 4 theorems over an executable model of HyperOptimizer's driver-side and worker-side logic: for "
    "every completion log (any pool interleaving, any number of consecutive searches) self.best is the "
    "first entry of minimal score and carries its own params/method and figures (best_is_argmin, "
    "winner_row), the six record lists are projections of one log (lists_aligned); the serial loop and the "
    "parallel loop -- for every choice of which pending future completes next, every stop behaviour, every "
    "sampler -- are such logs, submit at most max_repeats trials, report each future at most once, cancel "
    "the rest, and report exactly max_repeats without a stop rule (serial_search_spec, parallel_search_spec, "
    "trial_budget_*); failures become inf records that never win (computeScore_total, "
    "some_finite_gives_winner); for any stack of post-processing wrappers the recorded flops/write/size are "
    "contract_stats() of the tree after the last mutation (wrapper_stats_fresh, record_costs_true_partial, "
    "winner_costs_true), composed end to end in hyper_search_correct_serial/_parallel. The model is tied to /repo on every run by equality correspondence on scripted "
    "searches (serial / forced completion orders / thread pool / process pool), on the real wrapper stack "
    "over a mock tree, and by source-derived fact tables with closed obligations. Round 3: a second, extended "
    "transcription (Model/HyperX.lean) in which scores are arbitrary floats with the IEEE semantics of < and >= "
    "(NaN, -inf), workers may raise (on_trial_error='raise': the search is left by the exception, no clean-up), "
    "the clean-up sees which in-flight futures had already finished, and self.times / get_trials() are part of "
    "the state: best is the first minimal trial among the non-NaN scores and NaN trials never disturb later "
    "comparisons (best_is_argmin_nan, nan_trial_does_not_affect_best; ge_variant_counterexample for the "
    "`>=`-else loop body); every search -- any schedule, stopping point, raising worker, clean-up -- keeps the "
    "invariant that best is the arg-min of exactly the recorded trials (search_serial_tracks, "
    "search_parallel_tracks, early_stop_best_is_argmin_of_recorded; harvest_report_only_counterexample / "
    "harvest_and_assess_tracks for the two other clean-ups); xhyper_search_correct_serial/_parallel end to end "
    "with float-valued objectives; the earlier model is its image under NaN -> inf (xrunLog_erase); on the "
    "current source no guard is left (current_source_costs_true, current_source_search_correct)."
)
LEVEL_NOTE = (
    "Partial where stated: record_costs_true_partial needs the guard 'the objective or ComputeScore fills "
    "missing figures, or a wrapper is configured' (false on the unrepaired tree for minimize='limit': "
    "record_costs_counterexample, fix proposed); real pool scheduling is sampled (forced orders are "
    "exhaustive only for small trial counts in the thorough tier); trees, contract_stats and the "
    "post-processing mutators are oracles -- that recorded figures equal the tree's is additionally checked "
    "on real methods x objectives x option sets against contract_stats() and a from-scratch rebuild."
)
TECHNIQUE = ("Lean 4 proof (fold invariant over completion logs; permutation/conservation invariant of the "
             "parallel loop) + differential correspondence with scripted real HyperOptimizer runs + AST fact tables")
LEAN_MODULES = ["CotengraVerif.Props.C08", "CotengraVerif.Props.C08X", "CotengraVerif.Props.C08Facts"]
THEOREMS = [
    "Cotengra.C08.best_is_argmin",
    "Cotengra.C08.best_score_order_independent",
    "Cotengra.C08.winner_is_a_finite_trial",
    "Cotengra.C08.some_finite_gives_winner",
    "Cotengra.C08.lists_aligned",
    "Cotengra.C08.winner_row",
    "Cotengra.C08.serial_search_spec",
    "Cotengra.C08.parallel_search_spec",
    "Cotengra.C08.trial_budget_serial",
    "Cotengra.C08.trial_budget_parallel",
    "Cotengra.C08.serial_parallel_same_best",
    "Cotengra.C08.best_map_mono",
    "Cotengra.C08.wrapper_stats_fresh",
    "Cotengra.C08.wrapper_tree_is_mutated",
    "Cotengra.C08.wrapper_original_kept",
    "Cotengra.C08.record_costs_true_partial",
    "Cotengra.C08.record_costs_counterexample",
    "Cotengra.C08.computeScore_total",
    "Cotengra.C08.scoring_failure_isolated",
    "Cotengra.C08.failed_trial_does_not_affect_best",
    "Cotengra.C08.finite_score_has_tree",
    "Cotengra.C08.winner_costs_true",
    "Cotengra.C08.hyper_search_correct_serial",
    "Cotengra.C08.hyper_search_correct_parallel",
    "Cotengra.C08.figures_always_filled",
    "Cotengra.C08.setup_order_as_modelled",
    "Cotengra.C08.every_wrapper_updates",
    "Cotengra.C08.repaired_code_costs_true",
    # round 3: extended model (Model/HyperX.lean)
    "Cotengra.C08.best_is_argmin_nan",
    "Cotengra.C08.nan_never_best",
    "Cotengra.C08.usable_gives_winner",
    "Cotengra.C08.nan_trial_does_not_affect_best",
    "Cotengra.C08.ge_variant_same_without_nan",
    "Cotengra.C08.ge_variant_counterexample",
    "Cotengra.C08.xlists_aligned",
    "Cotengra.C08.get_trials_aligned",
    "Cotengra.C08.xwinner_row",
    "Cotengra.C08.search_serial_tracks",
    "Cotengra.C08.parallel_search_xspec",
    "Cotengra.C08.search_parallel_tracks",
    "Cotengra.C08.early_stop_best_is_argmin_of_recorded",
    "Cotengra.C08.harvest_and_assess_tracks",
    "Cotengra.C08.harvest_report_only_counterexample",
    "Cotengra.C08.xcomputeScore_erase",
    "Cotengra.C08.xrecord_costs_true",
    "Cotengra.C08.xhyper_search_correct_serial",
    "Cotengra.C08.xhyper_search_correct_parallel",
    "Cotengra.C08.xrunLog_erase",
    "Cotengra.C08.optlib_reports_sound",
    "Cotengra.C08.optlib_reports_complete",
    "Cotengra.C08.compute_score_post_ensures",
    "Cotengra.C08.current_source_costs_true",
    "Cotengra.C08.current_source_search_correct",
]
TRUSTED = [
    "Lean 4.33 kernel; axioms ⊆ {propext, Classical.choice, Quot.sound}",
    "hand-written models Model/Hyper.lean, Model/HyperTrial.lean, Model/HyperX.lean of hyper.py:175-342, 527-793 and "
    "scoring.py:38-47, tied by the correspondences of this check on the generated cases only",
    "the AST fact extractor in harness/c08.py (gen_facts) -- validated dynamically by tie B",
    "harness canonicalisation: float scores -> dense ranks (justified by C08.best_map_mono), inf -> null",
    "Python float comparison = IEEE (xlt/xge: false whenever NaN is involved); x ** score_compression + smudge "
    "is NaN iff x is; concurrent.futures semantics of done()/result()/cancel()",
    "the observing executors of the harness (ScriptedExecutor, ObservedPool wrapping a real thread/process "
    "pool) passed as `parallel=`; the stack inspection that tells a result() taken during _maybe_cancel_futures",
]
ASSUMPTIONS = [
    "a score is a real float (a custom objective returning a negative finite number under a fractional "
    "score_compression yields a complex score: outside the model)",
    "real pool scheduling is sampled, not enumerated; forced completion orders go through a scripted "
    "executor object passed as `parallel=`",
    "trees / contract_stats / slice_ / subtree_reconfigure_ / simulated_anneal_ are oracles in the proof; "
    "their agreement with the recorded figures is checked on real runs only",
]
RULE = ("A: random scripts (1-3 searches x 1-8 repeats; trial kinds ok/okinf/nan/-inf/BadTrial/exception/"
        "scoring exception/overflow; tied scores; 2 method names; max_training_steps; on_trial_error warn/ignore/"
        "raise; score_compression 0.75/1.0; stop rules never/equil/rate/zero/large; pre_dispatch 1-5 or default; "
        "workers already finished at submit) x {serial, forced order, thread pool, process pool}; B: random stats/mutation tables x all 16 "
        "option subsets x 8 objective kinds x raw outcome; C: random connected networks x method subsets x "
        "6 objectives x 8 option sets x {serial, threads, processes}. Non-trivial = more than one trial and "
        "(a failure, a tie, a stop, a wrapper or a pool); distinct by content hash")
BUDGET = {"quick": 700, "thorough": 3300}

warnings.filterwarnings("ignore", message="Trial error")

METHODS = ["verif-scripted-a", "verif-scripted-b"]
MOCK_METHOD = "verif-mock"
BIG = 1e24  # scripted scores are k*BIG: the 1e-6 smudge of ComputeScore is absorbed, ties survive


# ------------------------------------------------------------------------------------------
#  scripted path function / objective / optlib (module level: picklable for process pools)
# ------------------------------------------------------------------------------------------

def variant_path(n, variant):
    r = random.Random(variant * 7919 + n)
    path = []
    m = n
    while m > 1:
        i, j = sorted(r.sample(range(m), 2))
        path.append((i, j))
        m -= 1
    return tuple(path)


def scripted_path_fn(inputs, output, size_dict, tid=0, kind="ok", k=1, delay=0.0, variant=0, **_):
    if delay:
        time.sleep(delay)
    if kind == "bad":
        raise BadTrial
    if kind == "exc":
        raise ValueError("scripted trial failure")
    tree = ctg.ContractionTree.from_path(inputs, output, size_dict, path=variant_path(len(inputs), variant))
    # "scoreexc" / "overflow": the tree is built fine, the objective then fails on it;
    # "nan" / "ninf": the objective answers float('nan') / float('-inf') for it
    tree.verif_val = (float("inf") if kind == "okinf" else float("nan") if kind == "nan"
                      else float("-inf") if kind == "ninf" else kind if kind in SCORE_FAIL_KINDS else k * BIG)
    tree.verif_tid = tid
    return tree


SCORE_FAIL_KINDS = ("scoreexc", "overflow")
FAIL_KINDS = ("bad", "exc") + SCORE_FAIL_KINDS
RAISING_KINDS = ("exc",) + SCORE_FAIL_KINDS   # propagate with on_trial_error='raise' (BadTrial never does)
TREE_KINDS = ("ok", "okinf", "nan", "ninf")    # the trial carries a tree and that tree's figures


def compressed(x, c):
    """What ComputeScore makes of the objective's value x (before the 1e-6 smudge)."""
    return x ** c


def expected_score(p, c):
    """Recorded score of a scripted trial with a tree, as a float."""
    if p["kind"] == "ok":
        return compressed(p["k"] * BIG, c)
    return compressed({"okinf": float("inf"), "nan": float("nan"), "ninf": float("-inf")}[p["kind"]], c)


def scripted_objective(trial):
    ensure_basic_quantities_are_computed(trial)
    v = trial["tree"].verif_val
    if v == "scoreexc":
        raise ValueError("scripted objective rejects this tree")
    if v == "overflow":
        return 10.0 ** 400  # OverflowError, as an objective on an astronomically expensive tree
    return v


def _optlib_init(self, methods, space, script=None, **_):
    self._verif_script = list(script or [])
    self._verif_next = 0
    self._verif_reports = []
    self._verif_overrun = 0
    self._verif_snaps = []


def _snapshot(self):
    """The record as the sampler sees it when it is asked for the next setting (between two
    assessed trials): lengths of the seven lists, best score, minimum of the comparable scores."""
    lens = [len(self.method_choices), len(self.param_choices), len(self.scores), len(self.costs_flops),
            len(self.costs_write), len(self.costs_size), len(self.times)]
    us = [x for x in self.scores if x == x]
    b = self.best
    return {"n": len(self.scores), "lens_ok": len(set(lens)) == 1,
            "best": fscore(b["score"]), "best_tid": b["params"].get("tid") if "params" in b else None,
            "min": fscore(min(us)) if us else "inf"}


def _optlib_get_setting(self):
    i = self._verif_next
    self._verif_next += 1
    try:
        self._verif_snaps.append(_snapshot(self))
    except Exception as e:  # an unreadable record is a finding of its own
        self._verif_snaps.append({"error": type(e).__name__})
    if i < len(self._verif_script):
        m, params = self._verif_script[i]
    else:  # more settings drawn than the harness scripted: budget overrun, recorded
        self._verif_overrun += 1
        m, params = METHODS[0], {"tid": i, "kind": "ok", "k": 9, "delay": 0.0, "variant": 0}
    return {"method": m, "params": dict(params)}


def _optlib_report(self, setting, trial, score):
    self._verif_reports.append((setting["params"]["tid"], score))


def _register():
    space = {"tid": {"type": "INT", "min": 0, "max": 1 << 30}}
    for m in METHODS:
        H.register_hyper_function(m, scripted_path_fn, space)
    H.register_hyper_function(MOCK_METHOD, mock_path_fn, space)
    H.register_hyper_optlib("verif", _optlib_init, _optlib_get_setting, _optlib_report)


# ------------------------------------------------------------------------------------------
#  scripted executor: forces which pending future is found done() next
# ------------------------------------------------------------------------------------------

def _in_cleanup():
    """Is the caller (a future method) being run from inside `_maybe_cancel_futures`?"""
    f = sys._getframe(2)
    while f is not None:
        if f.f_code.co_name == "_maybe_cancel_futures":
            return True
        f = f.f_back
    return False


class _Observed:
    """What the harness records about the futures a search handles (any pool mode)."""

    def _obs_init(self):
        self.cancel_calls = []   # fids on which cancel() was called, in call order
        self.discarded = []      # those among them whose worker had already finished
        self.raised = []         # fids whose result() raised
        self.late = []           # fids whose result() was taken during the clean-up
        self.times = {}          # fid -> trial["time"] of the returned record
        self.nsub = 0

    def _obs_result(self, fid, value):
        if _in_cleanup():
            self.late.append(fid)
        if isinstance(value, dict):
            self.times[fid] = value.get("time")


class ScriptedFuture:
    def __init__(self, ex, fid, value, exc, fast):
        self.ex, self.fid, self.value, self.exc = ex, fid, value, exc
        self.finished = bool(fast)

    def done(self):
        return self.ex._poll(self)

    def result(self, timeout=None):
        return self.ex._collect(self)

    def cancel(self):
        self.ex.cancel_calls.append(self.fid)
        if self in self.ex.pending:
            self.ex.pending.remove(self)
        if self.finished:  # nothing left to cancel
            self.ex.discarded.append(self.fid)
            return False
        return True


class ScriptedExecutor(_Observed):
    """`parallel=` object: runs the submitted call at submit time.  A future scripted `fast` is
    finished from the start; otherwise, whenever no pending future is finished, the next entry of
    `choices` (a position in the pending list) picks the one that finishes next.  The driver's
    scan therefore finds a forced future, and several futures can be finished but not yet looked
    at when the search stops."""

    def __init__(self, n_workers, choices):
        self._max_workers = n_workers
        self.choices = list(choices)
        self.pending = []
        self.polls = 0
        self._obs_init()

    def submit(self, fn, *args, **kwargs):
        try:
            value, exc = fn(*args, **kwargs), None
        except Exception as e:  # delivered by result(), as a real pool does
            value, exc = None, e
        fut = ScriptedFuture(self, self.nsub, value, exc, kwargs.get("fast", False))
        self.nsub += 1
        self.pending.append(fut)
        return fut

    def _poll(self, fut):
        self.polls += 1
        if self.polls > 3000:  # a driver that never looks at the finished future: let all finish
            return True
        if fut not in self.pending:  # a future the driver should have dropped
            return fut.finished
        if not any(f.finished for f in self.pending):
            c = self.choices.pop(0) if self.choices else 0
            self.pending[c % len(self.pending)].finished = True
        return fut.finished

    def _collect(self, fut):
        if fut in self.pending:
            self.pending.remove(fut)
        fut.finished = True
        self.polls = 0
        if fut.exc is not None:
            self.raised.append(fut.fid)
            raise fut.exc
        self._obs_result(fut.fid, fut.value)
        return fut.value

    def new_search(self):
        """Whatever an aborted earlier search left behind is stale."""
        self.pending.clear()
        self.polls = 0


class ObservedFuture:
    def __init__(self, pool, fid, inner):
        self.pool, self.fid, self.inner = pool, fid, inner

    def done(self):
        return self.inner.done()

    def result(self, timeout=None):
        try:
            value = self.inner.result(timeout)
        except BaseException:
            self.pool.raised.append(self.fid)
            raise
        self.pool._obs_result(self.fid, value)
        return value

    def cancel(self):
        self.pool.cancel_calls.append(self.fid)
        ok = self.inner.cancel()
        if not ok and self.inner.done():  # finished before the clean-up reached it
            self.pool.discarded.append(self.fid)
        return ok


class ObservedPool(_Observed):
    """`parallel=` object wrapping a real executor: same scheduling, but the harness sees which
    future raised, which were finished when cancelled, what time each record carried."""

    def __init__(self, inner, n_workers):
        self.inner = inner
        self._max_workers = n_workers
        self._obs_init()

    def submit(self, fn, *args, **kwargs):
        fut = ObservedFuture(self, self.nsub, self.inner.submit(fn, *args, **kwargs))
        self.nsub += 1
        return fut

    def new_search(self):
        pass


_POOLS = {}


def get_pool(kind, n):
    key = (kind, n)
    if key not in _POOLS:
        if kind == "threads":
            _POOLS[key] = cf.ThreadPoolExecutor(n)
        else:
            import multiprocessing as mp
            _POOLS[key] = cf.ProcessPoolExecutor(n, mp_context=mp.get_context("fork"))
    return _POOLS[key]


def shutdown_pools():
    for p in _POOLS.values():
        try:
            p.shutdown(wait=True, cancel_futures=True)
        except Exception:
            pass
    _POOLS.clear()


# ------------------------------------------------------------------------------------------
#  A. scripted searches
# ------------------------------------------------------------------------------------------

STOPS = ("never", "never", "never", "equil", "rate", "zero", "large")


def small_net(rng):
    for _ in range(100):
        net = gen.rand_net(rng, nmin=4, nmax=6, max_inds=8, dims=(2, 3), allow_scalar=False,
                           kinds=("bond", "bond", "hyper", "out1", "outk", "batch"))
        if gen.connected(net) and len(net.indices()) >= 3:
            return net
    raise RuntimeError("no network")


def make_script(rng, total, mode, allfail=False, raising=True, fast=0.0):
    script = []
    for tid in range(total + 2):  # two spare settings: drawn only by a budget overrun
        u = rng.random()
        kind = ("ok" if u < 0.52 else "okinf" if u < 0.57 else "nan" if u < 0.68 else "ninf" if u < 0.72
                else "bad" if u < 0.80 else "exc" if u < 0.87 else "scoreexc" if u < 0.94 else "overflow")
        if not raising and kind in RAISING_KINDS and rng.random() < 0.7:
            kind = "ok"   # on_trial_error='raise': keep most searches going for a while
        if allfail:
            kind = rng.choice(["bad", "exc", "okinf", "scoreexc", "overflow", "nan", "nan"])
        delay = 0.0
        if mode in ("threads", "procs"):
            delay = rng.choice([0.0, 0.0, 0.0003, 0.0008, 0.0015])
        params = {"tid": tid, "kind": kind, "k": rng.randint(1, 4), "delay": delay, "variant": rng.randrange(6)}
        if fast and rng.random() < fast:
            params["fast"] = True   # forced mode: this worker has finished as soon as it is submitted
        script.append([rng.randrange(2), params])
    return script


def gen_scripted(rng, tier, mode=None):
    mode = mode or rng.choice(["serial", "serial", "forced", "forced", "forced", "threads", "procs"])
    nsearch = rng.choice([1, 1, 1, 2, 3])
    searches = []
    total = 0
    for _ in range(nsearch):
        r = rng.randint(1, 8 if mode != "procs" else 5)
        stop = rng.choice(STOPS)
        s = {"max_repeats": r, "stop": stop}
        if stop == "equil":
            s["amount"] = rng.randint(0, 3)
        searches.append(s)
        total += r
    on_error = rng.choice(["warn", "ignore", "warn", "ignore", "raise"])
    fast = rng.choice([0.0, 0.0, 0.3, 0.6]) if mode == "forced" else 0.0
    script = make_script(rng, total, mode, rng.random() < 0.06, raising=on_error != "raise", fast=fast)
    case = {"kind": "scripted", "net": small_net(rng).json(), "mode": mode, "searches": searches,
            "script": script, "mts": rng.choice([None, None, 0, 1, 3]),
            "on_error": on_error}
    if rng.random() < 0.25:
        case["compression"] = 1.0   # score_compression=1: -inf survives (x ** 0.75 maps it to +inf)
    if mode != "serial":
        case["workers"] = rng.randint(1, 3)
        case["pre"] = rng.choice([None, 1, 2, 3, 4, 5])
        if mode == "forced":
            case["choices"] = [rng.randrange(6) for _ in range(total)]
    return case


def gen_inflight(rng, tier):
    """Forced-mode searches that end (stop rule, or a raising worker) while several pre-dispatched
    futures are in flight, many of them already finished."""
    case = gen_scripted(rng, tier, "forced")
    total = sum(s["max_repeats"] for s in case["searches"])
    for s in case["searches"]:
        s["max_repeats"] = max(s["max_repeats"], 4)
        if rng.random() < 0.7:
            s["stop"] = rng.choice(["zero", "equil", "rate"])
            s["amount"] = rng.randint(0, 2)
    total = sum(s["max_repeats"] for s in case["searches"])
    case["on_error"] = rng.choice(["warn", "raise", "raise"])
    case["script"] = make_script(rng, total, "forced", False, raising=case["on_error"] != "raise", fast=0.6)
    case["pre"] = rng.choice([3, 4, 5, None])
    case["choices"] = [rng.randrange(6) for _ in range(total)]
    return case


def expected_stats(net, variant):
    tree = ctg.ContractionTree.from_path(net.sym_inputs(), net.sym_output(), net.sym_sizes(),
                                         path=variant_path(len(net.inputs), variant))
    st = tree.contract_stats()
    return int(st["flops"]), int(st["write"]), int(st["size"])


def fig(x):
    if isinstance(x, float) and math.isinf(x):
        return None
    return int(x)


def fscore(x):
    """JSON-safe image of a float score: NaN / ±inf as strings (replays must round-trip)."""
    if x != x:
        return "nan"
    if math.isinf(x):
        return "inf" if x > 0 else "-inf"
    return x


def unf(x):
    return float(x) if isinstance(x, str) else x


def run_scripted(case):
    """Run the real optimizer. Returns the list of per-search observations."""
    net = gen.Net.from_json(case["net"])
    script = [(METHODS[m], p) for m, p in case["script"]]
    mode = case["mode"]
    ex = None
    if mode == "serial":
        par = False
    elif mode == "forced":
        ex = ScriptedExecutor(case["workers"], case.get("choices", []))
        par = ex
    else:
        ex = ObservedPool(get_pool(mode, case["workers"]), case["workers"])
        par = ex
    obs = []
    with warnings.catch_warnings():
        warnings.simplefilter("ignore")
        kw = {}
        if "compression" in case:
            kw["score_compression"] = case["compression"]
        opt = ctg.HyperOptimizer(methods=list(METHODS), optlib="verif", minimize=scripted_objective,
                                 max_repeats=1, parallel=par, on_trial_error=case["on_error"],
                                 max_training_steps=case["mts"], script=script, **kw)
        if mode != "serial" and case.get("pre") is not None:
            opt.pre_dispatch = case["pre"]
        for s in case["searches"]:
            opt.max_repeats = s["max_repeats"]
            opt.max_time = {"never": None, "equil": "equil:%d" % s.get("amount", 0), "rate": "rate:1e300",
                            "zero": 0.0, "large": 1e9}[s["stop"]]
            n0, sub0 = len(opt.scores), opt._verif_next
            snap0 = len(opt._verif_snaps)
            marks = {k: len(getattr(ex, k)) for k in ("cancel_calls", "discarded", "raised", "late")} if ex else {}
            if ex:
                ex.new_search()
            err, tree = None, None
            try:
                tree = opt.search(net.sym_inputs(), net.sym_output(), net.sym_sizes())
            except KeyError as e:
                err = "KeyError:" + str(e.args[0])
            except Exception as e:  # a scripted failure with on_trial_error='raise', or unexpected
                err = type(e).__name__ + ":" + str(e)[:80]
            gt = None
            try:
                gt = [[METHODS.index(m), fig(sz), fig(f), fig(w), p["tid"]] for m, sz, f, w, p in opt.get_trials()]
            except Exception as e:
                gt = "get_trials raised " + type(e).__name__
            left = []
            for item in list(getattr(opt, "_futures", []) or []):
                try:
                    left.append(item[0]["params"]["tid"])
                except Exception:
                    left.append(-1)
            o = {
                "err": err,
                "n_new": len(opt.scores) - n0,
                "submitted_new": opt._verif_next - sub0,
                "overrun": opt._verif_overrun,
                "methods": [METHODS.index(m) for m in opt.method_choices],
                "params": [p["tid"] for p in opt.param_choices],
                "scores": [fscore(x) for x in opt.scores],
                "flops": [fig(x) for x in opt.costs_flops],
                "write": [fig(x) for x in opt.costs_write],
                "size": [fig(x) for x in opt.costs_size],
                "lens": [len(opt.method_choices), len(opt.param_choices), len(opt.scores),
                         len(opt.costs_flops), len(opt.costs_write), len(opt.costs_size), len(opt.times)],
                "get_trials": gt,
                "snaps": list(opt._verif_snaps[snap0:]),
                "best_score": fscore(opt.best_score),
                "trials_since_best": opt.trials_since_best,
                "reports": [(t, fscore(x)) for t, x in opt._verif_reports],
                "pre": getattr(opt, "pre_dispatch", None),
                "futures_left": left,
                "cancel_calls": list(ex.cancel_calls[marks["cancel_calls"]:]) if ex else None,
                "discarded": list(ex.discarded[marks["discarded"]:]) if ex else None,
                "raised": list(ex.raised[marks["raised"]:]) if ex else None,
                "late": list(ex.late[marks["late"]:]) if ex else None,
            }
            if ex:  # the time each recorded row should carry: that of its own trial's record
                o["times_ok"] = [opt.times[i] == ex.times.get(p["tid"], "?") if i < len(opt.times) else False
                                 for i, p in enumerate(opt.param_choices)]
            b = opt.best
            if "params" in b:
                o["best"] = {"score": fscore(b["score"]), "flops": fig(b["flops"]), "write": fig(b["write"]),
                             "size": fig(b["size"]), "has_tree": "tree" in b,
                             "tid": b["params"].get("tid"), "method": b["params"].get("method"),
                             "tree_tid": getattr(b.get("tree"), "verif_tid", None),
                             "time_in_times": b.get("time", "missing") in opt.times}
            else:
                o["best"] = None
            if tree is not None:
                st = tree.contract_stats()
                o["ret"] = {"is_best_tree": tree is b.get("tree"), "complete": bool(tree.is_complete()),
                            "net_ok": (list(map(tuple, tree.inputs)) == list(map(tuple, net.sym_inputs()))
                                       and tuple(tree.output) == tuple(net.sym_output())
                                       and dict(tree.size_dict) == net.sym_sizes()),
                            "stats": [int(st["flops"]), int(st["write"]), int(st["size"])]}
            obs.append(o)
    return obs


def usable(scores):
    """The recorded scores that can be compared: everything but NaN (as floats)."""
    return [x for x in map(unf, scores) if x == x]


def oracle_scripted(case, obs):
    """Property oracle from the script alone. Returns None or (kind, detail)."""
    net = gen.Net.from_json(case["net"])
    script = {p["tid"]: (m, p) for m, p in case["script"]}
    comp = case.get("compression", 0.75)
    exp_stats = {}
    seen_before = 0
    first_sub = 0
    for si, (s, o) in enumerate(zip(case["searches"], obs)):
        aborted = False
        if o["err"] not in (None, "KeyError:tree"):
            # with on_trial_error='raise' a failing trial takes the search down -- allowed only if
            # such a trial was submitted by this search
            mine = range(first_sub, first_sub + o["submitted_new"])
            culprits = [t for t in mine if t in script and script[t][1]["kind"] in RAISING_KINDS]
            scripted_err = o["err"].startswith(("ValueError:scripted", "OverflowError:"))
            if case["on_error"] == "raise" and culprits and scripted_err:
                aborted = True
            else:
                return ("search-raised", o["err"])
        first_sub += o["submitted_new"]
        if len(set(o["lens"])) != 1:
            return ("lists-length", o["lens"])
        # the invariant holds whenever the sampler looks at the record (between two assessed trials):
        # lists aligned, best score = minimum of the comparable scores recorded so far
        for sn in o["snaps"]:
            if "error" in sn:
                return ("record-unreadable-mid-search", sn)
            if not sn["lens_ok"]:
                return ("lists-length-mid-search", sn)
            if unf(sn["min"]) < float("inf") and unf(sn["best"]) != unf(sn["min"]):
                return ("best-not-min-mid-search", sn)
            if sn["best"] == "nan":
                return ("best-not-min-mid-search", sn)
        n = len(o["scores"])
        # budget
        if o["n_new"] > s["max_repeats"] or o["submitted_new"] > s["max_repeats"] or o["overrun"]:
            return ("budget-exceeded", [o["n_new"], o["submitted_new"], s["max_repeats"]])
        if s["stop"] in ("never", "large") and o["n_new"] != s["max_repeats"] and not aborted:
            return ("budget-short", [o["n_new"], s["max_repeats"]])
        if o["futures_left"] and not aborted:
            return ("futures-left", o["futures_left"])
        # each trial reported at most once
        if len(set(o["params"])) != n:
            return ("trial-reported-twice", o["params"])
        # alignment and isolation: every row is its own trial's record
        for i in range(seen_before, n):
            tid = o["params"][i]
            if tid not in script:
                return ("unknown-trial", tid)
            m, p = script[tid]
            if o["methods"][i] != m:
                return ("row-method", [i, tid])
            has_tree = p["kind"] in TREE_KINDS
            sc = unf(o["scores"][i])
            if has_tree:
                want_sc = expected_score(p, comp)
                if want_sc != want_sc:
                    # the objective answered NaN: recorded as NaN, or turned into a failed trial (+inf)
                    if sc == sc and sc != float("inf"):
                        return ("row-score", [i, tid, p["kind"], o["scores"][i]])
                    if sc == float("inf") and [o["flops"][i], o["write"][i], o["size"][i]] == [None, None, None]:
                        continue
                elif math.isinf(want_sc):
                    if sc != want_sc:
                        return ("row-score-finiteness", [i, tid, p["kind"], o["scores"][i]])
                elif not (abs(sc - want_sc) <= 1.0):
                    return ("row-score", [i, tid, o["scores"][i]])
                if p["variant"] not in exp_stats:
                    exp_stats[p["variant"]] = expected_stats(net, p["variant"])
                want = list(exp_stats[p["variant"]])
            else:
                if sc != float("inf"):
                    return ("row-score-finiteness", [i, tid, p["kind"], o["scores"][i]])
                want = [None, None, None]
            got = [o["flops"][i], o["write"][i], o["size"][i]]
            if got != want:
                return ("row-figures", [i, tid, got, want])
        seen_before = n
        # get_trials() is the same record, row by row
        rows = [[o["methods"][i], o["size"][i], o["flops"][i], o["write"][i], o["params"][i]] for i in range(n)]
        if o["get_trials"] != rows:
            return ("get-trials-vs-lists", [str(o["get_trials"])[:120], rows[:3]])
        # arg-min over the comparable (non-NaN) scores, with the winner's own params and figures;
        # which minimal trial wins is the code's freedom; with no score below +inf the search may
        # raise KeyError('tree') or return the tree of one of the +inf-scored trials that has one;
        # a NaN-scored trial is never a winner
        us = usable(o["scores"])
        below = [x for x in us if x < float("inf")]
        if aborted:
            b = o["best"]
            if below and (b is None or unf(b["score"]) != min(us)):
                return ("best-not-min-after-aborted-search", [b, min(us)])
            continue
        if o["err"] is not None:
            if below:
                return ("no-tree-despite-usable-trial", o["err"])
            continue
        mn = min(us) if us else float("inf")
        b = o["best"]
        if b is None or not b["has_tree"] or unf(b["score"]) != mn:
            return ("best-not-min", [b, fscore(mn)])
        winners = [i for i, sc in enumerate(o["scores"]) if unf(sc) == mn and o["params"][i] == b["tid"]]
        if not winners:
            return ("best-not-a-minimal-trial", [b["tid"], [o["params"][i] for i, sc in enumerate(o["scores"])
                                                            if unf(sc) == mn]])
        if script[b["tid"]][1]["kind"] not in TREE_KINDS or script[b["tid"]][1]["kind"] == "nan":
            return ("best-is-a-failed-trial", b)
        r = o.get("ret")
        if r is None or not (r["is_best_tree"] and r["complete"] and r["net_ok"]):
            return ("returned-tree", r)
        if r["stats"] != [b["flops"], b["write"], b["size"]]:
            return ("best-figures-vs-tree", [r["stats"], b])
    return None


def derive_choices(order, pre, max_repeats, first_sub):
    """Positions (in the pending list) of the observed completions, under the window rule."""
    pre = max(pre, 1)
    pending, nsub, choices = [], 0, []
    for j, tid in enumerate(order):
        want = min(max_repeats, pre + j)
        while nsub < want:
            pending.append(first_sub + nsub)
            nsub += 1
        if tid not in pending:
            return None
        choices.append(pending.index(tid))
        pending.remove(tid)
    return choices


def has_new_features(case, obs):
    """Does the case use anything the earlier model (c08.search) does not have?"""
    if any(p["kind"] in ("nan", "ninf") for _, p in case["script"]):
        return True
    return any(o["err"] not in (None, "KeyError:tree") or o.get("late") or o.get("discarded") or o.get("raised")
               for o in obs)


def model_requests(case, obs):
    """The driver requests (old and extended model) from the script + the observed completion
    order / stop decisions.  Returns (settings, trials, xtrials, done, searches) or an error string."""
    net = gen.Net.from_json(case["net"])
    comp = case.get("compression", 0.75)
    exp_stats = {}
    settings, trials, xtrials = [], [], []
    for m, p in case["script"]:
        settings.append([m, p["tid"]])
        fail = {"score": None, "flops": None, "write": None, "size": None, "tree": None, "time": p["tid"]}
        if p["kind"] in TREE_KINDS:
            if p["variant"] not in exp_stats:
                exp_stats[p["variant"]] = expected_stats(net, p["variant"])
            f, w, s = exp_stats[p["variant"]]
            want = expected_score(p, comp)
            xs = (p["k"] if p["kind"] == "ok" else "nan" if want != want else None if want > 0 else "-inf")
            xtrials.append({"score": xs, "flops": f, "write": w, "size": s, "tree": 1, "time": p["tid"]})
            trials.append({"score": p["k"] if p["kind"] == "ok" else None,
                           "flops": f, "write": w, "size": s, "tree": 1})
        else:
            trials.append(fail)
            xtrials.append("raise" if (p["kind"] in RAISING_KINDS and case["on_error"] == "raise") else fail)
    searches = []
    first_sub, seen = 0, 0
    # workers known to have finished by the time the clean-up popped their future
    done = sorted({t for o in obs for t in (o.get("discarded") or []) + (o.get("late") or []) +
                   ((o.get("raised") or []) if o["err"] in (None, "KeyError:tree") else [])})
    for s, o in zip(case["searches"], obs):
        late = [t for t in (o.get("late") or [])]
        recorded = o["params"][seen:]
        order = recorded[:len(recorded) - len(late)] if late else recorded   # assessed by the loop
        aborted = o["err"] not in (None, "KeyError:tree")
        stopped = (not aborted) and (len(order) < s["max_repeats"])
        stop = s["stop"]
        nonfinite = any(isinstance(x, str) for x in o["scores"])
        hist = o["scores"]
        if stop in ("never", "large"):
            sj = {"kind": "never"}
        elif stop == "equil" and not (nonfinite or len(set(hist)) != len(hist)):
            sj = {"kind": "equil", "amount": s["amount"]}
        else:
            # wall-clock rules (max_time=0.0, 'rate:1e300') and 'equil' on histories with ties / inf /
            # NaN (tie-breaking and the treatment of such records is the code's freedom and changes
            # trials_since_best): the stop decisions are the environment; observed: the loop stopped
            # after the last trial it assessed iff it ran short
            sj = {"kind": "clock", "bits": [False] * max(len(order) - 1, 0) + ([stopped] if order else [])}
        req = {"max_repeats": s["max_repeats"], "stop": sj}
        if case["mode"] == "serial":
            req["mode"] = "serial"
        else:
            req["mode"] = "parallel"
            req["pre"] = o["pre"]
            picked = list(order)
            if aborted:
                if len(o["raised"] or []) != 1:
                    return "aborted search without exactly one raising future: %r" % (o["raised"],)
                picked.append(o["raised"][0])
            ch = derive_choices(picked, o["pre"], s["max_repeats"], first_sub)
            if ch is None:
                return "observed completion order is not admissible under the pre_dispatch window"
            req["choices"] = ch
            if late:
                req["cleanup"] = "assess"
        searches.append(req)
        first_sub += o["submitted_new"]
        seen = len(o["params"])
    return settings, trials, xtrials, done, searches


def ranker(values):
    """Dense ranks of the finite scores that occur (order isomorphism, C08.best_map_mono); +inf ->
    None, NaN / -inf keep their names."""
    fin = sorted({x for x in values if isinstance(x, (int, float)) and not isinstance(x, bool)})

    def rank(x):
        if x is None or x == "inf":
            return None
        if isinstance(x, str):
            return x
        return fin.index(x)

    return rank


def compare_states(case, obs, resp, softstats, extended):
    allsc = [x for o in obs for x in o["scores"]] + [o["best_score"] for o in obs]
    allm = [x for r in resp["searches"] for x in r["state"]["scores"]] + \
           [r["state"]["best_score"] for r in resp["searches"]]
    rank, mrank = ranker(allsc), ranker(allm)
    for si, (o, r) in enumerate(zip(obs, resp["searches"])):
        st = dict(r["state"])
        st["scores"] = [mrank(x) for x in st["scores"]]
        st["best_score"] = mrank(st["best_score"])
        st["reports"] = [[t, mrank(x)] for t, x in st["reports"]]
        if st["best"] is not None:
            st["best"] = dict(st["best"])
            st["best"]["trial"] = dict(st["best"]["trial"])
            st["best"]["trial"]["score"] = mrank(st["best"]["trial"]["score"])
        mine = {"methods": o["methods"], "params": o["params"], "scores": [rank(x) for x in o["scores"]],
                "flops": o["flops"], "write": o["write"], "size": o["size"],
                "submitted": sum(x["submitted_new"] for x in obs[:si + 1])}
        if extended:
            mine["get_trials"] = o["get_trials"]
            if len(st["times"]) != o["lens"][6]:
                return f"search {si}: len(times): model {len(st['times'])} vs implementation {o['lens'][6]}"
            if o.get("times_ok") is not None:
                # which float each row of `times` carries (model: the row's own trial's, as id) is
                # bookkeeping the property does not talk about: counted
                mt = [t if ok else -1 for t, ok in zip(o["params"], o["times_ok"])]
                key = "times:" + ("agree" if st["times"] == mt else "differ")
                softstats[key] = softstats.get(key, 0) + 1
        for k, v in mine.items():
            if st[k] != v:
                return f"search {si}: field {k}: model {st[k]} vs implementation {v}"
        # internal bookkeeping the property does not talk about: agreement is counted, not required
        soft = {"best_score": rank(o["best_score"]), "trials_since_best": o["trials_since_best"],
                "reports": [[t, rank(x)] for t, x in o["reports"]]}
        for k, v in soft.items():
            key = k + (":agree" if st[k] == v else ":differ")
            softstats[key] = softstats.get(key, 0) + 1
        b = o["best"]
        mb = st["best"]
        has_winner = b is not None and b["has_tree"]
        any_below = any(x < float("inf") for x in usable(o["scores"]))
        if any_below and has_winner != (mb is not None):
            return f"search {si}: existence of a winner differs"
        if any_below and has_winner:
            # same best score; which minimal trial wins is free (the oracle checked it is one of them
            # and carries its own figures)
            if rank(b["score"]) != mb["trial"]["score"]:
                return f"search {si}: best score: model {mb['trial']['score']} vs implementation {rank(b['score'])}"
            key = "winner:" + ("same" if b["tid"] == mb["params"] else "other-minimal")
            softstats[key] = softstats.get(key, 0) + 1
        aborted = o["err"] not in (None, "KeyError:tree")
        if any_below and not aborted and (o["err"] == "KeyError:tree") != (st["tree"] is None):
            return f"search {si}: tree presence differs"
        if extended:
            if bool(r["raised"]) != aborted:
                return f"search {si}: left by an exception: model {r['raised']} vs implementation {o['err']}"
            if o["cancel_calls"] is not None:
                if aborted:
                    # what was in flight and never recorded (left in _futures, or cancelled by a
                    # tree that cleans up in a finally: block): the property does not say which
                    m_in = sorted(set(r["cancelled"]) | set(r["futures_left"]))
                    i_in = sorted(set(o["cancel_calls"]) | set(o["futures_left"]))
                    if m_in != i_in:
                        return f"search {si}: in-flight futures after the exception: model {m_in} vs implementation {i_in}"
                    if r.get("raised_id") is not None and [r["raised_id"]] != o["raised"]:
                        return f"search {si}: raising future: model {r['raised_id']} vs implementation {o['raised']}"
                else:
                    # a future popped by the clean-up is cancelled, or (a tree that collects finished
                    # ones) its result is taken
                    popped = sorted(set(o["cancel_calls"]) | set(o["late"]) | set(o["raised"]))
                    if popped != sorted(r["cancelled"]):
                        return f"search {si}: futures popped at clean-up: model {r['cancelled']} vs implementation {popped}"
                    fin = sorted(set(o["discarded"]) | set(o["late"]) | set(o["raised"]))
                    if fin != sorted(r["discarded"]):
                        return f"search {si}: finished futures met by the clean-up: model {r['discarded']} vs implementation {fin}"
        elif o["cancel_calls"] is not None and sorted(o["cancel_calls"]) != sorted(r["cancelled"]):
            return f"search {si}: cancelled futures: model {r['cancelled']} vs implementation {o['cancel_calls']}"
    return None


def model_scripted(drv, case, obs, softstats):
    """Compare with the extended model (always) and with the earlier model (cases it covers)."""
    req = model_requests(case, obs)
    if isinstance(req, str):
        return req
    settings, trials, xtrials, done, searches = req
    resp = drv.call("c08.xsearch", mts=case["mts"], settings=settings, trials=xtrials, done=done,
                    searches=searches)
    if "error" in resp:
        return "driver error (c08.xsearch): " + resp["error"]
    diff = compare_states(case, obs, resp, softstats, True)
    if diff:
        return "c08.xsearch: " + diff
    # intermediate states: whenever the sampler looked at the real record (n trials recorded and
    # assessed), its best score must be that of the model run over the first n entries of the log
    order = obs[-1]["params"]
    if all(isinstance(xtrials[k], dict) for k in order if k < len(xtrials)) and all(k < len(xtrials) for k in order):
        resp = drv.call("c08.xprefixes", mts=case["mts"], settings=settings, trials=xtrials, order=order)
        if "error" in resp:
            return "driver error (c08.xprefixes): " + resp["error"]
        pre = resp["prefixes"]
        # both sides: dense ranks over the scores recorded in the whole history
        rank = ranker(list(obs[-1]["scores"]))
        mrank = ranker([xtrials[k]["score"] for k in order])
        nsn = 0
        for si, o in enumerate(obs):
            for sn in o["snaps"]:
                if "error" in sn or sn["n"] >= len(pre):
                    continue
                below = unf(sn["min"]) < float("inf")
                if below and rank(sn["best"]) != mrank(pre[sn["n"]]["best"]):
                    return (f"c08.xprefixes: search {si}: after {sn['n']} recorded trials best score: model "
                            f"{pre[sn['n']]['best']} vs implementation {sn['best']}")
                nsn += 1
        softstats["mid_search_states_compared"] = softstats.get("mid_search_states_compared", 0) + nsn
    if not has_new_features(case, obs):
        old = [{k: v for k, v in s.items() if k != "cleanup"} for s in searches]
        resp = drv.call("c08.search", mts=case["mts"], settings=settings, trials=trials, searches=old)
        if "error" in resp:
            return "driver error (c08.search): " + resp["error"]
        diff = compare_states(case, obs, resp, {}, False)
        if diff:
            return "c08.search: " + diff
        softstats["also_earlier_model"] = softstats.get("also_earlier_model", 0) + 1
    return None


def determinize(case, obs):
    """A violation met on a real pool depends on that run's scheduling.  Try to reproduce it with the
    forced executor -- the observed completion order, workers that were finished at clean-up scripted
    `fast`; then a few random schedules of the same script -- so that the replay is deterministic.
    Returns (case, bad) or None."""
    if case.get("mode") not in ("threads", "procs") or not obs:
        return None
    base = json.loads(json.dumps(case))
    base["mode"] = "forced"
    base["pre"] = obs[0]["pre"]
    for _, p in base["script"]:
        p["delay"] = 0.0
    tries = []
    choices, first_sub, seen, ok = [], 0, 0, True
    for s, o in zip(case["searches"], obs):
        late = o.get("late") or []
        rec = o["params"][seen:]
        picked = rec[:len(rec) - len(late)] if late else list(rec)
        if o["err"] not in (None, "KeyError:tree") and o.get("raised"):
            picked.append(o["raised"][0])
        ch = derive_choices(picked, o["pre"], s["max_repeats"], first_sub)
        if ch is None:
            ok = False
            break
        choices += ch
        first_sub += o["submitted_new"]
        seen = len(o["params"])
    fin = {t for o in obs for t in (o.get("discarded") or []) + (o.get("late") or [])}
    if ok:
        tries += [(choices, fin), (choices, set())] if fin else [(choices, set())]
    r = random.Random(len(json.dumps(case)))
    total = sum(x["max_repeats"] for x in case["searches"])
    for _ in range(40):
        tries.append(([r.randrange(6) for _ in range(total)],
                      {p["tid"] for _, p in base["script"] if r.random() < 0.5}))
    for ch, fast in tries:
        c2 = json.loads(json.dumps(base))
        c2["choices"] = list(ch)
        for _, p in c2["script"]:
            if p["tid"] in fast:
                p["fast"] = True
        obs2, bad2 = judge(c2)
        if bad2 is not None:
            return c2, bad2
    return None


def sig_scripted(case, kind):
    return {"site": "HyperOptimizer._search", "part": "scripted", "mode": case["mode"], "kind": kind}


def report(ctx, case, bad, what):
    ctx.violation(sig_of(case, bad), {"case": case, "failed": [bad[0], str(bad[1])[:400]]}, what)


def check_scripted(ctx, drv, case):
    obs, bad0 = judge(case)
    if obs is None:
        ctx.case(case, nontrivial=True)
        report(ctx, case, bad0, f"scripted hyper-optimizer search ({case['mode']}): {bad0[0]} {bad0[1]}")
        return False
    total = sum(o["n_new"] for o in obs)
    ctx.count("A:mode:" + case["mode"])
    ctx.count("A:searches:%d" % len(case["searches"]))
    for s, o in zip(case["searches"], obs):
        ctx.count("A:stop:" + s["stop"])
        ctx.count("A:stopped_early" if o["n_new"] < s["max_repeats"] else "A:ran_full")
        if o["cancel_calls"]:
            ctx.count("A:cancelled_futures", len(o["cancel_calls"]))
        if o["discarded"]:
            ctx.count("A:finished_futures_dropped_at_cleanup", len(o["discarded"]))
        if o["err"] == "KeyError:tree":
            ctx.count("A:no_usable_trial_search")
        elif o["err"]:
            ctx.count("A:search_left_by_exception")
            if o["futures_left"]:
                ctx.count("A:futures_left_after_exception", len(o["futures_left"]))
    ctx.count("A:on_error:" + case["on_error"])
    ctx.count("A:compression:%s" % case.get("compression", 0.75))
    ctx.count("A:trials_reported", total)
    for t in obs[-1]["params"]:
        if t < len(case["script"]):
            ctx.count("A:trialkind:" + case["script"][t][1]["kind"])
    last = obs[-1]
    fin = [x for x in last["scores"] if not isinstance(x, str)]
    tie = len(fin) != len(set(fin))
    if tie:
        ctx.count("A:tied_scores")
    if "nan" in last["scores"]:
        ctx.count("A:searches_with_nan_scores")
        lb = last["best"]
        if lb is not None and lb["tid"] in last["params"] and \
                last["scores"].index("nan") < last["params"].index(lb["tid"]):
            ctx.count("A:winner_found_after_a_nan_trial")
    if "-inf" in last["scores"]:
        ctx.count("A:searches_with_minus_inf_scores")
    if case["mode"] != "serial" and last["params"] != sorted(last["params"]):
        ctx.count("A:out_of_order_completion")
    nontrivial = total > 1 and (tie or len(fin) < len(last["scores"]) or case["mode"] != "serial"
                                or any(o["n_new"] < s["max_repeats"] for s, o in zip(case["searches"], obs)))
    ctx.case(case, nontrivial=nontrivial)
    bad = bad0
    if bad is not None:
        det = determinize(case, obs)
        if det is not None:
            ctx.count("A:pool_violation_reproduced_with_forced_executor")
            case, bad = det
        report(ctx, case, bad, f"scripted hyper-optimizer search ({case['mode']}): {bad[0]}")
        return False
    if drv is not None:
        soft = {}
        try:
            diff = model_scripted(drv, case, obs, soft)
        except Exception as e:  # the comparison itself must not take the check down
            diff = f"comparison failed: {type(e).__name__}: {e}"
        for k, v in soft.items():
            ctx.count("A:soft:" + k, v)
        ctx.traces += 1
        if diff:
            ctx.corr_broken(diff, case)
    return True


# ------------------------------------------------------------------------------------------
#  B. worker stack on a mock tree
# ------------------------------------------------------------------------------------------

WRAPPERS = ("anneal", "slice", "slice_reconf", "reconf")
OPT_KW = {"anneal": "simulated_annealing_opts", "slice": "slicing_opts",
          "slice_reconf": "slicing_reconf_opts", "reconf": "reconf_opts"}
OBJECTIVES = ("flops", "size", "write", "combo", "limit", "combo-256", "custom-fill", "custom-plain",
              "custom-raise", "custom-inf", "custom-nan", "custom-ninf")

_MOCK = {}


class MockTree:
    def __init__(self, tid, stats, mutate):
        self.id, self._stats, self._mutate = tid, stats, mutate
        self.already_optimized = set()
        self.calls = []

    def contract_stats(self, force=False):
        f, w, s = self._stats[self.id]
        return {"flops": f, "write": w, "size": s}

    def _mut(self, w):
        self.calls.append(w)
        nxt = self._mutate.get((w, self.id))
        if nxt is None:
            raise RuntimeError("scripted post-processing failure")
        self.id = nxt
        return self

    def simulated_anneal_(self, **kw):
        return self._mut("anneal")

    def slice_(self, **kw):
        return self._mut("slice")

    def slice_and_reconfigure_(self, **kw):
        return self._mut("slice_reconf")

    def slice_and_reconfigure_forest_(self, **kw):
        return self._mut("slice_reconf")

    def subtree_reconfigure_(self, **kw):
        return self._mut("reconf")

    def subtree_reconfigure_forest_(self, **kw):
        return self._mut("reconf")

    def set_default_objective(self, obj):
        pass

    def combo_cost(self, factor=64, combine=sum, log=None):
        f, w, s = self._stats[self.id]
        return combine((f, factor * w))


def mock_path_fn(inputs, output, size_dict, raw=0, **_):
    if raw == "bad":
        raise BadTrial
    if raw == "error":
        raise ValueError("scripted path failure")
    return MockTree(raw, _MOCK["stats"], _MOCK["mutate"])


def custom_fill(trial):
    ensure_basic_quantities_are_computed(trial)
    return 7.0


def custom_plain(trial):
    return 7.0


def custom_raise(trial):
    raise ZeroDivisionError("scripted objective failure")


def custom_inf(trial):
    ensure_basic_quantities_are_computed(trial)
    return float("inf")


def custom_nan(trial):
    return float("nan")


def custom_ninf(trial):
    return float("-inf")


CUSTOM = {"custom-fill": custom_fill, "custom-plain": custom_plain, "custom-raise": custom_raise,
          "custom-inf": custom_inf, "custom-nan": custom_nan, "custom-ninf": custom_ninf}


def gen_worker(rng, tier):
    nid = rng.randint(3, 6)
    stats = [[i, rng.randint(1, 50), rng.randint(1, 50), rng.randint(1, 50)] for i in range(nid)]
    mutate = []
    for w in WRAPPERS:
        for i in range(nid):
            mutate.append([w, i, None if rng.random() < 0.08 else rng.randrange(nid)])
    opts = {w: rng.random() < 0.4 for w in WRAPPERS}
    return {"kind": "worker", "stats": stats, "mutate": mutate, "opts": opts,
            "objective": rng.choice(OBJECTIVES), "on_error": rng.choice(["warn", "ignore", "raise"]),
            "forested": rng.random() < 0.3,
            "compression": rng.choice([0.75, 0.75, 1.0]),
            "raw": rng.choice([0, 0, 0, 0, 1, 2, "bad", "error"])}


def run_worker(case):
    _MOCK["stats"] = {r[0]: tuple(r[1:]) for r in case["stats"]}
    _MOCK["mutate"] = {(w, i): o for w, i, o in case["mutate"]}
    kw = {}
    for w in WRAPPERS:
        if case["opts"][w]:
            kw[OPT_KW[w]] = {"forested": True} if (case["forested"] and w in ("slice_reconf", "reconf")) else {}
    minimize = CUSTOM.get(case["objective"], case["objective"])
    with warnings.catch_warnings():
        warnings.simplefilter("ignore")
        opt = ctg.HyperOptimizer(methods=[MOCK_METHOD], optlib="verif", minimize=minimize, max_repeats=1,
                                 parallel=False, on_trial_error=case["on_error"], script=[],
                                 score_compression=case.get("compression", 0.75), **kw)
        trial_fn, args = opt.setup((("a",),), (), {"a": 2})
        try:
            trial = trial_fn(*args, method=MOCK_METHOD, raw=case["raw"])
        except Exception as e:
            return {"raised": True, "exc": type(e).__name__}, None
    tree = trial.get("tree")

    def g(k):
        if k not in trial:
            return "missing"
        return fig(trial[k])

    sc = trial.get("score", "missing") if isinstance(trial, dict) else "missing"
    o = {"raised": False,
         "score": (sc if sc == "missing" else "nan" if sc != sc else (None if sc > 0 else "-inf")
                   if math.isinf(sc) else 0),
         "has_time": isinstance(trial, dict) and isinstance(trial.get("time"), float),
         "flops": g("flops"), "write": g("write"), "size": g("size"),
         "tree": tree.id if tree is not None else None,
         "calls": list(tree.calls) if tree is not None else None,
         "orig": [trial.get("original_flops"), trial.get("original_write"), trial.get("original_size")]}
    return o, tree


def oracle_worker(case, o, tree):
    """The record's figures are those of the tree it carries; failures give the inf record."""
    if o["raised"]:
        if case["on_error"] != "raise":
            return ("worker-raised", o["exc"])
        return None
    if o["score"] == "missing" or (o["score"] == "nan" and case["objective"] != "custom-nan"):
        return ("score-" + o["score"], o)
    if not o["has_time"]:
        return ("time-missing", o)
    if tree is None:
        if [o["score"], o["flops"], o["write"], o["size"]] != [None, None, None, None]:
            return ("failure-record", o)
        return None
    if case["objective"] == "custom-raise":
        # the objective failed on this tree: the trial must have become the inf record
        return ("failed-scoring-not-skipped", o)
    st = tree.contract_stats()
    if [o["flops"], o["write"], o["size"]] != [st["flops"], st["write"], st["size"]]:
        kind = "figures-missing" if "missing" in (o["flops"], o["write"], o["size"]) else "figures-stale"
        return (kind, [o, st])
    want_calls = [w for w in WRAPPERS if case["opts"][w]]
    if o["calls"] != want_calls:
        return ("wrapper-order", [o["calls"], want_calls])
    if want_calls:
        f, w, s = _MOCK["stats"][case["raw"]]
        if o["orig"] != [f, w, s]:
            return ("original-figures", o["orig"])
    return None


def sig_worker(case, kind):
    ws = "+".join(w for w in WRAPPERS if case["opts"][w]) or "none"
    return {"site": "ComputeScore/_maybe_report_result", "part": "worker", "kind": kind,
            "objective": case["objective"], "wrappers": ws}


def check_worker(ctx, drv, case, facts):
    obs, bad0 = judge(case)
    ws = [w for w in WRAPPERS if case["opts"][w]]
    if obs is None:
        ctx.case(case, nontrivial=True)
        report(ctx, case, bad0, f"trial record of ComputeScore (objective={case['objective']}, wrappers="
               f"{'+'.join(ws) or 'none'}): {bad0[0]} {bad0[1]}")
        return False
    o, tree = obs
    ctx.count("B:wrappers:%d" % len(ws))
    ctx.count("B:objective:" + case["objective"])
    ctx.count("B:raw:" + ("tree" if isinstance(case["raw"], int) else case["raw"]))
    ctx.count("B:outcome:" + ("raised" if o["raised"] else "failrec" if tree is None else "record"))
    ctx.case(case, nontrivial=bool(ws) or case["objective"] not in ("flops",))
    bad = bad0
    if bad is not None:
        report(ctx, case, bad, f"trial record of ComputeScore (objective={case['objective']}, wrappers="
               f"{'+'.join(ws) or 'none'}): {bad[0]}")
        return False
    if drv is None:
        return True
    obj = case["objective"]
    if obj.startswith("custom"):
        ensures = obj in ("custom-fill", "custom-inf")   # custom-nan / custom-ninf / custom-plain do not fill
    else:
        ensures = facts["objective_ensures"].get(obj.split("-")[0])
        if ensures is None:
            ctx.corr_broken("no source fact for objective " + obj, case)
            return True
    comp = case.get("compression", 0.75)
    value = ("raise" if obj == "custom-raise" else None if obj == "custom-inf" else "nan" if obj == "custom-nan"
             else ("-inf" if compressed(float("-inf"), comp) < 0 else None) if obj == "custom-ninf" else 0)
    ops = ["c08.xworker"] + (["c08.worker"] if value in ("raise", None, 0) else [])
    for op in ops:
        resp = drv.call(op, stats=case["stats"], mutate=case["mutate"], opts=case["opts"],
                        ensures=bool(ensures), post_ensure=bool(facts["post_ensure"]), value=value,
                        on_error=case["on_error"], raw=case["raw"])
        ctx.traces += 1
        if "error" in resp:
            ctx.corr_broken(op + " driver error: " + resp["error"], case)
            return True
        if resp["raised"] != o["raised"]:
            ctx.corr_broken(op + ": raised differs", case)
        elif not o["raised"]:
            mine = {k: o[k] for k in ("score", "flops", "write", "size", "tree")}
            theirs = {k: resp[k] for k in ("score", "flops", "write", "size", "tree")}
            if mine != theirs:
                ctx.corr_broken(f"{op}: model {theirs} vs implementation {mine}", case)
            elif tree is not None and resp["stack"] != o["calls"]:
                ctx.corr_broken(f"{op}: wrapper order model {resp['stack']} vs {o['calls']}", case)
    return True


# ------------------------------------------------------------------------------------------
#  C. real methods x objectives x option sets
# ------------------------------------------------------------------------------------------

# 'labels-agglom' is left out: build_agglom with the labels partitioner does not terminate on e.g.
# 'e,ba,cd,ec,db->ba' (a C05 matter, reported to the lead); a hanging trial would stall the check.
REAL_METHODS = ["greedy", "labels", "random-greedy"]
KAHYPAR_METHODS = ["kahypar", "kahypar-balanced", "kahypar-agglom"]  # native, occasionally seconds per call
REAL_OBJECTIVES = ["flops", "size", "write", "combo", "limit", "combo-256", "picky", "nanny"]


def nanny_objective(trial):
    """A user objective that scores by flops and answers NaN ('not applicable') for about half of the
    trees (those whose largest intermediate is big): such trials can never win and must not disturb
    the selection among the others."""
    st = trial["tree"].contract_stats()
    if (int(st["size"]) + int(st["write"])) % 3 == 0 or int(st["flops"]) % 2:
        return float("nan")
    return math.log2(st["flops"] + 1.0)


USER_OBJECTIVES = {}


def picky_objective(trial):
    """A user objective that scores by flops but rejects (raises on) about half of the trees:
    those trials must be skipped without affecting the others."""
    st = trial["tree"].contract_stats()
    if (int(st["flops"]) + int(st["write"])) % 2:
        if int(st["size"]) % 2:
            raise ValueError("picky objective rejects this tree")
        return 10.0 ** 400  # OverflowError
    return math.log2(st["flops"] + 1.0)
USER_OBJECTIVES.update({"picky": picky_objective, "nanny": nanny_objective})
OPTION_SETS = ["none", "slice", "reconf", "slice_reconf", "anneal", "anneal+slice", "slice+reconf",
               "reconf-forest"]


def real_kwargs(case):
    o = case["options"]
    kw = {}
    ts = case["target_size"]
    if "anneal" in o:
        kw["simulated_annealing_opts"] = {"tsteps": 2, "numiter": 3, "seed": case["seed"]}
    if o in ("slice", "anneal+slice", "slice+reconf"):
        kw["slicing_opts"] = ({"target_size": ts} if case["seed"] % 2 else {"target_slices": 2 + case["seed"] % 3})
    if o == "slice_reconf":
        kw["slicing_reconf_opts"] = {"target_size": ts, "reconf_opts": {"subtree_size": 3, "maxiter": 4}}
    if o in ("reconf", "slice+reconf"):
        kw["reconf_opts"] = {"subtree_size": 3 + case["seed"] % 2, "maxiter": 5}
    if o == "reconf-forest":
        kw["reconf_opts"] = {"forested": True, "num_trees": 2, "num_restarts": 2, "subtree_size": 3,
                             "subtree_maxiter": 4, "parallel": False}
    return kw


def gen_real(rng, tier):
    for _ in range(200):
        net = gen.rand_net(rng, nmin=5, nmax=9 if tier == "quick" else 11, max_inds=12, dims=(2, 3, 4),
                           allow_scalar=False, kinds=("bond", "bond", "bond", "hyper", "out1", "outk",
                                                      "batch"))
        # no index confined to one tensor and absent from the output: SliceFinder may pick such an
        # index and ContractionCosts.remove raises KeyError (a C07 matter, reported to the lead)
        if gen.connected(net):
            break
    k = rng.randint(1, 3)
    methods = rng.sample(REAL_METHODS, k)
    if tier != "quick" and rng.random() < 0.1:
        methods[0] = rng.choice(KAHYPAR_METHODS)
    case = {"kind": "real", "net": net.json(), "methods": methods,
            "objective": rng.choice(REAL_OBJECTIVES), "options": rng.choice(OPTION_SETS),
            "max_repeats": rng.randint(2, 5), "seed": rng.randrange(1 << 16),
            "target_size": 2 ** rng.randint(2, 5),
            "pool": rng.choice(["serial", "serial", "serial", "threads", "procs"]),
            "searches": rng.choice([1, 1, 2])}
    if case["objective"] in USER_OBJECTIVES:
        # a plain callable has no score_slice_index / DP objective: post-processing needs an Objective
        case["options"] = "none"
        case["max_repeats"] = rng.randint(3, 6)
    return case


def run_real(case):
    net = gen.Net.from_json(case["net"])
    par = False if case["pool"] == "serial" else get_pool(case["pool"], 2)
    out = {"searches": []}
    with warnings.catch_warnings():
        warnings.simplefilter("ignore")
        minimize = USER_OBJECTIVES.get(case["objective"], case["objective"])
        opt = ctg.HyperOptimizer(methods=case["methods"], optlib="random", minimize=minimize,
                                 max_repeats=case["max_repeats"], parallel=par, seed=case["seed"],
                                 **real_kwargs(case))
        for _ in range(case["searches"]):
            n0 = len(opt.scores)
            try:
                tree = opt.search(net.sym_inputs(), net.sym_output(), net.sym_sizes())
            except Exception as e:
                out["searches"].append({"err": type(e).__name__ + ":" + str(e)[:60],
                                        "n_new": len(opt.scores) - n0,
                                        "all_inf": not any(x < float("inf") for x in opt.scores)})
                break
            b = opt.best
            st = tree.contract_stats()
            us = gen.unsym(net)
            sliced = [us[ix] for ix in tree.sliced_inds]
            spec = refimpl.spec_costs(net, gen.bt_of_real(tree), sliced, sliced)
            finite = [s for s in opt.scores if s < float("inf")]   # comparable and below +inf
            gt = opt.get_trials()
            out["searches"].append({
                "get_trials_ok": gt == list(zip(opt.method_choices, opt.costs_size, opt.costs_flops,
                                                opt.costs_write, opt.param_choices)) and len(gt) == len(opt.scores),
                "nan_trials": sum(1 for s in opt.scores if s != s),
                "lens7": len(opt.times),
                "err": None, "n_new": len(opt.scores) - n0,
                "lens": [len(opt.method_choices), len(opt.param_choices), len(opt.scores), len(opt.costs_flops),
                         len(opt.costs_write), len(opt.costs_size)],
                "best": [fig(b.get("flops", "missing")) if b.get("flops", None) is not None else "missing",
                         fig(b["write"]) if "write" in b else "missing",
                         fig(b["size"]) if "size" in b else "missing"],
                "stats": [int(st["flops"]), int(st["write"]), int(st["size"])],
                "spec": [spec["flops"], spec["write"], spec["size"]],
                "score_is_min": bool(finite) and b["score"] == min(finite),
                "rows": [[fig(opt.costs_flops[i]), fig(opt.costs_write[i]), fig(opt.costs_size[i]),
                          opt.method_choices[i], dict(opt.param_choices[i])]
                         for i, sc in enumerate(opt.scores) if sc == b["score"]],
                "best_params": {k: v for k, v in b["params"].items()},
                "complete": bool(tree.is_complete()), "is_best_tree": tree is b["tree"],
                "net_ok": (list(map(tuple, tree.inputs)) == list(map(tuple, net.sym_inputs()))
                           and tuple(tree.output) == tuple(net.sym_output())),
                "nsliced": len(sliced), "failed_trials": len(opt.scores) - len(finite)})
    return out


def diagnose_all_fail(case):
    """A search ended without any successful trial: re-run one trial with on_trial_error='raise'."""
    net = gen.Net.from_json(case["net"])
    try:
        with warnings.catch_warnings():
            warnings.simplefilter("ignore")
            opt = ctg.HyperOptimizer(methods=case["methods"], optlib="random",
                                     minimize=USER_OBJECTIVES.get(case["objective"], case["objective"]),
                                     max_repeats=1, parallel=False, seed=case["seed"],
                                     on_trial_error="raise", **real_kwargs(case))
            opt.search(net.sym_inputs(), net.sym_output(), net.sym_sizes())
    except Exception as e:
        return type(e).__name__ + ":" + str(e)[:50]
    return "no-exception-on-rerun"


def oracle_real(case, out):
    for s in out["searches"]:
        if s["err"] is not None:
            if case["objective"] in USER_OBJECTIVES and s["err"].startswith("KeyError:'tree'") and s["all_inf"] \
                    and s["n_new"] == case["max_repeats"]:
                break  # the user objective rejected every tree: all trials ran, none could win
            why = diagnose_all_fail(case) if s["err"].startswith("KeyError:'tree'") else s["err"]
            return ("search-raised", why)
        if len(set(s["lens"] + [s["lens7"]])) != 1:
            return ("lists-length", s["lens"] + [s["lens7"]])
        if not s["get_trials_ok"]:
            return ("get-trials-vs-lists", s["lens"])
        if s["n_new"] != case["max_repeats"]:
            return ("budget", [s["n_new"], case["max_repeats"]])
        if not (s["complete"] and s["is_best_tree"] and s["net_ok"]):
            return ("returned-tree", s)
        if not s["score_is_min"]:
            return ("best-not-min", s)
        if s["best"] != s["stats"]:
            return ("best-figures-vs-tree", [s["best"], s["stats"]])
        # the winner's row: some trial with the best score (ties: any) carrying best's params/figures
        bp = dict(s["best_params"])
        bm = bp.pop("method", None)
        mine = [r for r in s["rows"] if r[3] == bm and r[4] == bp]
        if not mine:
            return ("best-params-vs-row", [s["best_params"], s["rows"][:3]])
        if all(r[:3] != s["best"] for r in mine):
            return ("best-figures-vs-row", [mine[:3], s["best"]])
        if s["stats"] != s["spec"]:
            return ("tree-figures-vs-rebuild", [s["stats"], s["spec"]])
    return None


def sig_real(case, bad):
    sig = {"site": "HyperOptimizer.search", "part": "real", "kind": bad[0], "objective": case["objective"],
           "options": case["options"]}
    if bad[0] == "search-raised":
        sig["error"] = str(bad[1]).split(":")[0] + ":" + str(bad[1]).split(":")[1][:24] if ":" in str(bad[1]) \
            else str(bad[1])
    return sig


def check_real(ctx, case):
    out, bad0 = judge(case)
    if out is None:
        ctx.case(case, nontrivial=True)
        report(ctx, case, bad0, f"HyperOptimizer(minimize={case['objective']!r}, options={case['options']}): "
               f"{bad0[0]} {bad0[1]}")
        return False
    ctx.count("C:objective:" + case["objective"])
    ctx.count("C:options:" + case["options"])
    ctx.count("C:pool:" + case["pool"])
    for m in case["methods"]:
        ctx.count("C:method:" + m)
    for s in out["searches"]:
        if s.get("nsliced"):
            ctx.count("C:sliced_result")
        if s.get("failed_trials"):
            ctx.count("C:searches_with_failed_trials")
        if s.get("nan_trials"):
            ctx.count("C:searches_with_nan_trials")
        if s.get("err") and s.get("all_inf"):
            ctx.count("C:every_tree_rejected_by_objective")
    ctx.case(case, nontrivial=case["options"] != "none" or case["pool"] != "serial")
    bad = bad0
    if bad is not None:
        report(ctx, case, bad, f"HyperOptimizer(minimize={case['objective']!r}, options={case['options']}): "
               f"{bad[0]} {str(bad[1])[:120]}")
        return False
    return True


# ------------------------------------------------------------------------------------------
#  F. source-derived facts
# ------------------------------------------------------------------------------------------

def _calls(node, name):
    for n in ast.walk(node):
        if isinstance(n, ast.Call):
            f = n.func
            if (isinstance(f, ast.Name) and f.id == name) or (isinstance(f, ast.Attribute) and f.attr == name):
                yield n


def extract_facts():
    sc = ast.parse(open(os.path.join(common.REPO, "cotengra", "scoring.py")).read())
    hy = ast.parse(open(os.path.join(common.REPO, "cotengra", "hyperoptimizers", "hyper.py")).read())
    classes = {n.name: n for n in sc.body if isinstance(n, ast.ClassDef)}
    classes_h = {n.name: n for n in hy.body if isinstance(n, ast.ClassDef)}

    def method(cls, name):
        for n in cls.body:
            if isinstance(n, ast.FunctionDef) and n.name == name:
                return n
        return None

    ens = {}
    for key, cname in (("flops", "FlopsObjective"), ("write", "WriteObjective"), ("size", "SizeObjective"),
                       ("combo", "ComboObjective"), ("limit", "LimitObjective")):
        call = method(classes[cname], "__call__")
        ens[key] = any(True for _ in _calls(call, "ensure_basic_quantities_are_computed"))
    cs_call = method(classes_h["ComputeScore"], "__call__")
    post = any(True for _ in _calls(cs_call, "ensure_basic_quantities_are_computed"))
    # nesting order in HyperOptimizer.setup: order of the wrapper constructor calls
    setup = method(classes_h["HyperOptimizer"], "setup")
    wrap_cls = {"SimulatedAnnealingTrialFn": "anneal", "SlicedTrialFn": "slice",
                "SlicedReconfTrialFn": "slice_reconf", "ReconfTrialFn": "reconf"}
    order = []
    for n in ast.walk(setup):
        if isinstance(n, ast.Call) and isinstance(n.func, ast.Name) and n.func.id in wrap_cls:
            order.append((n.lineno, wrap_cls[n.func.id]))
    order = [w for _, w in sorted(order)]
    # every wrapper: its last statement before `return trial` is trial.update(tree.contract_stats())
    # and no tree-mutating call follows it
    upd = {}
    for cname, w in wrap_cls.items():
        call = method(classes_h[cname], "__call__")
        body = [s for s in call.body if not isinstance(s, ast.Return)]
        last_update = -1
        last_mut = -1
        for i, s in enumerate(body):
            src = ast.dump(s)
            if any(True for _ in _calls(s, "update")) and "contract_stats" in src:
                last_update = i
            for n in ast.walk(s):
                if isinstance(n, ast.Call) and isinstance(n.func, ast.Attribute) and n.func.attr.endswith("_") \
                        and not n.func.attr.startswith("_"):
                    last_mut = i
        upd[w] = last_update >= 0 and last_update > last_mut
    return {"objective_ensures": ens, "post_ensure": post, "wrapper_order": order, "wrapper_updates": upd}


def gen_facts():
    f = extract_facts()

    def b(x):
        return "true" if x else "false"

    ens = ", ".join(f'("{k}", {b(v)})' for k, v in f["objective_ensures"].items())
    upd = ", ".join(f'("{k}", {b(v)})' for k, v in f["wrapper_updates"].items())
    order = ", ".join(f'"{w}"' for w in f["wrapper_order"])
    src = f"""-- GENERATED by harness/c08.py (gen_facts) from the AST of cotengra/scoring.py and
-- cotengra/hyperoptimizers/hyper.py on every run of ./check C08. Do not edit.
namespace Cotengra.Generated.C08

/-- exact objective -> does its `__call__` call `ensure_basic_quantities_are_computed`? -/
def objectiveEnsures : List (String × Bool) := [{ens}]

/-- does `ComputeScore.__call__` call `ensure_basic_quantities_are_computed` itself? -/
def computeScorePostEnsure : Bool := {b(f["post_ensure"])}

/-- order in which `HyperOptimizer.setup` nests the post-processing wrappers (innermost first) -/
def wrapperOrder : List String := [{order}]

/-- wrapper -> its `__call__` ends with `trial.update(tree.contract_stats())` after the last mutation -/
def wrapperUpdates : List (String × Bool) := [{upd}]

end Cotengra.Generated.C08
"""
    return {"CotengraVerif/Generated/FactsC08.lean": src}


# ------------------------------------------------------------------------------------------
#  protocol
# ------------------------------------------------------------------------------------------

def all_forced_orders(pre, r):
    """Every admissible sequence of choices for r trials under window `pre` (as position lists)."""
    pre = max(pre, 1)
    out = []

    def go(j, npend, acc):
        if j == r:
            out.append(list(acc))
            return
        avail = min(r, pre + j) - j
        for c in range(avail):
            acc.append(c)
            go(j + 1, npend, acc)
            acc.pop()

    go(0, 0, [])
    return out


def judge(case):
    """Run the real code on `case` and ask the implementation-side oracle. Never raises: whatever
    the real code returns or raises unexpectedly while it is run / observed becomes a verdict.
    Returns (observation | None, bad | None)."""
    import traceback
    kind = case.get("kind")
    try:
        if kind == "scripted":
            obs = run_scripted(case)
            return obs, oracle_scripted(case, obs)
        if kind == "worker":
            o, tree = run_worker(case)
            return (o, tree), oracle_worker(case, o, tree)
        if kind == "real":
            out = run_real(case)
            return out, oracle_real(case, out)
    except Exception as e:
        tb = traceback.extract_tb(e.__traceback__)
        where = "%s:%d" % (os.path.basename(tb[-1].filename), tb[-1].lineno) if tb else "?"
        return None, ("unexpected-exception", f"{type(e).__name__}: {str(e)[:80]} at {where}")
    raise ValueError("unknown replay kind")


def sig_of(case, bad):
    kind = case.get("kind")
    if kind == "scripted":
        sig = sig_scripted(case, bad[0])
    elif kind == "worker":
        sig = sig_worker(case, bad[0])
    else:
        sig = sig_real(case, bad)
    if bad[0] == "unexpected-exception":
        sig["error"] = str(bad[1]).split(":")[0]
    return sig


def replay_case(ctx, case):
    """Implementation-side oracle only. Returns (holds, signature, what)."""
    obs, bad = judge(case)
    return bad is None, (sig_of(case, bad) if bad else None), bad


def run(ctx, drv):
    _register()
    try:
        _run(ctx, drv)
    finally:
        shutdown_pools()


def _run(ctx, drv):
    quick = ctx.tier == "quick"
    # corpus first
    for path in sorted(glob.glob(os.path.join(common.VERIF, "corpus", "C08", "*.json"))):
        obj = json.load(open(path))
        case = obj.get("replay", obj).get("case")
        holds, sig, bad = replay_case(ctx, case)
        ctx.count("corpus_replayed")
        ctx.case(case, nontrivial=True, sample=False)
        if not holds:
            ctx.violation(sig, {"case": case, "failed": [bad[0], str(bad[1])[:300]], "corpus": os.path.basename(path)},
                          f"corpus case {os.path.basename(path)} fails again: {bad[0]}")
    # F: dynamic validation of the fact extractor happens through tie B (ensures / order / updates)
    try:
        facts = extract_facts()
        ctx.notes["facts_extracted"] = facts
    except Exception as e:
        ctx.obligation("fact extraction from scoring.py / hyper.py", False, repr(e))
        facts = {"objective_ensures": {}, "post_ensure": False, "wrapper_order": [], "wrapper_updates": {}}
    # B: all option subsets x objectives once, then random
    nb = 0
    rngb = random.Random(ctx.rng.randrange(1 << 30))
    for mask in range(16):
        for obj in OBJECTIVES:
            case = gen_worker(rngb, ctx.tier)
            case["opts"] = {w: bool(mask >> i & 1) for i, w in enumerate(WRAPPERS)}
            case["objective"] = obj
            case["raw"] = 0 if (mask + len(obj)) % 5 else case["raw"]
            check_worker(ctx, drv, case, facts)
            nb += 1
    for _ in range(2500 if quick else 30000):
        if ctx.time_left() < 30:
            break
        check_worker(ctx, drv, gen_worker(ctx.rng, ctx.tier), facts)
    # A: scripted searches
    na = 5000 if quick else 60000
    for i in range(na):
        if ctx.time_left() < 25:
            break
        mode = None
        if i % 40 != 0:
            mode = ctx.rng.choice(["serial", "serial", "forced", "forced", "forced", "forced", "threads"])
        if i % 7 == 3:
            check_scripted(ctx, drv, gen_inflight(ctx.rng, ctx.tier))
            ctx.count("A:gen:inflight")
            continue
        check_scripted(ctx, drv, gen_scripted(ctx.rng, ctx.tier, mode))
    # A': exhaustive forced completion orders for small searches
    combos = [(1, 3), (2, 3), (2, 4), (3, 4)] if quick else [(1, 4), (2, 4), (3, 4), (2, 5), (3, 5), (4, 5), (2, 6)]
    for pre, r in combos:
        base = gen_scripted(ctx.rng, ctx.tier, "forced")
        base["searches"] = [{"max_repeats": r, "stop": "never"}]
        base["script"] = make_script(ctx.rng, r, "forced")
        base["on_error"] = "warn"
        base["pre"] = pre
        for ch in all_forced_orders(pre, r):
            if ctx.time_left() < 20:
                break
            c = dict(base)
            c["choices"] = ch
            check_scripted(ctx, drv, c)
            ctx.count("A:exhaustive_orders")
    ctx.notes["exhaustive_forced_orders"] = [f"pre={p},repeats={r}" for p, r in combos]
    # C: real methods x objectives x options
    nc = 1000 if quick else 10000
    for i in range(nc):
        if ctx.time_left() < 10:
            break
        case = gen_real(ctx.rng, ctx.tier)
        if quick and case["pool"] == "procs" and i % 10:
            case["pool"] = "serial"
        check_real(ctx, case)
    # the Lean counter-example witness of 7f, replayed on the implementation
    wit = {"kind": "worker", "stats": [[5, 50, 15, 5], [6, 60, 18, 6]], "mutate": [[w, 5, 6] for w in WRAPPERS] +
           [[w, 6, 6] for w in WRAPPERS], "opts": {w: False for w in WRAPPERS}, "objective": "limit",
           "on_error": "warn", "forested": False, "raw": 5}
    check_worker(ctx, drv, wit, facts)


def search(ctx):
    """Failing-input search on the implementation alone (all three oracles, larger budget)."""
    _register()
    found = False
    try:
        rng = ctx.rng
        for i in range(4000):
            if ctx.time_left() < 5 or found:
                break
            which = i % 3
            if which == 0:
                case = gen_worker(rng, "thorough")
            elif which == 1:
                case = gen_scripted(rng, "thorough", rng.choice(["serial", "forced", "forced", "threads"]))
            else:
                case = gen_real(rng, "quick")
                case["pool"] = "serial"
            obs, bad = judge(case)
            holds = bad is None
            if not holds:
                det = determinize(case, obs) if case.get("kind") == "scripted" else None
                if det is not None:
                    case, bad = det
                sig = dict(sig_of(case, bad))
                sig["found_by"] = "search"
                if ctx.violation(sig, {"case": case, "failed": [bad[0], str(bad[1])[:300]]},
                                 f"failing input found by search: {bad[0]}"):
                    found = True
    finally:
        shutdown_pools()
    return found


def replay(ctx, obj):
    _register()
    try:
        holds, sig, bad = replay_case(ctx, obj["case"])
        if not holds:
            print("#", bad[0], str(bad[1])[:300])
        return holds
    finally:
        shutdown_pools()
