"""C13 -- in-memory caching is invisible.

Histories of high-level calls (array_contract_expression / array_contract / array_contract_path /
einsum / einsum_expression) drawn from a *pool of contractions that differ in exactly one
component of the cache key* (output order, one size, optimize value incl. explicit paths given as
tuple or list, each kwarg, index relabelling, canonicalize on/off, label types str / int /
negative int / tuple), executed with the caches enabled, and -- in a forked child whose
lru caches are cleared before every call -- with every cache disabled.

Oracle (implementation only): every value returned by a cached call equals the exact dense
reference (refimpl.dense_einsum over Python ints; tolerance 1e-9 only for strip_exponent) and the
uncached twin (same exception class if any); cached paths are valid complete paths for the
request and equal the uncached path for deterministic optimizers; a cached expression reused
on new arrays gives the reference value for those arrays.

Tie to the Lean model (Model/Cache.lean, Props/C13.lean):
  (F) gen_facts re-extracts from interface.py's AST which caller variables flow into the key
      tuple, which reach _build_expression / find_path, and whether the tuple is wrapped in
      hash(); Lean re-checks `buildArgs ⊆ keyFields` and `keyIsHashed = false` by `decide`;
  (A) every *observed* sharing (two calls of a history returning the identical object) is fed
      to the verified test `shareOK` (soundness: shareOK_sound);
  (E) the lru-cached parsers are compared with their `__wrapped__` originals.
"""

import ast
import json
import os
import random

import numpy as np

from . import common, gen, refimpl
from . import c14_util as U

PROP = "C13"
LEVEL = "proof"
LEVEL_TEXT = (
    "Lean 4 theorems: for every history of calls (any mix of cached/uncached calls, any eviction) a "
    "dict-backed cache with a faithful key returns exactly what the uncached code returns "
    "(cache_transparent), a value is only ever handed to a request with the same key as the one it was built "
    "for (provenance), and the key tuple is faithful because every argument that reaches the builder enters "
    "it (tuple_key_faithful over tables re-extracted from interface.py on every run: expr_cache_transparent, "
    "path_cache_transparent). The old key hash(tuple) is proved to collide (hash_collision_counterexample, "
    "from hash(-1)=hash(-2)). Tied to /repo by the fact tables, by certificate checking of every observed "
    "object sharing, and by cached-vs-uncached histories with an exact reference.")
LEVEL_NOTE = (
    "Relative to: the builders/parsers being functions of the arguments they are given (no hidden state; "
    "randomised presets are only checked for validity), Python `==` on key tuples being equality of the "
    "contraction specification, expressions not capturing arrays. The AST extractor is trusted.")
TECHNIQUE = ("Lean 4 proof (invariant over histories with eviction) + source-derived fact tables + certificate "
             "checking of observed sharing + differential cached/uncached histories")
LEAN_MODULES = ["CotengraVerif.Props.C13"]
THEOREMS = [
    "Cotengra.C13.cache_transparent",
    "Cotengra.C13.provenance",
    "Cotengra.C13.tuple_key_faithful",
    "Cotengra.C13.expr_key_covers_build",
    "Cotengra.C13.path_key_covers_build",
    "Cotengra.C13.model_key_within_source",
    "Cotengra.C13.model_key_covers_build",
    "Cotengra.C13.key_is_structural",
    "Cotengra.C13.expr_cache_transparent",
    "Cotengra.C13.path_cache_transparent",
    "Cotengra.C13.shareOK_sound",
    "Cotengra.C13.shareOK_sound_with_constants",
    "Cotengra.C13.constants_path_not_cached",
    "Cotengra.C13.size_dict_fully_keyed",
    "Cotengra.C13.lru_transparent",
    "Cotengra.C13.hash_collision",
    "Cotengra.C13.hash_collision_counterexample",
]
TRUSTED = [
    "Lean 4.33 kernel; axioms ⊆ {propext, Classical.choice, Quot.sound}",
    "the AST extractor of this module (gen_facts) and the canonicalisation of requests to strings",
    "CPython dict semantics (lookup compares the full key) and tuple equality",
    "numpy for executing the contractions; refimpl.dense_einsum as the reference",
]
ASSUMPTIONS = [
    "_build_expression / find_path / the lru-cached parsers are functions of their arguments (presets are not "
    "re-registered; RNG-driven optimizers are only required to return a valid path)",
    "labels/sizes of one history do not mix ==-equal values of different types (1, 1.0, True)",
    "integer arrays; results compared exactly, except strip_exponent (relative tolerance 1e-9)",
]
RULE = ("history = 3-8 calls over a pool built from one base contraction by changing exactly one key component "
        "per variant; APIs expression/contract/path/einsum/einsum_expression; some calls uncached; "
        "one evaluation = one call; non-trivial = the call shares at least 4 of the 5 key components with an "
        "earlier cached call of the same history")
BUDGET = {"quick": 600, "thorough": 3000}


# ---------------------------------------------------------------------------------------------
# (F) source-derived facts


def _names(node):
    return [n.id for n in ast.walk(node) if isinstance(n, ast.Name)]


def _key_flow(fn):
    params = [a.arg for a in fn.args.args] + ([fn.args.kwarg.arg] if fn.args.kwarg else [])
    dep = {p: {p} for p in params}
    ret = None
    for st in fn.body:
        if isinstance(st, ast.Assign) and len(st.targets) == 1 and isinstance(st.targets[0], ast.Name):
            srcs = set()
            for n in _names(st.value):
                srcs |= dep.get(n, set())
            dep[st.targets[0].id] = srcs
        elif isinstance(st, ast.Return):
            ret = st.value
    flows = set()
    for n in _names(ret):
        flows |= dep.get(n, set())
    hashed = any(isinstance(c, ast.Call) and isinstance(c.func, ast.Name) and c.func.id == "hash"
                 for c in ast.walk(ret))
    # how does the size dict enter the key: through .items() (labels *and* sizes), or only
    # through .values() / .keys() / iteration (one half of the mapping)?
    exprs = [ret] + [st.value for st in fn.body if isinstance(st, ast.Assign)]
    proj = set()
    for e in exprs:
        attr_parents = {id(a.value): a.attr for a in ast.walk(e) if isinstance(a, ast.Attribute)}
        for n in ast.walk(e):
            if isinstance(n, ast.Name) and n.id == "size_dict":
                proj.add(attr_parents.get(id(n), "bare"))
    full = ("items" in proj) or ({"keys", "values"} <= proj)
    return params, [p for p in params if p in flows], hashed, full


def _call_args(call, params):
    m = {}
    for p, a in zip(params, call.args):
        m[p] = sorted(set(_names(a)))
    for kw in call.keywords:
        m["**" if kw.arg is None else kw.arg] = sorted(set(_names(kw.value)))
    return m


def extract_facts(repo=None):
    repo = repo or common.REPO
    tree = ast.parse(open(os.path.join(repo, "cotengra", "interface.py")).read())
    fns = {n.name: n for n in tree.body if isinstance(n, ast.FunctionDef)}
    hc = fns["hash_contraction"]
    params, flowing, hashed, full = _key_flow(hc)
    kwname = hc.args.kwarg.arg if hc.args.kwarg else None
    out = {"keyIsHashed": hashed, "sizeDictFullyKeyed": full}
    for cache_fn, build_name, tag in (("array_contract_expression", "_build_expression", "expr"),
                                      ("array_contract_path", "find_path", "path")):
        keyvars, buildvars = None, None
        for c in ast.walk(fns[cache_fn]):
            if isinstance(c, ast.Call) and isinstance(c.func, ast.Name):
                if c.func.id == "hash_contraction" and keyvars is None:
                    m = _call_args(c, params)
                    kv = []
                    for p in flowing:
                        kv += m.get("**", []) if p == kwname else m.get(p, [])
                    keyvars = sorted(set(kv))
                if c.func.id == build_name:
                    m = _call_args(c, [a.arg for a in fns[build_name].args.args])
                    bv = sorted(set(v for vs in m.values() for v in vs))
                    buildvars = bv if buildvars is None else sorted(set(buildvars) | set(bv))
        if keyvars is None or buildvars is None:
            raise RuntimeError("cannot find the key / build call in " + cache_fn)
        out[tag + "KeySource"] = keyvars
        out[tag + "BuildArgs"] = buildvars
    # the constants path: the folded function captures the constant *arrays* by reference; does
    # the function that builds it put anything into a module-level cache?
    cf = fns.get("_array_contract_expression_with_constants")
    stores = False
    if cf is not None:
        modnames = {t.id for n in tree.body if isinstance(n, (ast.Assign, ast.AnnAssign))
                    for t in ast.walk(n) if isinstance(t, ast.Name) and isinstance(t.ctx, ast.Store)}
        for n in ast.walk(cf):
            if isinstance(n, ast.Subscript) and isinstance(n.ctx, ast.Store) and \
                    isinstance(n.value, ast.Name) and n.value.id in modnames:
                stores = True
            if isinstance(n, ast.Call) and isinstance(n.func, ast.Attribute) and \
                    n.func.attr in ("setdefault", "__setitem__", "update") and \
                    isinstance(n.func.value, ast.Name) and n.func.value.id in modnames:
                stores = True
    out["constPathStoresInCache"] = stores
    return out


def _lean_list(xs):
    return "[" + ", ".join(json.dumps(x) for x in xs) + "]"


def gen_facts():
    f = extract_facts()
    src = (
        "/-! Generated by harness/c13.py (gen_facts) from the AST of cotengra/interface.py -- do not edit.\n"
        "    Which caller variables flow into the cache key, which reach the builder, and whether the\n"
        "    key tuple is passed through Python's `hash` before it is used as the dict key. -/\n"
        "namespace Cotengra.Generated.C13\n\n"
        f"def exprKeySource : List String := {_lean_list(f['exprKeySource'])}\n"
        f"def exprBuildArgs : List String := {_lean_list(f['exprBuildArgs'])}\n"
        f"def pathKeySource : List String := {_lean_list(f['pathKeySource'])}\n"
        f"def pathBuildArgs : List String := {_lean_list(f['pathBuildArgs'])}\n"
        f"def keyIsHashed : Bool := {'true' if f['keyIsHashed'] else 'false'}\n"
        "/-- does the size dict enter the key with labels *and* sizes (`.items()`)? -/\n"
        f"def sizeDictFullyKeyed : Bool := {'true' if f['sizeDictFullyKeyed'] else 'false'}\n"
        "/-- does `_array_contract_expression_with_constants` store what it builds in a module-level dict? -/\n"
        f"def constPathStoresInCache : Bool := {'true' if f['constPathStoresInCache'] else 'false'}\n\n"
        "end Cotengra.Generated.C13\n")
    return {"CotengraVerif/Generated/FactsC13.lean": src}


# ---------------------------------------------------------------------------------------------
# pools: one base contraction, variants that change exactly one key component


def _lab(kind, i):
    if kind == "str":
        return gen.sym(i)
    if kind == "int":
        return i
    if kind == "negint":
        return -(i + 1)
    return ("t", i)


def _base(rng):
    n = rng.choice([2, 2, 3, 3, 4])
    for _ in range(50):
        net = gen.rand_net(rng, nmin=n, nmax=n, max_inds=5, dims=(2, 3), allow_scalar=False,
                           kinds=("bond", "bond", "out1", "outk", "batch", "hyper"), max_rank=3)
        if len(net.output) >= 2 and all(net.app(ix) >= 1 for ix in net.output):
            return net
    return net


THEMES = ("general", "general", "sizes", "constants", "arrays")


def gen_pool(rng, theme="general"):
    net = _base(rng)
    kind = rng.choice(["str", "str", "int", "negint", "negint", "tuple"])
    canonicalize = rng.random() < (0.5 if kind != "negint" else 0.25)
    n = len(net.inputs)
    path = gen.tree_to_ssa(gen.rand_tree(rng, n), n)
    from cotengra.pathfinders.path_basic import ssa_to_linear
    lin = tuple(tuple(int(i) for i in p) for p in ssa_to_linear(path, n)) if n > 1 else ()
    base = {"net": net.json(), "labels": kind, "canonicalize": canonicalize, "optimize": "greedy",
            "kwargs": {}, "as_list": False}
    if theme == "sizes":
        # sizes handed over as an explicit dict (insertion order matters for the key)
        order = sorted(net.sizes)
        rng.shuffle(order)
        base["size_mode"] = "dict"
        base["size_order"] = order
    pool = [("base", base)]

    def add(tag, **chg):
        v = json.loads(json.dumps(base))
        v.update(chg)
        pool.append((tag, v))

    out = list(net.output)
    perm = out[:]
    for _ in range(5):
        rng.shuffle(perm)
        if perm != out:
            break
    if perm != out:
        add("output-order", net=gen.Net(net.inputs, perm, net.sizes).json())
    if len(out) >= 2:
        add("output-reversed", net=gen.Net(net.inputs, out[::-1], net.sizes).json())
    ix = rng.choice(sorted(net.sizes))
    sz = dict(net.sizes)
    sz[ix] += 1
    add("one-size", net=gen.Net(net.inputs, net.output, sz).json())
    add("optimize-preset", optimize=rng.choice(["optimal", "auto"]))
    if n > 1:
        add("optimize-path", optimize=[list(p) for p in lin])
        add("optimize-path-list", optimize=[list(p) for p in lin], as_list=True)
        other = gen.tree_to_ssa(gen.rand_tree(rng, n), n)
        add("optimize-other-path", optimize=[list(int(i) for i in p) for p in ssa_to_linear(other, n)])
    if n > 1:
        # an explicit *edge* path: an order of index labels to eliminate (interface.py is_edge_path); sequences
        # mix it with explicit linear paths of the same container type (dispatch memo keyed on the class)
        ep = sorted(net.sizes)
        rng.shuffle(ep)
        add("optimize-edge-path", optimize={"edge": ep})
        add("optimize-edge-path-list", optimize={"edge": ep}, as_list=True)
    if n > 1:
        # one ContractionTree *object* handed over as `optimize` by several calls of the history (with different
        # options): what the tree compiles and remembers for one call must not leak into the next
        add("optimize-tree-object", optimize={"tree": [list(p) for p in lin]})
        add("optimize-tree-object+strip", optimize={"tree": [list(p) for p in lin]}, kwargs={"strip_exponent": True})
        add("optimize-tree-object+einsum", optimize={"tree": [list(p) for p in lin]}, kwargs={"prefer_einsum": True})
    if n > 1 and rng.random() < 0.5:
        add("optimize-invalid-path", optimize=[[0, n + 3]])   # both cached and uncached calls must fail alike
    add("kw-strip_exponent", kwargs={"strip_exponent": True})
    add("kw-prefer_einsum", kwargs={"prefer_einsum": True})
    add("kw-implementation", kwargs={"implementation": rng.choice(["cotengra", "autoray"])})
    add("kw-sort", kwargs={"sort_contraction_indices": True})
    add("kw-via-list-2", kwargs={"via_list": 2})
    add("kw-via-list-3", kwargs={"via_list": 3})
    add("kw-via-list-5", kwargs={"via_list": 5})
    labs = sorted(net.sizes)
    rel = labs[:]
    rng.shuffle(rel)
    m = dict(zip(labs, rel))
    add("relabel", net=gen.Net([[m[i] for i in t] for t in net.inputs], [m[i] for i in net.output],
                               {m[k]: v for k, v in net.sizes.items()}).json())
    add("canonicalize-flip", canonicalize=not canonicalize)
    add("inputs-as-lists", as_list="inputs")
    t = [list(x) for x in net.inputs]
    i = rng.randrange(n)
    if len(t[i]) >= 2:
        t[i] = t[i][::-1]
        add("term-order", net=gen.Net(t, net.output, net.sizes).json())
    # --- explicit size dicts: same mapping in another key order; same *value sequence* with the
    #     sizes re-assigned to other labels (a different contraction)
    order = base.get("size_order") or sorted(net.sizes)
    o2 = order[:]
    rng.shuffle(o2)
    add("sizes-dict-key-order", size_mode="dict", size_order=o2)
    if "size_mode" not in base:
        add("sizes-as-dict", size_mode="dict", size_order=order)
    diff = [(a, b) for a in order for b in order if a < b and net.sizes[a] != net.sizes[b]]
    if diff:
        a, b = rng.choice(diff)
        sw = {a: b, b: a}
        sz2 = dict(net.sizes)
        sz2[a], sz2[b] = net.sizes[b], net.sizes[a]
        add("sizes-reassigned-same-value-sequence", size_mode="dict",
            size_order=[sw.get(x, x) for x in order], net=gen.Net(net.inputs, net.output, sz2).json())
    # --- constants: positions and values
    pos = sorted(rng.sample(range(n), rng.choice([1, 1, 2]) if n > 2 else 1))
    cs = rng.randrange(1 << 30)
    add("constants", constants={"pos": pos, "cseed": cs})
    add("constants-other-values", constants={"pos": pos, "cseed": cs + 17})
    pos2 = sorted(rng.sample(range(n), 1))
    if pos2 != pos:
        add("constants-other-positions", constants={"pos": pos2, "cseed": cs})
    return pool


APIS = ("expression", "expression", "contract", "path", "einsum", "einsum_expression")


def gen_history(rng):
    theme = rng.choice(THEMES)
    pool = gen_pool(rng, theme)
    tags = [k for k, _ in pool]
    hot = [0] + rng.sample(range(1, len(pool)), min(len(pool) - 1, rng.choice([1, 2, 3])))
    apis = APIS
    if theme == "sizes":
        hot = [0] + [i for i, k in enumerate(tags) if k.startswith("sizes-")]
        apis = ("path", "path", "expression")
    elif theme == "constants":
        hot = [i for i, k in enumerate(tags) if k.startswith("constants")] + [0]
        apis = ("expression", "einsum_expression")
    calls = []
    api0 = rng.choice(apis)
    for _ in range(rng.randint(3, 8)):
        qi = rng.choice(hot) if rng.random() < 0.85 else rng.randrange(len(pool))
        api = api0 if rng.random() < 0.7 else rng.choice(apis)
        atype = "numpy"
        if theme == "arrays":
            atype = rng.choice(["numpy", "lazy", "lazy", "list"])
        elif rng.random() < 0.1:
            atype = rng.choice(["lazy", "list"])
        calls.append({"q": qi, "api": api, "cache": rng.random() < 0.85, "seed": rng.randrange(1 << 30),
                      "atype": atype, "atype2": rng.choice(["numpy", "numpy", "lazy"]) if theme == "arrays" else atype})
    return {"pool": [[k, v] for k, v in pool], "calls": calls, "theme": theme}


# ---------------------------------------------------------------------------------------------
# executing a history on the real code


def _materialise(spec):
    """the Python arguments of one request (fresh objects on every call)"""
    net = gen.Net.from_json(spec["net"])
    kind = spec["labels"]
    ins = tuple(tuple(_lab(kind, i) for i in t) for t in net.inputs)
    out = tuple(_lab(kind, i) for i in net.output)
    if spec["as_list"] == "inputs":
        ins = [list(t) for t in ins]
        out = list(out)
    shapes = tuple(tuple(net.sizes[i] for i in t) for t in net.inputs)
    opt = spec["optimize"]
    if isinstance(opt, list):
        opt = [tuple(list(p)) for p in opt]
        opt = list(opt) if spec["as_list"] is True else tuple(opt)
    elif isinstance(opt, dict) and "tree" in opt:
        key = json.dumps([spec["net"], spec["labels"], opt["tree"]], sort_keys=True)
        if key not in _TREE_OBJS:
            import cotengra as ctg
            sizes = {_lab(kind, k): v for k, v in net.sizes.items()}
            _TREE_OBJS[key] = ctg.ContractionTree.from_path([tuple(t) for t in ins], tuple(out), sizes,
                                                            path=[tuple(p) for p in opt["tree"]])
        opt = _TREE_OBJS[key]
    elif isinstance(opt, dict):
        opt = [_lab(kind, i) for i in opt["edge"]]
        opt = list(opt) if spec["as_list"] is True else tuple(opt)
    return net, ins, out, shapes, opt


# tree objects shared by the calls of one history (cleared with all other caches: the uncached twin builds a
# fresh tree for every call)
_TREE_OBJS = {}


def _unused():
    return None


def _size_args(spec, net):
    """how the sizes are handed over: `shapes=` (default) or an explicit `size_dict=` whose
    insertion order is part of the request"""
    if spec.get("size_mode") == "dict":
        kind = spec["labels"]
        order = spec.get("size_order") or sorted(net.sizes)
        return {"size_dict": {_lab(kind, i): net.sizes[i] for i in order}}
    return {"shapes": tuple(tuple(net.sizes[i] for i in t) for t in net.inputs)}


def _arrays(net, seed):
    r = np.random.default_rng(seed)
    return [r.integers(-3, 4, size=tuple(net.sizes[i] for i in t)) for t in net.inputs]


def _as_type(arrays, atype):
    if atype == "lazy":
        import autoray as ar
        return [ar.lazy.array(a) for a in arrays]
    if atype == "list":
        return [a.tolist() for a in arrays]
    return arrays


def _const_arrays(spec, net):
    c = spec.get("constants")
    if not c:
        return {}
    full = _arrays(net, c["cseed"])
    return {i: full[i] for i in c["pos"]}


def _canon(x):
    """canonical, type-tagged string of a key component (Python equality on the values used here
    coincides with equality of these strings)"""
    if isinstance(x, bool):
        return "b:%s" % x
    if isinstance(x, (int, np.integer)):
        return "i:%d" % int(x)
    if isinstance(x, str):
        return "s:" + x
    if x is None:
        return "none"
    if isinstance(x, tuple):
        return "(" + ",".join(_canon(y) for y in x) + ")"
    if isinstance(x, list):
        return "[" + ",".join(_canon(y) for y in x) + "]"
    if isinstance(x, dict):
        return "{" + ",".join(_canon(k) + "=" + _canon(v) for k, v in x.items()) + "}"
    if isinstance(x, frozenset):
        return "fs{" + ",".join(sorted(_canon(y) for y in x)) + "}"
    return "o:" + repr(x)


def request_fields(spec, api):
    """the normalised request, field by field, as the cached function sees it (real
    normalize_input; the explicit list->tuple conversion of `optimize` is the key's own)"""
    from cotengra.interface import normalize_input
    net, ins, out, shapes, opt = _materialise(spec)
    canon = spec["canonicalize"]
    if api in ("einsum", "einsum_expression"):
        # these go through parse_einsum_input (tuples of symbols) and the default canonicalize=True
        ins = tuple(tuple(gen.sym(i) for i in t) for t in net.inputs)
        out = tuple(gen.sym(i) for i in net.output)
        canon = True
    sa = _size_args(spec, net)
    if api not in ("path", "expression"):
        sa = {"shapes": shapes}
    i2, o2, sd, op2 = normalize_input(ins, out, sa.get("size_dict"), sa.get("shapes"), opt, canon)
    if isinstance(op2, list):
        op2 = tuple(op2)
    kw = dict(spec["kwargs"])
    if api == "path":
        kw = {}
    elif api in ("contract", "einsum"):
        kw.setdefault("strip_exponent", False)  # array_contract always passes it explicitly
    consts = "none"
    if api in ("expression", "einsum_expression") and spec.get("constants"):
        # positions *and values* of the constant arrays baked into the returned function
        consts = _canon((tuple(spec["constants"]["pos"]), spec["constants"]["cseed"]))
    return {"inputs": _canon(i2), "output": _canon(o2), "size_dict": _canon(sd), "optimize": _canon(op2),
            "kwargs": _canon(frozenset(kw.items())), "constants": consts}


def _resolve(x):
    return x.compute() if hasattr(x, "compute") else x


def _rtype(res):
    """type of what the call handed back (cached and uncached calls must agree on it)"""
    if isinstance(res, tuple):
        return "(" + ",".join(_rtype(x) for x in res) + ")"
    if isinstance(res, (float, int)) and not isinstance(res, bool):
        return "number"
    return type(res).__name__


def _value(res, strip):
    if strip:
        m, e = res
        return ("float", (np.asarray(_resolve(m), dtype=float) * 10.0 ** float(_resolve(e))).tolist())
    a = np.asarray(_resolve(res))
    if a.dtype.kind in "iu":
        return ("int", a.tolist())
    return ("float", a.astype(float).tolist())


def run_call(spec, call, cached):
    """execute one call; returns an observation dict"""
    import cotengra as ctg
    net, ins, out, shapes, opt = _materialise(spec)
    atype, atype2 = call.get("atype", "numpy"), call.get("atype2", call.get("atype", "numpy"))
    raw = _arrays(net, call["seed"])
    raw2 = _arrays(net, call["seed"] + 1)
    kw = dict(spec["kwargs"])
    if "via_list" in kw:
        # `via=[convert_in, convert_out]` handed over as a fresh *list* (unhashable) on every call; the result is
        # multiplied by k, so handing back an expression built for another k shows in the value
        k_ = kw.pop("via_list")
        kw["via"] = [np.asarray, (lambda kk: (lambda x: np.asarray(x) * kk))(k_)]
    strip = bool(kw.get("strip_exponent"))
    use = bool(call["cache"]) and cached
    api = call["api"]
    canon = spec["canonicalize"]
    consts = _const_arrays(spec, net) if api in ("expression", "einsum_expression") else {}
    if consts:
        atype = atype2 = "numpy"   # constant folding traces with autoray's own lazy arrays
    free = [i for i in range(len(raw)) if i not in consts]
    arrays = _as_type(raw, atype)
    arrays2 = _as_type(raw2, atype2)
    obs = {"api": api}

    def ev(e):
        r = e(*[arrays[i] for i in free])
        obs["value"], obs["rtype"] = _value(r, strip), _rtype(r)
        r2 = e(*[arrays2[i] for i in free])     # the same expression on new arrays (of another type)
        obs["value2"], obs["rtype2"] = _value(r2, strip), _rtype(r2)

    try:
        if api == "path":
            p = ctg.array_contract_path(ins, out, optimize=opt, canonicalize=canon, cache=use,
                                        **_size_args(spec, net))
            obs["id"] = id(p)
            obs["keep"] = p
            obs["path"] = [list(map(int, s)) for s in p]
        elif api == "expression":
            ckw = {"constants": consts} if consts else {}
            e = ctg.array_contract_expression(ins, out, optimize=opt, canonicalize=canon,
                                              cache=use, **_size_args(spec, net), **ckw, **kw)
            obs["id"] = id(e)
            obs["keep"] = e
            ev(e)
        elif api == "contract":
            r = ctg.array_contract(arrays, ins, out, optimize=opt, cache_expression=use,
                                   canonicalize=canon, **kw)
            obs["value"], obs["rtype"] = _value(r, strip), _rtype(r)
        else:
            eq = net.eq()
            if api == "einsum":
                r = ctg.einsum(eq, *arrays, optimize=opt, cache_expression=use, **kw)
                obs["value"], obs["rtype"] = _value(r, strip), _rtype(r)
            else:
                ops = [consts[i] if i in consts else shapes[i] for i in range(len(shapes))]
                ckw = {"constants": sorted(consts)} if consts else {}
                e = ctg.einsum_expression(eq, *ops, optimize=opt, cache=use, **ckw, **kw)
                obs["id"] = id(e)
                obs["keep"] = e
                ev(e)
        obs["outcome"] = "ok"
    except Exception as e:  # noqa: BLE001
        obs["outcome"] = "raised:" + type(e).__name__
        obs["msg"] = str(e)[:160]
    return obs


def _clear_all_caches():
    import sys
    import cotengra  # noqa: F401
    cc = sys.modules["cotengra.contract"]
    ci = sys.modules["cotengra.interface"]
    cu = sys.modules["cotengra.utils"]
    _TREE_OBJS.clear()
    ci._PATH_CACHE.clear()
    ci._CONTRACT_EXPR_CACHE.clear()
    # the dispatch memos keyed on the *type* of `optimize` (interface.py:158, 335) are caches too: the
    # uncached reference starts every call without them (what a fresh process would do)
    for name in ("_find_path_handlers", "_find_tree_handlers"):
        d = getattr(ci, name, None)
        if isinstance(d, dict):
            d.clear()
    for mod in (cc, cu, ci):
        for name in dir(mod):
            f = getattr(mod, name)
            if hasattr(f, "cache_clear") and hasattr(f, "__wrapped__"):
                f.cache_clear()


def job_twin(hist):
    """the same history with every cache disabled (run in a forked child)"""
    import warnings
    warnings.simplefilter("ignore")
    out = []
    for call in hist["calls"]:
        _clear_all_caches()
        o = run_call(hist["pool"][call["q"]][1], call, cached=False)
        o.pop("keep", None)
        out.append(o)
    return out


U.JOBS["c13twin"] = job_twin


def reference(spec, call, second=False):
    net = gen.Net.from_json(spec["net"])
    arrays = _arrays(net, call["seed"] + (1 if second else 0))
    if call["api"] in ("expression", "einsum_expression"):
        for i, a in _const_arrays(spec, net).items():
            arrays[i] = a
    shape, res = refimpl.dense_einsum(net.inputs, net.output, net.sizes, arrays)

    def py(x):
        return [py(y) for y in x] if isinstance(x, list) else int(x)

    return py(refimpl.dense_to_nested(shape, res))


def _close(a, b):
    a = np.asarray(a, dtype=float)
    b = np.asarray(b, dtype=float)
    return a.shape == b.shape and np.allclose(a, b, rtol=1e-9, atol=1e-9)


def _same_value(v, ref):
    kind, val = v
    if kind == "int":
        return val == ref
    return _close(val, ref)


def _same_pair(v, w):
    """cached vs uncached result of the same call (NaN == NaN here: a NaN produced by both is
    not a caching matter)"""
    if v[0] == "int" and w[0] == "int":
        return v[1] == w[1]
    a = np.asarray(v[1], dtype=float)
    b = np.asarray(w[1], dtype=float)
    return a.shape == b.shape and np.allclose(a, b, rtol=1e-9, atol=1e-9, equal_nan=True)


def _valid_path(n, path, complete=True):
    for s in path:
        if not isinstance(s, (list, tuple)) or not s or len(set(s)) != len(s) or \
                any((not isinstance(i, int)) or i < 0 or i >= n for i in s):
            return False
        n = n - len(s) + 1
    return n == 1 or not complete


def _component_diff(fa, fb):
    return sorted(k for k in fa if fa[k] != fb[k])


def check_history(ctx, drv, hist):
    """returns list of violations found (already reported)"""
    import warnings
    pool = hist["pool"]
    ctx.count("theme:" + hist.get("theme", "general"))
    warnings.simplefilter("ignore")
    _clear_all_caches()
    obs = [run_call(pool[c["q"]][1], c, cached=True) for c in hist["calls"]]
    tw = U.in_fork("c13twin", hist)
    twin = tw[1] if tw[0] == "ok" else None
    if twin is None:
        raise RuntimeError("uncached twin failed: %r" % (tw,))
    bad = []
    fields = []
    for call in hist["calls"]:
        try:
            fields.append(request_fields(pool[call["q"]][1], call["api"]))
        except Exception:  # noqa: BLE001  (e.g. an unparsable request: nothing to say about its key)
            fields.append(None)
    for i, (call, o, t) in enumerate(zip(hist["calls"], obs, twin)):
        tag, spec = pool[call["q"]]
        ctx.count("api:" + call["api"])
        ctx.count("variant:" + tag)
        ctx.count("cache:%s" % call["cache"])
        ctx.count("labels:" + spec["labels"])
        ctx.count("outcome:" + o["outcome"])
        ctx.count("arrays:" + call.get("atype", "numpy"))
        if spec.get("size_mode") == "dict" and call["api"] in ("path", "expression"):
            ctx.count("sizes_given_as_explicit_dict")
        if spec.get("constants") and call["api"] in ("expression", "einsum_expression"):
            ctx.count("call_with_constants")
        near = False
        for j in range(i):
            if hist["calls"][j]["cache"] and fields[i] and fields[j] and \
                    len(_component_diff(fields[i], fields[j])) <= 1:
                near = True
        ctx.case({"variant": tag, "spec": spec, "call": call}, nontrivial=near and call["cache"])
        site = {"path": "array_contract_path", "expression": "array_contract_expression",
                "contract": "array_contract", "einsum": "einsum",
                "einsum_expression": "einsum_expression"}[call["api"]]
        # which earlier request does this one collide with, if any (for the signature)
        comp = None
        for j in range(i):
            if "id" in o and o.get("id") == obs[j].get("id") and fields[i] and fields[j]:
                d = _component_diff(fields[i], fields[j])
                if d:
                    comp = "+".join(d)
        if o["outcome"] != t["outcome"]:
            kind = "cached-call-raises" if o["outcome"] != "ok" else "uncached-call-raises"
            bad.append((i, site, kind, {"cached": [o["outcome"], o.get("msg")],
                                         "uncached": [t["outcome"], t.get("msg")]},
                        {"exc": o["outcome"].split(":")[-1] if o["outcome"] != "ok" else t["outcome"].split(":")[-1]}))
            continue
        if o["outcome"] != "ok":
            continue
        if "value" in o:
            ref = reference(spec, call)
            if not _same_pair(o["value"], t["value"]):
                bad.append((i, site, "wrong-value", {"got": o["value"][1], "want": ref,
                                                     "uncached": t["value"][1]}, {"component": comp}))
                continue
            if _same_value(t["value"], ref):
                ctx.count("value_equals_exact_reference")
            else:
                # cached == uncached but both differ from the reference: not a caching matter
                # (e.g. strip_exponent on an all-zero result gives NaN, property C19)
                ctx.count("uncached_and_cached_both_differ_from_reference")
            if "value2" in o and not _same_pair(o["value2"], t["value2"]):
                bad.append((i, site, "expression-reuse-wrong-value",
                            {"got": o["value2"][1], "uncached": t["value2"][1],
                             "want": reference(spec, call, second=True)}, {"component": comp}))
                continue
            if o.get("rtype") != t.get("rtype") or o.get("rtype2") != t.get("rtype2"):
                # same numbers, but handed back as another kind of object than without the cache
                bad.append((i, site, "wrong-result-type",
                            {"cached": [o.get("rtype"), o.get("rtype2")],
                             "uncached": [t.get("rtype"), t.get("rtype2")],
                             "array_types": [call.get("atype"), call.get("atype2")]}, {"component": comp}))
                continue
        if "path" in o:
            n = len(spec["net"]["inputs"])
            # (an edge path over a disconnected network leaves several tensors: positions must exist, that is all)
            if not isinstance(spec["optimize"], list) and \
                    not _valid_path(n, o["path"], complete=not isinstance(spec["optimize"], dict)):
                # (an explicit path is handed back verbatim, valid or not -- cached or not)
                bad.append((i, site, "invalid-path", {"path": o["path"], "N": n}, {"component": comp}))
                continue
            if isinstance(spec["optimize"], (list, dict)) or spec["optimize"] in ("greedy", "optimal"):
                if o["path"] != t["path"]:
                    bad.append((i, site, "wrong-path", {"cached": o["path"], "uncached": t["path"]},
                                {"component": comp}))
                    continue
    for i, site, kind, detail, extra in bad:
        sig = {"site": site, "kind": kind}
        sig.update({k: v for k, v in extra.items() if v})
        ctx.count("oracle_fail:" + kind)
        ctx.violation(sig, {"hist": hist, "call": i, "kind": kind, "detail": detail},
                      "call %d (%s, %s): %s %s" % (i, site, pool[hist["calls"][i]["q"]][0], kind,
                                                   json.dumps(detail, default=str)[:300]))
    # (A) every observed sharing must be admitted by the verified test
    if drv is not None:
        pairs, meta = [], []
        for i in range(len(obs)):
            for j in range(i):
                if "id" in obs[i] and obs[i].get("id") == obs[j].get("id") and obs[i]["api"] == obs[j]["api"] \
                        and fields[i] and fields[j]:
                    which = "path" if obs[i]["api"] == "path" else "expr"
                    pairs.append((which, fields[j], fields[i]))
                    meta.append((j, i))
        for which in ("expr", "path"):
            ps = [[a, b] for w, a, b in pairs if w == which]
            ms = [m for (w, _, _), m in zip(pairs, meta) if w == which]
            if not ps:
                continue
            r = drv.call("c13.share_ok", which=which, pairs=ps)
            ctx.count("observed_sharings_checked", len(ps))
            for ok, m in zip(r.get("ok", []), ms):
                if not ok:
                    ctx.corr_broken("two requests with different model keys received the identical cached object",
                                    {"hist": hist, "calls": m})
        # (E, informational) the model's own hit pattern
        for which, apis in (("expr", ("expression",)), ("path", ("path",))):
            idx = [i for i, c in enumerate(hist["calls"]) if c["api"] in apis and fields[i]]
            if len(idx) < 2:
                continue
            qs = [fields[i] for i in idx]
            r = drv.call("c13.run", which=which, queries=qs,
                         calls=[{"q": k, "cache": bool(hist["calls"][i]["cache"])} for k, i in enumerate(idx)])
            orig = r.get("origin", [])
            real = []
            for k, i in enumerate(idx):
                first = k
                for k2, j in enumerate(idx[:k]):
                    if obs[i].get("id") is not None and obs[i].get("id") == obs[j].get("id"):
                        first = min(first, k2)
                        break
                real.append(first)
            ctx.count("hit_pattern_equals_model:%s" % (orig == real))
        ctx.traces += 1
    return bad


# ---------------------------------------------------------------------------------------------
# lru-cached parsers


def _lru_probes(rng, n):
    eqs2 = ["ab,bc->ac", "ab,bc->ca", "ab,ab->", "abc,cd->abd", "aab,bc->ac", "ab,b->a", "a,a->a", "ab,cd->abcd",
            "abc,bcd->ad", "ba,bc->ac"]
    eqs1 = ["ab->ba", "aab->ab", "abc->ac", "aa->", "ab->ab", "abb->a", "ab->", "abc->cba"]
    dims = {"a": 2, "b": 3, "c": 2, "d": 3}
    probes = []
    for _ in range(n):
        which = rng.randrange(5)
        if which == 0:
            probes.append(("contract", "_sanitize_equation",
                           (rng.choice(eqs1 + eqs2 + ["ab,bc", "ab , bc -> ac", "a...b->ab"]),)))
        elif which == 1:
            eq = rng.choice(eqs1)
            d = dict(dims) if rng.random() < 0.7 else {"a": 3, "b": 2, "c": 4, "d": 2}
            probes.append(("contract", "_parse_einsum_single", (eq, tuple(d[c] for c in eq.split("->")[0]))))
        elif which == 2:
            eq = rng.choice(eqs2)
            a, b = eq.split("->")[0].split(",")
            d = dict(dims) if rng.random() < 0.7 else {"a": 3, "b": 2, "c": 4, "d": 2}
            probes.append(("contract", "_parse_eq_to_batch_matmul",
                           (eq, tuple(d[c] for c in a), tuple(d[c] for c in b))))
        elif which == 3:
            sa, sb = rng.choice([((2, 3, 2), (2, 3, 3)), ((2, 3, 4), (2, 3, 5))])
            axes = rng.choice([1, ((0,), (0,)), ((0, 1), (0, 1)), ((2,), (0,)), ((1,), (1,))])
            probes.append(("contract", "_parse_tensordot_axes_to_matmul", (axes, sa, sb)))
        else:
            eq = rng.choice(["ab,bc->ac", "...a,a...->...", "a...,...b->ab", "ab,bc"])
            shapes = ((2, 3), (3, 2)) if "." not in eq else rng.choice([((4, 2), (2, 4)), ((2,), (2,)),
                                                                         ((3, 4, 2), (2, 3, 4))])
            probes.append(("utils", "parse_equation_ellipses", (eq, shapes, rng.random() < 0.5)))
    return probes


def _lru_eval(probes, clear):
    import sys
    import cotengra  # noqa: F401
    out = []
    for mod, name, args in probes:
        f = getattr(sys.modules["cotengra." + mod], name)
        if clear:
            _clear_all_caches()
        try:
            out.append(("ok", repr(f(*args))))
        except Exception as e:  # noqa: BLE001
            out.append(("raised", type(e).__name__))
    return out


def job_lru(probes):
    """the probes in reversed order, every clearable cache cleared before each call"""
    return list(reversed(_lru_eval(list(reversed(probes)), True)))


U.JOBS["c13lru"] = job_lru


def lru_probe(ctx, rng, n):
    """(E) the memoised parsers against themselves (twice), their `__wrapped__` originals and a
    child process that evaluates the same requests in another order with cleared caches"""
    import sys
    probes = _lru_probes(rng, n)
    ch = U.in_fork("c13lru", probes)   # (first: the child must not inherit what the parent memoises below)
    r3 = ch[1] if ch[0] == "ok" else None
    r1 = _lru_eval(probes, False)
    r2 = _lru_eval(probes, False)
    bad = 0
    for k, (mod, name, args) in enumerate(probes):
        f = getattr(sys.modules["cotengra." + mod], name)
        r0 = None
        if hasattr(f, "__wrapped__"):
            try:
                r0 = ("ok", repr(f.__wrapped__(*args)))
            except Exception as e:  # noqa: BLE001
                r0 = ("raised", type(e).__name__)
        ctx.count("lru_probe:" + name)
        ctx.count("lru_probe_outcome:" + r1[k][0])
        vals = [r1[k], r2[k]] + ([r0] if r0 is not None else []) + ([r3[k]] if r3 is not None else [])
        if any(v != vals[0] for v in vals):
            bad += 1
            ctx.violation({"site": name, "kind": "memoised-parser-depends-on-history"},
                          {"lru": {"fn": name, "args": repr(args)}, "results": vals},
                          "memoised parser %s%r returns different results depending on earlier calls: %r" % (
                              name, args, vals))
    return bad


def lru_notes():
    """which module-level data the lru-cached functions read (informational)"""
    import builtins
    notes = []
    for rel in ("cotengra/contract.py", "cotengra/utils.py", "cotengra/interface.py"):
        tree = ast.parse(open(os.path.join(common.REPO, rel)).read())
        known = set()
        for n in ast.walk(tree):
            if isinstance(n, (ast.FunctionDef, ast.ClassDef)):
                known.add(n.name)
            elif isinstance(n, (ast.Import, ast.ImportFrom)):
                for a in n.names:
                    known.add((a.asname or a.name).split(".")[0])
        for fn in [n for n in ast.walk(tree) if isinstance(n, ast.FunctionDef)]:
            if not any("lru_cache" in ast.unparse(d) for d in fn.decorator_list):
                continue
            local = {a.arg for a in ast.walk(fn) if isinstance(a, ast.arg)}
            local |= {n.id for n in ast.walk(fn) if isinstance(n, ast.Name) and isinstance(n.ctx, ast.Store)}
            reads = sorted({n.id for n in ast.walk(fn) if isinstance(n, ast.Name) and isinstance(n.ctx, ast.Load)
                            and n.id not in local and n.id not in known and not hasattr(builtins, n.id)})
            notes.append({"fn": fn.name, "module_data_read": reads})
    return notes


# ---------------------------------------------------------------------------------------------


def _corpus(ctx, drv):
    d = os.path.join(common.VERIF, "corpus", PROP)
    if not os.path.isdir(d):
        return
    for fn in sorted(os.listdir(d)):
        if fn.endswith(".json"):
            obj = json.load(open(os.path.join(d, fn)))
            ctx.count("corpus_replayed")
            check_history(ctx, drv, obj.get("replay", obj)["hist"])


def run(ctx, drv):
    try:
        ctx.notes["facts_extracted"] = extract_facts()
        ctx.notes["lru_functions"] = lru_notes()
    except Exception as e:  # noqa: BLE001
        ctx.notes["facts_extracted"] = "error: %r" % (e,)
    _corpus(ctx, drv)
    n = 1300 if ctx.tier == "quick" else 40000
    for _ in range(n):
        if ctx.time_left() < 15:
            break
        check_history(ctx, drv, gen_history(ctx.rng))
    lru_probe(ctx, ctx.rng, 300 if ctx.tier == "quick" else 3000)


def search(ctx):
    found = False
    for _ in range(3000):
        if ctx.time_left() < 15 or found:
            break
        before = ctx.violations
        check_history(ctx, None, gen_history(ctx.rng))
        found = ctx.violations > before
    return found


def replay(ctx, obj):
    if "lru" in obj:
        return lru_probe(ctx, random.Random(0), 400) == 0

    class _Quiet:
        """a Ctx stand-in that records instead of reporting"""
        def __init__(self):
            self.bad = []
            self.traces = 0
        def count(self, *a, **k):
            pass
        def case(self, *a, **k):
            pass
        def violation(self, sig, rep, what):
            self.bad.append((sig, what))
        def corr_broken(self, *a, **k):
            pass

    q = _Quiet()
    check_history(q, None, obj["hist"])
    want = obj.get("kind")
    hits = [b for b in q.bad if want is None or b[0].get("kind") == want]
    for sig, what in hits[:3]:
        print("# C13 replay:", what[:300])
    return not hits
