"""C01 -- contracting with any tree gives the einsum value, in the declared axis order.

Tie
  (A) certificate check: the REAL program `extract_contractions(tree, order, prefer_einsum)`
      (after `sort_contraction_indices(priority)` or not) is serialised and decided by the Lean
      checker `Admissible net removed tree program` (driver op `c01.admissible`), whose
      soundness (`admissible_sound`: admissible => the interpreter returns the einsum of the
      network with root axes = declared output) is a theorem.
  (E) value correspondence: `tree.contract(int arrays, order, prefer_einsum, implementation)`
      versus the independent dense reference `refimpl.dense_einsum` (shape and every entry,
      i.e. axis order included), and versus the Lean interpreter / `einsumSpec` run on the same
      integers (driver op `c01.eval`; ties the Lean model of einsum/tensordot/transpose and of
      `Contractor.__call__` to numpy / the real interpreter).
  The model's own extraction (`c01.extract`) is compared with the real program for information
  only (counter `model_program_identical`): cotengra is free to choose other intermediate axis
  orders, so a difference is not a disagreement.
Oracle (implementation only): refimpl.dense_einsum on Python ints.
"""

import itertools
import random
import sys

import numpy as np

import cotengra as ctg

from . import gen, refimpl

cmod = sys.modules["cotengra.contract"]

PROP = "C01"
LEVEL = "proof"
LEVEL_TEXT = (
    "Lean 4 theorems, unbounded in network size, tree and order: (1) admissible_sound -- every contraction "
    "program accepted by the decidable checker Admissible (pops succeed, every einsum/tensordot/transpose "
    "argument is well-typed against the operands' current axes, every summed index has all its appearances "
    "under the node, root axes equal the declared output as a list) runs without error on well-shaped arrays "
    "over any commutative semiring and returns exactly the einsum of the network (finite sum over all "
    "assignments of the non-output indices of the product of the entries) in the declared axis order -- for "
    "einsum and tensordot(+perm) recipes and preprocessing; (2) model_extract_admissible -- the model's "
    "transcription of get_inds/get_can_dot/get_tensordot_axes/get_tensordot_perm/get_einsum_eq/"
    "compute_leaf_legs/extract_contractions yields an Admissible program for every network, complete tree, "
    "children-first order, prefer_einsum value and every per-node index order that is a permutation of the "
    "node's legs, in particular the one the model of sort_contraction_indices produces (sortInds_ok); "
    "(3) run_order_irrelevant. The tie to /repo on every run: the REAL programs of "
    "extract_contractions are certified by the same Lean checker, and tree.contract on integer arrays is "
    "compared entry-by-entry and shape-by-shape with an independent dense evaluator and with the Lean "
    "interpreter and einsumSpec."
)
LEVEL_NOTE = (
    "Trusted: Lean kernel; the Lean functional-array definitions of einsum/tensordot/transpose as the model of "
    "numpy/autoray (validated on integer arrays each run); the harness serialisation of the real program "
    "(frozensets -> sorted leaf lists, equation strings -> code points); refimpl.dense_einsum. Guards: N >= 2, "
    "output indices distinct and each occurring in some input. Floats, autojit, cuquantum, non-numpy backends "
    "out of scope."
)
TECHNIQUE = ("Lean 4 proof (Fubini/distributivity over nested finite sums, induction over the step list, L1 leaf-set "
             "lemma) + verified certificate checker run on the real contraction programs + differential value "
             "correspondence on integer arrays")
LEAN_MODULES = ["CotengraVerif.Props.C01"]
THEOREMS = [
    "Cotengra.C01.admissible_sound",
    "Cotengra.C01.admissibleCore_sound",
    "Cotengra.C01.model_extract_admissible",
    "Cotengra.C01.model_extract_admissible_inds",
    "Cotengra.C01.model_extract_admissible_sorted",
    "Cotengra.C01.model_contract_correct",
    "Cotengra.C01.run_order_irrelevant",
    "Cotengra.C01.run_order_irrelevant_model",
    "Cotengra.C01.IsEinsum.at_pos",
    "Cotengra.childrenFirst_internal",
    "Cotengra.childrenFirst_of_childrenEarlier",
    "Cotengra.C01.model_extract_admissible_positional",
    "Cotengra.inds_ok",
    "Cotengra.sortInds_ok",
    "Cotengra.sumOver_fubini",
    "Cotengra.sumOver_perm",
    "Cotengra.einsum2_sem",
    "Cotengra.binary_step",
    "Cotengra.Net.legs_get_eq_spec",
]
TRUSTED = [
    "Lean 4.33 kernel; axioms ⊆ {propext, Classical.choice, Quot.sound}",
    "Model/Tensor.lean: functional-array definitions of einsum (1 and 2 operands), tensordot and transpose "
    "(the latter two defined through einsum) as the model of numpy/autoray; validated against numpy and the "
    "real interpreter on integer arrays by the c01.eval tie on every run",
    "harness serialisation of real programs (frozenset -> sorted leaf list, equation string -> code points, "
    "axes/perm tuples -> lists) and of networks (symbols -> naturals)",
    "harness/refimpl.dense_einsum (nested loops over Python ints) as the independent oracle",
]
ASSUMPTIONS = [
    "N >= 2 inputs; declared output indices are distinct and each occurs in some input (what einsum itself requires)",
    "integer arrays (exact arithmetic); float rounding, autojit, cuquantum and non-numpy backends are out of scope",
    "sizes >= 1",
]
RULE = ("random networks over index kinds {bond,hyper,dangling,out1,outk,all,repeated,batch} (scalars, outer "
        "products, disconnected parts, size-1 dims included) x random/caterpillar/balanced trees x 0-2 sliced "
        "indices (remove_ind before the sort) x order in {dfs, random callable, len} x prefer_einsum x "
        "sort_contraction_indices in {none, flops, size, root, leaves} x implementation in {auto, cotengra, "
        "autoray}; corpus of regression inputs first; thorough adds all trees of small nets; non-trivial = >= 3 "
        "tensors and (a hyper/repeated/dangling/scalar/disconnected/size1 feature or a tensordot+perm step or a "
        "sliced index); distinct by content hash")
BUDGET = {"quick": 600, "thorough": 3000}

ORDERS = ("dfs", "callable", "len")
SORTS = (None, "flops", "size", "root", "leaves")
IMPLS = ("auto", "cotengra", "autoray")


# ------------------------------------------------------------------------------------------
# building the real objects
# ------------------------------------------------------------------------------------------

def make_order(name, seed):
    if name == "dfs":
        return None
    if name == "len":
        return len
    orr = random.Random(seed)
    scores = {}

    def order_fn(node):
        if node not in scores:
            scores[node] = orr.random()
        return scores[node]

    return order_fn


def parse_eq(eq):
    lhs, out = eq.split("->")
    return [[ord(c) for c in term] for term in lhs.split(",")], [ord(c) for c in out]


def serialise_program(contractions):
    """The real tuple of contractions -> the JSON program of the Lean model."""
    pre, steps = [], []
    for p, l, r, tdot, arg, perm in contractions:
        if l is None and r is None:
            (i,) = p
            terms, out = parse_eq(arg)
            if len(terms) != 1:
                raise ValueError("preprocessing equation with %d operands" % len(terms))
            pre.append({"leaf": int(i), "lhs": terms[0], "out": out})
            continue
        st = {"parent": sorted(int(x) for x in p), "left": sorted(int(x) for x in l),
              "right": sorted(int(x) for x in r), "tdot": bool(tdot)}
        if tdot:
            st["axes"] = [[int(x) for x in arg[0]], [int(x) for x in arg[1]]]
            st["perm"] = None if perm is None else [int(x) for x in perm]
        else:
            terms, out = parse_eq(arg)
            if len(terms) != 2:
                raise ValueError("pairwise equation with %d operands" % len(terms))
            st["eq"] = [terms[0], terms[1], out]
        steps.append(st)
    return {"pre": pre, "steps": steps}


def canon_program(prog):
    """Rename equation labels by first appearance, sort preprocessing by leaf (for the
    informational comparison with the model's own extraction only)."""

    def ren(lists):
        m = {}
        out = []
        for ls in lists:
            o = []
            for c in ls:
                if c not in m:
                    m[c] = len(m)
                o.append(m[c])
            out.append(o)
        return out

    pre = []
    for q in sorted(prog["pre"], key=lambda q: q["leaf"]):
        a, b = ren([q["lhs"], q["out"]])
        pre.append({"leaf": q["leaf"], "lhs": a, "out": b})
    steps = []
    for s in prog["steps"]:
        t = {"parent": sorted(s["parent"]), "left": sorted(s["left"]), "right": sorted(s["right"]),
             "tdot": s["tdot"]}
        if s["tdot"]:
            t["axes"] = s["axes"]
            t["perm"] = s["perm"]
        else:
            t["eq"] = ren(s["eq"])
        steps.append(t)
    return {"pre": pre, "steps": steps}


def build_tree(case):
    gen.set_alphabet(case.get("alphabet", "ascii"), case.get("seed", 0))
    """The real tree of the case: from_path, then slicing (part of the tree), then the optional
    sort_contraction_indices(priority).  No other history (histories are C02's subject)."""
    net = gen.Net.from_json(case["net"])
    tree = gen.real_tree(ctg, net, case["tree"])
    for ix in case.get("slice") or []:
        tree.remove_ind_(gen.sym(ix))
    if case.get("sort"):
        tree.sort_contraction_indices(priority=case["sort"])
    return net, tree


def restricted(net, removed):
    """The network the core contraction of a sliced tree computes."""
    rm = set(removed)
    return gen.Net([[ix for ix in t if ix not in rm] for t in net.inputs],
                   [ix for ix in net.output if ix not in rm],
                   {k: v for k, v in net.sizes.items()})


def int_arrays(net, seed):
    rng = np.random.default_rng(seed)
    return [rng.integers(-3, 4, size=s) for s in net.shapes()]


def reference(net, arrays):
    oshape, res = refimpl.dense_einsum(net.inputs, net.output, net.sizes, arrays)
    return oshape, res


def compare_with_reference(x, oshape, res):
    """None if equal, else a short description."""
    x = np.asarray(x)
    if tuple(x.shape) != tuple(oshape):
        return "shape %s != %s" % (tuple(x.shape), tuple(oshape))
    for pos in itertools.product(*[range(d) for d in oshape]):
        if int(x[pos]) != int(res.get(pos, 0)):
            return "entry %s: %s != %s" % (list(pos), int(x[pos]), int(res.get(pos, 0)))
    return None


def flat_of_ref(oshape, res):
    return [int(res.get(pos, 0)) for pos in itertools.product(*[range(d) for d in oshape])]


# ------------------------------------------------------------------------------------------
# one case
# ------------------------------------------------------------------------------------------

def gen_case(rng, tier, small=False):
    nmax = 7 if tier == "quick" else 9
    if small:
        nmax = 4
    net = gen.rand_net(rng, nmin=2, nmax=nmax, max_inds=9, dims=(1, 2, 3), max_total=3000,
                       p_output=rng.choice([None, None, 0.6]))
    tree = gen.rand_tree(rng, len(net.inputs))
    inds = net.indices()
    k = rng.choice([0, 0, 0, 1, 2])
    sl = sorted(rng.sample(inds, min(k, len(inds))))
    return {"net": net.json(), "tree": tree, "order": rng.choice(ORDERS),
            "prefer_einsum": rng.random() < 0.35, "sort": rng.choice(SORTS),
            "impl": rng.choice(IMPLS), "slice": sl, "seed": rng.randrange(1 << 30),
            "alphabet": rng.choice(gen.ALPHABETS),
            # the array library named explicitly instead of inferred from the operands
            "backend": rng.random() < 0.25}


def guards_ok(net):
    used = {ix for t in net.inputs for ix in t}
    return len(net.inputs) >= 2 and len(set(net.output)) == len(net.output) and all(ix in used for ix in net.output)


def internal_index(bt):
    """leaf-set -> position in the Lean `BT.internal` list (children first, left before right)."""
    out = []

    def go(t):
        if isinstance(t, int):
            return [t]
        a = go(t[0])
        b = go(t[1])
        out.append(frozenset(a + b))
        return a + b

    go(bt)
    return {k: i for i, k in enumerate(out)}


def value_check(case, net, tree):
    """(E): the real contraction on integer arrays against the dense reference.
    Returns (failure description or None, arrays, (oshape, res))."""
    arrays = int_arrays(net, case["seed"])
    order = make_order(case["order"], case["seed"])
    oshape, res = reference(net, arrays)
    try:
        x = tree.contract(arrays, order=order, prefer_einsum=case["prefer_einsum"],
                          implementation=case["impl"], **({"backend": "numpy"} if case.get("backend") else {}))
    except Exception as e:  # a crash is a failure of "returns the einsum value"
        return "raises %s: %s" % (type(e).__name__, str(e)[:120]), arrays, (oshape, res)
    return compare_with_reference(x, oshape, res), arrays, (oshape, res)


def check_case(ctx, drv, case, eval_model=True):
    removed = list(case.get("slice") or [])
    try:
        net, tree = build_tree(case)
    except Exception as e:
        ctx.case(case, nontrivial=False)
        ctx.violation({"site": "ContractionTree.from_path/remove_ind/sort_contraction_indices", "kind": "raises"},
                      {"case": case, "observed": repr(e)[:200]},
                      "the tree of a valid contraction cannot be built: " + repr(e)[:160])
        return False
    feats = net.features()
    n = len(net.inputs)
    for f in feats:
        ctx.count("feature:" + f)
    ctx.count("ntensors:%d" % n)
    ctx.count("order:" + case["order"])
    ctx.count("prefer_einsum:%s" % case["prefer_einsum"])
    ctx.count("sort:%s" % case["sort"])
    ctx.count("impl:" + case["impl"])
    ctx.count("sliced_inds:%d" % len(removed))

    # ---- implementation-side oracle: value and axis order against the dense reference -------
    bad, arrays, (oshape, res) = value_check(case, net, tree)
    if bad is not None:
        ctx.case(case, nontrivial=n >= 3)
        ctx.violation({"site": "ContractionTree.contract", "kind": "value-or-axis-order"},
                      {"case": case, "observed": bad},
                      "tree.contract differs from the dense einsum reference: " + bad)
        return False

    # ---- the real program ------------------------------------------------------------------
    try:
        order = make_order(case["order"], case["seed"])
        prog = serialise_program(cmod.extract_contractions(tree, order, case["prefer_einsum"]))
        bt = gen.bt_of_real(tree)
    except Exception as e:
        ctx.case(case, nontrivial=n >= 3)
        ctx.corr_broken("the real program cannot be extracted / serialised: %r" % (e,), case)
        return True
    ctx.count("steps:tensordot", sum(1 for s in prog["steps"] if s["tdot"]))
    ctx.count("steps:tensordot+perm", sum(1 for s in prog["steps"] if s["tdot"] and s["perm"]))
    ctx.count("steps:einsum", sum(1 for s in prog["steps"] if not s["tdot"]))
    ctx.count("preprocessing_steps", len(prog["pre"]))
    has_perm = any(s["tdot"] and s["perm"] for s in prog["steps"])
    nontrivial = n >= 3 and (bool(set(feats) & {"hyper", "repeated", "dangling", "scalar", "disconnected",
                                                 "size1"}) or has_perm or bool(removed))
    ctx.case(case, nontrivial=nontrivial)

    # ---- (A) the real program is certified by the Lean checker ----------------------------
    resp = drv.call("c01.admissible", net=case["net"], removed=removed, tree=bt, program=prog)
    ctx.traces += 1
    if "error" in resp:
        ctx.corr_broken("driver error in c01.admissible: " + resp["error"], case)
        return True
    if not resp["admissible"]:
        ctx.count("not_admissible")
        ctx.corr_broken("real program rejected by the Lean checker: %s" % resp["why"], case)
        return True
    ctx.count("admissible")

    # ---- model's own extraction (informational) + model evaluation (E) -------------------
    idx = internal_index(bt)
    order_pos = [idx[frozenset(s["parent"])] for s in prog["steps"]]
    kw = {}
    if case["sort"]:
        kw["sort"] = {"proc": sort_proc(tree, case["sort"], idx)}
    mresp = drv.call("c01.extract", net=case["net"], removed=removed, tree=bt, order=order_pos,
                     prefer_einsum=case["prefer_einsum"], **kw)
    if "error" in mresp:
        ctx.corr_broken("driver error in c01.extract: " + mresp["error"], case)
        return True
    if not mresp["admissible"]:
        # the model's own program must always be admissible (theorem model_extract_admissible)
        ctx.corr_broken("model extraction not admissible: %s" % mresp["why"], case)
        return True
    same = canon_program(mresp["program"]) == canon_program(prog)
    ctx.count("model_program_identical" if same else "model_program_differs(allowed)")

    if eval_model:
        # the core contraction of slice 0 (all arrays when nothing is sliced)
        core_arrays = tree.slice_arrays(arrays, 0) if removed else arrays
        rnet = restricted(net, removed)
        roshape, rres = refimpl.dense_einsum(rnet.inputs, rnet.output, rnet.sizes, core_arrays)
        jarrs = [{"shape": list(a.shape), "data": [int(v) for v in np.asarray(a).reshape(-1)]}
                 for a in core_arrays]
        ev = drv.call("c01.eval", net=case["net"], removed=removed, program=prog, arrays=jarrs)
        ctx.traces += 1
        want = {"shape": list(roshape), "data": flat_of_ref(roshape, rres)}
        if "error" in ev:
            ctx.corr_broken("driver error in c01.eval: " + ev["error"], case)
        elif ev["run"] != want:
            ctx.corr_broken("Lean interpreter on the real program differs from the reference", case)
        elif ev["spec"] != want:
            ctx.corr_broken("Lean einsumSpec differs from the reference", case)
        else:
            ctx.count("model_eval_agrees")
    return True


def sort_proc(tree, priority, idx):
    """The node sequence `sort_contraction_indices(priority)` processes, as BT.internal positions."""
    if priority == "flops":
        nodes = sorted(tree.children.items(), key=lambda x: tree.get_flops(x[0]))
        nodes = [p for p, _ in nodes]
    elif priority == "size":
        nodes = sorted(tree.children.items(), key=lambda x: tree.get_size(x[0]))
        nodes = [p for p, _ in nodes]
    elif priority == "root":
        nodes = [p for p, _, _ in tree.traverse()]
    else:
        nodes = [p for p, _, _ in tree.descend()]
    return [idx[frozenset(p)] for p in nodes]


# ------------------------------------------------------------------------------------------
# entry points
# ------------------------------------------------------------------------------------------

def all_trees_cases(ctx, drv, rng, nnets):
    """thorough tier: every tree (both orientations are not distinguished by cotengra's from_path,
    so unordered trees) of small generated nets, all option combinations cycled."""
    combos = list(itertools.product(ORDERS, (False, True), SORTS, IMPLS))
    k = 0
    for _ in range(nnets):
        if ctx.time_left() < 30:
            return
        net = gen.rand_net(rng, nmin=3, nmax=5, max_inds=7, dims=(1, 2, 3), max_total=2000)
        if not guards_ok(net):
            continue
        for t in gen.all_trees(range(len(net.inputs))):
            if ctx.time_left() < 30:
                return
            o, pe, srt, impl = combos[k % len(combos)]
            k += 1
            case = {"net": net.json(), "tree": t, "order": o, "prefer_einsum": pe, "sort": srt,
                    "impl": impl, "slice": [], "seed": rng.randrange(1 << 30)}
            ctx.count("all_trees_cases")
            check_case(ctx, drv, case, eval_model=(k % 4 == 0))


def run(ctx, drv):
    import glob
    import json
    import os
    from . import common
    for f in sorted(glob.glob(os.path.join(common.VERIF, "corpus", "C01", "*.json"))):
        obj = json.load(open(f))
        obj = obj.get("replay", obj)
        ctx.count("corpus_replayed")
        check_case(ctx, drv, obj["case"])
    ncases = 2500 if ctx.tier == "quick" else 80000
    skipped = 0
    done = 0
    while done < ncases:
        if ctx.time_left() < 20:
            break
        case = gen_case(ctx.rng, ctx.tier)
        if not guards_ok(gen.Net.from_json(case["net"])):
            skipped += 1
            continue
        done += 1
        check_case(ctx, drv, case)
    ctx.count("skipped_by_guard", skipped)
    if ctx.tier == "thorough":
        all_trees_cases(ctx, drv, ctx.rng, 300)


def failing(case):
    """Implementation-only oracle for one case: description of the failure or None."""
    net, tree = build_tree(case)
    bad, _, _ = value_check(case, net, tree)
    return bad


def shrink(case):
    """Greedy shrinking while the implementation still fails: simpler options, lower dims."""
    cur = dict(case)
    for key, val in (("slice", []), ("sort", None), ("order", "dfs"), ("impl", "auto"),
                     ("prefer_einsum", False)):
        trial = dict(cur)
        trial[key] = val
        try:
            if trial != cur and failing(trial):
                cur = trial
        except Exception:
            pass
    sizes = [list(p) for p in cur["net"]["sizes"]]
    for k in range(len(sizes)):
        for d in (1, 2):
            if sizes[k][1] > d:
                trial = dict(cur)
                tn = dict(cur["net"])
                ts = [list(p) for p in sizes]
                ts[k][1] = d
                tn["sizes"] = ts
                trial["net"] = tn
                try:
                    if failing(trial):
                        cur, sizes = trial, ts
                        break
                except Exception:
                    pass
    return cur


def search(ctx):
    """Implementation-only search (no model): tree.contract vs the dense reference."""
    for k in range(4000):
        if ctx.time_left() < 10:
            break
        case = gen_case(ctx.rng, "thorough", small=(k % 2 == 0))
        if not guards_ok(gen.Net.from_json(case["net"])):
            continue
        try:
            bad = failing(case)
        except Exception as e:
            bad = "harness could not build the case: %r" % (e,)
            continue
        if bad:
            case = shrink(case)
            ctx.violation({"site": "ContractionTree.contract", "kind": "value-or-axis-order"},
                          {"case": case, "observed": failing(case)},
                          "tree.contract differs from the dense einsum reference: " + str(failing(case)))
            return True
    return False


def replay(ctx, obj):
    """Re-execute a replay on /repo with the implementation-side oracle only (no model):
    True = the property holds on this input."""
    case = obj.get("case")
    if case is None:
        # a `no-failing-input-found` record names an obligation, not an input
        print("replay: this record names an undischarged obligation; there is no input to re-execute")
        return True
    try:
        return failing(case) is None
    except Exception as e:  # the real code cannot even build the tree / program
        print("replay: raises", repr(e)[:200])
        return False
