"""C05 -- sessions: sequences of public-interface calls executed in a *pristine* process image.

State that survives between calls (a module-level optimizer instance behind a preset, the dispatch
tables `_find_path_handlers / _find_tree_handlers` keyed on the class of `optimize`, `_PATH_CACHE`,
`lru_cache`s) can only show when several calls are made in one process in a particular order, and a
failing input found that way only reproduces from the same starting state. So every session runs in
a grandchild of a *zygote*: a child forked at the very start of `run()` that has imported cotengra
but never called into it. The session therefore *is* its own complete history, and the replay (a
fresh `./check --replay` process) re-executes exactly it.

A session is a list of calls
    {"entry": "path" | "tree", "net": <Net json>, "cache": bool,
     "opt": {"kind": "preset", "name": s}
          | {"kind": "linear", "path": [[i, j], ...], "container": "tuple" | "list"}
          | {"kind": "edge", "inds": [ix, ...], "container": "tuple" | "list"}}
and the result one record per call (streamed, so that a killed session keeps what it had).
"""

import json
import os
import select
import signal
import time

from . import gen


def build_optimize(spec):
    kind = spec["kind"]
    if kind == "preset":
        return spec["name"]
    if kind == "linear":
        seq = [tuple(int(x) for x in s) for s in spec["path"]]
    elif kind == "edge":
        seq = [gen.sym(int(i)) for i in spec["inds"]]
    else:
        raise KeyError(kind)
    return tuple(seq) if spec.get("container", "tuple") == "tuple" else list(seq)


def _jsonable_step(step):
    out = []
    for x in step:
        try:
            if isinstance(x, bool):
                out.append(str(x))
            elif isinstance(x, int) or hasattr(x, "__index__"):
                out.append(int(x))
            else:
                out.append(str(x))
        except Exception:  # noqa: BLE001
            out.append(repr(x))
    return out


def exec_call(call, limit):
    """one interface call -> record {"status", "val" | "msg", "warn", "s"}"""
    import cotengra as ctg
    from . import c05 as base
    extra = {}
    if "raw" in call:
        raw = call["raw"]
        inputs = [tuple(t) for t in raw["inputs"]]
        output = tuple(raw["output"])
        sd = raw["size_dict"]
        n = len(inputs)
        o = raw["optimize"]
        if "preset" in o:
            opt = o["preset"]
        else:
            seq = [tuple(x) if isinstance(x, list) else x for x in o["seq"]]
            opt = tuple(seq) if o["container"] == "tuple" else list(seq)
        extra = {k: ([tuple(x) for x in v] if k == "shapes" else v) for k, v in raw.get("kw", {}).items()}
    else:
        net = gen.Net.from_json(call["net"])
        inputs, output, sd = net.sym_inputs(), net.sym_output(), net.sym_sizes()
        n = len(net.inputs)
        opt = build_optimize(call["opt"])

    def produce():
        if call["entry"] == "path":
            kw = dict(extra) if "raw" in call else ({} if call.get("cache") else {"cache": False})
            val = ctg.array_contract_path(inputs, output, sd, optimize=opt, **kw)
            try:
                return {"path": [_jsonable_step(s_) for s_ in val]}
            except TypeError:
                return {"path": [[repr(val)[:80]]]}
        tree = ctg.array_contract_tree(inputs, output, sd, optimize=opt, **extra)
        out = {"children": base.dump_children(tree), "N": int(getattr(tree, "N", -1)), "nested": None,
               "cls": type(tree).__name__}
        if base.tree_ok(n, out["children"]):
            out["lin"] = [[int(x) for x in s_] for s_ in tree.get_path()]
            out["ssa"] = [[int(x) for x in s_] for s_ in tree.get_ssa_path()]
            out.update(base.ordered_paths(tree, n))
        return out

    warns = []
    t0 = time.time()
    status, val = base.guarded(produce, limit=limit, warns=warns, attempts=1)
    rec = {"status": status, "warn": sorted(set(warns))[:4], "s": round(time.time() - t0, 3)}
    if status == "ok":
        rec["val"] = val
    else:
        rec["msg"] = val
    return rec


def exec_session(calls, limit, emit):
    for call in calls:
        emit(exec_call(call, call.get("limit", limit)))


def run_inprocess(calls, limit=60):
    """for replays: the calls in *this* process (which must not have called into cotengra before)"""
    out = []
    exec_session(calls, limit, out.append)
    return out


class Zygote:
    """see module docstring; `run(calls)` -> (status, [records])"""

    def __init__(self, close_fds=()):
        req_r, req_w = os.pipe()
        res_r, res_w = os.pipe()
        pid = os.fork()
        if pid == 0:
            try:
                os.close(req_w)
                os.close(res_r)
                signal.setitimer(signal.ITIMER_REAL, 0)
                signal.signal(signal.SIGALRM, signal.SIG_DFL)
                signal.signal(signal.SIGINT, signal.SIG_DFL)
                for fd in close_fds:           # the model driver's pipes are not ours
                    try:
                        os.close(fd)
                    except OSError:
                        pass
                # the library's own knob for the size of its default process pool (each pristine
                # image starts its own): keep it small
                os.environ.setdefault("COTENGRA_NUM_WORKERS", "2")
                self._serve(req_r, res_w)
            finally:
                os._exit(0)
        os.close(req_r)
        os.close(res_w)
        self.pid = pid
        self.w = os.fdopen(req_w, "w")
        self.r = res_r
        self.buf = b""
        self.sessions = 0

    # ---- zygote side -------------------------------------------------------------------------
    @staticmethod
    def _serve(req_r, res_w):
        rf = os.fdopen(req_r)
        for line in rf:
            req = json.loads(line)
            r, w = os.pipe()
            gp = os.fork()
            if gp == 0:
                code = 0
                try:
                    os.close(r)
                    wf = os.fdopen(w, "w")

                    def emit(rec):
                        wf.write(json.dumps(rec, default=str) + "\n")
                        wf.flush()
                    try:
                        exec_session(req["calls"], req["limit"], emit)
                        emit({"end": True})
                    except BaseException as e:  # noqa: BLE001
                        emit({"end": True, "harness_error": "%s: %s" % (type(e).__name__, str(e)[:200])})
                    wf.close()
                except BaseException:  # noqa: BLE001
                    code = 3
                finally:
                    os._exit(code)
            os.close(w)
            deadline = time.time() + req["total"]
            data = b""
            timed_out = False
            while True:
                left = deadline - time.time()
                if left <= 0:
                    timed_out = True
                    break
                rd, _, _ = select.select([r], [], [], min(left, 0.5))
                if rd:
                    chunk = os.read(r, 1 << 16)
                    if not chunk:
                        break
                    data += chunk
            if timed_out:
                try:
                    os.kill(gp, signal.SIGKILL)
                except ProcessLookupError:
                    pass
            _, st = os.waitpid(gp, 0)
            os.close(r)
            recs = []
            for ln in data.decode(errors="replace").split("\n"):
                if ln.strip():
                    try:
                        recs.append(json.loads(ln))
                    except ValueError:
                        pass
            ended = bool(recs) and recs[-1].get("end")
            herr = recs[-1].get("harness_error") if ended else None
            if ended:
                recs = recs[:-1]
            status = "ok" if ended and not herr else ("harness-error" if herr else
                                                      ("no-termination" if timed_out else "process-killed"))
            out = {"status": status, "records": recs, "detail": herr or ("exit status %s" % st)}
            os.write(res_w, (json.dumps(out) + "\n").encode())

    # ---- parent side -------------------------------------------------------------------------
    def run(self, calls, limit=60, total=None):
        total = total or (limit * len(calls) + 30)
        self.w.write(json.dumps({"calls": calls, "limit": limit, "total": total}) + "\n")
        self.w.flush()
        self.sessions += 1
        deadline = time.time() + total + 60
        while b"\n" not in self.buf:
            left = deadline - time.time()
            if left <= 0:
                raise RuntimeError("session driver does not answer")
            rd, _, _ = select.select([self.r], [], [], min(left, 1.0))
            if rd:
                chunk = os.read(self.r, 1 << 16)
                if not chunk:
                    raise RuntimeError("session driver died")
                self.buf += chunk
        line, self.buf = self.buf.split(b"\n", 1)
        out = json.loads(line)
        return out["status"], out["records"], out.get("detail")

    def close(self):
        try:
            self.w.close()
        except Exception:  # noqa: BLE001
            pass
        try:
            os.waitpid(self.pid, 0)
        except Exception:  # noqa: BLE001
            pass
