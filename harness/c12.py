"""C12 -- the einsum front end accepts what numpy.einsum accepts and means the same.

Lean side (Props/C12.lean): theorems about the model of the parsers (Model/EinsumFront.lean):
ellipsis expansion is numpy's documented rule (fresh, distinct symbols; right alignment; rank;
output placement), canonicalisation is an injective renaming and renamings do not change the value,
implicit outputs are ordered as documented, the interleaved form converts to the equation of the
renamed sublists, the single-operand fast paths compute the single-operand einsum, ncon's output
order is -1, -2, ...

Tie, on every run:
  (E)  real `parse_equation_ellipses`, `convert_from_interleaved`, `canonicalize_inputs`,
       `find_output_from_inputs`, `find_output_str`, `get_symbol`, the fast path chosen by
       `_build_expression`, ncon's output  ==  the Lean model, on generated call forms;
Oracle (implementation only; the specification named by the property is numpy.einsum itself):
       `cotengra.einsum(*args)` == `numpy.einsum(*args)` on integer arrays for every generated call
       form numpy accepts; `array_contract` / `ncon` == numpy.einsum of the equivalent equation
       built by the harness with the documented output order.
"""

import itertools
import sys

import numpy as np

import cotengra as ctg
from cotengra import utils as cu
from cotengra import interface as ci

PROP = "C12"
LEVEL = "proof"
LEVEL_TEXT = (
    "Lean 4 theorems about the model of the front-end parsers, for all equations/labels/ranks: the ellipsis "
    "expansion uses pairwise distinct symbols that do not occur in any input term, each operand's '...' becomes "
    "the last k_i of them (right alignment) so that the expanded term has the operand's rank, an explicit "
    "output '...' becomes all of them and an implicit output is them followed by the sorted once-only symbols "
    "(numpy's documented semantics); canonicalisation is a renaming that is injective on the labels in use and "
    "commutes with the implicit-output rule, and an injective renaming does not change the einsum value; "
    "implicit outputs are in appearance order (array_contract) / sorted order (strings); the single-operand "
    "fast paths equal the single-operand einsum; ncon outputs are -1,-2,.... The parser models are tied to "
    "/repo on every run by equality correspondence, and the meaning of every generated call form is compared "
    "with numpy.einsum itself on integer arrays."
)
LEVEL_NOTE = (
    "Partial proof: the theorems are about parsing and relabelling (and the single-operand paths); that the "
    "multi-operand contraction of the parsed network equals numpy.einsum is C01's theorem plus the differential "
    "run here. Trusted: Lean kernel, the hand-written parser model (validated on the generated forms), numpy as "
    "the specification, harness canonicalisation (characters -> code points, labels -> naturals)."
)
TECHNIQUE = ("Lean 4 proof about the parser model (list induction, injectivity of get_symbol, renaming of the "
             "summation environment) + equality correspondence of every parser + differential against numpy.einsum")
LEAN_MODULES = ["CotengraVerif.Props.C12"]
THEOREMS = [
    "Cotengra.C12.ellipsis_expansion_spec",
    "Cotengra.C12.canonicalize_is_renaming",
    "Cotengra.C12.rename_preserves_einsum",
    "Cotengra.C12.implicit_output_documented",
    "Cotengra.C12.find_output_str_sorted",
    "Cotengra.C12.interleaved_eq",
    "Cotengra.C12.interleaved_implicit_counterexample",
    "Cotengra.C12.single_operand_paths_sound",
    "Cotengra.C12.singlePath_ok",
    "Cotengra.C12.ncon_output_order",
]
TRUSTED = [
    "Lean 4.33 kernel; axioms ⊆ {propext, Classical.choice, Quot.sound}",
    "Model/EinsumFront.lean: hand transcription of utils.py:784-830, 1184-1207, 1405-1617 and "
    "interface.py:584-621, 1126-1137, tied by equality correspondence on the generated call forms only",
    "numpy.einsum as the specification (named by the property); integer arrays, exact comparison",
    "harness canonicalisation (characters -> code points; hashable labels -> naturals by first appearance)",
]
ASSUMPTIONS = [
    "only call forms that numpy.einsum itself accepts are judged (numpy is called first)",
    "numpy backend, integer arrays, optimize='auto'; the contraction engine behind the front end is C01's subject",
    "labels of array_contract are hashable python objects; ncon labels are python ints",
]
RULE = ("random call forms: 1-4 operands over a pool of symbols that deliberately contains a, b, c (the first fresh "
        "symbols), each operand with optional '...' at a random position standing for 0-2 leading-aligned "
        "broadcast dimensions (different per operand), repeated labels, implicit or explicit output (with or "
        "without '...'), written as a string, with spaces, or interleaved with integer labels in random order; "
        "array_contract with arbitrary hashable labels; ncon; sizes from {1,2,3}. non-trivial = an ellipsis on "
        ">= 1 operand, or >= 3 operands, or an implicit output with >= 2 output labels; distinct by content hash")
BUDGET = {"quick": 600, "thorough": 3000}

POOL = "abcdeABZ"


def cp(s):
    return [ord(c) for c in s]


# ----------------------------------------------------------------------------------------------
# generation of one call form

def gen_form(rng, tier):
    nops = rng.choice([1, 1, 2, 2, 2, 3, 3, 4])
    nsym = rng.randrange(1, 6)
    syms = rng.sample(POOL, nsym)
    sizes = {s: rng.choice([1, 2, 2, 3, 3]) for s in syms}
    use_ell = rng.random() < 0.55
    ell_sizes = [rng.choice([1, 2, 3]) for _ in range(2)]
    terms, nbs = [], []
    for _ in range(nops):
        k = rng.choice([0, 1, 1, 2, 2, 3])
        t = [rng.choice(syms) for _ in range(k)]
        if rng.random() < 0.85:  # mostly no repeated label inside one operand
            t = list(dict.fromkeys(t))
        if use_ell and rng.random() < 0.7:
            pos = rng.randrange(len(t) + 1)
            t = t[:pos] + ["..."] + t[pos:]
            nbs.append(rng.choice([0, 1, 1, 2, 2]))
        else:
            nbs.append(None)
        terms.append(t)
    named = [s for t in terms for s in t if s != "..."]
    has_ell = any(nb is not None for nb in nbs)
    if rng.random() < 0.4:
        output = None
    else:
        cand = list(dict.fromkeys(named))
        k = rng.randrange(0, len(cand) + 1)
        output = rng.sample(cand, k)
        if (has_ell and rng.random() < 0.9) or (not has_ell and rng.random() < 0.06):
            pos = rng.randrange(len(output) + 1)
            output = output[:pos] + ["..."] + output[pos:]
    shapes = []
    for t, nb in zip(terms, nbs):
        sh = []
        for s in t:
            if s == "...":
                sh.extend(ell_sizes[len(ell_sizes) - nb:])
            else:
                sh.append(sizes[s])
        shapes.append(sh)
    return {"terms": terms, "output": output, "shapes": shapes}


def eq_of(form, spaces_rng=None):
    lhs = ",".join("".join(t) for t in form["terms"])
    eq = lhs if form["output"] is None else lhs + "->" + "".join(form["output"])
    if spaces_rng is not None:
        out = []
        for ch in eq.replace("->", "\x00").replace("...", "\x01"):
            if spaces_rng.random() < 0.3:
                out.append(" ")
            out.append(ch)
        eq = "".join(out).replace("\x00", "->").replace("\x01", "...") + (" " if spaces_rng.random() < 0.3 else "")
    return eq


def arrays_of(rs, shapes):
    return [rs.integers(-3, 4, size=tuple(s), dtype=np.int64) for s in shapes]


def interleaved_args(form, rng, arrays):
    """the same call in numpy's interleaved form, integer labels drawn at random (so that the
    order of the labels differs from their order of appearance)"""
    named = list(dict.fromkeys(s for t in form["terms"] for s in t if s != "..."))
    if form["output"] is not None:
        named += [s for s in form["output"] if s != "..." and s not in named]
    ints = rng.sample(range(0, 52), len(named))
    m = dict(zip(named, ints))
    args, sub = [], []
    for x, t in zip(arrays, form["terms"]):
        lab = [Ellipsis if s == "..." else m[s] for s in t]
        args += [x, lab]
        sub.append([None if s == "..." else m[s] for s in t])
    osub = None
    if form["output"] is not None:
        args.append([Ellipsis if s == "..." else m[s] for s in form["output"]])
        osub = [None if s == "..." else m[s] for s in form["output"]]
    return args, sub, osub


def detect_cfg():
    """which variant of the three repaired behaviours the code under /repo implements, decided by its
    behaviour on one witness each (the Lean model has both variants of each)."""
    cfg = {}
    try:
        ins, _ = cu.parse_equation_ellipses("a b->ba", ((2, 3),), tuples=True)
        cfg["strip_spaces"] = (ins == (("a", "b"),))
    except Exception:  # noqa: BLE001
        cfg["strip_spaces"] = False
    try:
        _, out = cu.parse_equation_ellipses("ab->...ab", ((2, 3),), tuples=True)
        cfg["out_only_ellipsis"] = (tuple(out) == ("a", "b"))
    except Exception:  # noqa: BLE001
        cfg["out_only_ellipsis"] = False
    try:
        eq, _ = cu.convert_from_interleaved((None, [1, 0]))
        cfg["sorted_implicit"] = "->" in eq
    except Exception:  # noqa: BLE001
        cfg["sorted_implicit"] = False
    return cfg


def canon_terms(terms, output, fixed=()):
    """rename every symbol that is not in `fixed` by order of first appearance (inputs, then output):
    which fresh symbols a parser picks is its own business, only the structure is compared"""
    m = {}
    def r(c):
        if c in fixed:
            return c
        if c not in m:
            m[c] = -(len(m) + 1)
        return m[c]
    return {"inputs": [[r(c) for c in t] for t in terms], "output": [r(c) for c in output]}


def canon_eq(cps_, keep=(44, 45, 46, 62)):
    """an equation string up to renaming of its symbols (separators and dots kept)"""
    m = {}
    out = []
    for c in cps_:
        if c in keep:
            out.append(c)
        else:
            if c not in m:
                m[c] = -(len(m) + 1)
            out.append(m[c])
    return out


def same(val, ref):
    v, r = np.asarray(val), np.asarray(ref)
    return v.shape == r.shape and bool(np.array_equal(v, r))


def call(f):
    try:
        return True, f()
    except Exception as e:  # noqa: BLE001
        return False, e


# ----------------------------------------------------------------------------------------------
# executing a self-contained case on the real code

import warnings as _w
_w.filterwarnings("ignore", message="Contraction cache disabled")

OPT_CHOICES = {
    "optimize": ["greedy", "optimal", "auto-hq", "random-greedy", "eager", "explicit-path"],
    "cache_expression": [False],
    "sort_contraction_indices": [True],
    "prefer_einsum": [True],
    "implementation": ["cotengra", "autoray"],
    "backend": ["numpy"],
    "via": ["identity"],
}


def draw_opts(rng):
    """Execution / planning options of the front end: the value must not depend on any of them."""
    if rng.random() < 0.45:
        return {}
    return {k: rng.choice(OPT_CHOICES[k]) for k in rng.sample(sorted(OPT_CHOICES), rng.choice([1, 1, 2, 3]))}


def _kw(case, nops):
    kw = dict(case.get("opts") or {})
    if kw.get("via") == "identity":
        # `via=(convert_in, convert_out)`: a pair of callables applied to the operands / the result
        kw["via"] = (np.asarray, np.asarray)
    if kw.get("optimize") == "explicit-path":
        # an explicit linear path: always contract the first two remaining operands
        kw["optimize"] = tuple((0, 1) for _ in range(max(nops - 1, 0)))
        if nops < 2:
            kw.pop("optimize")
    return kw


def run_real(case):
    """(ok, detail).  ok=True also when numpy itself rejects the call (nothing to compare)."""
    kind = case["kind"]
    kw = _kw(case, len(case["shapes"]))
    arrays = [np.array(d, dtype=np.int64).reshape(s) for d, s in zip(case["data"], case["shapes"])]
    if kind == "einsum-str":
        args = (case["eq"], *arrays)
    elif kind == "einsum-interleaved":
        args = []
        for x, lab in zip(arrays, case["sublists"]):
            args += [x, [Ellipsis if v is None else v for v in lab]]
        if case["out_sublist"] is not None:
            args.append([Ellipsis if v is None else v for v in case["out_sublist"]])
        args = tuple(args)
    elif kind in ("array_contract", "ncon"):
        ok_r, ref = call(lambda: np.einsum(case["ref_eq"], *arrays))
        if not ok_r:
            return True, "reference rejects"
        if kind == "ncon":
            ok_v, val = call(lambda: ctg.ncon(arrays, [list(t) for t in case["indices"]], **kw))
        else:
            labels = [[decode_label(v) for v in t] for t in case["inputs"]]
            out = None if case["output"] is None else [decode_label(v) for v in case["output"]]
            ok_v, val = call(lambda: ctg.array_contract(arrays, labels, out, **kw))
        if not ok_v:
            return False, f"{type(val).__name__}: {val}"
        return (True, "") if same(val, ref) else (False, f"wrong value/shape: got shape {np.shape(val)}, want {ref.shape}")
    else:
        raise ValueError(kind)
    ok_r, ref = call(lambda: np.einsum(*args))
    if not ok_r:
        return True, "numpy rejects"
    ok_v, val = call(lambda: ctg.einsum(*args, **kw))
    if not ok_v:
        return False, f"{type(val).__name__}: {val}"
    return (True, "") if same(val, ref) else (False, f"wrong value/shape: got shape {np.shape(val)}, want {ref.shape}")


def encode_label(v):
    if isinstance(v, tuple):
        return {"t": [encode_label(x) for x in v]}
    if isinstance(v, frozenset):
        return {"f": sorted(encode_label(x) for x in v)}
    return v


def decode_label(v):
    if isinstance(v, dict):
        if "t" in v:
            return tuple(decode_label(x) for x in v["t"])
        return frozenset(decode_label(x) for x in v["f"])
    return v


# ----------------------------------------------------------------------------------------------
# streams

def features_of(form):
    f = []
    n_ell = sum(1 for t in form["terms"] if "..." in t)
    if n_ell:
        f.append("ellipsis")
    f.append("implicit" if form["output"] is None else "explicit")
    if form["output"] is not None and "..." in form["output"]:
        f.append("out-ellipsis")
    if any(len(t) != len(set(t)) for t in form["terms"]):
        f.append("repeated")
    return f, n_ell


def stream_einsum(ctx, drv, st, n):
    for _ in range(n):
        if ctx.time_left() < 15:
            return
        form = gen_form(ctx.rng, ctx.tier)
        arrays = arrays_of(st["rs"], form["shapes"])
        feats, n_ell = features_of(form)
        nops = len(form["terms"])
        eq = eq_of(form)
        ok_np, ref = call(lambda: np.einsum(eq, *arrays))
        if not ok_np:
            ctx.count("numpy_rejects")
            # still tie the parser: model and real must agree on what they return or raise
            tie_parse(ctx, drv, st, eq, form["shapes"])
            continue
        out_only_ell = ("out-ellipsis" in feats) and n_ell == 0
        base = {"shapes": form["shapes"], "data": [[int(v) for v in x.ravel()] for x in arrays]}
        nontrivial = n_ell >= 1 or nops >= 3 or (form["output"] is None and ref.ndim >= 2)
        ctx.count("operands:%d" % nops)
        for f in feats:
            ctx.count("feature:" + f)
        ctx.count("ellipsis_operands:%d" % n_ell)
        ctx.count("out_rank:%d" % ref.ndim)
        # 1. plain string
        case = dict(base, kind="einsum-str", eq=eq)
        ctx.case(case, nontrivial=nontrivial, sample=n_ell >= 2 and nops >= 2)
        ok, detail = run_real(case)
        if not ok:
            cls = "output-only-ellipsis" if out_only_ell else "string"
            ctx.violation({"site": "einsum", "form": cls}, case, f"cotengra.einsum({eq!r}, ...) vs numpy: {detail}")
        else:
            tie_parse(ctx, drv, st, eq, form["shapes"])
        # 1b. the same call with planning / execution options: the value does not depend on them
        if ok and ctx.rng.random() < 0.35:
            opts = draw_opts(ctx.rng)
            if opts:
                case = dict(base, kind="einsum-str", eq=eq, opts=opts)
                ctx.case(case, nontrivial=nontrivial, sample=False)
                for k_, v_ in opts.items():
                    ctx.count("option:%s=%s" % (k_, v_))
                ok2, detail = run_real(case)
                if not ok2:
                    ctx.violation({"site": "einsum", "form": "options", "opts": sorted(opts)}, case,
                                  f"cotengra.einsum({eq!r}, ..., **{opts}) vs numpy: {detail}")
        # 2. with spaces
        if ctx.rng.random() < 0.25:
            eqs = eq_of(form, ctx.rng)
            if " " in eqs and call(lambda: np.einsum(eqs, *arrays))[0]:
                case = dict(base, kind="einsum-str", eq=eqs)
                ctx.case(case, nontrivial=False, sample=False)
                ctx.count("form:spaces")
                ok, detail = run_real(case)
                if not ok:
                    ctx.violation({"site": "einsum", "form": "spaces"}, case,
                                  f"cotengra.einsum({eqs!r}, ...) vs numpy: {detail}")
                tie_parse(ctx, drv, st, eqs, form["shapes"])
        # 3. interleaved
        if ctx.rng.random() < 0.5 and not out_only_ell:
            args, sub, osub = interleaved_args(form, ctx.rng, arrays)
            if call(lambda: np.einsum(*args))[0]:
                case = dict(base, kind="einsum-interleaved", sublists=sub, out_sublist=osub)
                ctx.case(case, nontrivial=nontrivial, sample=False)
                ctx.count("form:interleaved-" + ("implicit" if osub is None else "explicit"))
                ok, detail = run_real(case)
                if not ok:
                    flat = [v for t in sub for v in t if v is not None]
                    order = list(dict.fromkeys(flat))
                    unsorted = order != sorted(order)
                    cls = "interleaved-implicit-unsorted-labels" if (osub is None and unsorted) else \
                        "interleaved"
                    ctx.violation({"site": "einsum", "form": cls}, case,
                                  f"cotengra.einsum(<interleaved> {sub} -> {osub}) vs numpy: {detail}")
                # the conversion itself
                try:
                    r_eq, _ = cu.convert_from_interleaved(args)
                    real = {"eq": cp(r_eq)}
                except KeyError:
                    real = {"err": "KeyError"}
                resp = drv.call("c12.interleaved", inputs=sub, output=osub, **st["cfg"])
                ctx.traces += 1
                if "eq" in real and "eq" in resp and (osub is not None or st["cfg"]["sorted_implicit"]):
                    # the output is explicit: the symbols themselves are free
                    real, resp = {"eq": canon_eq(real["eq"])}, {"eq": canon_eq(resp["eq"])}
                if resp != real:
                    ctx.corr_broken("convert_from_interleaved differs from the model",
                                    {"sublists": sub, "out": osub, "real": real, "model": resp})


def tie_parse(ctx, drv, st, eq, shapes):
    try:
        ins, out = cu.parse_equation_ellipses(eq, tuple(tuple(s) for s in shapes), tuples=True)
        real = {"inputs": [cp(t) for t in ins], "output": cp(out)}
    except ValueError:
        real = {"err": "ValueError"}
    except Exception as e:  # noqa: BLE001  (outside the model's error enum: not compared)
        ctx.count("parse_other_exception:" + type(e).__name__)
        return
    resp = drv.call("c12.parse", eq=cp(eq), ranks=[len(s) for s in shapes], **st["cfg"])
    ctx.traces += 1
    ctx.count("parse:" + ("err" if "err" in real else "ok"))
    if "err" not in real and "err" not in resp:
        # symbols that are not in the equation (the ellipsis expansion) are free up to renaming
        fixed = set(cp(eq))
        real = canon_terms(real["inputs"], real["output"], fixed)
        resp = canon_terms(resp["inputs"], resp["output"], fixed)
    if resp != real:
        ctx.corr_broken("parse_equation_ellipses differs from the model", {"eq": eq, "ranks": [len(s) for s in shapes],
                                                                          "real": real, "model": resp})


LABEL_POOLS = [
    lambda rng: rng.randrange(-5, 60),
    lambda rng: rng.choice(["x", "yy", "bond1", "a", "b", "k0"]),
    lambda rng: (rng.randrange(3), rng.choice("lr")),
    lambda rng: frozenset([rng.randrange(4), rng.randrange(4)]),
]


def stream_array_contract(ctx, drv, st, n):
    letters = "abcdefghijklmnopqrstuvwxyzABCDEFGHIJKLMNOPQRSTUVWXYZ"
    for _ in range(n):
        if ctx.time_left() < 15:
            return
        wide = ctx.rng.random() < 0.04
        if wide:
            # many labels (more than the 26 lower-case symbols the canonicalisation hands out first): an open chain
            # with a few dangling legs; almost all dimensions are 1 so that the reference stays cheap
            nops = ctx.rng.randint(24, 44)
            nlab = nops + 1
            labels = ctx.rng.sample(range(-200, 900), nlab + 6)
            inputs = [[k, k + 1] for k in range(nops)]
            extra = nlab
            for _ in range(ctx.rng.choice([0, 1, 2, 3])):
                inputs[ctx.rng.randrange(nops)].insert(ctx.rng.randrange(3), extra)
                extra += 1
            nlab = extra
            sizes = {i: (1 if ctx.rng.random() < 0.85 else ctx.rng.choice([2, 3])) for i in range(nlab)}
            for e in (0, nops, nops + 1, nops + 2):
                if e < nlab:
                    sizes[e] = ctx.rng.choice([2, 3, 4])
            ctx.count("array_contract:wide(>26 labels)" if nlab > 26 else "array_contract:wide")
        else:
            nops = ctx.rng.choice([1, 1, 2, 2, 3, 4])
            nlab = ctx.rng.randrange(1, 6)
            labels = []
            while len(labels) < nlab:
                lab = ctx.rng.choice(LABEL_POOLS)(ctx.rng)
                if lab not in labels:
                    labels.append(lab)
            sizes = {i: ctx.rng.choice([1, 2, 3]) for i in range(nlab)}
            inputs = []
            for _ in range(nops):
                k = ctx.rng.choice([0, 1, 2, 2, 3])
                t = [ctx.rng.randrange(nlab) for _ in range(k)]
                if ctx.rng.random() < 0.85:
                    t = list(dict.fromkeys(t))
                inputs.append(t)
        flat = [i for t in inputs for i in t]
        appear = list(dict.fromkeys(flat))
        if ctx.rng.random() < (0.8 if wide else 0.5):
            output = None
            # documented: the indices that appear once, in the order they appear on the inputs
            ref_out = [i for i in appear if flat.count(i) == 1]
        else:
            output = ctx.rng.sample(appear, ctx.rng.randrange(0, len(appear) + 1))
            ref_out = output
        # harness-side equation: letters in *label number* order, unrelated to cotengra's symbols
        ref_eq = ",".join("".join(letters[i] for i in t) for t in inputs) + "->" + "".join(letters[i] for i in ref_out)
        shapes = [[sizes[i] for i in t] for t in inputs]
        arrays = arrays_of(st["rs"], shapes)
        case = {"kind": "array_contract", "shapes": shapes, "data": [[int(v) for v in x.ravel()] for x in arrays],
                "inputs": [[encode_label(labels[i]) for i in t] for t in inputs],
                "output": None if output is None else [encode_label(labels[i]) for i in output], "ref_eq": ref_eq}
        ctx.case(case, nontrivial=nops >= 2 and (output is None and len(ref_out) >= 2 or nops >= 3), sample=False)
        ctx.count("array_contract:" + ("implicit" if output is None else "explicit") + ":%d" % min(nops, 5))
        if ctx.rng.random() < 0.3:
            case["opts"] = draw_opts(ctx.rng)
            for k_, v_ in case["opts"].items():
                ctx.count("option:%s=%s" % (k_, v_))
        ok, detail = run_real(case)
        if not ok:
            ctx.violation({"site": "array_contract", "form": "implicit" if output is None else "explicit"}, case,
                          f"array_contract(inputs={inputs}, output={output}) vs numpy {ref_eq!r}: {detail}")
            continue
        # canonicalisation
        lab_in = [[labels[i] for i in t] for t in inputs]
        lab_out = None if output is None else [labels[i] for i in output]
        ni, no, _, _ = cu.canonicalize_inputs(lab_in, lab_out)
        real = canon_terms([cp(t) for t in ni], cp(no))
        resp = drv.call("c12.canon", inputs=inputs, output=output)
        if "error" not in resp:
            resp = canon_terms(resp["inputs"], resp["output"])
        ctx.traces += 1
        if resp != real:
            ctx.corr_broken("canonicalize_inputs differs from the model", {"inputs": inputs, "output": output,
                                                                           "real": real, "model": resp})
        r2 = drv.call("c12.findout", inputs=inputs)
        real2 = [labels.index(x) for x in cu.find_output_from_inputs(lab_in)]
        if r2.get("output") != real2:
            ctx.corr_broken("find_output_from_inputs differs from the model", {"inputs": inputs, "real": real2,
                                                                               "model": r2})


def _spy_ncon_output(arrays, indices):
    """What `ncon` hands to `array_contract` (observed through a wrapper installed for the duration of one
    call; `None` when ncon no longer goes through the module-level name -- then nothing is compared)."""
    import cotengra.interface as I
    orig = I.array_contract
    seen = {}

    def spy(arrays_, inputs, output=None, *a, **k):
        seen["inputs"] = [list(t) for t in inputs]
        seen["output"] = None if output is None else list(output)
        return orig(arrays_, inputs, output, *a, **k)
    I.array_contract = spy
    try:
        I.ncon(arrays, [list(t) for t in indices])
    except Exception:
        pass
    finally:
        I.array_contract = orig
    return seen or None


def stream_ncon(ctx, drv, st, n):
    """ncon: negative labels are the output (-1, -2, ... in that order, each once), everything else is summed.
    Labels may repeat: a negative label twice on one tensor (diagonal kept), on several tensors (batch /
    hyper output index), a positive label once (summed alone), twice (ordinary bond), three times (hyper)."""
    letters = "abcdefghijklmnopqrstuvwxyz"
    for _ in range(n):
        if ctx.time_left() < 15:
            return
        nops = ctx.rng.choice([1, 1, 2, 2, 3, 3])
        nout = ctx.rng.randrange(0, 4)
        ncon_ = ctx.rng.randrange(0, 4)
        plain = ctx.rng.random() < 0.4
        slots = []
        for k in range(nout):
            slots += [-(k + 1)] * (1 if plain else ctx.rng.choice([1, 1, 1, 2, 2, 3]))
        for k in range(ncon_):
            slots += [k + 1] * (2 if plain else ctx.rng.choice([2, 2, 2, 1, 3]))
        ctx.rng.shuffle(slots)
        indices = [[] for _ in range(nops)]
        for s in slots:
            indices[ctx.rng.randrange(nops)].append(s)
        sizes = {s: ctx.rng.choice([1, 2, 3]) for s in set(slots)}
        shapes = [[sizes[s] for s in t] for t in indices]
        arrays = arrays_of(st["rs"], shapes)
        lm = {s: letters[k] for k, s in enumerate(sorted(set(slots)))}
        ref_eq = ",".join("".join(lm[s] for s in t) for t in indices) + "->" + "".join(lm[-(k + 1)] for k in range(nout))
        case = {"kind": "ncon", "shapes": shapes, "data": [[int(v) for v in x.ravel()] for x in arrays],
                "indices": indices, "ref_eq": ref_eq}
        if ctx.rng.random() < 0.3:
            case["opts"] = draw_opts(ctx.rng)
            for k_, v_ in case["opts"].items():
                ctx.count("option:%s=%s" % (k_, v_))
        rep_neg = any(slots.count(-(k + 1)) > 1 for k in range(nout))
        rep_neg_same = any(t.count(s) > 1 for t in indices for s in t if s < 0)
        ctx.case(case, nontrivial=(nout >= 2 and nops >= 2) or rep_neg, sample=False)
        ctx.count("ncon:out%d" % nout)
        ctx.count("ncon:ops%d" % nops)
        if rep_neg:
            ctx.count("ncon:negative-label-repeated" + ("-within-one-tensor" if rep_neg_same else "-across-tensors"))
        if any(slots.count(k + 1) != 2 for k in range(ncon_)):
            ctx.count("ncon:positive-label-not-twice")
        ok, detail = run_real(case)
        if not ok:
            ctx.violation({"site": "ncon"}, case, f"ncon(indices={indices}) vs numpy {ref_eq!r}: {detail}")
            continue
        resp = drv.call("c12.ncon", indices=indices)
        ctx.traces += 1
        want = sorted({s for s in slots if s < 0}, reverse=True)
        if resp.get("output") != want:
            ctx.corr_broken("ncon output order differs from the model", {"indices": indices, "model": resp})
            continue
        # the real output list handed to array_contract versus the model's nconOutput
        seen = _spy_ncon_output(arrays, indices)
        if seen is None or seen.get("output") is None:
            ctx.count("ncon:output-not-observable")
        else:
            ctx.count("ncon:output-observed")
            if seen["output"] != resp.get("output") or seen["inputs"] != [list(t) for t in indices]:
                ctx.corr_broken("ncon: (inputs, output) handed to array_contract differ from the model's nconOutput",
                                {"indices": indices, "real": seen, "model": resp})


def stream_letter_rich(ctx, drv, st, n):
    """equations that use (almost) all 52 letters, with ellipses: the symbols for the expanded `...` must then come
    from outside the letters (numpy accepts these calls)"""
    import string
    alphabet = string.ascii_lowercase + string.ascii_uppercase
    for _ in range(n):
        if ctx.time_left() < 15:
            return
        L = ctx.rng.choice([46, 49, 50, 51, 52, 52])
        used = ctx.rng.sample(alphabet, L)
        nops = ctx.rng.choice([2, 3, 4])
        terms = [[] for _ in range(nops)]
        for ch in used:
            terms[ctx.rng.randrange(nops)].append(ch)
            if ctx.rng.random() < 0.3:
                terms[ctx.rng.randrange(nops)].append(ch)
        sz = {ch: (1 if ctx.rng.random() < 0.9 else 2) for ch in used}
        ell = ctx.rng.sample(range(nops), ctx.rng.choice([1, 1, 2]))
        ndots = ctx.rng.choice([1, 1, 2, 3])
        eq_terms, shapes = [], []
        for k, t in enumerate(terms):
            t = list(dict.fromkeys(t))
            if k in ell:
                pos = ctx.rng.choice([0, len(t)])
                eq_terms.append("".join(t[:pos]) + "..." + "".join(t[pos:]))
                shapes.append([sz[c] for c in t[:pos]] + [2] * ndots + [sz[c] for c in t[pos:]])
            else:
                eq_terms.append("".join(t))
                shapes.append([sz[c] for c in t])
        eq = ",".join(eq_terms)
        if ctx.rng.random() < 0.5:
            flat = "".join(eq_terms).replace(".", "")
            once = [c for c in dict.fromkeys(flat) if flat.count(c) == 1]
            eq += "->..." + "".join(ctx.rng.sample(once, min(len(once), ctx.rng.choice([0, 1, 2]))))
        arrays = arrays_of(st["rs"], shapes)
        if not call(lambda: np.einsum(eq, *arrays))[0]:
            ctx.count("letter_rich:numpy-rejects")
            continue
        case = {"kind": "einsum-str", "eq": eq, "shapes": shapes, "data": [[int(v) for v in x.ravel()] for x in arrays]}
        ctx.case(case, nontrivial=True, sample=False)
        ctx.count("letter_rich:%d-letters" % L)
        ok, detail = run_real(case)
        if not ok:
            ctx.violation({"site": "einsum", "form": "letter-rich-ellipsis"}, case,
                          f"cotengra.einsum({eq!r}, ...) vs numpy: {detail}")
        else:
            tie_parse(ctx, drv, st, eq, shapes)


def stream_single(ctx, drv, st):
    """every single-operand term over <= 3 symbols of rank <= 3 with every output: fast path + value"""
    from .c11 import rgs, all_outputs
    for n in range(0, 4):
        for t in rgs(n, 3):
            for out in all_outputs(sorted(set(t))):
                if len(set(t)) < len(t) and ctx.rng.random() < 0.5:
                    continue
                sz = {i: ctx.rng.choice([1, 2, 3]) for i in set(t)}
                sh = [sz[i] for i in t]
                x = arrays_of(st["rs"], [sh])[0]
                eq = "".join(chr(97 + i) for i in t) + "->" + "".join(chr(97 + i) for i in out)
                case = {"kind": "einsum-str", "eq": eq, "shapes": [sh], "data": [[int(v) for v in x.ravel()]]}
                ctx.case(case, nontrivial=False, sample=False)
                ok, detail = run_real(case)
                if not ok:
                    ctx.violation({"site": "einsum", "form": "single-operand"}, case,
                                  f"cotengra.einsum({eq!r}, x) vs numpy: {detail}")
                    continue
                term = tuple(chr(97 + i) for i in t)
                o = tuple(chr(97 + i) for i in out)
                fn = ci._build_expression((term,), o, {chr(97 + i): d for i, d in sz.items()})
                fv = fn.__code__.co_freevars
                real = {"path": "transpose" if "perm" in fv else "einsum" if "eq" in fv else "identity"}
                if real["path"] == "transpose":
                    real["perm"] = list(fn.__closure__[fv.index("perm")].cell_contents)
                # (A) the path the real code took must be admissible (Lean `pathOK`, proved sound); which
                # admissible path it takes is its own business
                resp = drv.call("c12.pathok", term=list(t), output=list(out), **real)
                model = drv.call("c12.single", term=list(t), output=list(out))
                ctx.traces += 1
                ctx.count("single_path:" + real["path"])
                if model != real:
                    ctx.count("single_path_differs_from_model")
                if resp.get("ok") is not True:
                    ctx.corr_broken("the single-operand path taken is not admissible (pathOK)",
                                    {"eq": eq, "real": real, "model": model})


def stream_symbols(ctx, drv):
    idx = list(range(0, 120)) + [55154, 55155, 55156, 55157, 60000, 2000, 20000]
    resp = drv.call("c12.symbol", **{"is": idx})
    real = [ord(cu.get_symbol(i)) for i in idx]
    ctx.traces += 1
    if resp.get("cps") != real:
        ctx.corr_broken("get_symbol differs from the model", {"real": real, "model": resp})
    for lhs in ["cb,ba", "a,a", "ab,bc,cd", "zZaA", "", "abc...,...c", "aab,b"]:
        r = drv.call("c12.findout", lhs=cp(lhs))
        if r.get("output") != cp(cu.find_output_str(lhs)):
            ctx.corr_broken("find_output_str differs from the model", {"lhs": lhs, "model": r})


def stream_size1_broadcast(ctx, st):
    """numpy broadcasts a dimension of size 1 against size n, in '...' dims and for named labels;
    cotengra keeps one size per index.  Reported under its own signature."""
    todo = [("...a,...a->...", [(1, 3), (2, 3)]), ("...a,...a->...", [(2, 3), (1, 3)]),
            ("...,...->...", [(2, 1), (1, 3)]), ("ab,ab->ab", [(1, 3), (2, 3)]), ("ab,ab->ab", [(2, 3), (1, 3)]),
            ("ab,bc->ac", [(2, 1), (3, 2)]), ("a...,a...->a...", [(2, 1, 3), (2, 2, 1)])]
    for eq, shapes in todo:
        arrays = arrays_of(st["rs"], shapes)
        if not call(lambda: np.einsum(eq, *arrays))[0]:
            continue
        case = {"kind": "einsum-str", "eq": eq, "shapes": [list(s) for s in shapes],
                "data": [[int(v) for v in x.ravel()] for x in arrays]}
        ctx.case(case, nontrivial=False, sample=False)
        ok, detail = run_real(case)
        ctx.count("size1_broadcast:" + ("ok" if ok else "fail"))
        if not ok:
            ctx.violation({"site": "einsum", "form": "size1-broadcast"}, case,
                          f"cotengra.einsum({eq!r}) with shapes {shapes} (numpy broadcasts): {detail}")


def replay_corpus(ctx):
    import glob
    import json
    import os
    from . import common
    for f in sorted(glob.glob(os.path.join(common.VERIF, "corpus", PROP, "*.json"))):
        obj = json.load(open(f))
        case = obj.get("replay", obj)
        ctx.count("corpus_replayed")
        ok, detail = run_real(case)
        ctx.case(case, nontrivial=True, sample=False)
        if not ok:
            sig = obj.get("signature") or {"site": "corpus", "file": os.path.basename(f)}
            ctx.violation(sig, case, f"corpus case {os.path.basename(f)} fails again: {detail}")


def run(ctx, drv):
    st = {"rs": np.random.default_rng(ctx.rng.randrange(1 << 32)), "cfg": detect_cfg()}
    ctx.notes["variant_of_repo"] = st["cfg"]
    replay_corpus(ctx)
    stream_symbols(ctx, drv)
    stream_size1_broadcast(ctx, st)
    stream_single(ctx, drv, st)
    q = ctx.tier == "quick"
    stream_einsum(ctx, drv, st, 5000 if q else 80000)
    stream_array_contract(ctx, drv, st, 1200 if q else 15000)
    stream_ncon(ctx, drv, st, 600 if q else 8000)
    stream_letter_rich(ctx, drv, st, 150 if q else 2000)


def search(ctx):
    rs = np.random.default_rng(ctx.rng.randrange(1 << 32))
    n = 0
    while ctx.time_left() > 30 and n < 20000:
        n += 1
        form = gen_form(ctx.rng, "thorough")
        arrays = arrays_of(rs, form["shapes"])
        eq = eq_of(form)
        case = {"kind": "einsum-str", "eq": eq, "shapes": form["shapes"],
                "data": [[int(v) for v in x.ravel()] for x in arrays]}
        ok, detail = run_real(case)
        if not ok:
            feats, n_ell = features_of(form)
            cls = "output-only-ellipsis" if ("out-ellipsis" in feats and n_ell == 0) else "string"
            if ctx.violation({"site": "einsum", "form": cls}, case,
                             f"cotengra.einsum({eq!r}, ...) vs numpy: {detail}"):
                return True
    return False


def replay(ctx, obj):
    ok, detail = run_real(obj.get("case", obj))
    if not ok:
        print("#", detail)
    return ok
