import sys
sys.path.insert(0,'/tmp/av/A')
from harness import common, gen, refimpl
import cotengra as ctg, numpy as np, random
rng=random.Random(1)
net=gen.rand_net(rng,nmin=3,nmax=4,max_inds=6,dims=(2,3))
print(net.eq(), net.sizes)
t=gen.rand_tree(rng,len(net.inputs))
tree=gen.real_tree(ctg,net,t)
inds=net.indices()
tree.remove_ind_(gen.sym(inds[0]))
tree.remove_ind_(gen.sym(net.output[0]), project=1)
tree.remove_ind_(gen.sym(inds[-1]))
print(tree.sliced_inds, tree.multiplicity, tree.nslices, tree.nchunks, tree.sliced_inputs)
print(ctg.core.get_slice_strides(tree.sliced_inds))
for i in range(tree.nslices): print(i, tree.slice_key(i))
arrs=[np.random.default_rng(0).integers(-3,4,size=s) for s in net.shapes()]
class Rec:
    def __getitem__(self, sel): return ("sel", sel)
print(tree.slice_arrays([Rec() for _ in arrs], 1))
r=tree.contract(arrs)
print(r.shape, tree.output)
for c,k in tree.gen_output_chunks(arrs, with_key=True): print(c.shape,k)
try:
    tree.remove_ind_(gen.sym(inds[0]))
except Exception as e: print(type(e).__name__, e)
try:
    tree.restore_ind_('Z')
except Exception as e: print(type(e).__name__, e)
print(tree.sliced_inds)
