import sys, warnings
sys.path.insert(0,'/tmp/av/A')
from harness import common, gen
import cotengra as ctg, random
from cotengra.pathfinders import path_basic as pb
print(pb.linear_to_ssa([(0,3),(1,2),(0,1)]), pb.ssa_to_linear([(0,3),(2,4),(1,5)]))
print(pb.linear_to_ssa([(0,),(1,2),(0,1)],4))
print(pb.ssa_to_linear(pb.linear_to_ssa([(0,),(1,2),(0,1)],4),4))
print(pb.linear_to_ssa([(0,1,2),(0,1)],4), pb.ssa_to_linear([(2,0,1),(3,4)],4))
inputs=[('a','b'),('b','c'),('c','d'),('d','a','e')]
print(pb.edge_path_to_ssa(['b','a','c','d'],inputs), pb.edge_path_to_linear(['b','a','c','d'],inputs))
try: print(pb.edge_path_to_ssa(['b','b'],inputs))
except Exception as e: print(type(e).__name__, e)
rng=random.Random(3)
net=gen.rand_net(rng,nmin=5,nmax=5,max_inds=7,dims=(2,))
t=gen.rand_tree(rng,5)
tree=gen.real_tree(ctg,net,t)
print(t, tree.get_path(), tree.get_ssa_path(), [sorted(p) for p,l,r in tree.traverse()])
for o in ("surface_order", lambda n: 0, lambda n: -len(n), lambda n: min(n)):
    print(tree.get_path(o), tree.get_ssa_path(o), [sorted(p) for p,l,r in tree.traverse(o)])
t2=ctg.ContractionTree.from_path(net.sym_inputs(),net.sym_output(),net.sym_sizes(),path=[(0,),(1,2)],autocomplete=False)
print(sorted(map(sorted,t2.children)), t2.is_complete())
t3=ctg.ContractionTree.from_path(net.sym_inputs(),net.sym_output(),net.sym_sizes(),ssa_path=[(0,1,2),(3,5)],autocomplete=True)
print(sorted(map(sorted,t3.children)))
print(tree.surface_order(tree.root))
