import CotengraVerif.Driver.All

open Lean Cotengra.Driver

partial def loop (h : IO.FS.Stream) (out : IO.FS.Stream) : IO Unit := do
  let line ← h.getLine
  if line.isEmpty then return ()
  let res : Json :=
    match Json.parse line with
    | .error e => jObj [("error", jStr s!"parse: {e}")]
    | .ok j =>
      match field j "op" >>= (·.getStr?) with
      | .error e => jObj [("error", jStr s!"op: {e}")]
      | .ok op =>
        match dispatch op j with
        | .ok r => r
        | .error e => jObj [("error", jStr e)]
  out.putStrLn res.compress
  out.flush
  loop h out

def main : IO Unit := do loop (← IO.getStdin) (← IO.getStdout)
