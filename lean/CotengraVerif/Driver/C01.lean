import CotengraVerif.Driver.Util

namespace Cotengra.Driver.C01
open Lean Cotengra Cotengra.Driver

/-- ops of property C01 (name them "c01.<op>") -/
def handlers : List (String × Handler) := []

end Cotengra.Driver.C01
