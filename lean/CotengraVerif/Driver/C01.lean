import CotengraVerif.Driver.Util
import CotengraVerif.Model.Recipes

/-!
  Driver ops of C01 (also reused by C02/C04):

  * `c01.admissible {net, removed, tree, program}` → `{admissible, why, core}`
  * `c01.extract {net, removed, tree, order, prefer_einsum, sort?}` → the model's program + inds
  * `c01.eval {net, removed, program, arrays}` → the model interpreter's result and `einsumSpec`

  JSON of a program:
  `{"pre": [{"leaf": i, "lhs": [labels], "out": [labels]}],
    "steps": [{"parent": [leaves], "left": [leaves], "right": [leaves], "tdot": bool,
               "eq": [[lA],[lB],[out]]            -- when tdot = false
               "axes": [[axA],[axB]], "perm": [..] | null   -- when tdot = true }]}`
-/
namespace Cotengra.Driver.C01
open Lean Cotengra Cotengra.Driver

def stepOfJson (j : Json) : Except String Step := do
  let parent ← natList (← field j "parent")
  let left ← natList (← field j "left")
  let right ← natList (← field j "right")
  let tdot ← (← field j "tdot").getBool?
  if tdot then
    match ← natListList (← field j "axes") with
    | [a, b] =>
      let pj := fieldD j "perm" Json.null
      let perm ← match pj with
        | .null => pure none
        | _ => do pure (some (← natList pj))
      pure { parent, left, right, recipe := .tdot a b perm }
    | _ => throw "axes must be a pair"
  else
    match ← natListList (← field j "eq") with
    | [a, b, o] => pure { parent, left, right, recipe := .einsum a b o }
    | _ => throw "eq must be [lA, lB, out]"

def preOfJson (j : Json) : Except String PreStep := do
  pure { leaf := ← natOf (← field j "leaf"), lhs := ← natList (← field j "lhs"),
         out := ← natList (← field j "out") }

def programOf (j : Json) : Except String Program := do
  let pre ← (← arrOf (fieldD j "pre" (jArr []))).mapM preOfJson
  let steps ← (← arrOf (← field j "steps")).mapM stepOfJson
  pure { pre, steps }

def jStep (s : Step) : Json :=
  let base := [("parent", jNats s.parent), ("left", jNats s.left), ("right", jNats s.right)]
  match s.recipe with
  | .einsum a b o => jObj (base ++ [("tdot", jBool false), ("eq", jNatss [a, b, o])])
  | .tdot a b perm =>
    jObj (base ++ [("tdot", jBool true), ("axes", jNatss [a, b]),
      ("perm", match perm with | none => Json.null | some p => jNats p)])

def jProgram (p : Program) : Json :=
  jObj [("pre", jArr (p.pre.map fun q =>
            jObj [("leaf", jNat q.leaf), ("lhs", jNats q.lhs), ("out", jNats q.out)])),
        ("steps", jArr (p.steps.map jStep))]

/-- op `c01.admissible` -/
def admissible : Handler := fun j => do
  let n ← netOf (← field j "net")
  let rm ← natList (fieldD j "removed" (jNats []))
  let t ← btOf (← field j "tree")
  let prog ← programOf (← field j "program")
  let why := admissibleWhy n rm t prog
  pure (jObj [("admissible", jBool (Admissible n rm t prog)),
              ("core", jBool (AdmissibleCore n rm prog)),
              ("why", match why with | none => Json.null | some e => jStr e)])

/-- all subtrees, children first -/
def subtrees : BT → List BT
  | .leaf i => [.leaf i]
  | .node l r => subtrees l ++ subtrees r ++ [.node l r]

/-- op `c01.extract`: `order` = positions in `t.internal` (children-first list of the internal
    nodes); optional `sort = {proc: [positions], output_contig, contracted_contig}` applies the
    model of `sort_contraction_indices` first. -/
def extractOp : Handler := fun j => do
  let n ← netOf (← field j "net")
  let rm ← natList (fieldD j "removed" (jNats []))
  let t ← btOf (← field j "tree")
  let order ← natList (← field j "order")
  let pe ← (fieldD j "prefer_einsum" (jBool false)).getBool?
  let ord := order.filterMap fun k => t.internal[k]?
  let I ← match j.getObjVal? "sort" with
    | .ok sj => do
      let proc ← natList (← field sj "proc")
      let oc ← (fieldD sj "output_contig" (jBool true)).getBool?
      let cc ← (fieldD sj "contracted_contig" (jBool true)).getBool?
      pure (sortInds n rm oc cc (proc.filterMap fun k => t.internal[k]?))
    | .error _ => pure (n.inds rm)
  let prog := extractWith n rm I ord pe
  let why := admissibleWhy n rm t prog
  pure (jObj [("program", jProgram prog),
              ("inds", jArr ((subtrees t).map fun s =>
                 jObj [("leaves", jNats s.leaves), ("inds", jNats (I s))])),
              ("admissible", jBool (Admissible n rm t prog)),
              ("why", match why with | none => Json.null | some e => jStr e)])

/-! ### integer arrays -/

def ravel (shape idx : List Nat) : Nat :=
  (shape.zip idx).foldl (fun acc p => acc * p.1 + p.2) 0

def inBounds (shape idx : List Nat) : Bool :=
  shape.length == idx.length && (shape.zip idx).all fun p => p.2 < p.1

def arrOfData (shape : List Nat) (data : Array Int) : Arr Int :=
  { shape, val := fun idx => if inBounds shape idx then data.getD (ravel shape idx) 0 else 0 }

/-- all positions of a shape, row-major -/
def positions : List Nat → List (List Nat)
  | [] => [[]]
  | d :: ds => (List.range d).flatMap fun v => (positions ds).map (v :: ·)

def arrOfJson (j : Json) : Except String (Arr Int) := do
  let shape ← natList (← field j "shape")
  let data ← (← arrOf (← field j "data")).mapM intOf
  pure (arrOfData shape data.toArray)

def jIntArr (a : Arr Int) : Json :=
  jObj [("shape", jNats a.shape), ("data", jArr ((positions a.shape).map fun idx => jInt (a.val idx)))]

/-- op `c01.eval`: runs the model interpreter on integer arrays and evaluates `einsumSpec`
    at every output position (row-major over `(n.outRm rm).map size`). -/
def evalOp : Handler := fun j => do
  let n ← netOf (← field j "net")
  let rm ← natList (fieldD j "removed" (jNats []))
  let prog ← programOf (← field j "program")
  let arrays ← (← arrOf (← field j "arrays")).mapM arrOfJson
  let A : Nat → Arr Int := fun i => arrays.getD i { shape := [], val := fun _ => 0 }
  let out := n.outRm rm
  let oshape := out.map n.size
  let spec := (positions oshape).map fun idx => jInt (n.einsumSpec rm A (assoc (out.zip idx)))
  let runJ := match run prog arrays with
    | .ok a => jIntArr a
    | .error e => jObj [("error", jStr e)]
  pure (jObj [("run", runJ), ("spec", jObj [("shape", jNats oshape), ("data", jArr spec)])])

def handlers : List (String × Handler) :=
  [("c01.admissible", admissible), ("c01.extract", extractOp), ("c01.eval", evalOp)]

end Cotengra.Driver.C01
