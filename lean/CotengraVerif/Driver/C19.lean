import CotengraVerif.Driver.Util

namespace Cotengra.Driver.C19
open Lean Cotengra Cotengra.Driver

/-- ops of property C19 (name them "c19.<op>") -/
def handlers : List (String × Handler) := []

end Cotengra.Driver.C19
