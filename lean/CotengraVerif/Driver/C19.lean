import CotengraVerif.Driver.Util
import CotengraVerif.Model.Strip

namespace Cotengra.Driver.C19
open Lean Cotengra Cotengra.Driver Cotengra.Strip

/-- exact rationals travel as strings "num/den" (or "num") -/
def ratOf (j : Json) : Except String Rat := do
  let s ← j.getStr?
  match s.splitOn "/" with
  | [n] =>
    match n.toInt? with
    | some v => pure (v : Rat)
    | none => throw s!"bad rational {s}"
  | [n, d] =>
    match n.toInt?, d.toNat? with
    | some v, some w => pure (mkRat v w)
    | _, _ => throw s!"bad rational {s}"
  | _ => throw s!"bad rational {s}"

def jRat (r : Rat) : Json := jStr (if r.den == 1 then s!"{r.num}" else s!"{r.num}/{r.den}")
def jRats (l : List Rat) : Json := jArr (l.map jRat)

def tensorOf (j : Json) : Except String (Tensor Rat) := do
  pure { inds := ← natList (← field j "inds"), data := ← (← arrOf (← field j "data")).mapM ratOf }

def jTensor (t : Tensor Rat) : Json := jObj [("inds", jNats t.inds), ("data", jRats t.data)]

def sizeFn (sizes : List (Nat × Nat)) : Ix → Nat := fun ix =>
  match sizes.lookup ix with
  | some d => d
  | none => 1

def stepOf (j : Json) : Except String Step := do
  match ← arrOf j with
  | [k, i, out] =>
    if (← k.getStr?) == "pre" then pure (.pre (← natOf i) (← natList out)) else throw "step"
  | [k, p, l, r, out] =>
    if (← k.getStr?) == "pair" then pure (.pair (← natOf p) (← natOf l) (← natOf r) (← natList out))
    else throw "step"
  | _ => throw "step"

def tempsOf (j : Json) : Except String (Temps Rat) := do
  let ls ← (← arrOf j).mapM tensorOf
  pure (ls.zipIdx.map fun (t, i) => (i, t))

/-- op `c19.run`: the loop of `Contractor.__call__` on exact rationals, plain and stripped.
    Returns the status of the stripped run (ok / zero / nan / keyerror), the root mantissa, the
    factors divided out in order, the plain root, and the well-formedness of the program. -/
def run : Handler := fun j => do
  let size := sizeFn (← pairList (← field j "sizes"))
  let T0 ← tempsOf (← field j "leaves")
  let steps ← (← arrOf (← field j "steps")).mapM stepOf
  let cz ← (fieldD j "check_zero" (jBool false)).getBool?
  let wf := wfB steps (T0.map (·.1))
  let plain : Json :=
    match runPlain size steps T0 with
    | some [(_, v)] => jTensor v
    | _ => Json.null
  let s0 : SState Rat := { temps := T0, factors := [] }
  match runStrip size cz steps s0 with
  | none => pure (jObj [("status", jStr "keyerror"), ("plain", plain), ("wf", jBool wf)])
  | some S =>
    if S.zero then pure (jObj [("status", jStr "zero"), ("plain", plain), ("wf", jBool wf)])
    else if S.nan then pure (jObj [("status", jStr "nan"), ("plain", plain), ("wf", jBool wf),
                                   ("factors", jRats S.factors)])
    else
      match S.temps with
      | [(_, m)] =>
        pure (jObj [("status", jStr "ok"), ("mantissa", jTensor m), ("factors", jRats S.factors),
                    ("maxabs", jRat (maxAbs m.data)), ("plain", plain), ("wf", jBool wf)])
      | _ => pure (jObj [("status", jStr "incomplete"), ("plain", plain), ("wf", jBool wf)])

def strippedOf (j : Json) : Except String (Stripped Rat) := do
  pure { m := ← tensorOf (← field j "m"), f := ← ratOf (← field j "f") }

/-- op `c19.gather`: per chunk `functools.reduce(add_maybe_exponent_stripped, slices)`, then the
    rescaling of the chunks to the largest factor; returns the rescaled chunks and the factor -/
def gather : Handler := fun j => do
  let chunks ← (← arrOf (← field j "chunks")).mapM fun c => do
    let ss ← (← arrOf c).mapM strippedOf
    match ss with
    | [] => throw "empty chunk"
    | s :: rest => pure (sumStripped s rest)
  let (ts, F) := rescaleChunks chunks
  pure (jObj [("chunks", jArr (ts.map jTensor)), ("f", jRat F),
              ("sums", jArr (chunks.map fun c => jObj [("m", jTensor c.m), ("f", jRat c.f)]))])

def sresOf (j : Json) : Except String (SRes Rat) := do
  match ← (← field j "status").getStr? with
  | "ok" => pure (.ok (← strippedOf j))
  | "zero" => pure .zero
  | "nan" => pure .nan
  | s => throw s!"status {s}"

/-- op `c19.gatherres`: slice results with their status (finite / `check_zero` exit / nan), reduced
    per chunk with `addRes` (the repaired `add_maybe_exponent_stripped`; `"old": true` selects the
    unrepaired one) and gathered with `gatherRes` -/
def gatherres : Handler := fun j => do
  let old ← (fieldD j "old" (jBool false)).getBool?
  let add : SRes Rat → SRes Rat → SRes Rat := if old then addResOld else addRes
  let chunks ← (← arrOf (← field j "chunks")).mapM fun c => do
    let ss ← (← arrOf c).mapM sresOf
    match ss with
    | [] => throw "empty chunk"
    | s :: rest => pure (sumRes add s rest)
  match gatherRes chunks with
  | .nan => pure (jObj [("status", jStr "nan")])
  | .zero => pure (jObj [("status", jStr "zero")])
  | .ok ts F => pure (jObj [("status", jStr "ok"), ("chunks", jArr (ts.map jTensor)), ("f", jRat F)])

def handlers : List (String × Handler) :=
  [("c19.run", run), ("c19.gather", gather), ("c19.gatherres", gatherres)]

end Cotengra.Driver.C19
