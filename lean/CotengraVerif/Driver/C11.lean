import CotengraVerif.Driver.Util
import CotengraVerif.Model.PlanOK

namespace Cotengra.Driver.C11
open Lean Cotengra Cotengra.Driver Cotengra.FA Cotengra.Bmm

def intList (j : Json) : Except String (List Int) := do
  (← arrOf j).mapM intOf

def jInts (l : List Int) : Json := Json.arr (l.map jInt).toArray

def jOpt (f : α → Json) : Option α → Json
  | none => Json.null
  | some v => f v

def jPrep : Prep → Json
  | .none => Json.null
  | .perm p => jObj [("perm", jNats p)]
  | .eins t d => jObj [("eins", jArr [jNats t, jNats d])]

def jPlan (p : Plan) : Json :=
  jObj [("eq_a", jPrep p.eqA), ("eq_b", jPrep p.eqB), ("new_shape_a", jOpt jNats p.shA),
        ("new_shape_b", jOpt jNats p.shB), ("new_shape_ab", jOpt jNats p.shAB),
        ("perm_ab", jOpt jNats p.permAB), ("pure", jBool p.pure)]

def jSel (s : List (Option Nat)) : Json := jArr (s.map (jOpt jNat))

def jSingle (p : SinglePlan) : Json :=
  jObj [("diag", jOpt (fun ss => jArr (ss.map jSel)) p.diag), ("sum", jOpt jNats p.sumAxes),
        ("perm", jOpt jNats p.perm)]

def jFArr (x : FArr) : Json := jObj [("shape", jNats x.shape), ("data", jInts x.toList)]

def optNats (j : Json) : Except String (Option (List Nat)) :=
  match j with
  | .null => pure none
  | _ => do pure (some (← natList j))

def prepOfJson (j : Json) : Except String Prep :=
  match j with
  | .null => pure .none
  | _ =>
    match j.getObjVal? "perm" with
    | .ok p => do pure (.perm (← natList p))
    | .error _ => do
      match ← arrOf (← field j "eins") with
      | [t, d] => pure (.eins (← natList t) (← natList d))
      | _ => throw "eins: expected [term, desired]"

def planOfJson (j : Json) : Except String Plan := do
  pure { eqA := ← prepOfJson (fieldD j "eq_a" Json.null)
         eqB := ← prepOfJson (fieldD j "eq_b" Json.null)
         shA := ← optNats (fieldD j "new_shape_a" Json.null)
         shB := ← optNats (fieldD j "new_shape_b" Json.null)
         shAB := ← optNats (fieldD j "new_shape_ab" Json.null)
         permAB := ← optNats (fieldD j "perm_ab" Json.null)
         pure := ← (fieldD j "pure" (Json.bool false)).getBool? }

/-- op `c11.plans`: one equation, many shape pairs; both variants of the shortcut test -/
def plans : Handler := fun j => do
  let aT ← natList (← field j "a")
  let bT ← natList (← field j "b")
  let out ← natList (← field j "out")
  let cases ← arrOf (← field j "shapes")
  let rows ← cases.mapM fun c => do
    match ← arrOf c with
    | [sa, sb] =>
      let shA ← natList sa
      let shB ← natList sb
      pure (jObj [("head", jOpt jPlan (parseBmm false aT bT out shA shB)),
                  ("fixed", jOpt jPlan (parseBmm true aT bT out shA shB))])
    | _ => throw "expected [shape_a, shape_b]"
  pure (jObj [("plans", jArr rows)])

/-- op `c11.planok`: run the verified checker `planOK` on given (real) plans, one per shape pair -/
def planok : Handler := fun j => do
  let aT ← natList (← field j "a")
  let bT ← natList (← field j "b")
  let out ← natList (← field j "out")
  let cases ← arrOf (← field j "cases")
  let rows ← cases.mapM fun c => do
    let shA ← natList (← field c "shape_a")
    let shB ← natList (← field c "shape_b")
    match c.getObjVal? "plan" with
    | .ok .null => pure Json.null
    | .ok pj => do pure (jBool (planOK aT bT out shA shB (← planOfJson pj)))
    | .error _ => pure Json.null
  pure (jObj [("ok", jArr rows)])

/-- op `c11.eval2`: evaluate a plan (the model's, or a given real one) and the reference -/
def eval2 : Handler := fun j => do
  let aT ← natList (← field j "a")
  let bT ← natList (← field j "b")
  let out ← natList (← field j "out")
  let shA ← natList (← field j "shape_a")
  let shB ← natList (← field j "shape_b")
  let xa := FArr.ofList shA (← intList (← field j "data_a"))
  let xb := FArr.ofList shB (← intList (← field j "data_b"))
  let lenCheck ← (fieldD j "len_check" (Json.bool false)).getBool?
  let plan ← match j.getObjVal? "plan" with
    | .ok pj => do pure (some (← planOfJson pj))
    | .error _ => pure (parseBmm lenCheck aT bT out shA shB)
  let value := plan.bind fun p => evalPlan p xa xb
  pure (jObj [("plan", jOpt jPlan plan), ("value", jOpt jFArr value),
              ("spec", jFArr (einsum2 aT bT out xa xb))])

/-- op `c11.single`: `_parse_einsum_single` + three-step evaluation + reference -/
def single : Handler := fun j => do
  let lhs ← natList (← field j "lhs")
  let out ← natList (← field j "out")
  let sh ← natList (← field j "shape")
  let plan := parseSingle lhs out sh
  match j.getObjVal? "data" with
  | .ok d =>
    let x := FArr.ofList sh (← intList d)
    let value := plan.bind fun p => evalSingle p x
    pure (jObj [("plan", jOpt jSingle plan), ("value", jOpt jFArr value),
                ("spec", jFArr (einsum1 lhs out x))])
  | .error _ => pure (jObj [("plan", jOpt jSingle plan)])

/-- op `c11.sanitize`: `_sanitize_equation` on code points -/
def sanitizeOp : Handler := fun j => do
  let eq ← natList (← field j "eq")
  match sanitize eq with
  | .ok (lhs, out) => pure (jObj [("lhs", jNats lhs), ("out", jNats out)])
  | .error .notImplemented => pure (jObj [("err", jStr "NotImplementedError")])
  | .error .value => pure (jObj [("err", jStr "ValueError")])

def axesOf (j : Json) : Except String Axes :=
  match j with
  | .arr _ => do
    match ← arrOf j with
    | [a, b] => pure (.pair (← natList a) (← natList b))
    | _ => throw "axes: expected int or [axes_a, axes_b]"
  | _ => do pure (.num (← natOf j))

/-- op `c11.tdeq`: the equation built by `_parse_tensordot_axes_to_matmul`, and its plan -/
def tdeq : Handler := fun j => do
  let axes ← axesOf (← field j "axes")
  let shA ← natList (← field j "shape_a")
  let shB ← natList (← field j "shape_b")
  match tensordotEq axes shA shB with
  | none => pure (jObj [("err", jStr "ValueError")])
  | some (a, b, o) =>
    pure (jObj [("a", jNats a), ("b", jNats b), ("out", jNats o),
                ("head", jOpt jPlan (parseBmm false a b o shA shB)),
                ("fixed", jOpt jPlan (parseBmm true a b o shA shB))])

def handlers : List (String × Handler) :=
  [("c11.plans", plans), ("c11.planok", planok), ("c11.eval2", eval2), ("c11.single", single),
   ("c11.sanitize", sanitizeOp), ("c11.tdeq", tdeq)]

end Cotengra.Driver.C11
