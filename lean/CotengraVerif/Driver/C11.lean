import CotengraVerif.Driver.Util

namespace Cotengra.Driver.C11
open Lean Cotengra Cotengra.Driver

/-- ops of property C11 (name them "c11.<op>") -/
def handlers : List (String × Handler) := []

end Cotengra.Driver.C11
