import CotengraVerif.Driver.Util

namespace Cotengra.Driver.C02
open Lean Cotengra Cotengra.Driver

/-- ops of property C02 (name them "c02.<op>") -/
def handlers : List (String × Handler) := []

end Cotengra.Driver.C02
