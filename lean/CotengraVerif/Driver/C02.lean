import CotengraVerif.Driver.Util
import CotengraVerif.Model.RecipeCache
import CotengraVerif.Model.Recipes

namespace Cotengra.Driver.C02
open Lean Cotengra Cotengra.Driver

/-- rename labels by first appearance (python side does the same to the real equation) -/
def canonLabels (ls : List (List Nat)) : List (List Nat) :=
  let all := ls.flatten
  let u := all.foldl (fun acc x => if acc.contains x then acc else acc ++ [x]) []
  ls.map fun l => l.map fun x => u.idxOf x

def optList (j : Json) (k : String) : Except String (Option (List Nat)) :=
  match j.getObjVal? k with
  | .ok .null => pure none
  | .ok v => do pure (some (← natList v))
  | .error _ => pure none

/-- `c02.coherent`: the invariant `C02.Coherent` evaluated on a dump of the real `info` dicts, with
    the concrete recipe functions of Model/Recipes.lean: every cached einsum_eq / tensordot_axes /
    tensordot_perm must be the recipe of the *cached* inds of the node and its children. -/
def coherent : Handler := fun j => do
  let rows ← arrOf (← field j "nodes")
  let mut bad : List Json := []
  for row in rows do
    let p ← natList (← field row "p")
    let pI ← optList row "inds"
    let lI ← optList row "l_inds"
    let rI ← optList row "r_inds"
    let eq := row.getObjVal? "einsum_eq"
    let axes := row.getObjVal? "tensordot_axes"
    let perm := row.getObjVal? "tensordot_perm"
    let hasEq := match eq with | .ok .null => false | .ok _ => true | .error _ => false
    let hasAxes := match axes with | .ok .null => false | .ok _ => true | .error _ => false
    let hasPerm := match perm with | .ok _ => true | .error _ => false  -- cached value may be None
    if hasEq || hasAxes || hasPerm then
      match pI, lI, rI with
      | some pI, some lI, some rI =>
        if hasEq then
          let e ← match eq with | .ok v => natListList v | .error e => throw e
          let m := einsumEq lI rI pI
          if canonLabels [m.1, m.2.1, m.2.2] != canonLabels e then
            bad := bad ++ [jObj [("p", jNats p), ("field", jStr "einsum_eq")]]
        if hasAxes then
          let a ← match axes with | .ok v => natListList v | .error e => throw e
          let m := tensordotAxes lI rI
          if a != [m.1, m.2] then
            bad := bad ++ [jObj [("p", jNats p), ("field", jStr "tensordot_axes")]]
        if hasPerm then
          let pm ← match perm with
            | .ok .null => pure none
            | .ok v => do pure (some (← natList v))
            | .error e => throw e
          -- only the axes-consistent part: a cached perm must be the perm of the cached inds
          if hasAxes || true then
            if pm != tensordotPerm lI rI pI then
              bad := bad ++ [jObj [("p", jNats p), ("field", jStr "tensordot_perm")]]
      | _, _, _ =>
        -- a recipe is cached but one of the three index orders is not: in the real code a recipe
        -- is only ever computed through get_inds, which caches
        bad := bad ++ [jObj [("p", jNats p), ("field", jStr "recipe-without-inds")]]
  pure (jObj [("bad", jArr bad)])

def handlers : List (String × Handler) := [("c02.coherent", coherent)]

end Cotengra.Driver.C02
