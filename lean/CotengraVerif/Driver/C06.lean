import CotengraVerif.Driver.Util

namespace Cotengra.Driver.C06
open Lean Cotengra Cotengra.Driver

/-- ops of property C06 (name them "c06.<op>") -/
def handlers : List (String × Handler) := []

end Cotengra.Driver.C06
