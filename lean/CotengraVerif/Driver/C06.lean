import CotengraVerif.Driver.Util
import CotengraVerif.Model.Slicing

namespace Cotengra.Driver.C06
open Lean Cotengra Cotengra.Driver Cotengra.Slicing

def optNat (j : Json) : Except String (Option Nat) :=
  match j with
  | .null => pure none
  | _ => do pure (some (← natOf j))

def jOptNat : Option Nat → Json
  | none => Json.null
  | some v => jNat v

/-- `[inner(0/1), ind, size, project|null]` -/
def infoOfJson (j : Json) : Except String SliceInfo := do
  match ← arrOf j with
  | [a, b, c, d] => pure ⟨(← natOf a) != 0, ← natOf b, ← natOf c, ← optNat d⟩
  | _ => throw "expected [inner, ind, size, project]"

def infosOf (j : Json) : Except String (List SliceInfo) := do (← arrOf j).mapM infoOfJson

def jInfo (s : SliceInfo) : Json :=
  jArr [jNat (if s.inner then 1 else 0), jNat s.ind, jNat s.size, jOptNat s.project]

def opOf (j : Json) : Except String SliceOp := do
  match ← arrOf j with
  | [k, a, p] =>
    if (← k.getStr?) == "remove" then pure (.remove (← natOf a) (← optNat p)) else throw "bad op"
  | [k, a] => if (← k.getStr?) == "restore" then pure (.restore (← natOf a)) else throw "bad op"
  | _ => throw "bad op"

/-- row-major position -/
def ravel (shape idx : List Nat) : Nat := (shape.zip idx).foldl (fun acc p => acc * p.1 + p.2) 0

def allIdx : List Nat → List (List Nat)
  | [] => [[]]
  | d :: ds => (List.range d).flatMap fun i => (allIdx ds).map (i :: ·)

def arrOfJson (j : Json) : Except String IArr := do
  let shape ← natList (← field j "shape")
  let data := ((← arrOf (← field j "data")).mapM intOf)
  let arr := (← data).toArray
  pure { shape := shape, get := fun idx => arr.getD (ravel shape idx) 0 }

def jArrOf (a : IArr) : Json :=
  jObj [("shape", jNats a.shape), ("data", jArr ((allIdx a.shape).map fun idx => jInt (a.get idx)))]

def jKey (k : List (Ix × Nat)) : Json := jPairs k

/-- op `c06.state`: run a history of remove_ind / restore_ind on the slicing state -/
def state : Handler := fun j => do
  let n ← netOf (← field j "net")
  let ops ← (← arrOf (← field j "ops")).mapM opOf
  let (st, errs) := ops.foldl (fun (acc : SliceState × List Bool) op =>
    let r := match op with
      | .remove ind p => removeInd n acc.1 ind p
      | .restore ind => restoreInd n acc.1 ind
    (stepOp n acc.1 op, acc.2 ++ [r.isNone])) (SliceState.empty, [])
  pure (jObj [("sliced", jArr (st.slicedInds.map jInfo)), ("mult", jNat st.multiplicity),
              ("inputs", jNats st.slicedInputs), ("strides", jNats (getSliceStrides st.slicedInds)),
              ("nchunks", jNat (nchunks st.slicedInds)), ("stepsize", jNat (stepsize st.slicedInds)),
              ("errors", jArr (errs.map jBool)),
              ("same_as_runOps", jBool (st == runOps n ops))])

/-- op `c06.keys`: `slice_key(i)` for all `i < nslices` -/
def keys : Handler := fun j => do
  let sl ← infosOf (← field j "sliced")
  pure (jObj [("keys", jArr ((List.range (prodSizes sl)).map fun i => jKey (sliceKey sl i))),
              ("nslices", jNat (prodSizes sl))])

/-- op `c06.cert`: the verified certificate checker on a real key table -/
def cert : Handler := fun j => do
  let sl ← infosOf (← field j "sliced")
  let ks ← (← arrOf (← field j "keys")).mapM pairList
  pure (jObj [("ok", jBool (keysCert sl ks))])

/-- op `c06.selectors`: the indexing objects of `slice_arrays` for a given key -/
def selectors : Handler := fun j => do
  let terms ← natListList (← field j "terms")
  let sin ← natList (← field j "sliced_inputs")
  let key ← pairList (← field j "key")
  let rows := (terms.zip (List.range terms.length)).map fun (term, c) =>
    if sin.contains c then jArr ((selector key term).map jOptNat) else Json.null
  pure (jObj [("selectors", jArr rows)])

/-- op `c06.select`: basic indexing on an array -/
def select : Handler := fun j => do
  let a ← arrOfJson (← field j "arr")
  let sel ← (← arrOf (← field j "sel")).mapM optNat
  pure (jArrOf (a.select sel))

/-- op `c06.slice_arrays`: `slice_arrays(arrays, i)` with the model's own key of slice `i` -/
def sliceArraysOp : Handler := fun j => do
  let n ← netOf (← field j "net")
  let sl ← infosOf (← field j "sliced")
  let sin ← natList (← field j "sliced_inputs")
  let arrays ← (← arrOf (← field j "arrays")).mapM arrOfJson
  let i ← natOf (← field j "i")
  let st : SliceState := ⟨sl, prodSizes sl, sin⟩
  pure (jObj [("arrays", jArr ((sliceArrays n st arrays i).map jArrOf))])

/-- op `c06.gather`: `gather_slices(slices)` -/
def gather : Handler := fun j => do
  let out ← natList (← field j "output")
  let sl ← infosOf (← field j "sliced")
  let slices ← (← arrOf (← field j "slices")).mapM arrOfJson
  match gatherSlices out sl slices with
  | none => pure (jObj [("ok", jBool false)])
  | some r => pure (jObj [("ok", jBool true), ("result", jArrOf r)])

/-- op `c06.chunks`: `gen_output_chunks(with_key=True)` given the per-slice results -/
def chunks : Handler := fun j => do
  let out ← natList (← field j "output")
  let sl ← infosOf (← field j "sliced")
  let mult ← natOf (← field j "mult")
  let slices ← (← arrOf (← field j "slices")).mapM arrOfJson
  let sa := slices.toArray
  -- a slice result has the shape of slice 0 (the sum keeps the first operand's shape)
  let res := genOutputChunks out sl mult (fun i => sa.getD i IArr.zero)
  let plan := chunkPlan out sl mult
  pure (jObj [("chunks", jArr (res.map fun (a, k) => jObj [("key", jKey k), ("arr", jArrOf a)])),
              ("plan", jArr (plan.map fun (is, k) => jObj [("slices", jNats is), ("key", jKey k)]))])

def handlers : List (String × Handler) :=
  [("c06.state", state), ("c06.keys", keys), ("c06.cert", cert), ("c06.selectors", selectors),
   ("c06.select", select), ("c06.slice_arrays", sliceArraysOp), ("c06.gather", gather),
   ("c06.chunks", chunks)]

end Cotengra.Driver.C06
