import CotengraVerif.Driver.Util
import CotengraVerif.Model.EinsumFront

namespace Cotengra.Driver.C12
open Lean Cotengra Cotengra.Driver Cotengra.Front

def optNatOf (j : Json) : Except String (Option Nat) :=
  match j with
  | .null => pure none
  | _ => do pure (some (← natOf j))

def optNatList (j : Json) : Except String (List (Option Nat)) := do
  (← arrOf j).mapM optNatOf

def jErr : Front.Err → Json
  | .value => jObj [("err", jStr "ValueError")]
  | .key => jObj [("err", jStr "KeyError")]

def cfgOf (j : Json) : Except String Cfg := do
  let b (k : String) : Except String Bool := (fieldD j k (Json.bool false)).getBool?
  pure ⟨← b "strip_spaces", ← b "out_only_ellipsis", ← b "sorted_implicit"⟩

/-- op `c12.parse`: `parse_equation_ellipses(eq, shapes, tuples=True)` -/
def parse : Handler := fun j => do
  let eq ← natList (← field j "eq")
  let ranks ← natList (← field j "ranks")
  match parseEllipses (← cfgOf j) eq ranks with
  | .ok (ins, out) => pure (jObj [("inputs", jNatss ins), ("output", jNats out)])
  | .error e => pure (jErr e)

/-- op `c12.interleaved`: `convert_from_interleaved` -/
def interleaved : Handler := fun j => do
  let ins ← (← arrOf (← field j "inputs")).mapM optNatList
  let out ← match j.getObjVal? "output" with
    | .ok .null => pure none
    | .ok o => do pure (some (← optNatList o))
    | .error _ => pure none
  match convertInterleaved (← cfgOf j).sortedImplicit ins out with
  | .ok eq => pure (jObj [("eq", jNats eq)])
  | .error e => pure (jErr e)

/-- op `c12.canon`: `canonicalize_inputs(inputs, output)` -/
def canon : Handler := fun j => do
  let ins ← natListList (← field j "inputs")
  let out ← match j.getObjVal? "output" with
    | .ok .null => pure none
    | .ok o => do pure (some (← natList o))
    | .error _ => pure none
  let (ni, no) := canonicalize ins out
  pure (jObj [("inputs", jNatss ni), ("output", jNats no)])

/-- op `c12.findout`: `find_output_from_inputs` and `find_output_str` -/
def findout : Handler := fun j => do
  match j.getObjVal? "lhs" with
  | .ok l => do pure (jObj [("output", jNats (findOutputStr (← natList l)))])
  | .error _ =>
    let ins ← natListList (← field j "inputs")
    pure (jObj [("output", jNats (findOutputFromInputs ins))])

/-- op `c12.single`: which fast path `_build_expression` takes for one operand -/
def single : Handler := fun j => do
  let t ← natList (← field j "term")
  let o ← natList (← field j "output")
  match singlePath t o with
  | .identity => pure (jObj [("path", jStr "identity")])
  | .transpose p => pure (jObj [("path", jStr "transpose"), ("perm", jNats p)])
  | .einsum => pure (jObj [("path", jStr "einsum")])

/-- op `c12.pathok`: is the path the real code took admissible? -/
def pathok : Handler := fun j => do
  let t ← natList (← field j "term")
  let o ← natList (← field j "output")
  let p ← (← field j "path").getStr?
  let sp ← match p with
    | "identity" => pure SinglePath.identity
    | "einsum" => pure SinglePath.einsum
    | "transpose" => do pure (SinglePath.transpose (← natList (← field j "perm")))
    | _ => throw "unknown path"
  pure (jObj [("ok", jBool (pathOK t o sp))])

/-- op `c12.ncon`: output labels of `ncon` -/
def ncon : Handler := fun j => do
  let ind ← (← arrOf (← field j "indices")).mapM fun t => do (← arrOf t).mapM intOf
  pure (jObj [("output", Json.arr ((nconOutput ind).map jInt).toArray)])

/-- op `c12.symbol`: `get_symbol(i)` -/
def symbol : Handler := fun j => do
  let l ← natList (← field j "is")
  pure (jObj [("cps", jNats (l.map getSymbol))])

def handlers : List (String × Handler) :=
  [("c12.parse", parse), ("c12.interleaved", interleaved), ("c12.canon", canon),
   ("c12.findout", findout), ("c12.single", single), ("c12.pathok", pathok), ("c12.ncon", ncon), ("c12.symbol", symbol)]

end Cotengra.Driver.C12
