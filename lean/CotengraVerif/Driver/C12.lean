import CotengraVerif.Driver.Util

namespace Cotengra.Driver.C12
open Lean Cotengra Cotengra.Driver

/-- ops of property C12 (name them "c12.<op>") -/
def handlers : List (String × Handler) := []

end Cotengra.Driver.C12
