import CotengraVerif.Driver.Util
import CotengraVerif.Model.Slicer

namespace Cotengra.Driver.C07
open Lean Cotengra Cotengra.Driver Cotengra.Slicer

def conOfJson (j : Json) : Except String Con := do
  pure { involved := ← natList (← field j "involved"), legs := ← natList (← field j "legs"),
         size := ← natOf (← field j "size"), flops := ← natOf (← field j "flops") }

def sortNats (l : List Nat) : List Nat := l.foldl (fun acc x => insertSorted x acc) []

def jCon (c : Con) : Json :=
  jObj [("involved", jNats (sortNats c.involved)), ("legs", jNats (sortNats c.legs)),
        ("size", jNat c.size), ("flops", jNat c.flops)]

def jOptNat : Option Nat → Json
  | none => Json.null
  | some n => jNat n

def insPair (x : Nat × Int) : List (Nat × Int) → List (Nat × Int)
  | [] => [x]
  | y :: t => if x.1 < y.1 then x :: y :: t else y :: insPair x t

def jIDict (d : IDict) : Json :=
  Json.arr ((d.foldl (fun acc x => insPair x acc) []).map fun (a, b) => Json.arr #[jNat a, jInt b]).toArray

def jCosts (c : Costs) (full : Bool) : Json :=
  let base := [("nslices", jNat c.nslices), ("flops", jInt c.flops), ("size", jOptNat c.size),
               ("total_flops", jInt c.totalFlops), ("original_flops", jInt c.originalFlops)]
  if full then
    jObj (base ++ [("cons", jArr (c.cons.map jCon)), ("fred", jIDict c.fred), ("wred", jIDict c.wred),
                   ("where", jArr ((c.wher.foldl (fun acc (x : Nat × List Nat) =>
                      acc ++ [Json.arr #[jNat x.1, jNats (sortNats x.2)]]) []))),
                   ("size_dict", jNats (sortNats (AL.keys c.sizeDict)))])
  else jObj base

/-- op `c07.remove`: build `ContractionCosts(cons, size_dict)` and apply `remove` along `removes`;
    reports the full state after construction and after every removal, or the step that raised. -/
def remove : Handler := fun j => do
  let sd ← pairList (← field j "size_dict")
  let cons ← (← arrOf (← field j "cons")).mapM conOfJson
  let removes ← natList (← field j "removes")
  let touch := match j.getObjVal? "touch" with | .ok (.bool b) => b | _ => false
  match Costs.init cons sd with
  | none => pure (jObj [("error", jStr "init")])
  | some c0 =>
    let rec go (c : Costs) (ixs : List Nat) (acc : List Json) : List Json × Option Nat :=
      match ixs with
      | [] => (acc, none)
      | ix :: rest => match (if touch then c.touchAll else c).remove ix with
        | none => (acc, some ix)
        | some c' => go c' rest (acc ++ [jCosts c' true])
    let (states, failed) := go c0 removes [jCosts c0 true]
    pure (jObj [("states", jArr states), ("failed_at", jOptNat failed)])

/-- op `c07.tree`: the contraction tuples of `from_contraction_tree` for the internal nodes of
    the tree, children first -/
def tree : Handler := fun j => do
  let n ← netOf (← field j "net")
  let rm ← natList (← field j "removed")
  let t ← btOf (← field j "tree")
  pure (jObj [("cons", jArr ((treeCons n rm t).map jCon)),
              ("leaves", jNatss (t.internal.map (fun s => sortNats s.leaves)))])

def targetsOf (j : Json) : Except String Targets := do
  let sz := match j.getObjVal? "size" with | .ok (.num n) => some n.mantissa.toNat | _ => none
  let sl := match j.getObjVal? "slices" with | .ok (.num n) => some n.mantissa.toNat | _ => none
  let ov ← match j.getObjVal? "overhead" with
    | .ok (.arr a) => match a.toList with
      | [p, q] => do pure (some ((← natOf p), (← natOf q)))
      | _ => throw "overhead must be [p,q]"
    | _ => pure none
  pure { size := sz, overhead := ov, slices := sl }

def jRes : TrialRes → Json
  | .ok key cost => jObj [("status", jStr "ok"), ("key", jNats key), ("cost", jCosts cost false)]
  | .forbidden => jObj [("status", jStr "RuntimeError")]
  | .keyError => jObj [("status", jStr "KeyError")]
  | .valueError => jObj [("status", jStr "ValueError")]
  | .badOracle => jObj [("status", jStr "bad-oracle")]

/-- op `c07.search`: `SliceFinder(cons, size_dict, …)`, then one `trial` per entry of `picks`
    (the oracle answers observed on the real run), then `best`. -/
def search : Handler := fun j => do
  let sd ← pairList (← field j "size_dict")
  let cons ← (← arrOf (← field j "cons")).mapM conOfJson
  let output ← natList (← field j "output")
  let allowOuter ← natOf (← field j "allow_outer")
  let tg ← targetsOf (← field j "targets")
  let picks ← natListList (← field j "picks")
  match Costs.init cons sd with
  | none => pure (jObj [("error", jStr "init")])
  | some c0 =>
    let forb := forbiddenOf output sd allowOuter
    let rec go (ps : List (List Nat)) (cache : Cache) (acc : List Json) : Cache × List Json × Bool :=
      match ps with
      | [] => (cache, acc, true)
      | p :: rest =>
        match trial forb tg p cache with
        | (cache', .ok k c) => go rest cache' (acc ++ [jRes (.ok k c)])
        | (cache', r) => (cache', acc ++ [jRes r], false)
    let (cache, trials, allOk) := go picks [([], c0)] []
    let b := if allOk then
        match best tg cache with
        | none => jObj [("status", jStr "ValueError")]
        | some (k, c) => jObj [("status", jStr "ok"), ("key", jNats k), ("cost", jCosts c false)]
      else jObj [("status", jStr "aborted")]
    let minScore := match best tg cache with
      | none => Json.null
      | some (_, c) => let s := scorer tg c; Json.arr #[jInt s.1, jInt s.2.1, jInt s.2.2]
    pure (jObj [("forbidden", jNats (sortNats forb)), ("trials", jArr trials),
                ("cache", jArr (cache.map fun (k, c) =>
                    jObj [("key", jNats k), ("cost", jCosts c false),
                          ("valid", jBool (valid tg c))])),
                ("best", b), ("min_score", minScore)])

/-- op `c07.session`: one `SliceFinder(cons, size_dict, targets…)` object and a history of
    `search(**over)` calls on it (`calls = [{over, picks}]`, `picks` = the oracle answers observed
    on the real run, one list per trial). Uses `Slicer.callCache / callResult` — the definitions
    `C07.session_sound` is about. Reported per call: the trial outcomes, the cache afterwards with
    validity under the targets in force for that call, and what `search` returns. -/
def session : Handler := fun j => do
  let sd ← pairList (← field j "size_dict")
  let cons ← (← arrOf (← field j "cons")).mapM conOfJson
  let output ← natList (← field j "output")
  let allowOuter ← natOf (← field j "allow_outer")
  let tg0 ← targetsOf (← field j "targets")
  let callsJ ← arrOf (← field j "calls")
  let calls ← callsJ.mapM fun cj => do
    let over ← targetsOf (← field cj "over")
    let picks ← natListList (← field cj "picks")
    pure (({ over := over, trials := picks } : Call),
          (match cj.getObjVal? "k" with | .ok (.num n) => n.mantissa.toNat | _ => 0))
  match Costs.init cons sd with
  | none => pure (jObj [("error", jStr "init")])
  | some c0 =>
    let forb := forbiddenOf output sd allowOuter
    let rec trialsOf (tg : Targets) (ps : List (List Nat)) (cache : Cache) (acc : List Json) : List Json :=
      match ps with
      | [] => acc
      | p :: rest =>
        match trial forb tg p cache with
        | (cache', .ok k c) => trialsOf tg rest cache' (acc ++ [jRes (.ok k c)])
        | (_, r) => acc ++ [jRes r]
    let rec go (cs : List (Call × Nat)) (cache : Cache) (acc : List Json) : List Json :=
      match cs with
      | [] => acc
      | (cl, kk) :: rest =>
        let tg := cl.over.orElse tg0
        let cache' := callCache forb tg0 cl cache
        let aborted := (searchLoop forb tg cl.trials cache).2.isSome
        let b := match callResult forb tg0 cl cache with
          | some (k, c) => jObj [("status", jStr "ok"), ("key", jNats k), ("cost", jCosts c false)]
          | none => jObj [("status", jStr (if aborted then "aborted" else "ValueError"))]
        let minScore := match best tg cache' with
          | none => Json.null
          | some (_, c) => let s := scorer tg c; Json.arr #[jInt s.1, jInt s.2.1, jInt s.2.2]
        let out := jObj [("trials", jArr (trialsOf tg cl.trials cache [])),
                         ("cache", jArr (cache'.map fun (k, c) =>
                            jObj [("key", jNats k), ("cost", jCosts c false),
                                  ("valid", jBool (valid tg c))])),
                         ("best", b), ("min_score", minScore),
                         -- `best(k=kk)` on the cache after this call, with the targets in force
                         ("bestk", jArr ((bestK tg cache' kk).map fun (k, c) =>
                            let sc := scorer tg c
                            jObj [("key", jNats k), ("cost", jCosts c false),
                                  ("score", Json.arr #[jInt sc.1, jInt sc.2.1, jInt sc.2.2])]))]
        go rest cache' (acc ++ [out])
    pure (jObj [("forbidden", jNats (sortNats forb)), ("calls", jArr (go calls [([], c0)] []))])

def handlers : List (String × Handler) :=
  [("c07.remove", remove), ("c07.tree", tree), ("c07.search", search), ("c07.session", session)]

end Cotengra.Driver.C07
