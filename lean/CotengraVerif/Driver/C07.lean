import CotengraVerif.Driver.Util

namespace Cotengra.Driver.C07
open Lean Cotengra Cotengra.Driver

/-- ops of property C07 (name them "c07.<op>") -/
def handlers : List (String × Handler) := []

end Cotengra.Driver.C07
