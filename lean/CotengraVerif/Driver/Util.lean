import Lean.Data.Json
import CotengraVerif.Model.Net

/-! JSON plumbing shared by all driver handlers (core Lean only). -/
namespace Cotengra.Driver
open Lean

abbrev Handler := Json → Except String Json

def natOf (j : Json) : Except String Nat := j.getNat?
def intOf (j : Json) : Except String Int := j.getInt?

def arrOf (j : Json) : Except String (List Json) := do
  let a ← j.getArr?
  pure a.toList

def natList (j : Json) : Except String (List Nat) := do
  (← arrOf j).mapM natOf

def natListList (j : Json) : Except String (List (List Nat)) := do
  (← arrOf j).mapM natList

def pairList (j : Json) : Except String (List (Nat × Nat)) := do
  (← arrOf j).mapM fun p => do
    match ← arrOf p with
    | [a, b] => pure (← natOf a, ← natOf b)
    | _ => throw "expected pair"

def field (j : Json) (k : String) : Except String Json := j.getObjVal? k

def fieldD (j : Json) (k : String) (d : Json) : Json :=
  match j.getObjVal? k with
  | .ok v => v
  | .error _ => d

def netOf (j : Json) : Except String Net := do
  pure { inputs := ← natListList (← field j "inputs"),
         output := ← natList (← field j "output"),
         sizes := ← pairList (← field j "sizes") }

/-- trees: a number is a leaf, a two-element array a node -/
partial def btOf (j : Json) : Except String BT := do
  match j with
  | .arr a =>
    match a.toList with
    | [l, r] => pure (.node (← btOf l) (← btOf r))
    | _ => throw "tree node must have two children"
  | _ => pure (.leaf (← natOf j))

def jNat (n : Nat) : Json := Json.num (JsonNumber.fromNat n)
def jInt (n : Int) : Json := Json.num (JsonNumber.fromInt n)
def jNats (l : List Nat) : Json := Json.arr (l.map jNat).toArray
def jNatss (l : List (List Nat)) : Json := Json.arr (l.map jNats).toArray
def jPairs (l : List (Nat × Nat)) : Json :=
  Json.arr (l.map fun (a, b) => Json.arr #[jNat a, jNat b]).toArray
def jBool (b : Bool) : Json := Json.bool b
def jStr (s : String) : Json := Json.str s
def jArr (l : List Json) : Json := Json.arr l.toArray
def jObj (l : List (String × Json)) : Json := Json.mkObj l

end Cotengra.Driver
