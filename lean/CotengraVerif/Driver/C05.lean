import CotengraVerif.Driver.Util
import CotengraVerif.Model.Path
import CotengraVerif.Model.Processor
import CotengraVerif.Model.Partition
import CotengraVerif.Model.BestSoFar
import CotengraVerif.Model.ContractNodes

namespace Cotengra.Driver.C05
open Lean Cotengra Cotengra.Driver Cotengra.Path

def jTree : BT → Json
  | .leaf i => jNat i
  | .node l r => Json.arr #[jTree l, jTree r]

/-- op `c05.check_linear`: the verified checker on a (real) linear path -/
def checkLinearOp : Handler := fun j => do
  let n ← natOf (← field j "n")
  let p ← natListList (← field j "path")
  pure (jObj [("complete", jBool (checkLinear n p)), ("replays", jBool (checkLinearPartial n p))])

/-- op `c05.check_ssa` -/
def checkSSAOp : Handler := fun j => do
  let n ← natOf (← field j "n")
  let p ← natListList (← field j "path")
  pure (jObj [("complete", jBool (checkSSA n p)), ("replays", jBool (checkSSAPartial n p))])

def tripleOf (j : Json) : Except String (Node × Node × Node) := do
  match ← arrOf j with
  | [p, l, r] => pure (← natList p, ← natList l, ← natList r)
  | _ => throw "expected [parent, left, right]"

/-- op `c05.check_tree`: the verified checker on a (real) `children` dict -/
def checkTreeOp : Handler := fun j => do
  let n ← natOf (← field j "n")
  let m ← (← arrOf (← field j "children")).mapM tripleOf
  match toBT? m (n + 1) (List.range n) with
  | some t => pure (jObj [("complete", jBool true), ("tree", jTree t)])
  | none => pure (jObj [("complete", jBool false)])

-- sub-optimizer stand-in for merges of three or more items: `Path.caterpillar`. The harness
-- compares model and implementation only where no such merge happens.

/-- op `c05.from_path`: `ContractionTree.from_path` (linear or ssa) -/
def fromPathOp : Handler := fun j => do
  let n ← natOf (← field j "n")
  let p ← natListList (← field j "path")
  let ssa ← (fieldD j "ssa" (jBool false)).getBool?
  let ac ← (fieldD j "autocomplete" (jBool true)).getBool?
  let r := if ssa then fromSSA caterpillar n p ac else fromLinear caterpillar n p ac
  match r with
  | none => pure (jObj [("result", jStr "error")])
  | some ts => pure (jObj [("result", jStr "ok"), ("trees", jArr (ts.map jTree))])

def opOf (j : Json) : Except String Processor.Op := do
  match ← natList j with
  | [i, k] => pure (.contract i k)
  | [i] => pure (.single i)
  | _ => throw "op must have one or two ids"

/-- op `c05.processor`: replay a word of processor operations (the real `ssa_path` so far), then
    optionally `optimize_remaining_by_size` with the given node sizes -/
def processorOp : Handler := fun j => do
  let n ← natOf (← field j "n")
  let ops ← (← arrOf (← field j "ops")).mapM opOf
  let sizes ← pairList (fieldD j "sizes" (jPairs []))
  let rem ← (fieldD j "remaining" (jBool false)).getBool?
  let sz := fun i => (sizes.lookup i).getD 1
  match Processor.run (Processor.init n) ops with
  | none => pure (jObj [("result", jStr "keyerror")])
  | some s =>
    let s' := if rem then Processor.remaining sz s else some s
    match s' with
    | none => pure (jObj [("result", jStr "keyerror")])
    | some s' => pure (jObj [("result", jStr "ok"), ("nodes", jNats s'.nodes), ("ssa", jNat s'.ssa),
                             ("path", jNatss s'.path)])

/-- op `c05.separate` -/
def separateOp : Handler := fun j => do
  let xs ← natList (← field j "xs")
  let bs ← natList (← field j "blocks")
  pure (jObj [("groups", jNatss (Partition.separate xs bs))])

/-- op `c05.kahypar_shortcuts` -/
def kahyparOp : Handler := fun j => do
  let nv ← natOf (← field j "nv")
  let parts ← natOf (← field j "parts")
  let onodes ← natList (fieldD j "onodes" (jNats []))
  pure (jObj [("too_many_parts", jNats (Partition.kahyparTooManyParts nv)),
              ("fix_outputs", jNats (Partition.kahyparFixOutputs nv onodes)),
              ("round_robin", jNats (Partition.kahyparRoundRobin nv parts))])

/-- op `c05.agglom`: the `while len(leaves) > groupsize` loop for explicit memberships per round -/
def agglomOp : Handler := fun j => do
  let n ← natOf (← field j "n")
  let g ← natOf (← field j "groupsize")
  let fuel ← natOf (fieldD j "fuel" (jNat 200))
  let rounds ← natListList (← field j "memberships")
  -- membership used for `k` leaves: the first recorded one of that length, else identity
  let labels := fun k => ((rounds.find? fun m => m.length == k).getD (List.range k))
  let fixed ← (fieldD j "fixed" (jBool false)).getBool?
  let r := if fixed then Partition.agglomLoopFixed g labels fuel n else Partition.agglomLoop g labels fuel n
  match r with
  | none => pure (jObj [("result", jStr "no-termination")])
  | some k => pure (jObj [("result", jStr "ok"), ("left", jNat k)])

def foundOf (j : Json) : Except String BestSoFar.Found := do
  pure ⟨← natListList (← field j "path"), ← natOf (← field j "flops")⟩

def jOptPath : Option Path → Json
  | none => Json.null
  | some p => jNatss p

def jOptNat : Option Nat → Json
  | none => Json.null
  | some n => jNat n

/-- op `c05.best_so_far`: the answers (and, for the shared instance, the states after every call)
    of a preset binding over a sequence of inner results -/
def bestSoFarOp : Handler := fun j => do
  let qs ← (← arrOf (← field j "found")).mapM foundOf
  let shared ← (fieldD j "shared" (jBool true)).getBool?
  let b : BestSoFar.Binding := if shared then .sharedInstance else .freshPerCall
  let states := if shared then BestSoFar.sharedStates BestSoFar.init qs else []
  pure (jObj [("answers", jArr ((BestSoFar.answers b qs).map jOptPath)),
              ("states", jArr (states.map fun s =>
                jObj [("best", jOptPath s.bestPath), ("flops", jOptNat s.bestFlops)]))])

/-- the inner finder as a table: sorted inputs beneath the nodes ↦ the linear path it returned -/
def innerOf (table : List (List Nat × Path)) : Nat → List BT → Path :=
  fun _ xs => (table.lookup (sortNat ((xs.map BT.leaves).flatten))).getD []

def innerEntry (j : Json) : Except String (List Nat × Path) := do
  match ← arrOf j with
  | [k, p] => pure (← natList k, ← natListList p)
  | _ => throw "expected [key, path]"

/-- op `c05.from_path_kary`: `from_path` on a linear path with steps of any arity, the answers of the
    inner finder given per node set -/
def fromPathKaryOp : Handler := fun j => do
  let n ← natOf (← field j "n")
  let p ← natListList (← field j "path")
  let ac ← (fieldD j "autocomplete" (jBool true)).getBool?
  let table ← (← arrOf (← field j "inner")).mapM innerEntry
  match fromLinearK (innerOf table) n p ac with
  | none => pure (jObj [("result", jStr "error")])
  | some ts => pure (jObj [("result", jStr "ok"), ("trees", jArr (ts.map jTree))])

/-- op `c05.random_path`: `RandomOptimizer.__call__` for the given draws -/
def randomPathOp : Handler := fun j => do
  let n ← natOf (← field j "n")
  let draws ← pairList (← field j "draws")
  pure (jObj [("path", jNatss (randomPath draws)), ("draws_ok", jBool (drawsOK n draws)),
              ("complete", jBool (checkLinear n (randomPath draws)))])

/-- op `c05.ssa_to_linear` -/
def ssaToLinearOp : Handler := fun j => do
  let n ← natOf (← field j "n")
  let p ← natListList (← field j "path")
  match ssaToLinear n p with
  | none => pure (jObj [("result", jStr "indexerror")])
  | some q => pure (jObj [("result", jStr "ok"), ("path", jNatss q)])

/-- op `c05.divide_step`: one iteration of `while tree.childless` for the recorded membership -/
def divideStepOp : Handler := fun j => do
  let cutoff ← natOf (← field j "cutoff")
  let c ← natListList (← field j "childless")
  let m ← natList (fieldD j "membership" (jNats []))
  let k ← natOf (fieldD j "pick" (jNat 0))
  match Partition.divideStep cutoff ⟨fun _ => m, fun _ => k⟩ c with
  | none => pure (jObj [("result", jStr "ended")])
  | some c' => pure (jObj [("result", jStr "ok"), ("childless", jNatss c')])

def handlers : List (String × Handler) :=
  [("c05.check_linear", checkLinearOp), ("c05.check_ssa", checkSSAOp), ("c05.check_tree", checkTreeOp),
   ("c05.from_path", fromPathOp), ("c05.processor", processorOp), ("c05.separate", separateOp),
   ("c05.kahypar_shortcuts", kahyparOp), ("c05.agglom", agglomOp), ("c05.best_so_far", bestSoFarOp),
   ("c05.from_path_kary", fromPathKaryOp), ("c05.random_path", randomPathOp),
   ("c05.ssa_to_linear", ssaToLinearOp), ("c05.divide_step", divideStepOp)]

end Cotengra.Driver.C05
