import CotengraVerif.Driver.Util

namespace Cotengra.Driver.C05
open Lean Cotengra Cotengra.Driver

/-- ops of property C05 (name them "c05.<op>") -/
def handlers : List (String × Handler) := []

end Cotengra.Driver.C05
