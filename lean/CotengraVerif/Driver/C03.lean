import CotengraVerif.Driver.Util
import CotengraVerif.Model.Stats

namespace Cotengra.Driver.C03
open Lean Cotengra Cotengra.Driver

/-- all subtrees of a tree, children first, with the root last -/
def subtrees : BT → List BT
  | .leaf i => [.leaf i]
  | .node l r => subtrees l ++ subtrees r ++ [.node l r]

/-- op `c03.nodes`: per node (children first): leaves, legs, involved, size, flops; totals; peak -/
def nodes : Handler := fun j => do
  let n ← netOf (← field j "net")
  let rm ← natList (← field j "removed")
  let sliced ← natList (← field j "sliced")
  let t ← btOf (← field j "tree")
  let order ← natList (fieldD j "order" (jNats []))
  let rows := (subtrees t).map fun s =>
    let isRoot := s == t
    let legs := if isRoot then n.rootLegs rm else n.legs rm s
    jObj [("leaves", jNats s.leaves), ("legs", jPairs legs),
          ("involved", jPairs (n.involved rm s)),
          ("size", jNat (n.sizeIn rm t s)), ("flops", jNat (n.nodeFlops rm s))]
  let st := n.stats rm sliced t
  let ord := order.filterMap fun k => t.internal[k]?
  pure (jObj [("nodes", jArr rows), ("flops", jNat st.flops), ("write", jNat st.write),
              ("size", jNat st.size), ("mult", jNat (n.mult sliced)),
              ("peak", jNat (n.peak rm t ord)),
              -- the independent definition (`C03.peak_eq_spec`): inputs live at the start, each step needs all
              -- live tensors plus its output; and what is live at the end (must be the root alone)
              ("peak_spec", jNat (max (Net.sumSz (n.sizeIn rm t) (t.leaves.map BT.leaf))
                                      (Net.stepsPeak (n.sizeIn rm t) (t.leaves.map BT.leaf) ord))),
              ("live_at_end", jNat (Net.liveAfter (t.leaves.map BT.leaf) ord).length)])

def handlers : List (String × Handler) := [("c03.nodes", nodes)]

end Cotengra.Driver.C03
