import CotengraVerif.Driver.Util

namespace Cotengra.Driver.C15
open Lean Cotengra Cotengra.Driver

/-- ops of property C15 (name them "c15.<op>") -/
def handlers : List (String × Handler) := []

end Cotengra.Driver.C15
