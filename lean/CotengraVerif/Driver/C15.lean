import CotengraVerif.Driver.Util
import CotengraVerif.Model.Crash

namespace Cotengra.Driver.C15
open Lean Cotengra Cotengra.Driver Cotengra.Crash

def nameOf (j : Json) : Except String Crash.Name := do pure (← j.getStr?).toList
def pathOf (j : Json) : Except String Path := do (← arrOf j).mapM nameOf
def jName (n : Crash.Name) : Json := jStr (String.ofList n)
def jPath (p : Path) : Json := jArr (p.map jName)

def fsOf (j : Json) : Except String FS := do
  let files ← (← arrOf (← field j "files")).mapM fun r => do
    match ← arrOf r with
    | [p, b] => pure (← pathOf p, ← natList b)
    | _ => throw "file = [path, bytes]"
  let dirs ← (← arrOf (fieldD j "dirs" (jArr []))).mapM pathOf
  pure (FS.ofList files dirs)

def opOf (j : Json) : Except String Op := do
  let kind ← (← field j "op").getStr?
  match kind with
  | "mkdir" => pure (.mkdir (← pathOf (← field j "p")))
  | "create" => pure (.create (← pathOf (← field j "p")))
  | "append" => pure (.append (← pathOf (← field j "p")) (← natList (← field j "b")))
  | "rename" => pure (.rename (← pathOf (← field j "s")) (← pathOf (← field j "d")))
  | "unlink" => pure (.unlink (← pathOf (← field j "p")))
  | _ => throw s!"unknown fs op {kind}"

def jOp : Op → Json
  | .mkdir p => jObj [("op", jStr "mkdir"), ("p", jPath p)]
  | .create p => jObj [("op", jStr "create"), ("p", jPath p)]
  | .append p b => jObj [("op", jStr "append"), ("p", jPath p), ("b", jNats b)]
  | .rename s d => jObj [("op", jStr "rename"), ("s", jPath s), ("d", jPath d)]
  | .unlink p => jObj [("op", jStr "unlink"), ("p", jPath p)]

def tableOf (j : Json) : Except String (List (Bytes × Nat)) := do
  (← arrOf j).mapM fun r => do
    match ← arrOf r with
    | [b, i] => pure (← natList b, ← natOf i)
    | _ => throw "table row = [bytes, id]"

def jOptNat : Option Nat → Json
  | some n => jNat n
  | none => Json.null

def jOptBytes : Option Bytes → Json
  | some b => jNats b
  | none => Json.null

def jOld : OldLook Nat → Json
  | .absent => jStr "absent"
  | .found e => jNat e
  | .raises => jStr "raises"

def jOutcome : Outcome Nat → Json
  | .hit e => jObj [("kind", jStr "hit"), ("entry", jNat e)]
  | .searched w => jObj [("kind", jStr "searched"), ("entry", jNat w)]
  | .raised => jObj [("kind", jStr "raised")]

def protoOf (j : Json) (split : Bool) (k : Key) (tag : Crash.Name) (data : Bytes) : Except String (List Op) := do
  match ← (← field j "protocol").getStr? with
  | "atomic" => pure (writeAtomic split k tag data)
  | "inplace" => pure (writeInplace split k data)
  | s => throw s!"unknown protocol {s}"

/-- `c15.steps`: the system calls of the modelled writer -/
def steps : Handler := fun j => do
  let split ← (← field j "split").getBool?
  let k ← nameOf (← field j "key")
  let tag ← nameOf (fieldD j "tag" (jStr "0"))
  let data ← natList (← field j "data")
  let ops ← protoOf j split k tag data
  pure (jObj [("ops", jArr (ops.map jOp)), ("key_path", jPath (keyPath split k)),
              ("tmp_path", jPath (tmpPath split k tag))])

/-- `c15.crash`: every state the modelled writer can leave behind, seen through the probes:
    file content at each probed key, and what both readers find there -/
def crash : Handler := fun j => do
  let fs ← fsOf (← field j "fs")
  let split ← (← field j "split").getBool?
  let k ← nameOf (← field j "key")
  let tag ← nameOf (fieldD j "tag" (jStr "0"))
  let data ← natList (← field j "data")
  let ops ← match j.getObjVal? "ops" with
    | .ok o => (← arrOf o).mapM opOf
    | .error _ => protoOf j split k tag data
  let tbl ← tableOf (← field j "table")
  let probes ← (← arrOf (← field j "probes")).mapM nameOf
  let C := tableCodec tbl
  let states := crashStates fs ops
  let rows := states.map fun s =>
    jArr (probes.map fun q =>
      jObj [("file", jOptBytes (s.files (keyPath split q))),
            ("new", jOptNat (lookupNew C s split q)),
            ("old", jOld (lookupOld C s split q))])
  pure (jObj [("states", jArr rows), ("n", jNat states.length)])

/-- `c15.admissible`: the verified trace checker on an observed system-call trace -/
def admissibleOp : Handler := fun j => do
  let fs ← fsOf (← field j "fs")
  let f ← pathOf (← field j "f")
  let B ← natList (← field j "data")
  let ops ← (← arrOf (← field j "ops")).mapM opOf
  let final := fs.run ops
  let split := match j.getObjVal? "split" with
    | .ok (Json.bool b) => b
    | _ => false
  pure (jObj [("admissible", jBool (admissible f B fs ops)), ("layout_ok", jBool (layoutOK split ops)),
              ("admissible_prefix", jBool (admissibleP f B fs ops)), ("is_key_path", jBool (isKeyPath f)),
              ("final_file", jOptBytes (final.files f))])

/-- `c15.later`: a sequence of later fresh processes on a given directory content -/
def later : Handler := fun j => do
  let fs ← fsOf (← field j "fs")
  let split ← (← field j "split").getBool?
  let tag ← nameOf (fieldD j "tag" (jStr "0"))
  let tbl ← tableOf (← field j "table")
  let reader ← (← field j "reader").getStr?
  let qs ← (← arrOf (← field j "queries")).mapM fun r => do
    match ← arrOf r with
    | [k, w] => pure (← nameOf k, ← natOf w)
    | _ => throw "query = [key, id of what a search would find]"
  let C := tableCodec tbl
  let rec goNew (fs : FS) : List (Key × Nat) → List (Outcome Nat)
    | [] => []
    | (k, w) :: rest => let r := queryNew C split tag fs k w; r.2 :: goNew r.1 rest
  let rec goOld (fs : FS) : List (Key × Nat) → List (Outcome Nat)
    | [] => []
    | (k, w) :: rest => let r := queryOld C split fs k w; r.2 :: goOld r.1 rest
  let outs := if reader == "old" then goOld fs qs else goNew fs qs
  pure (jObj [("outcomes", jArr (outs.map jOutcome))])

/-- ops of property C15 (name them "c15.<op>") -/
def handlers : List (String × Handler) :=
  [("c15.steps", steps), ("c15.crash", crash), ("c15.admissible", admissibleOp), ("c15.later", later)]

end Cotengra.Driver.C15
