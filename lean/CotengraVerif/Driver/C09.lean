import CotengraVerif.Driver.Util

namespace Cotengra.Driver.C09
open Lean Cotengra Cotengra.Driver

/-- ops of property C09 (name them "c09.<op>") -/
def handlers : List (String × Handler) := []

end Cotengra.Driver.C09
