import CotengraVerif.Driver.Util
import CotengraVerif.Model.DP

namespace Cotengra.Driver.C09
open Lean Cotengra Cotengra.Driver Cotengra.DP

/-- objective: {"kind": "flops"|"max"|"size"|"write"|"combo"|"limit", "factor": num, "den": den};
    the factor is num/den and the model's scores are scaled by den -/
def objOf (j : Json) : Except String Objective := do
  let k ← (← field j "kind").getStr?
  let f ← natOf (fieldD j "factor" (jNat 64))
  let d ← natOf (fieldD j "den" (jNat 1))
  match k with
  | "flops" => pure .flops
  | "max" => pure .max
  | "size" => pure .size
  | "write" => pure .write
  | "combo" => pure (.combo f d)
  | "limit" => pure (.limit f d)
  | _ => throw s!"unknown objective {k}"

def jTree : BT → Json
  | .leaf i => jNat i
  | .node l r => Json.arr #[jTree l, jTree r]

/-- op `c09.concost`: one of the six `compute_con_cost_*` on explicit temp legs.
    `appearances` and `sizes` arrive as a network whose inputs/outputs realise them. -/
def concost : Handler := fun j => do
  let g ← netOf (← field j "net")
  let obj ← objOf (← field j "obj")
  let temp ← pairList (← field j "temp")
  let a ← natOf (← field j "iscore")
  let b ← natOf (← field j "jscore")
  let r := conCost g obj temp a b
  pure (jObj [("legs", jPairs r.1), ("score", jNat r.2)])

/-- op `c09.merge`: the sorted simultaneous iteration -/
def merge : Handler := fun j => do
  let a ← pairList (← field j "ilegs")
  let b ← pairList (← field j "jlegs")
  let r := mergeLegs a b
  pure (jObj [("legs", jPairs r.1), ("shared", jBool r.2)])

def jTable (t : Table) : Json :=
  jArr (t.map fun (k, e) => jObj [("key", jNat k), ("legs", jPairs e.legs), ("score", jNat e.score),
                                 ("path", jPairs (bitpath e.tree))])

/-- op `c09.dp`: the whole `optimize_optimal_connected` on `where = all nodes`.
    Returns score, tree, ssa path, final cap; `tables: true` adds every table. -/
def dpOp : Handler := fun j => do
  let g ← netOf (← field j "net")
  let obj ← objOf (← field j "obj")
  let outer ← (fieldD j "outer" (jBool false)).getBool?
  let cap ← natOf (← field j "cap")
  let fuel ← natOf (fieldD j "fuel" (jNat 400))
  let n := g.inputs.length
  match loop g obj outer n fuel cap (initTabs g n) with
  | none => pure (jObj [("result", jStr "no-result")])
  | some (tabs, capEnd) =>
    match single (tab tabs n) with
    | none => pure (jObj [("result", jStr "unpack-error")])
    | some e =>
      let (_, _, ssa) := ssaOfTree n e.tree
      let base := [("result", jStr "ok"), ("score", jNat e.score), ("tree", jTree e.tree),
                   ("ssa_path", jPairs ssa), ("cap_end", jNat capEnd),
                   ("legs", jPairs e.legs)]
      let wantTabs := (fieldD j "tables" (jBool false)).getBool?.toOption.getD false
      pure (jObj (if wantTabs then base ++ [("tables", jArr (tabs.map jTable))] else base))

/-- op `c09.treecost`: price a given tree under every requested objective with the
    `ContractionTree` model (Model/Net.lean), and say whether it has an outer product -/
def treecost : Handler := fun j => do
  let g ← netOf (← field j "net")
  let t ← btOf (← field j "tree")
  let objs ← (← arrOf (← field j "objs")).mapM objOf
  pure (jObj [("costs", jNats (objs.map fun o => modelTreeCost g o t)),
              ("outer", jBool (modelHasOuter g t))])

def handlers : List (String × Handler) :=
  [("c09.concost", concost), ("c09.merge", merge), ("c09.dp", dpOp), ("c09.treecost", treecost)]

end Cotengra.Driver.C09
