import CotengraVerif.Driver.Util

namespace Cotengra.Driver.C18
open Lean Cotengra Cotengra.Driver

/-- ops of property C18 (name them "c18.<op>") -/
def handlers : List (String × Handler) := []

end Cotengra.Driver.C18
