import CotengraVerif.Driver.Util
import CotengraVerif.Model.Sims
import CotengraVerif.Model.HyperGraph

namespace Cotengra.Driver.C18
open Lean Cotengra Cotengra.Driver

def pairsOfPath (j : Json) : Except String (List (Nat × Nat)) := pairList j

/-- op `c18.anneal`: `compute_contracted_info(legsa, legsb, appearances, size_dict)` -/
def anneal : Handler := fun j => do
  let n ← netOf (← field j "net")
  let a ← pairList (← field j "legsa")
  let b ← pairList (← field j "legsb")
  let (l, c, s) := Anneal.info n a b
  pure (jObj [("legs", jPairs l), ("cost", jNat c), ("size", jNat s)])

def jState (s : Proc.State) : Json :=
  jObj [("nodes", jArr (s.nodes.map fun (k, l) => Json.arr #[jNat k, jPairs l])),
        ("edges", jArr (s.edges.map fun (k, l) => Json.arr #[jNat k, jNats l])),
        ("ssa", jNat s.ssa), ("flops", jNat s.flops), ("path", jNatss s.path)]

/-- op `c18.proc`: `ContractionProcessor(inputs, output, size_dict, track_flops=True)`, optionally
    `simplify_batch()` and `simplify_single_terms()`, then `contract_nodes(i, j)` along `path`.
    Reports the state after the simplifications and, per step, the operand legs, the new legs,
    the size of the new node and the running flops. -/
def proc : Handler := fun j => do
  let n ← netOf (← field j "net")
  let path ← natListList (← field j "path")
  let batch := match j.getObjVal? "batch" with | .ok (.bool b) => b | _ => false
  let single := match j.getObjVal? "single" with | .ok (.bool b) => b | _ => false
  let s0 := Proc.init n.inputs
  let removed := if batch then Proc.batchIxs s0 else []
  let s1 := if batch then Proc.simplifyBatch s0 else s0
  let s2 := if single then Proc.simplifySingleTerms n.app s1 else s1
  let rec go (s : Proc.State) (p : List (List Nat)) (acc : List Json) : List Json × Proc.State × Bool :=
    match p with
    | [] => (acc, s, true)
    | [a] :: rest =>
      -- a single-term simplification step `(i,)` of the path
      match Proc.popNode s a with
      | none => (acc, s, false)
      | some (legs, s') =>
        let (k, s'') := Proc.addNode s' (Proc.simplified n.app legs)
        go { s'' with path := s''.path ++ [[a]] } rest
          (acc ++ [jObj [("k", jNat k), ("legs", jPairs ((Proc.lookup s''.nodes k).getD []))]])
    | [a, b] :: rest =>
      match Proc.contractNodes n.app n.size s a b with
      | none => (acc, s, false)
      | some (k, il, jl, s') =>
        let nl := (Proc.lookup s'.nodes k).getD []
        go s' rest (acc ++ [jObj [("k", jNat k), ("ilegs", jPairs il), ("jlegs", jPairs jl),
          ("legs", jPairs nl), ("size", jNat (Proc.size n.size nl)),
          ("step_flops", jNat (Proc.flops n.size il jl)), ("flops", jNat s'.flops)]])
    | _ :: _ => (acc, s, false)
  let (steps, sf, ok) := go s2 path []
  pure (jObj [("init", jState s0), ("batch_removed", jNats removed), ("simplified", jState s2),
              ("steps", jArr steps), ("ok", jBool ok), ("flops", jNat sf.flops)])

def jHG (h : HG) : Json :=
  jObj [("nodes", jArr (h.nodes.map fun (k, l) => Json.arr #[jNat k, jNats l])),
        ("edges", jArr (h.edges.map fun (k, l) => Json.arr #[jNat k, jNats l])),
        ("sizes", jPairs h.sizeDict)]

/-- op `c18.hg`: `HyperGraph(inputs, output, size_dict)` then `contract(i, j)` along `path`; per step
    the figures read *before* the contraction (`contract_pair_cost`, `compute_contracted_inds`,
    `candidate_contraction_size`) and the new node afterwards. -/
def hg : Handler := fun j => do
  let n ← netOf (← field j "net")
  let path ← pairsOfPath (← field j "path")
  let h0 := HG.ofInputs n.inputs n.output n.sizes
  let rec go (h : HG) (p : List (Nat × Nat)) (acc : List Json) : List Json × HG × Bool :=
    match p with
    | [] => (acc, h, true)
    | (a, b) :: rest =>
      let cost := h.contractPairCost a b
      let pred := h.computeContractedInds [a, b]
      let cand := h.candidateContractionSize a b none
      match h.contract a b with
      | none => (acc, h, false)
      | some (k, h') =>
        go h' rest (acc ++ [jObj [("k", jNat k), ("inds", jNats (h'.getNode k)),
          ("size", jNat (h'.nodeSize k)), ("cost", jNat cost), ("predicted_inds", jNats pred),
          ("candidate_size", jNat cand)]])
  let (steps, hf, ok) := go h0 path []
  pure (jObj [("init", jHG h0), ("steps", jArr steps), ("ok", jBool ok), ("final", jHG hf),
              ("leaf_sizes", jNats (h0.nodes.map fun kv => h0.nodeSize kv.1))])

def handlers : List (String × Handler) :=
  [("c18.anneal", anneal), ("c18.proc", proc), ("c18.hg", hg)]

end Cotengra.Driver.C18
