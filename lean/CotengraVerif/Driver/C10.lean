import CotengraVerif.Driver.Util
import CotengraVerif.Model.Paths

namespace Cotengra.Driver.C10
open Lean Cotengra Cotengra.Driver Cotengra.Paths

def jPathOpt : Option Path → Json
  | none => jObj [("ok", jBool false)]
  | some p => jObj [("ok", jBool true), ("path", jNatss p)]

def optN (j : Json) (path : Path) : Nat :=
  match j.getObjVal? "n" with
  | .ok (.num _) => (j.getObjVal? "n" >>= (·.getNat?)).toOption.getD (defaultN path)
  | _ => defaultN path

def linearToSsaOp : Handler := fun j => do
  let p ← natListList (← field j "path")
  pure (jPathOpt (linearToSsa (optN j p) p))

def ssaToLinearOp : Handler := fun j => do
  let p ← natListList (← field j "path")
  pure (jPathOpt (ssaToLinear (optN j p) p))

def edgeToSsaOp : Handler := fun j => do
  let e ← natList (← field j "edge_path")
  let inputs ← natListList (← field j "inputs")
  pure (jPathOpt (edgePathToSsa e inputs))

/-- all subtrees -/
def subtrees : BT → List BT
  | .leaf i => [.leaf i]
  | .node l r => subtrees l ++ subtrees r ++ [.node l r]

def key (x : BT) : List Nat := sortAsc x.leaves

def findNode (t : BT) (ls : List Nat) : Except String BT :=
  match (subtrees t).find? (fun x => key x == sortAsc ls) with
  | some x => pure x
  | none => throw "no such node"

def jNodes (l : List BT) : Json := jNatss (l.map key)

/-- op `c10.tree`: traversals of the model, paths for a given (real) traversal, certificate -/
def treeOp : Handler := fun j => do
  let t ← btOf (← field j "tree")
  let n := t.leaves.length
  let table ← (← arrOf (fieldD j "scores" (jArr []))).mapM fun row => do
    match ← arrOf row with
    | [ls, sc] => pure (sortAsc (← natList ls), ← natOf sc)
    | _ => throw "score row"
  let order : BT → Nat := fun x => (table.lookup (key x)).getD 0
  let seq ← (← arrOf (fieldD j "seq" (jArr []))).mapM fun ls => do findNode t (← natList ls)
  pure (jObj [("dfs", jNodes (traverseDfs t)), ("ordered", jNodes (traverseOrdered t order)),
              ("cf_ok", jBool (cfCheck t seq)),
              ("ssa_path", jPathOpt (getSsaPath n seq)), ("path", jPathOpt (getPath n seq))])

def jFrom : Option (List (List Nat) × List (List Nat)) → Json
  | none => jObj [("ok", jBool false)]
  | some (ps, left) => jObj [("ok", jBool true), ("parents", jNatss ps), ("left", jNatss left)]

/-- op `c10.from_path` -/
def fromPathOp : Handler := fun j => do
  let p ← natListList (← field j "path")
  let n ← natOf (← field j "n")
  let ssa ← (← field j "ssa").getBool?
  pure (jFrom (if ssa then fromSsaPath n p else fromLinearPath n p))

/-- op `c10.from_edge`: `from_path(edge_path=…)` of the model -/
def fromEdgeOp : Handler := fun j => do
  let ep ← natList (← field j "edge_path")
  let inputs ← natListList (← field j "inputs")
  pure (jFrom (fromEdgePath ep inputs))

def handlers : List (String × Handler) :=
  [("c10.linear_to_ssa", linearToSsaOp), ("c10.ssa_to_linear", ssaToLinearOp),
   ("c10.edge_to_ssa", edgeToSsaOp), ("c10.tree", treeOp), ("c10.from_path", fromPathOp),
   ("c10.from_edge", fromEdgeOp)]

end Cotengra.Driver.C10
