import CotengraVerif.Driver.Util

namespace Cotengra.Driver.C10
open Lean Cotengra Cotengra.Driver

/-- ops of property C10 (name them "c10.<op>") -/
def handlers : List (String × Handler) := []

end Cotengra.Driver.C10
