import CotengraVerif.Driver.Util
import CotengraVerif.Driver.C01
import CotengraVerif.Driver.C02
import CotengraVerif.Driver.C03
import CotengraVerif.Driver.C04
import CotengraVerif.Driver.C05
import CotengraVerif.Driver.C06
import CotengraVerif.Driver.C07
import CotengraVerif.Driver.C08
import CotengraVerif.Driver.C09
import CotengraVerif.Driver.C10
import CotengraVerif.Driver.C11
import CotengraVerif.Driver.C12
import CotengraVerif.Driver.C13
import CotengraVerif.Driver.C14
import CotengraVerif.Driver.C15
import CotengraVerif.Driver.C16
import CotengraVerif.Driver.C17
import CotengraVerif.Driver.C18
import CotengraVerif.Driver.C19
import CotengraVerif.Driver.C20

namespace Cotengra.Driver
open Lean

/-- table of all handlers; each property registers its ops in its own `Driver/Cxx.lean`. -/
def handlers : List (String × Handler) :=
  List.flatten [C01.handlers, C02.handlers, C03.handlers, C04.handlers, C05.handlers, C06.handlers, C07.handlers, C08.handlers, C09.handlers, C10.handlers, C11.handlers, C12.handlers, C13.handlers, C14.handlers, C15.handlers, C16.handlers, C17.handlers, C18.handlers, C19.handlers, C20.handlers]

def dispatch (op : String) (j : Json) : Except String Json :=
  match handlers.lookup op with
  | some h => h j
  | none => .error s!"unknown op {op}"

end Cotengra.Driver
