import CotengraVerif.Driver.Util
import CotengraVerif.Model.HyperGraph

namespace Cotengra.Driver.C20
open Lean Cotengra Cotengra.Driver

def jTracker (t : Tracker) : Json :=
  jObj [("flops_contract", jNat (t.flops - t.qr)), ("max_size", jNat t.maxSize), ("peak_size", jInt t.peakSize),
        ("write", jNat t.write), ("total_size", jInt t.totalSize),
        ("contracted_size", jNat t.contractedSize)]

def jHG (h : HG) : Json :=
  jObj [("nodes", jArr (h.nodes.map fun (k, l) => Json.arr #[jNat k, jNats l])),
        ("edges", jArr (h.edges.map fun (k, l) => Json.arr #[jNat k, jNats l])),
        ("sizes", jPairs h.sizeDict)]

/-- op `c20.stats`: `compressed_contract_stats(chi, order, compress_late)` replayed on the
    traversal `path` (pairs of hypergraph node ids); reports the tracker and the hypergraph after
    every step, and before each step `candidate_contraction_size(li, ri, chi)`. -/
def stats : Handler := fun j => do
  let n ← netOf (← field j "net")
  let chi ← natOf (← field j "chi")
  let late := match j.getObjVal? "late" with | .ok (.bool b) => b | _ => false
  let path ← pairList (← field j "path")
  let h0 := HG.ofInputs n.inputs n.output n.sizes
  let t0 := Tracker.init h0 chi
  let rec go (st : HG × Tracker) (p : List (Nat × Nat)) (acc : List Json) : List Json × Option (HG × Tracker) :=
    match p with
    | [] => (acc, some st)
    | lr :: rest =>
      let cand := st.1.candidateContractionSize lr.1 lr.2 (some chi)
      match HG.statsStep chi late (some st) lr with
      | none => (acc, none)
      | some st' => go st' rest (acc ++ [jObj [("tracker", jTracker st'.2), ("hg", jHG st'.1),
                                              ("candidate", jNat cand)]])
  let (steps, fin) := go (h0, t0) path []
  -- the same through the one-shot definition the theorems are about
  let oneShot := HG.compressedStats n.inputs n.output n.sizes chi late path
  pure (jObj [("init", jTracker t0), ("steps", jArr steps),
              ("final", match fin with | some st => jTracker st.2 | none => Json.null),
              ("one_shot", match oneShot with | some st => jTracker st.2 | none => Json.null)])

def handlers : List (String × Handler) := [("c20.stats", stats)]

end Cotengra.Driver.C20
