import CotengraVerif.Driver.Util

namespace Cotengra.Driver.C20
open Lean Cotengra Cotengra.Driver

/-- ops of property C20 (name them "c20.<op>") -/
def handlers : List (String × Handler) := []

end Cotengra.Driver.C20
