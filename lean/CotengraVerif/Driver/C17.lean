import CotengraVerif.Driver.Util
import CotengraVerif.Model.Flow

namespace Cotengra.Driver.C17
open Lean Cotengra Cotengra.Driver Cotengra.Flow Cotengra

def boolOf (j : Json) : Except String Bool := j.getBool?

/-- rows: `[[callees], rdGlobal, rdHash]` -/
def tableOf (j : Json) : Except String (List Facts) := do
  (← arrOf j).mapM fun r => do
    match ← arrOf r with
    | [c, g, h] => pure { calls := ← natList c, rdGlobal := ← boolOf g, rdHash := ← boolOf h }
    | _ => throw "expected [calls, rdGlobal, rdHash]"

/-- op `c17.clean`: the decision procedure of `Props/C17.lean` (`cleanFrom`, `cleanAll`) run on a
    fact table sent by the harness: per entry the verdict, the size of the explored set and the
    tainted rows it reaches; and the joint verdict over all entries. -/
def clean : Handler := fun j => do
  let T ← tableOf (← field j "table")
  let es ← natList (← field j "entries")
  let rows := es.map fun e =>
    jObj [("entry", jNat e), ("clean", jBool (cleanFrom T e)),
          ("reach", jNat (members T (reachFrom T e)).length),
          ("tainted", jNats (taintedFrom T e))]
  pure (jObj [("entries", jArr rows), ("all", jBool (cleanAll T es))])

/-- a small interpreter-level probe: the three-function program of `Props/C17.lean`
    (`demoProg`-shaped: api loops `n` times over a helper that draws from `src`), run with the
    given tapes; used by the harness to replay `get_rng` semantics (seeded tape = CPython's
    `random.Random(seed)` stream, global tape = the perturbed global stream) on the model. -/
def srcOf (s : String) : Except String Src :=
  match s with
  | "seeded" => pure .seeded
  | "global" => pure .global
  | "hash" => pure .hash
  | _ => throw "src"

def demoProg (src : Src) : Prog (List Nat × Nat)
  | 0 => .loop (fun s => s.2 > 0) (.seq (.call 1) (.pure fun s => (s.1, s.2 - 1)))
  | 1 => .draw src (fun v s => (s.1 ++ [v], s.2))
  | _ => .pure id

def listTape (l : List Nat) : Nat → Nat := fun i => l.getD i 0

/-- op `c17.draws`: the values an API that draws `n` times from `src` obtains -/
def draws : Handler := fun j => do
  let src ← srcOf (← (← field j "src").getStr?)
  let n ← natOf (← field j "n")
  let seeded ← natList (← field j "seeded")
  let glob ← natList (← field j "global")
  let h ← natOf (← field j "hash")
  let env : Env (List Nat × Nat) := ⟨([], n), ⟨listTape seeded, 0⟩, ⟨listTape glob, 0⟩, h⟩
  match exec (demoProg src) (4 * n + 8) (.call 0) env with
  | some r => pure (jObj [("values", jNats r.store.1), ("seeded_pos", jNat r.seeded.pos),
                          ("global_pos", jNat r.global.pos)])
  | none => pure (jObj [("values", Json.null)])

/-- op `c17.sharesafe`: `Share.safe` on a table of (copy depth, mutation depth) rows, and the
    rows that violate it -/
def sharesafe : Handler := fun j => do
  let rows ← pairList (← field j "rows")
  let bad := (rows.zipIdx.filter fun (r, _) => !decide (r.2 ≤ r.1)).map (·.2)
  pure (jObj [("safe", jBool (Share.safe rows)), ("bad", jNats bad)])

def handlers : List (String × Handler) :=
  [("c17.clean", clean), ("c17.draws", draws), ("c17.sharesafe", sharesafe)]

end Cotengra.Driver.C17
