import CotengraVerif.Driver.Util
import CotengraVerif.Model.Flow
import CotengraVerif.Model.RngFlow
import CotengraVerif.Model.Gather

namespace Cotengra.Driver.C17
open Lean Cotengra Cotengra.Driver Cotengra.Flow Cotengra

def boolOf (j : Json) : Except String Bool := j.getBool?

/-- rows: `[[callees], rdGlobal, rdHash, rdSched]` -/
def tableOf (j : Json) : Except String (List Facts) := do
  (← arrOf j).mapM fun r => do
    match ← arrOf r with
    | [c, g, h, w] =>
      pure { calls := ← natList c, rdGlobal := ← boolOf g, rdHash := ← boolOf h, rdSched := ← boolOf w }
    | _ => throw "expected [calls, rdGlobal, rdHash, rdSched]"

/-- op `c17.clean`: the decision procedure of `Props/C17.lean` (`cleanFrom`, `cleanAll`) run on a
    fact table sent by the harness: per entry the verdict, the size of the explored set and the
    tainted rows it reaches; and the joint verdict over all entries. -/
def clean : Handler := fun j => do
  let T ← tableOf (← field j "table")
  let es ← natList (← field j "entries")
  let rows := es.map fun e =>
    jObj [("entry", jNat e), ("clean", jBool (cleanFrom T e)),
          ("reach", jNat (members T (reachFrom T e)).length),
          ("tainted", jNats (taintedFrom T e))]
  pure (jObj [("entries", jArr rows), ("all", jBool (cleanAll T es))])

/-- a small interpreter-level probe: the three-function program of `Props/C17.lean`
    (`demoProg`-shaped: api loops `n` times over a helper that draws from `src`), run with the
    given tapes; used by the harness to replay `get_rng` semantics (seeded tape = CPython's
    `random.Random(seed)` stream, global tape = the perturbed global stream) on the model. -/
def srcOf (s : String) : Except String Src :=
  match s with
  | "seeded" => pure .seeded
  | "global" => pure .global
  | "hash" => pure .hash
  | "sched" => pure .sched
  | _ => throw "src"

def demoProg (src : Src) : Prog (List Nat × Nat)
  | 0 => .loop (fun s => s.2 > 0) (.seq (.call 1) (.pure fun s => (s.1, s.2 - 1)))
  | 1 => .draw src (fun v s => (s.1 ++ [v], s.2))
  | _ => .pure id

def listTape (l : List Nat) : Nat → Nat := fun i => l.getD i 0

/-- op `c17.draws`: the values an API that draws `n` times from `src` obtains -/
def draws : Handler := fun j => do
  let src ← srcOf (← (← field j "src").getStr?)
  let n ← natOf (← field j "n")
  let seeded ← natList (← field j "seeded")
  let glob ← natList (← field j "global")
  let h ← natOf (← field j "hash")
  let sched ← natList (fieldD j "sched" (Json.arr #[]))
  let env : Env (List Nat × Nat) := ⟨([], n), ⟨listTape seeded, 0⟩, ⟨listTape glob, 0⟩, h, ⟨listTape sched, 0⟩⟩
  match exec (demoProg src) (4 * n + 8) (.call 0) env with
  | some r => pure (jObj [("values", jNats r.store.1), ("seeded_pos", jNat r.seeded.pos),
                          ("global_pos", jNat r.global.pos)])
  | none => pure (jObj [("values", Json.null)])

/-- op `c17.sharesafe`: `Share.safe` on a table of (copy depth, mutation depth) rows, and the
    rows that violate it -/
def sharesafe : Handler := fun j => do
  let rows ← pairList (← field j "rows")
  let bad := (rows.zipIdx.filter fun (r, _) => !decide (r.2 ≤ r.1)).map (·.2)
  pure (jObj [("safe", jBool (Share.safe rows)), ("bad", jNats bad)])

/-! ### generator-variable data flow -/
open Cotengra.RFlow in
partial def exprOf (j : Json) : Except String RExpr := do
  match ← arrOf j with
  | tag :: args =>
    match (← tag.getStr?), args with
    | "var", [x] => pure (.var (← natOf x))
    | "none", [] => pure .none
    | "global", [] => pure .globalMod
    | "const", [] => pure .const
    | "getRng", [e] => pure (.getRng (← exprOf e))
    | "draw", [e] => pure (.draw (← exprOf e))
    | "or", [a, b] => pure (.orElse (← exprOf a) (← exprOf b))
    | "choice", [a, b] => pure (.choice (← exprOf a) (← exprOf b))
    | "both", [a, b] => pure (.both (← exprOf a) (← exprOf b))
    | t, _ => throw s!"bad expression {t}"
  | [] => throw "empty expression"

open Cotengra.RFlow in
partial def stmtOf (j : Json) : Except String RStmt := do
  match ← arrOf j with
  | tag :: args =>
    match (← tag.getStr?), args with
    | "skip", [] => pure .skip
    | "assign", [x, e] => pure (.assign (← natOf x) (← exprOf e))
    | "use", [k, st, e] => pure (.use (← natOf k) (← boolOf st) (← exprOf e))
    | "seq", [a, b] => pure (.seq (← stmtOf a) (← stmtOf b))
    | "ite", [a, b] => pure (.ite (← stmtOf a) (← stmtOf b))
    | "iteNone", [x, a, b] => pure (.iteNone (← natOf x) (← stmtOf a) (← stmtOf b))
    | "iteTruthy", [x, a, b] => pure (.iteTruthy (← natOf x) (← stmtOf a) (← stmtOf b))
    | "loop", [b] => pure (.loop (← stmtOf b))
    | "brk", [] => pure .brk
    | "ret", [] => pure .ret
    | t, _ => throw s!"bad statement {t}"
  | [] => throw "empty statement"

/-- op `c17.rngflow`: `RFlow.Skeleton.badSinks` (the analysis `rng_dataflow_seeded` evaluates and
    `analyse_sound` is about) on a list of skeletons sent by the harness -/
def rngflow : Handler := fun j => do
  let sks ← arrOf (← field j "skeletons")
  let rows ← sks.mapM fun sk => do
    let k : RFlow.Skeleton := ⟨← natOf (← field sk "nvars"), ← natList (← field sk "attrs"),
                               ← stmtOf (← field sk "body")⟩
    pure (jObj [("bad", jNats k.badSinks), ("ok", jBool k.ok)])
  pure (jObj [("results", jArr rows)])

/-! ### gathering from a pool -/
open Cotengra.Gather in
/-- op `c17.gather`: one restart round of the forest on real data: `scores[i]` = (rank of the)
    score of the tree returned by task `i` (submission order), `order` = the order in which the
    pool completed the tasks.  Returns the task indices in the order of the sorted forest
    (`stableSort score (gather mode results order)`), and the tasks whose trees become the
    parents of the next round's saplings (`cycleTake (take keep sorted) numTrees`). -/
def gatherOp : Handler := fun j => do
  let scores ← natList (← field j "scores")
  let order ← natList (← field j "order")
  let keep ← natOf (← field j "keep")
  let numTrees ← natOf (← field j "num_trees")
  let mode ← match ← (← field j "mode").getStr? with
    | "submission" => pure Mode.submission
    | "completion" => pure Mode.completion
    | _ => throw "mode"
  let results : List (Nat × Nat) := scores.zipIdx.map fun (s, i) => (i, s)
  let sorted := stableSort (·.2) (gather mode results order)
  pure (jObj [("sorted", jNats (sorted.map (·.1))),
              ("parents", jNats ((cycleTake (sorted.take keep) numTrees).map (·.1))),
              ("valid", jBool (validOrder scores.length order))])

/-! ### get_rng -/
open Cotengra.GetRng in
/-- op `c17.getrng`: `drawsVia` -- the values drawn through `get_rng(arg)`, the position of the
    global generator afterwards and, for a shared instance, the position of the caller's generator -/
def getrng : Handler := fun j => do
  let kind ← (← field j "kind").getStr?
  let n ← natOf (← field j "n")
  let seeded ← natList (← field j "seeded")
  let glob ← natList (← field j "global")
  -- the tape of `random.Random(seed)` is supplied by the harness (CPython's generator is trusted):
  -- `mk` ignores the seed and returns that tape
  let mk : Nat → Nat → Nat := fun _ => listTape seeded
  let arg ← match kind with
    | "none" => pure SeedArg.none
    | "int" => pure (SeedArg.int 0)
    | "instance" => pure (SeedArg.inst ⟨listTape seeded, 0⟩)
    | "module" => pure SeedArg.globalMod
    | "unsupported" => pure SeedArg.unsupported
    | _ => throw "kind"
  match drawsVia mk arg ⟨listTape glob, 0⟩ n with
  | none => pure (jObj [("error", jStr "TypeError"), ("values", Json.null)])
  | some (vs, g, inst) =>
    pure (jObj [("values", jNats vs), ("global_pos", jNat g.pos),
                ("instance_pos", match inst with | some i => jNat i.pos | none => Json.null)])

def handlers : List (String × Handler) :=
  [("c17.clean", clean), ("c17.draws", draws), ("c17.sharesafe", sharesafe), ("c17.rngflow", rngflow),
   ("c17.gather", gatherOp), ("c17.getrng", getrng)]

end Cotengra.Driver.C17
