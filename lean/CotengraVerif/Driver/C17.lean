import CotengraVerif.Driver.Util

namespace Cotengra.Driver.C17
open Lean Cotengra Cotengra.Driver

/-- ops of property C17 (name them "c17.<op>") -/
def handlers : List (String × Handler) := []

end Cotengra.Driver.C17
