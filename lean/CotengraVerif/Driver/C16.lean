import CotengraVerif.Driver.Util

namespace Cotengra.Driver.C16
open Lean Cotengra Cotengra.Driver

/-- ops of property C16 (name them "c16.<op>") -/
def handlers : List (String × Handler) := []

end Cotengra.Driver.C16
