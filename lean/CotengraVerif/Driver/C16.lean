import CotengraVerif.Driver.Util
import CotengraVerif.Model.Reuse

namespace Cotengra.Driver.C16
open Lean Cotengra Cotengra.Driver Cotengra.Hyper Cotengra.Reuse

def scoreOf (j : Json) : Except String Score :=
  match j with
  | .null => pure none
  | _ => do pure (some (← natOf j))

def jOptNat : Option Nat → Json
  | none => Json.null
  | some a => jNat a

def pcName : PC → String
  | .idle => "idle" | .gotOpt _ => "gotOpt" | .hashed _ _ => "hashed" | .ran _ _ _ => "ran"
  | .stored _ _ _ => "stored" | .compare _ _ _ => "compare" | .have _ _ _ => "have"

/-- op `c16.run`: run a schedule.
    `mode`: "reusable" | "auto_cached" | "auto_plain"; `overwrite`: "no" | "yes" | "improved";
    `cache_only`, `fresh_plain`: bool; `queues`: per thread, list of [net, key, hard];
    `trials`: per thread, per sub-search, list of trial scores (null = failed trial);
    `schedule`: list of thread indices; `obj_of` (optional): per thread, the Reusable object it uses.  Returns per thread: results, number of sub-searches,
    program point; and for every queried key whether the thread's object caches it. -/
def run : Handler := fun j => do
  let mode ← match ← (← field j "mode").getStr? with
    | "reusable" => pure Mode.reusable
    | "auto_cached" => pure Mode.autoCached
    | "auto_plain" => pure Mode.autoPlain
    | s => throw s!"unknown mode {s}"
  let ov ← match ← (← field j "overwrite").getStr? with
    | "no" => pure Overwrite.no
    | "yes" => pure Overwrite.yes
    | "improved" => pure Overwrite.improved
    | s => throw s!"unknown overwrite {s}"
  let cacheOnly ← (fieldD j "cache_only" (Json.bool false)).getBool?
  let fresh ← (fieldD j "fresh_plain" (Json.bool true)).getBool?
  let queues ← (← arrOf (← field j "queues")).mapM fun qs => do
    (← arrOf qs).mapM fun q => do
      match ← arrOf q with
      | [n, k, h] => pure ({ net := ← natOf n, key := ← natOf k, hard := ← h.getBool? } : Query)
      | _ => throw "query must be [net, key, hard]"
  let trials ← (← arrOf (← field j "trials")).mapM fun per => do
    (← arrOf per).mapM fun log => do
      (← arrOf log).mapM fun sc => do
        let s ← scoreOf sc
        pure ((⟨0, 0⟩ : Setting),
          ({ score := s, flops := s, write := s, size := s,
             tree := if s.isSome then some 0 else none } : Trial))
  let sched ← natList (← field j "schedule")
  let objOf ← natList (fieldD j "obj_of" (jNats []))
  let cfg : Cfg :=
    { mode := mode, overwrite := ov, cacheOnly := cacheOnly, freshPlain := fresh,
      trials := fun t i => ((trials.getD t []).getD i []),
      objOf := fun t => match objOf[t]? with
        | some o => o
        | none => match mode with
          | .reusable => 0
          | _ => t }
  let s0 := Sys.start fun t => queues.getD t []
  let s := runSched cfg s0 sched
  let n := queues.length
  let outs := (List.range n).map fun t =>
    let th := s.threads t
    let keys := ((queues.getD t []).map (·.key)).eraseDups
    jObj [("results", jArr (th.results.map fun (q, r) => jArr [jNat q.net, jOptNat r])),
          ("nsearch", jNat th.nsearch), ("pc", jStr (pcName th.pc)),
          ("left", jNat th.queue.length),
          ("cached", jArr (keys.map fun k =>
            jArr [jNat k, jBool ((s.objs (cfg.objOf t)).cache k).isSome]))]
  pure (jObj [("threads", jArr outs)])

def handlers : List (String × Handler) := [("c16.run", run)]

end Cotengra.Driver.C16
