import CotengraVerif.Driver.Util
import CotengraVerif.Model.Reuse
import CotengraVerif.Model.ReuseNest
import CotengraVerif.Model.ReusePool
import CotengraVerif.Model.ReuseIface
import CotengraVerif.Model.ReuseShared

namespace Cotengra.Driver.C16
open Lean Cotengra Cotengra.Driver Cotengra.Hyper Cotengra.Reuse
open Cotengra.ReuseNest Cotengra.ReusePool Cotengra.ReuseIface Cotengra.ReuseShared

def scoreOf (j : Json) : Except String Score :=
  match j with
  | .null => pure none
  | _ => do pure (some (← natOf j))

def jOptNat : Option Nat → Json
  | none => Json.null
  | some a => jNat a

def pcName : PC → String
  | .idle => "idle" | .gotOpt _ => "gotOpt" | .hashed _ _ => "hashed" | .ran _ _ _ => "ran"
  | .stored _ _ _ => "stored" | .compare _ _ _ => "compare" | .have _ _ _ => "have"

/-- op `c16.run`: run a schedule.
    `mode`: "reusable" | "auto_cached" | "auto_plain"; `overwrite`: "no" | "yes" | "improved";
    `cache_only`, `fresh_plain`: bool; `queues`: per thread, list of [net, key, hard];
    `trials`: per thread, per sub-search, list of trial scores (null = failed trial);
    `schedule`: list of thread indices; `obj_of` (optional): per thread, the Reusable object it uses.  Returns per thread: results, number of sub-searches,
    program point; and for every queried key whether the thread's object caches it. -/
def run : Handler := fun j => do
  let mode ← match ← (← field j "mode").getStr? with
    | "reusable" => pure Mode.reusable
    | "auto_cached" => pure Mode.autoCached
    | "auto_plain" => pure Mode.autoPlain
    | s => throw s!"unknown mode {s}"
  let ov ← match ← (← field j "overwrite").getStr? with
    | "no" => pure Overwrite.no
    | "yes" => pure Overwrite.yes
    | "improved" => pure Overwrite.improved
    | s => throw s!"unknown overwrite {s}"
  let cacheOnly ← (fieldD j "cache_only" (Json.bool false)).getBool?
  let fresh ← (fieldD j "fresh_plain" (Json.bool true)).getBool?
  let queues ← (← arrOf (← field j "queues")).mapM fun qs => do
    (← arrOf qs).mapM fun q => do
      match ← arrOf q with
      | [n, k, h] => pure ({ net := ← natOf n, key := ← natOf k, hard := ← h.getBool? } : Query)
      | _ => throw "query must be [net, key, hard]"
  let trials ← (← arrOf (← field j "trials")).mapM fun per => do
    (← arrOf per).mapM fun log => do
      (← arrOf log).mapM fun sc => do
        let s ← scoreOf sc
        pure ((⟨0, 0⟩ : Setting),
          ({ score := s, flops := s, write := s, size := s,
             tree := if s.isSome then some 0 else none } : Trial))
  let sched ← natList (← field j "schedule")
  let objOf ← natList (fieldD j "obj_of" (jNats []))
  let cfg : Cfg :=
    { mode := mode, overwrite := ov, cacheOnly := cacheOnly, freshPlain := fresh,
      trials := fun t i => ((trials.getD t []).getD i []),
      objOf := fun t => match objOf[t]? with
        | some o => o
        | none => match mode with
          | .reusable => 0
          | _ => t }
  let s0 := Sys.start fun t => queues.getD t []
  let s := runSched cfg s0 sched
  let n := queues.length
  let outs := (List.range n).map fun t =>
    let th := s.threads t
    let keys := ((queues.getD t []).map (·.key)).eraseDups
    jObj [("results", jArr (th.results.map fun (q, r) => jArr [jNat q.net, jOptNat r])),
          ("nsearch", jNat th.nsearch), ("pc", jStr (pcName th.pc)),
          ("left", jNat th.queue.length),
          ("cached", jArr (keys.map fun k =>
            jArr [jNat k, jBool ((s.objs (cfg.objOf t)).cache k).isSome]))]
  pure (jObj [("threads", jArr outs)])


/-! ### nested queries: `c16.nrun` -/

def modeOf (s : String) : Except String Mode :=
  match s with
  | "reusable" => pure Mode.reusable
  | "auto_cached" => pure Mode.autoCached
  | "auto_plain" => pure Mode.autoPlain
  | s => throw s!"unknown kind {s}"

def overwriteOf (s : String) : Except String Overwrite :=
  match s with
  | "no" => pure Overwrite.no
  | "yes" => pure Overwrite.yes
  | "improved" => pure Overwrite.improved
  | s => throw s!"unknown overwrite {s}"

def trialOfScore (s : Score) : Trial :=
  { score := s, flops := s, write := s, size := s, tree := if s.isSome then some 0 else none }

/-- `{"q":[net,key,hard],"kind":..,"obj":n,"call":bool,"trials":[{"nested":[..],"score":n|null}]}` -/
partial def qtreeOf (j : Json) : Except String QTree := do
  let q ← match ← arrOf (← field j "q") with
    | [n, k, h] => pure ({ net := ← natOf n, key := ← natOf k, hard := ← h.getBool? } : Query)
    | _ => throw "query must be [net, key, hard]"
  let kind ← modeOf (← (← field j "kind").getStr?)
  let obj ← natOf (← field j "obj")
  let call ← (fieldD j "call" (Json.bool false)).getBool?
  let trials ← (← arrOf (← field j "trials")).mapM fun tj => do
    let nested ← (← arrOf (fieldD tj "nested" (jArr []))).mapM qtreeOf
    let sc ← scoreOf (fieldD tj "score" Json.null)
    pure (nested, (⟨0, 0⟩ : Setting), trialOfScore sc)
  pure (.node q kind obj call trials)

def labelName : Label → String
  | .silent => "silent" | .hash => "hash" | .getopt => "getopt" | .alloc => "alloc"
  | .call => "call" | .trial => "trial" | .search => "search" | .store => "store"
  | .cacheGet => "cacheGet" | .cacheSet => "cacheSet" | .ret => "ret"

/-- one small step of thread `t`, with its label -/
def nstepL (cfg : NCfg) (s : NSys) (t : Nat) : NSys × Label :=
  let x := stepThread cfg t (s.threads t) s.objs
  (ReuseNest.step cfg s t, x.2.2)

def quiescent (s : NSys) (t : Nat) : Bool :=
  (s.threads t).stack.isEmpty && (s.threads t).queue.isEmpty

/-- thread `t` runs small steps (all through `ReuseNest.step`) until it has made a step with an
    observable label, or — for the expected label "end" — until a top-level query has returned.
    Returns the state and what ended the segment. -/
def runSegment (cfg : NCfg) (observable : List String) (t : Nat) : Nat → NSys → NSys × String
  | 0, s => (s, "out-of-fuel")
  | fuel + 1, s =>
    if quiescent s t then (s, "quiescent")
    else
      let (s1, l) := nstepL cfg s t
      let nm := labelName l
      if observable.contains nm then (s1, nm)
      else if l == Label.ret && (s1.threads t).stack.isEmpty then (s1, "end")
      else runSegment cfg observable t fuel s1

def runSegments (cfg : NCfg) (observable : List String) (fuel : Nat) :
    List (Nat × String) → Nat → NSys → NSys × Option (Nat × String × String)
  | [], _, s => (s, none)
  | (t, lab) :: rest, i, s =>
    let (s1, got) := runSegment cfg observable t fuel s
    if got == lab then runSegments cfg observable fuel rest (i + 1) s1
    else (s1, some (i, lab, got))

/-- run every thread to the end of its program (round robin over whole threads) -/
def runToEnd (cfg : NCfg) (n : Nat) (fuel : Nat) (s : NSys) : NSys :=
  (List.range n).foldl (fun s t =>
    (List.range fuel).foldl (fun s _ => if quiescent s t then s else ReuseNest.step cfg s t) s) s

/-- op `c16.nrun`: nested queries under a schedule given in segments.
    `overwrite`: [[obj, "no"|"yes"|"improved"]]; `cache_only`: [obj]; `register_first`: bool;
    `queues`: per thread a list of nesting trees; `segments`: [[thread, label]] — the thread runs
    until its next step with an observable label, which must be the given one ("end" = a
    top-level query returned); `observable`: which labels the harness has yield points for;
    `probe`: [[obj, key]] cache entries to report.  After the segments every thread is run to
    the end of its program. -/
def nrun : Handler := fun j => do
  let ovs ← (← arrOf (fieldD j "overwrite" (jArr []))).mapM fun p => do
    match ← arrOf p with
    | [o, v] => pure (← natOf o, ← overwriteOf (← v.getStr?))
    | _ => throw "overwrite entry must be [obj, mode]"
  let cos ← natList (fieldD j "cache_only" (jNats []))
  let regFirst ← (fieldD j "register_first" (Json.bool false)).getBool?
  let queues ← (← arrOf (← field j "queues")).mapM fun qs => do (← arrOf qs).mapM qtreeOf
  let segs ← (← arrOf (fieldD j "segments" (jArr []))).mapM fun p => do
    match ← arrOf p with
    | [t, l] => pure (← natOf t, ← l.getStr?)
    | _ => throw "segment must be [thread, label]"
  let observable ← (← arrOf (fieldD j "observable" (jArr []))).mapM fun x => x.getStr?
  let probe ← pairList (fieldD j "probe" (jArr []))
  let fuel ← natOf (fieldD j "fuel" (jNat 2000))
  let cfg : NCfg :=
    { overwrite := fun o => match ovs.find? (·.1 == o) with | some p => p.2 | none => .no,
      cacheOnly := fun o => cos.contains o, registerFirst := regFirst }
  let s0 := NSys.start fun t => queues.getD t []
  let (s1, mism) := runSegments cfg observable fuel segs 0 s0
  let n := queues.length
  let s := runToEnd cfg n fuel s1
  let outs := (List.range n).map fun t =>
    let th := s.threads t
    jObj [("results", jArr (th.results.map fun r =>
            jArr [jNat r.q.net, jNat r.depth, jBool r.viaCall, jOptNat r.got])),
          ("nalloc", jNat th.nalloc), ("stack", jNat th.stack.length),
          ("left", jNat th.queue.length),
          ("after_segments", jNat ((s1.threads t).results.length))]
  let cached := probe.map fun (o, k) => jArr [jNat o, jNat k, jBool ((s.objs o).cache k).isSome]
  let mj := match mism with
    | none => Json.null
    | some (i, e, g) => jObj [("segment", jNat i), ("expected", jStr e), ("got", jStr g)]
  pure (jObj [("threads", jArr outs), ("cached", jArr cached), ("mismatch", mj)])

/-! ### overlapping pool-parallel searches: `c16.pool` -/

def idxOf (l : List Fut) (o k : Nat) : Option Nat :=
  (l.zipIdx.find? fun (f, _) => f.origin == o && f.k == k).map (·.2)

/-- op `c16.pool`: `fresh`: bool; `nets`: contraction of each search; `scores`: per search, the
    score of its k-th submission (null = failed trial); `events`: ["begin",σ] | ["submit",σ] |
    ["harvest",σ,origin,k] (the future that search σ reported) | ["cancel",σ].  A harvested future
    that is not in the model's list of σ is reported as a mismatch (the event is skipped). -/
def pool : Handler := fun j => do
  let fresh ← (fieldD j "fresh" (Json.bool true)).getBool?
  let nets ← natList (← field j "nets")
  let scores ← (← arrOf (← field j "scores")).mapM fun per => do (← arrOf per).mapM scoreOf
  let cfg : PCfg :=
    { freshList := fresh,
      queryOf := fun σ => { net := nets.getD σ 0, key := σ, hard := true },
      envs := fun σ => { getSetting := fun st => ⟨0, st.submitted⟩,
                         trialFn := fun k _ => trialOfScore ((scores.getD σ []).getD k none) } }
  let evs ← arrOf (← field j "events")
  let mut s := PSys.start
  let mut mism : List Json := []
  let mut i := 0
  for e in evs do
    match ← arrOf e with
    | [tag, a] =>
      let σ ← natOf a
      match ← tag.getStr? with
      | "begin" => s := pstep cfg s (.begin σ)
      | "submit" => s := pstep cfg s (.submit σ)
      | "cancel" => s := pstep cfg s (.cancel σ)
      | t => throw s!"unknown event {t}"
    | [tag, a, o, k] =>
      if (← tag.getStr?) != "harvest" then throw "expected harvest"
      let σ ← natOf a
      let o ← natOf o
      let k ← natOf k
      match idxOf (s.lists (s.searches σ).list) o k with
      | some c => s := pstep cfg s (.harvest σ c)
      | none => mism := mism ++ [jObj [("event", jNat i), ("search", jNat σ), ("origin", jNat o), ("k", jNat k)]]
    | _ => throw "bad event"
    i := i + 1
  let outs := (List.range nets.length).map fun σ =>
    let sr := s.searches σ
    jObj [("reported", jArr (sr.reported.map fun f => jArr [jNat f.origin, jNat f.k])),
          ("cancelled", jArr (sr.cancelled.map fun f => jArr [jNat f.origin, jNat f.k])),
          ("tree", jOptNat sr.h.tree), ("ntrials", jNat sr.h.scores.length),
          ("pending", jNat (s.lists sr.list).length), ("submitted", jNat sr.h.submitted)]
  pure (jObj [("searches", jArr outs), ("mismatch", jArr mism)])

/-! ### the path cache of the functional interface: `c16.iface` -/

def ipcName : IPC → String
  | .idle => "idle" | .missed _ => "missed" | .found _ _ => "found"

/-- which access of `_PATH_CACHE` the next step of thread `t` makes ("" = none) -/
def ilabel (cfg : ICfg) (s : ISys) (t : Nat) : String :=
  match (s.threads t).pc with
  | .idle =>
    match (s.threads t).queue with
    | [] => "quiescent"
    | q :: _ => if (s.cache (cfg.keyOf q)).isSome then "hit" else "miss"
  | .missed _ => ""
  | .found _ _ => "store"

/-- thread `t` steps (all through `ReuseIface.istep`) until it has made an access to `_PATH_CACHE`;
    "end" = it finished a query without a further access -/
def irunSegment (cfg : ICfg) (t : Nat) : Nat → ISys → ISys × String
  | 0, s => (s, "out-of-fuel")
  | fuel + 1, s =>
    let l := ilabel cfg s t
    if l == "quiescent" then (s, "quiescent")
    else
      let s1 := istep cfg s t
      if l == "" then irunSegment cfg t fuel s1 else (s1, l)

/-- op `c16.iface`: `queues`: per thread [[net, preset]]; `segments`: [[thread, "hit"|"miss"|
    "store"|"end"]] ("end": the thread's query returned: after a hit or a store the harness yields
    once more between two queries); `probe`: [[net, preset]] keys to report. -/
def iface : Handler := fun j => do
  let queues ← (← arrOf (← field j "queues")).mapM fun qs => do
    (← arrOf qs).mapM fun q => do
      match ← arrOf q with
      | [n, p] => pure ({ net := ← natOf n, preset := ← natOf p } : IQuery)
      | _ => throw "query must be [net, preset]"
  let segs ← (← arrOf (fieldD j "segments" (jArr []))).mapM fun p => do
    match ← arrOf p with
    | [t, l] => pure (← natOf t, ← l.getStr?)
    | _ => throw "segment must be [thread, label]"
  let probe ← pairList (fieldD j "probe" (jArr []))
  let cfg : ICfg := { keyOf := fun q => q.net * 64 + q.preset % 64, inner := fun _ _ q => q.net }
  let mut s := ISys.start fun t => queues.getD t []
  let mut mism : Json := Json.null
  let mut i := 0
  for (t, lab) in segs do
    if mism == Json.null then
      if lab == "end" then
        -- the query has returned already (hit / store finish it); nothing to step
        pure ()
      else
        let (s1, got) := irunSegment cfg t 8 s
        s := s1
        if got != lab then
          mism := jObj [("segment", jNat i), ("expected", jStr lab), ("got", jStr got)]
    i := i + 1
  let n := queues.length
  let outs := (List.range n).map fun t =>
    let th := s.threads t
    jObj [("results", jArr (th.results.map fun (q, p) => jArr [jNat q.net, jNat q.preset, jNat p])),
          ("ncalls", jNat th.ncalls), ("pc", jStr (ipcName th.pc)), ("left", jNat th.queue.length)]
  let cached := probe.map fun (nn, p) =>
    jArr [jNat nn, jNat p, jBool (s.cache (cfg.keyOf { net := nn, preset := p })).isSome]
  pure (jObj [("threads", jArr outs), ("cached", jArr cached), ("mismatch", mism)])

/-! ### object identity of the sub-optimizer: `c16.srun` -/

def spcName : SPC → String
  | .idle => "idle" | .hashed _ _ => "hashed" | .searching _ _ _ _ => "searching" | .ran _ _ _ => "ran"
  | .stored _ _ _ => "stored" | .compare _ _ _ => "compare" | .have _ _ _ => "have"

/-- the shared access a step ended with, read off the program points before and after it -/
def slabel (before after : SThread) : String :=
  if after.results.length > before.results.length then "end"
  else match after.pc with
    | .hashed _ _ => "hash"
    | .ran _ _ _ => "search"
    | .stored _ _ _ => "store"
    | .compare _ _ _ => "cacheGet"
    | .have _ _ _ => (match before.pc with | .hashed _ _ => "cacheGet" | _ => "cacheSet")
    | _ => ""

def squiescent (s : SSys) (t : Nat) : Bool :=
  (match (s.threads t).pc with | .idle => true | _ => false) && (s.threads t).queue.isEmpty

/-- thread `t` steps (through `ReuseShared.sstep`) until a labelled step; also returns the
    references of the sub-optimizer objects handed out on the way -/
def srunSegment (cfg : SCfg) (t : Nat) : Nat → SSys → List Nat → SSys × String × List Nat
  | 0, s, refs => (s, "out-of-fuel", refs)
  | fuel + 1, s, refs =>
    if squiescent s t then (s, "quiescent", refs)
    else
      let s1 := sstep cfg s t
      let refs1 := match (s.threads t).pc, (s1.threads t).pc with
        | .hashed _ _, .searching _ _ r _ => refs ++ [r]
        | _, _ => refs
      let l := slabel (s.threads t) (s1.threads t)
      if l == "" then
        -- a blocked thread (lock taken) does not move: give up the segment
        if spcName (s1.threads t).pc == "hashed" && spcName (s.threads t).pc == "hashed" then (s1, "blocked", refs1)
        else srunSegment cfg t fuel s1 refs1
      else (s1, l, refs1)

/-- op `c16.srun`: `policy`: "fresh" | "shared"; `overwrite`, `cache_only`; `queues`: per thread
    [[net, key, hard]]; `trials`: per thread, per sub-search, list of scores; `segments`:
    [[thread, label]].  Returns per thread results / nsearch / pc, the references of the
    sub-optimizer objects in the order they were handed out, cached keys. -/
def srunOp : Handler := fun j => do
  let policy ← match ← (fieldD j "policy" (jStr "fresh")).getStr? with
    | "fresh" => pure Policy.fresh
    | "shared" => pure Policy.shared
    | s => throw s!"unknown policy {s}"
  let ov ← overwriteOf (← (fieldD j "overwrite" (jStr "no")).getStr?)
  let cacheOnly ← (fieldD j "cache_only" (Json.bool false)).getBool?
  let queues ← (← arrOf (← field j "queues")).mapM fun qs => do
    (← arrOf qs).mapM fun q => do
      match ← arrOf q with
      | [n, k, h] => pure ({ net := ← natOf n, key := ← natOf k, hard := ← h.getBool? } : Query)
      | _ => throw "query must be [net, key, hard]"
  let trials ← (← arrOf (← field j "trials")).mapM fun per => do
    (← arrOf per).mapM fun log => do
      (← arrOf log).mapM fun sc => do
        pure ((⟨0, 0⟩ : Setting), trialOfScore (← scoreOf sc))
  let segs ← (← arrOf (fieldD j "segments" (jArr []))).mapM fun p => do
    match ← arrOf p with
    | [t, l] => pure (← natOf t, ← l.getStr?)
    | _ => throw "segment must be [thread, label]"
  let cfg : SCfg := { policy := policy, overwrite := ov, cacheOnly := cacheOnly,
                      trials := fun t i => ((trials.getD t []).getD i []) }
  let mut s := SSys.start fun t => queues.getD t []
  let mut refs : List Nat := []
  let mut mism : Json := Json.null
  let mut i := 0
  for (t, lab) in segs do
    if mism == Json.null then
      let (s1, got, refs1) := srunSegment cfg t 64 s refs
      s := s1
      refs := refs1
      if got != lab then
        mism := jObj [("segment", jNat i), ("expected", jStr lab), ("got", jStr got)]
    i := i + 1
  let n := queues.length
  let outs := (List.range n).map fun t =>
    let th := s.threads t
    let keys := ((queues.getD t []).map (·.key)).eraseDups
    jObj [("results", jArr (th.results.map fun (q, r) => jArr [jNat q.net, jOptNat r])),
          ("nsearch", jNat th.nsearch), ("pc", jStr (spcName th.pc)), ("left", jNat th.queue.length),
          ("cached", jArr (keys.map fun k => jArr [jNat k, jBool (s.obj.cache k).isSome]))]
  pure (jObj [("threads", jArr outs), ("refs", jNats refs), ("mismatch", mism)])

def handlers : List (String × Handler) :=
  [("c16.run", run), ("c16.nrun", nrun), ("c16.pool", pool), ("c16.iface", iface), ("c16.srun", srunOp)]

end Cotengra.Driver.C16
