import CotengraVerif.Driver.Util
import CotengraVerif.Model.Hyper
import CotengraVerif.Model.HyperTrial
import CotengraVerif.Model.HyperX

namespace Cotengra.Driver.C08
open Lean Cotengra Cotengra.Driver Cotengra.Hyper

/-- scores: JSON `null` = inf -/
def scoreOf (j : Json) : Except String Score :=
  match j with
  | .null => pure none
  | _ => do pure (some (← natOf j))

def jScore : Score → Json
  | none => Json.null
  | some a => jNat a

def jOptNat : Option Nat → Json
  | none => Json.null
  | some a => jNat a

def optNatOf (j : Json) : Except String (Option Nat) :=
  match j with
  | .null => pure none
  | _ => do pure (some (← natOf j))

def trialOf (j : Json) : Except String Trial := do
  pure { score := ← scoreOf (fieldD j "score" Json.null),
         flops := ← scoreOf (fieldD j "flops" Json.null),
         write := ← scoreOf (fieldD j "write" Json.null),
         size := ← scoreOf (fieldD j "size" Json.null),
         tree := ← optNatOf (fieldD j "tree" Json.null) }

def jTrial (t : Trial) : Json :=
  jObj [("score", jScore t.score), ("flops", jScore t.flops), ("write", jScore t.write),
        ("size", jScore t.size), ("tree", jOptNat t.tree)]

def stopOf (j : Json) : Except String StopRule := do
  let kind ← (← field j "kind").getStr?
  match kind with
  | "never" => pure .never
  | "equil" => pure (.equil (← natOf (← field j "amount")))
  | "clock" => do
    let bits ← (← arrOf (← field j "bits")).mapM fun b => b.getBool?
    pure (.clock bits)
  | _ => throw s!"unknown stop rule {kind}"

def jState (st : HState) : Json :=
  jObj [("methods", jNats st.methodChoices), ("params", jNats st.paramChoices),
        ("scores", jArr (st.scores.map jScore)), ("flops", jArr (st.costsFlops.map jScore)),
        ("write", jArr (st.costsWrite.map jScore)), ("size", jArr (st.costsSize.map jScore)),
        ("best_score", jScore st.bestScore),
        ("best", match st.best with
          | none => Json.null
          | some b => jObj [("trial", jTrial b.trial), ("params", jOptNat b.params),
                            ("method", jOptNat b.method)]),
        ("trials_since_best", jNat st.trialsSinceBest),
        ("reports", jArr (st.optlibReports.map fun (p, s) => jArr [jNat p, jScore s])),
        ("submitted", jNat st.submitted),
        ("tree", jOptNat st.tree)]

/-- the oracles as tables indexed by the global submission number -/
def envOf (settings : List Setting) (trials : List Trial) : Env :=
  { getSetting := fun st => settings.getD st.submitted default,
    trialFn := fun k _ => trials.getD k default }

/-- op `c08.search`: run a sequence of searches on one optimizer object.
    `settings[k]`, `trials[k]` = k-th submission overall; each search: mode, pre, max_repeats,
    stop, choices. Returns the state after every search and the cancelled submissions. -/
def search : Handler := fun j => do
  let mts ← optNatOf (fieldD j "mts" Json.null)
  let settings ← (← arrOf (← field j "settings")).mapM fun p => do
    match ← arrOf p with
    | [a, b] => pure ({ method := ← natOf a, params := ← natOf b } : Setting)
    | _ => throw "setting must be [method, params]"
  let trials ← (← arrOf (← field j "trials")).mapM trialOf
  let env := envOf settings trials
  let searches ← arrOf (← field j "searches")
  let mut st := HState.init mts
  let mut outs : List Json := []
  for sj in searches do
    let mode ← (← field sj "mode").getStr?
    let maxRepeats ← natOf (← field sj "max_repeats")
    let stop ← stopOf (← field sj "stop")
    if mode == "serial" then
      st := searchSerial env maxRepeats stop st
      outs := outs ++ [jObj [("state", jState st), ("cancelled", jNats [])]]
    else
      let pre ← natOf (← field sj "pre")
      let choices ← natList (← field sj "choices")
      let ps := searchParallel env pre maxRepeats stop choices st
      st := ps.h
      outs := outs ++ [jObj [("state", jState st), ("cancelled", jNats ps.cancelled)]]
  pure (jObj [("searches", jArr outs)])

def wrapperOf (j : Json) : Except String Wrapper := do
  match ← j.getStr? with
  | "anneal" => pure .anneal
  | "slice" => pure .slice
  | "slice_reconf" => pure .sliceReconf
  | "reconf" => pure .reconf
  | s => throw s!"unknown wrapper {s}"

def wrapperName : Wrapper → String
  | .anneal => "anneal" | .slice => "slice" | .sliceReconf => "slice_reconf" | .reconf => "reconf"

/-- op `c08.worker`: `ComputeScore` over a stack of wrappers on a table-driven tree.
    `stats`: tree id ↦ [flops, write, size]; `mutate`: [wrapper, id, id' | null];
    `opts`: {anneal, slice, slice_reconf, reconf : bool}; `ensures`; `value`: score | null |
    "raise"; `on_error`; `raw`: id | "bad" | "error". -/
def worker : Handler := fun j => do
  let statsTbl ← (← arrOf (← field j "stats")).mapM fun r => do
    match ← arrOf r with
    | [i, f, w, s] => pure (← natOf i, ({ flops := ← natOf f, write := ← natOf w, size := ← natOf s } : CStats))
    | _ => throw "stats row"
  let mutTbl ← (← arrOf (← field j "mutate")).mapM fun r => do
    match ← arrOf r with
    | [w, i, o] => pure ((← wrapperOf w, ← natOf i), ← optNatOf o)
    | _ => throw "mutate row"
  let ops : TreeOps Nat :=
    { stats := fun t => (statsTbl.lookup t).getD default,
      mutate := fun w t => (mutTbl.lookup (w, t)).getD none }
  let o ← field j "opts"
  let flag := fun (k : String) => (fieldD o k (Json.bool false)).getBool?
  let ws := setupStack (← flag "anneal") (← flag "slice") (← flag "slice_reconf") (← flag "reconf")
  let ensures ← (← field j "ensures").getBool?
  let value : Option Score ←
    match ← field j "value" with
    | .str _ => pure none
    | v => do pure (some (← scoreOf v))
  let postEnsure ← (fieldD j "post_ensure" (Json.bool false)).getBool?
  let obj : Objective Nat := { ensures := ensures, value := fun _ => value }
  let onErr ← match ← (← field j "on_error").getStr? with
    | "raise" => pure OnErr.raise
    | "warn" => pure OnErr.warn
    | "ignore" => pure OnErr.ignore
    | s => throw s!"unknown on_error {s}"
  let raw : Raw Nat ← match ← field j "raw" with
    | .str "bad" => pure Raw.badTrial
    | .str _ => pure Raw.error
    | v => do pure (Raw.ok (← natOf v))
  let jOS : Option Score → Json := fun
    | none => jStr "missing"
    | some s => jScore s
  match computeScore ops ws obj postEnsure onErr raw with
  | none => pure (jObj [("raised", jBool true), ("stack", jArr (ws.map (jStr ∘ wrapperName)))])
  | some r =>
    pure (jObj [("raised", jBool false), ("stack", jArr (ws.map (jStr ∘ wrapperName))),
                ("score", jScore r.score), ("flops", jOS r.flops), ("write", jOS r.write),
                ("size", jOS r.size), ("tree", jOptNat r.tree),
                ("keyerror", jBool (toTrial id r).isNone)])

/-! ### extended model (`Model/HyperX.lean`) -/

/-- float scores: number = finite, `null` = +inf, `"nan"`, `"-inf"` -/
def xscoreOf (j : Json) : Except String XScore :=
  match j with
  | .null => pure .inf
  | .str "nan" => pure .nan
  | .str "-inf" => pure .ninf
  | .str s => throw s!"unknown score {s}"
  | _ => do pure (.fin (← natOf j))

def jXScore : XScore → Json
  | .ninf => jStr "-inf"
  | .fin n => jNat n
  | .inf => Json.null
  | .nan => jStr "nan"

/-- a scripted worker result: `"raise"` = the call raises -/
def xtrialOf (j : Json) : Except String (Option XTrial) :=
  match j with
  | .str _ => pure none
  | _ => do
    pure (some { score := ← xscoreOf (fieldD j "score" Json.null),
                 flops := ← scoreOf (fieldD j "flops" Json.null),
                 write := ← scoreOf (fieldD j "write" Json.null),
                 size := ← scoreOf (fieldD j "size" Json.null),
                 tree := ← optNatOf (fieldD j "tree" Json.null),
                 time := ← natOf (fieldD j "time" (jNat 0)) })

def jXTrial (t : XTrial) : Json :=
  jObj [("score", jXScore t.score), ("flops", jScore t.flops), ("write", jScore t.write),
        ("size", jScore t.size), ("tree", jOptNat t.tree), ("time", jNat t.time)]

def jXState (st : XState) : Json :=
  jObj [("methods", jNats st.methodChoices), ("params", jNats st.paramChoices),
        ("scores", jArr (st.scores.map jXScore)), ("times", jNats st.times),
        ("flops", jArr (st.costsFlops.map jScore)),
        ("write", jArr (st.costsWrite.map jScore)), ("size", jArr (st.costsSize.map jScore)),
        ("best_score", jXScore st.bestScore),
        ("best", match st.best with
          | none => Json.null
          | some b => jObj [("trial", jXTrial b.trial), ("params", jOptNat b.params),
                            ("method", jOptNat b.method)]),
        ("trials_since_best", jNat st.trialsSinceBest),
        ("reports", jArr (st.optlibReports.map fun (p, s) => jArr [jNat p, jXScore s])),
        ("submitted", jNat st.submitted),
        ("tree", jOptNat st.tree),
        ("get_trials", jArr (st.getTrials.map fun (m, sz, f, w, p) =>
          jArr [jNat m, jScore sz, jScore f, jScore w, jNat p]))]

def xenvOf (settings : List Setting) (trials : List (Option XTrial)) (done : List Nat) : XEnv :=
  { getSetting := fun st => settings.getD st.submitted default,
    trialFn := fun k _ => trials.getD k none,
    doneAt := fun k => done.contains k }

/-- op `c08.xsearch`: a sequence of searches on one optimizer object, extended model.
    `trials[k]` = result of the k-th submission overall (`"raise"` = the worker raises);
    `done` = submissions whose worker has finished by the time a clean-up pops their future.
    Per search: the state, `cancelled` (pop order), `discarded`, `raised`, `futures_left`. -/
def xsearch : Handler := fun j => do
  let mts ← optNatOf (fieldD j "mts" Json.null)
  let settings ← (← arrOf (← field j "settings")).mapM fun p => do
    match ← arrOf p with
    | [a, b] => pure ({ method := ← natOf a, params := ← natOf b } : Setting)
    | _ => throw "setting must be [method, params]"
  let trials ← (← arrOf (← field j "trials")).mapM xtrialOf
  let done ← natList (fieldD j "done" (jArr []))
  let env := xenvOf settings trials done
  let searches ← arrOf (← field j "searches")
  let mut st := XState.init mts
  let mut outs : List Json := []
  for sj in searches do
    let mode ← (← field sj "mode").getStr?
    let maxRepeats ← natOf (← field sj "max_repeats")
    let stop ← stopOf (← field sj "stop")
    if mode == "serial" then
      let r := xsearchSerial env maxRepeats stop st
      st := r.st
      outs := outs ++ [jObj [("state", jXState st), ("cancelled", jNats []), ("discarded", jNats []),
                             ("raised", jBool r.aborted), ("futures_left", jNats [])]]
    else
      let pre ← natOf (← field sj "pre")
      let choices ← natList (← field sj "choices")
      let ps := xsearchParallel env pre maxRepeats stop choices st
      -- "cleanup": "assess" / "report" = the two alternative clean-ups (a changed tree that
      -- collects finished futures during `_maybe_cancel_futures`); default: the code as written
      let cleanup := (fieldD sj "cleanup" (jStr "drop")).getStr?.toOption.getD "drop"
      st := if cleanup == "assess" then harvestAndAssess env ps
            else if cleanup == "report" then harvestReportOnly env ps
            else ps.h
      outs := outs ++ [jObj [("state", jXState st), ("cancelled", jNats ps.cancelled),
                             ("discarded", jNats (ps.discarded.map (·.2))),
                             ("raised", jBool ps.aborted),
                             ("raised_id", jOptNat ps.raised),
                             ("futures_left", jNats (ps.futures.map (·.2)))]]
  pure (jObj [("searches", jArr outs)])

/-- op `c08.xworker`: as `c08.worker`, with a float-valued objective
    (`value`: number | null (= +inf) | "nan" | "-inf" | "raise"). -/
def xworker : Handler := fun j => do
  let statsTbl ← (← arrOf (← field j "stats")).mapM fun r => do
    match ← arrOf r with
    | [i, f, w, s] => pure (← natOf i, ({ flops := ← natOf f, write := ← natOf w, size := ← natOf s } : CStats))
    | _ => throw "stats row"
  let mutTbl ← (← arrOf (← field j "mutate")).mapM fun r => do
    match ← arrOf r with
    | [w, i, o] => pure ((← wrapperOf w, ← natOf i), ← optNatOf o)
    | _ => throw "mutate row"
  let ops : TreeOps Nat :=
    { stats := fun t => (statsTbl.lookup t).getD default,
      mutate := fun w t => (mutTbl.lookup (w, t)).getD none }
  let o ← field j "opts"
  let flag := fun (k : String) => (fieldD o k (Json.bool false)).getBool?
  let ws := setupStack (← flag "anneal") (← flag "slice") (← flag "slice_reconf") (← flag "reconf")
  let ensures ← (← field j "ensures").getBool?
  let value : Option XScore ←
    match ← field j "value" with
    | .str "raise" => pure none
    | v => do pure (some (← xscoreOf v))
  let postEnsure ← (fieldD j "post_ensure" (Json.bool false)).getBool?
  let obj : XObjective Nat := { ensures := ensures, value := fun _ => value }
  let onErr ← match ← (← field j "on_error").getStr? with
    | "raise" => pure OnErr.raise
    | "warn" => pure OnErr.warn
    | "ignore" => pure OnErr.ignore
    | s => throw s!"unknown on_error {s}"
  let raw : Raw Nat ← match ← field j "raw" with
    | .str "bad" => pure Raw.badTrial
    | .str _ => pure Raw.error
    | v => do pure (Raw.ok (← natOf v))
  let jOS : Option Score → Json := fun
    | none => jStr "missing"
    | some s => jScore s
  match xcomputeScore ops ws obj postEnsure onErr raw with
  | none => pure (jObj [("raised", jBool true), ("stack", jArr (ws.map (jStr ∘ wrapperName)))])
  | some r =>
    pure (jObj [("raised", jBool false), ("stack", jArr (ws.map (jStr ∘ wrapperName))),
                ("score", jXScore r.score), ("flops", jOS r.flops), ("write", jOS r.write),
                ("size", jOS r.size), ("tree", jOptNat r.tree),
                ("keyerror", jBool (xtoTrial id 0 r).isNone)])

/-- op `c08.xprefixes`: the states `xrunLog init (log.take n)` for every prefix of a completion log
    (`order` = submission numbers in completion order): what `self.best` must be whenever the real
    object is looked at between two assessed trials.  Returns, per prefix, `best["score"]`, the
    winner's params id and `trials_since_best`. -/
def xprefixes : Handler := fun j => do
  let mts ← optNatOf (fieldD j "mts" Json.null)
  let settings ← (← arrOf (← field j "settings")).mapM fun p => do
    match ← arrOf p with
    | [a, b] => pure ({ method := ← natOf a, params := ← natOf b } : Setting)
    | _ => throw "setting must be [method, params]"
  let trials ← (← arrOf (← field j "trials")).mapM xtrialOf
  let order ← natList (← field j "order")
  let row := fun (st : XState) =>
    jObj [("n", jNat st.scores.length), ("best", jXScore st.curBest),
          ("params", match st.best with | none => Json.null | some b => jOptNat b.params),
          ("trials_since_best", jNat st.trialsSinceBest)]
  let mut st := XState.init mts
  let mut log : XLog := []
  let mut outs : List Json := [row st]
  for k in order do
    match trials.getD k none with
    | none => throw s!"submission {k} has no result"
    | some t =>
      log := log ++ [(settings.getD k default, t)]
      st := xrunLog (XState.init mts) log
      outs := outs ++ [row st]
  pure (jObj [("prefixes", jArr outs)])

def handlers : List (String × Handler) :=
  [("c08.search", search), ("c08.worker", worker), ("c08.xsearch", xsearch),
   ("c08.xworker", xworker), ("c08.xprefixes", xprefixes)]

end Cotengra.Driver.C08
