import CotengraVerif.Driver.Util

namespace Cotengra.Driver.C08
open Lean Cotengra Cotengra.Driver

/-- ops of property C08 (name them "c08.<op>") -/
def handlers : List (String × Handler) := []

end Cotengra.Driver.C08
