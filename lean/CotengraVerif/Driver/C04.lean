import CotengraVerif.Driver.Util
import CotengraVerif.Model.TreeState
import CotengraVerif.Model.MaxCounter
import CotengraVerif.Model.CostCache

namespace Cotengra.Driver.C04
open Lean Cotengra Cotengra.Driver

def tripleOf (j : Json) : Except String (Node × Node × Node) := do
  match ← arrOf j with
  | [p, l, r] => pure (← natList p, ← natList l, ← natList r)
  | _ => throw "expected [p,l,r]"

def opOf (j : Json) : Except String TS.Op := do
  let k ← (← field j "k").getStr?
  match k with
  | "contract" => pure (.contract (← natList (← field j "x")) (← natList (← field j "y")))
  | "remove" => pure (.remove (← natList (← field j "p")))
  | "remove_ind" => pure (.removeInd (← natOf (← field j "ix")) (← (← field j "project").getBool?))
  | "restore_ind" => pure (.restoreInd (← natOf (← field j "ix")))
  | _ => throw s!"unknown op kind {k}"

def jState (s : TS) : Json :=
  let (f, w, m) := s.stats
  jObj [("children", jArr (s.children.map fun (p, l, r) => jArr [jNats p, jNats l, jNats r])),
        ("rm", jNats s.rm), ("sliced", jNats s.sliced), ("mult", jNat s.mult),
        ("flops", jInt f), ("write", jInt w), ("size", jNat m),
        ("raw_flops", jInt s.flops), ("raw_write", jInt s.write), ("sizes", jNats s.sizes)]

/-- `c04.run`: replay a word of primitives from the state of a complete tree -/
def run : Handler := fun j => do
  let n ← netOf (← field j "net")
  let t ← btOf (← field j "tree")
  let ops ← (← arrOf (← field j "ops")).mapM opOf
  let s0 := TS.ofBT n t
  let (_, outs) := ops.foldl (fun (acc : TS × List Json) o =>
      let (s', ok) := acc.1.step o
      (s', acc.2 ++ [jObj [("ok", jBool ok), ("state", jState s')]])) (s0, [])
  pure (jObj [("init", jState s0), ("steps", jArr outs)])

/-- `c04.scratch`: from-scratch figures of every node of a dumped real tree -/
def scratch : Handler := fun j => do
  let n ← netOf (← field j "net")
  let cs ← (← arrOf (← field j "children")).mapM tripleOf
  let rm ← natList (← field j "rm")
  let sliced ← natList (← field j "sliced")
  let s : TS := { TS.init n with children := cs, rm := rm, sliced := sliced,
                                 mult := n.mult sliced }
  let rows := cs.map fun (p, l, r) =>
    jObj [("p", jNats p), ("legs", jPairs (s.legsOf p)), ("involved", jPairs (s.involvedOf l r)),
          ("size", jNat (s.sizeOf p)), ("flops", jNat (s.flopsOf l r))]
  let leaves := (List.range s.N).map fun i =>
    jObj [("p", jNats [i]), ("legs", jPairs (n.legs rm (.leaf i))),
          ("pre", jBool (n.leafLegsPre rm i).2), ("size", jNat (n.nodeSize rm (.leaf i)))]
  pure (jObj [("nodes", jArr rows), ("leaves", jArr leaves), ("mult", jNat s.mult),
              ("flops", jInt ((s.mult : Int) * s.scratchFlops)),
              ("write", jInt ((s.mult : Int) * s.scratchWrite)),
              ("size", jNat (Net.listMax s.scratchSizes))])

/-- `c04.mc`: run a MaxCounter op sequence ([["add", x] | ["discard", x]]); after every op the cached
    maximum (null = -inf) and the counter contents -/
def mc : Handler := fun j => do
  let ops ← arrOf (← field j "ops")
  let mut m : MC := MC.empty
  let mut outs : List Json := []
  for o in ops do
    match ← arrOf o with
    | [k, x] =>
      let k ← k.getStr?
      let x ← natOf x
      m := if k == "add" then m.add x else m.discard x
      outs := outs ++ [jObj [("max", match m.max with | none => Json.null | some v => jNat v),
                             ("items", jPairs m.c)]]
    | _ => throw "bad op"
  pure (jObj [("outs", jArr outs)])

/-- all subtrees of a tree, children first, root last -/
def subtrees : BT → List BT
  | .leaf i => [.leaf i]
  | .node l r => subtrees l ++ subtrees r ++ [.node l r]

def optLegs (o : Option Legs) : Json := match o with | none => Json.null | some L => jPairs L
def optNat (o : Option Nat) : Json := match o with | none => Json.null | some v => jNat v

def jInfo (I : Info) (t : BT) : Json :=
  jArr ((subtrees t).map fun s =>
    let e := I.get s
    jObj [("p", jNats s.leaves), ("legs", optLegs e.legs), ("involved", optLegs e.involved),
          ("size", optNat e.size), ("flops", optNat e.flops)])

/-- `c04.cache`: replay a sequence of lazy getter calls [[kind, k]] (k = position in the
    children-first list of subtrees) on an empty cache; returns which fields are cached and their
    values -/
def cache : Handler := fun j => do
  let n ← netOf (← field j "net")
  let rm ← natList (← field j "rm")
  let t ← btOf (← field j "tree")
  let calls ← arrOf (← field j "calls")
  let subs := subtrees t
  let mut I : Info := []
  for c in calls do
    match ← arrOf c with
    | [k, i] =>
      let k ← k.getStr?
      let i ← natOf i
      match subs[i]? with
      | none => throw "bad node position"
      | some s =>
        I := match k, s with
          | "legs", s => (n.getLegs rm I s).1
          | "size", s => (n.getSize rm I s).1
          | "involved", .node l r => (n.getInvolved rm I l r).1
          | "flops", .node l r => (n.getFlops rm I l r).1
          | _, _ => I
    | _ => throw "bad call"
  pure (jObj [("info", jInfo I t)])

/-- `c04.remove_cached`: for every internal node, populate (fillNode) from an empty cache under
    `rm` and apply the `remove_ind` loop body for `ix` -/
def removeCached : Handler := fun j => do
  let n ← netOf (← field j "net")
  let rm ← natList (← field j "rm")
  let ix ← natOf (← field j "ix")
  let t ← btOf (← field j "tree")
  let rows := t.internal.filterMap fun s =>
    match s with
    | .node l r =>
      let x := removeIndFull ix (n.size ix) (n.fillNode rm [] l r).2
      some (jObj [("p", jNats s.leaves), ("legs", jPairs x.legs), ("involved", jPairs x.involved),
                  ("size", jNat x.size), ("flops", jNat x.flops)])
    | _ => none
  pure (jObj [("nodes", jArr rows)])

def handlers : List (String × Handler) := [("c04.cache", cache), ("c04.remove_cached", removeCached), ("c04.run", run), ("c04.scratch", scratch), ("c04.mc", mc)]

end Cotengra.Driver.C04
