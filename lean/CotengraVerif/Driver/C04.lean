import CotengraVerif.Driver.Util
import CotengraVerif.Model.TreeState
import CotengraVerif.Model.MaxCounter

namespace Cotengra.Driver.C04
open Lean Cotengra Cotengra.Driver

def tripleOf (j : Json) : Except String (Node × Node × Node) := do
  match ← arrOf j with
  | [p, l, r] => pure (← natList p, ← natList l, ← natList r)
  | _ => throw "expected [p,l,r]"

def opOf (j : Json) : Except String TS.Op := do
  let k ← (← field j "k").getStr?
  match k with
  | "contract" => pure (.contract (← natList (← field j "x")) (← natList (← field j "y")))
  | "remove" => pure (.remove (← natList (← field j "p")))
  | "remove_ind" => pure (.removeInd (← natOf (← field j "ix")) (← (← field j "project").getBool?))
  | "restore_ind" => pure (.restoreInd (← natOf (← field j "ix")))
  | _ => throw s!"unknown op kind {k}"

def jState (s : TS) : Json :=
  let (f, w, m) := s.stats
  jObj [("children", jArr (s.children.map fun (p, l, r) => jArr [jNats p, jNats l, jNats r])),
        ("rm", jNats s.rm), ("sliced", jNats s.sliced), ("mult", jNat s.mult),
        ("flops", jInt f), ("write", jInt w), ("size", jNat m),
        ("raw_flops", jInt s.flops), ("raw_write", jInt s.write), ("sizes", jNats s.sizes)]

/-- `c04.run`: replay a word of primitives from the state of a complete tree -/
def run : Handler := fun j => do
  let n ← netOf (← field j "net")
  let t ← btOf (← field j "tree")
  let ops ← (← arrOf (← field j "ops")).mapM opOf
  let s0 := TS.ofBT n t
  let (_, outs) := ops.foldl (fun (acc : TS × List Json) o =>
      let (s', ok) := acc.1.step o
      (s', acc.2 ++ [jObj [("ok", jBool ok), ("state", jState s')]])) (s0, [])
  pure (jObj [("init", jState s0), ("steps", jArr outs)])

/-- `c04.scratch`: from-scratch figures of every node of a dumped real tree -/
def scratch : Handler := fun j => do
  let n ← netOf (← field j "net")
  let cs ← (← arrOf (← field j "children")).mapM tripleOf
  let rm ← natList (← field j "rm")
  let sliced ← natList (← field j "sliced")
  let s : TS := { TS.init n with children := cs, rm := rm, sliced := sliced,
                                 mult := n.mult sliced }
  let rows := cs.map fun (p, l, r) =>
    jObj [("p", jNats p), ("legs", jPairs (s.legsOf p)), ("involved", jPairs (s.involvedOf l r)),
          ("size", jNat (s.sizeOf p)), ("flops", jNat (s.flopsOf l r))]
  let leaves := (List.range s.N).map fun i =>
    jObj [("p", jNats [i]), ("legs", jPairs (n.legs rm (.leaf i))),
          ("pre", jBool (n.leafLegsPre rm i).2), ("size", jNat (n.nodeSize rm (.leaf i)))]
  pure (jObj [("nodes", jArr rows), ("leaves", jArr leaves), ("mult", jNat s.mult),
              ("flops", jInt ((s.mult : Int) * s.scratchFlops)),
              ("write", jInt ((s.mult : Int) * s.scratchWrite)),
              ("size", jNat (Net.listMax s.scratchSizes))])

/-- `c04.mc`: run a MaxCounter op sequence ([["add", x] | ["discard", x]]); after every op the cached
    maximum (null = -inf) and the counter contents -/
def mc : Handler := fun j => do
  let ops ← arrOf (← field j "ops")
  let mut m : MC := MC.empty
  let mut outs : List Json := []
  for o in ops do
    match ← arrOf o with
    | [k, x] =>
      let k ← k.getStr?
      let x ← natOf x
      m := if k == "add" then m.add x else m.discard x
      outs := outs ++ [jObj [("max", match m.max with | none => Json.null | some v => jNat v),
                             ("items", jPairs m.c)]]
    | _ => throw "bad op"
  pure (jObj [("outs", jArr outs)])

def handlers : List (String × Handler) := [("c04.run", run), ("c04.scratch", scratch), ("c04.mc", mc)]

end Cotengra.Driver.C04
