import CotengraVerif.Driver.Util

namespace Cotengra.Driver.C04
open Lean Cotengra Cotengra.Driver

/-- ops of property C04 (name them "c04.<op>") -/
def handlers : List (String × Handler) := []

end Cotengra.Driver.C04
