import CotengraVerif.Driver.Util
import CotengraVerif.Model.Cache

namespace Cotengra.Driver.C13
open Lean Cotengra Cotengra.Driver Cotengra.Cache

/-- a request: JSON object field name -> canonical string of the value -/
def queryOf (j : Json) : Except String (Query String) := do
  let obj ← j.getObj?
  let l := obj.toList.filterMap fun (k, v) => match v with
    | .str s => some (k, s)
    | _ => none
  pure fun f => (l.lookup f).getD "<absent>"

def fieldsOf (j : Json) : Except String (List String) := do
  match ← (← field j "which").getStr? with
  | "expr" => pure exprShareFields
  | "path" => pure pathKeyFields
  | s => throw s!"which = {s}"

/-- `c13.share_ok`: may the value cached for the first request be handed to the second? -/
def shareOk : Handler := fun j => do
  let fields ← fieldsOf j
  let pairs ← (← arrOf (← field j "pairs")).mapM fun p => do
    match ← arrOf p with
    | [a, b] => pure (← queryOf a, ← queryOf b)
    | _ => throw "pair"
  pure (jObj [("ok", jArr (pairs.map fun (a, b) => jBool (shareOK fields a b)))])

/-- `c13.run`: a history through the model cache; for every call the index (into `queries`) of
    the request whose built value is returned -/
def run : Handler := fun j => do
  let fields ← fieldsOf j
  let qs ← (← arrOf (← field j "queries")).mapM queryOf
  let calls ← (← arrOf (← field j "calls")).mapM fun c => do
    pure (← natOf (← field c "q"), ← (← field c "cache").getBool?)
  let key : Nat → List String := fun i => match qs[i]? with
    | some q => keyTuple fields q
    | none => []
  let cs : List (Call Nat (List String)) := calls.map fun (i, b) => ⟨i, b, fun _ => false⟩
  pure (jObj [("origin", jNats (runCached key (fun i => i) [] cs))])

/-- ops of property C13 (name them "c13.<op>") -/
def handlers : List (String × Handler) := [("c13.share_ok", shareOk), ("c13.run", run)]

end Cotengra.Driver.C13
