import CotengraVerif.Driver.Util

namespace Cotengra.Driver.C13
open Lean Cotengra Cotengra.Driver

/-- ops of property C13 (name them "c13.<op>") -/
def handlers : List (String × Handler) := []

end Cotengra.Driver.C13
