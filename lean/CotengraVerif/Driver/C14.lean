import CotengraVerif.Driver.Util
import CotengraVerif.Model.Reusable

namespace Cotengra.Driver.C14
open Lean Cotengra Cotengra.Driver Cotengra.Reusable

def conOf (j : Json) : Except String Con := do
  pure { path := ← natListList (← field j "path"),
         score := ← intOf (← field j "score"),
         sliced := ← natList (← field j "sliced") }

def jCon (c : Con) : Json :=
  jObj [("path", jNatss c.path), ("score", jInt c.score), ("sliced", jNats c.sliced)]

def cfgOf (j : Json) : Except String Cfg := do
  let ow ← match ← (← field j "overwrite").getStr? with
    | "no" => pure Overwrite.no
    | "yes" => pure Overwrite.yes
    | "improved" => pure Overwrite.improved
    | s => throw s!"overwrite {s}"
  pure { overwrite := ow, cacheOnly := ← (← field j "cache_only").getBool? }

/-- index of the first element equal to `x` -/
def classOf {α} [DecidableEq α] (l : List α) (x : α) : Nat := l.findIdx (· = x)

/-- `c14.fp`: partition of a pool of contractions by fingerprint -/
def fp : Handler := fun j => do
  let nets ← (← arrOf (← field j "nets")).mapM netOf
  let mB := (← (← field j "method").getStr?) == "b"
  let fps := nets.map (fingerprint mB)
  pure (jObj [("classes", jNats (fps.map (classOf fps)))])

def jOptCon : Option Con → Json
  | some c => jCon c
  | none => Json.null

/-- `c14.run`: a history of queries / process restarts through the policy model -/
def run : Handler := fun j => do
  let nets ← (← arrOf (← field j "nets")).mapM netOf
  let mB := (← (← field j "method").getStr?) == "b"
  let disk ← (← field j "disk").getBool?
  let cfg0 ← cfgOf (← field j "cfg")
  let evs ← arrOf (← field j "events")
  let fps := nets.map (fingerprint mB)
  let mut y : Sys Fp := { cfg := cfg0, st := { dd := { mem := [], disk := if disk then some [] else none }, searches := 0 } }
  let mut out : Array Json := #[]
  for e in evs do
    match e.getObjVal? "restart" with
    | .ok c =>
      y := (y.step (.restart (← cfgOf c))).1
      out := out.push (jObj [("kind", jStr "restart")])
    | .error _ =>
     match e.getObjVal? "update" with
     | .ok u =>
      let qi ← natOf (← field u "q")
      let new ← conOf (← field u "con")
      let ow ← match ← (← field u "overwrite").getStr? with
        | "no" => pure Overwrite.no
        | "yes" => pure Overwrite.yes
        | "improved" => pure Overwrite.improved
        | s => throw s!"overwrite {s}"
      let tie := match u.getObjVal? "tie_replace" with
        | .ok (Json.bool b) => b
        | _ => false
      match fps[qi]? with
      | some k =>
        y := { y with st := updateFromTree tie ow k new y.st }
        out := out.push (jObj [("kind", jStr "update"), ("searches", jNat y.st.searches),
          ("stored", jOptCon (y.st.dd.view k))])
      | none => throw "bad net index"
     | .error _ =>
      let qi ← natOf (← field e "q")
      let ans ← conOf (← field e "con")
      match nets[qi]?, fps[qi]? with
      | some q, some k =>
        let before := y.st.searches
        let tie := match e.getObjVal? "tie_replace" with
          | .ok (Json.bool b) => b
          | _ => false
        let r := maybeRun { y.cfg with tieReplace := tie } k ans y.st
        y := { y with st := r.1 }
        let searched := r.1.searches != before
        let (kind, con) := match r.2 with
          | .keyError => ("KeyError", none)
          | .ok true c => ("searched", some c)
          | .ok false c => (if searched then "kept" else "hit", some c)
        out := out.push (jObj [("kind", jStr kind), ("con", jOptCon con),
          ("searches", jNat r.1.searches), ("stored", jOptCon (r.1.dd.view k)),
          ("fits", jBool (match con with | some c => fits q c | none => true)),
          ("key_class", jNat (classOf fps k))])
      | _, _ => throw "bad net index"
  pure (jObj [("results", Json.arr out)])

/-- ops of property C14 (name them "c14.<op>") -/
def handlers : List (String × Handler) := [("c14.fp", fp), ("c14.run", run)]

end Cotengra.Driver.C14
