import CotengraVerif.Driver.Util

namespace Cotengra.Driver.C14
open Lean Cotengra Cotengra.Driver

/-- ops of property C14 (name them "c14.<op>") -/
def handlers : List (String × Handler) := []

end Cotengra.Driver.C14
