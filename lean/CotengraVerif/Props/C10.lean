import CotengraVerif.Lemmas.PathInverse
import CotengraVerif.Lemmas.Traverse
import CotengraVerif.Lemmas.TraverseDfs
import CotengraVerif.Lemmas.FromPath
import CotengraVerif.Lemmas.EdgePath

/-!
# C10 — path formats convert into each other and into trees without loss

Model (`Model/Paths.lean`): `linear_to_ssa`, `ssa_to_linear` (with CPython's `bisect_left`
loop), `edge_path_to_ssa` (cotengra/pathfinders/path_basic.py:789-892); `_traverse_dfs`
(stack machine), `_traverse_ordered` (sweeps, `bisect` on the unsorted score prefix),
`get_ssa_path`, `get_path`, `from_path` (cotengra/core.py:1422-1470, 2698-2765, 474-574).

A tree is a `BT` with the orientation of `tree.children`; a node is its subtree (for distinct
leaves all subtrees are distinct, `Paths.allNodes_nodup`).  `order` is an arbitrary function
node → score.  Not modelled: steps of three or more tensors inside `from_path` (an optimizer
fills them in), `autocomplete`, `edge_path_to_linear` (= `ssa_to_linear ∘ edge_path_to_ssa`,
both factors have theorems).
-/
namespace Cotengra.C10
open Cotengra Cotengra.Paths

/-- each step as a sorted list (steps are sets) -/
def normalise (p : Path) : Path := p.map sortAsc

/-- **linear → ssa → linear is the identity** on valid linear paths (any step sizes, complete or
    not), and the intermediate path is a valid SSA path. -/
theorem ssa_linear_inverse (n : Nat) (p : Path) (h : ValidLinear n p) :
    ∃ sp, linearToSsa n p = some sp ∧ ValidSsa (List.range n) n sp ∧
      (ssaToLinear n sp).map normalise = some (normalise p) := by
  obtain ⟨sp, h1, h2, h3⟩ := linear_ssa_roundtrip (List.range n) n p (idsOK_range n) (by simpa using h)
  refine ⟨sp, h1, h3, ?_⟩
  unfold ssaToLinear
  rw [h2]
  simp [normalise, sortAsc_idem]

/-- **ssa → linear → ssa is the identity** on valid SSA paths, and the intermediate path is a
    valid linear path. -/
theorem linear_ssa_inverse (n : Nat) (p : Path) (h : ValidSsa (List.range n) n p) :
    ∃ lp, ssaToLinear n p = some lp ∧ ValidLinear n lp ∧
      (linearToSsa n lp).map normalise = some (normalise p) := by
  obtain ⟨lp, h1, h2, h3⟩ := ssa_linear_roundtrip (List.range n) n p (idsOK_range n) h
  refine ⟨lp, h1, by simpa using h3, ?_⟩
  unfold linearToSsa
  rw [h2]
  simp only [Option.map_some, normalise, List.map_map, Option.some.injEq]
  apply List.map_congr_left
  intro s _
  exact sortAsc_of_perm (sortDesc_perm s)

/-- a sequence of nodes lists every internal node of `t` exactly once, children first -/
def ChildrenFirst (t : BT) (seq : List BT) : Prop :=
  seq.Perm t.internal ∧ ∀ x ∈ seq, ∀ c ∈ ichildren x, [c, x].Sublist seq

/-- **`_traverse_ordered`, for every `order` function** (also inconsistent with the tree, with
    ties, constant): every internal node exactly once, every child before its parent. -/
theorem traverse_ordered_children_first (l r : BT) (hn : (BT.node l r).leaves.Nodup)
    (order : BT → Nat) : ChildrenFirst (.node l r) (traverseOrdered (.node l r) order) :=
  traverseOrdered_spec l r hn order

/-- **`_traverse_dfs`** yields the post-order (left subtree, right subtree, node) -/
theorem traverse_dfs_postorder (l r : BT) (hn : (BT.node l r).leaves.Nodup) :
    traverseDfs (.node l r) = (BT.node l r).internal ∧
      ChildrenFirst (.node l r) (traverseDfs (.node l r)) := by
  have h := traverseDfs_eq l r hn
  refine ⟨h, ?_⟩
  rw [h]
  refine ⟨List.Perm.refl _, ?_⟩
  -- post-order is children first
  suffices ∀ t : BT, ∀ x ∈ t.internal, ∀ c ∈ ichildren x, [c, x].Sublist t.internal from
    this (.node l r)
  intro t
  induction t with
  | leaf i => simp [BT.internal]
  | node a b iha ihb =>
    intro x hx c hc
    simp only [BT.internal, List.mem_append, List.mem_singleton] at hx
    rcases hx with (hx | hx) | hx
    · exact (iha x hx c hc).trans ((List.sublist_append_left _ _).trans (List.sublist_append_left _ _))
    · exact (ihb x hx c hc).trans ((List.sublist_append_right _ _).trans (List.sublist_append_left _ _))
    · subst hx
      have hcm : c ∈ a.internal ++ b.internal := by
        have := ichildren_sub (.node a b) c hc
        simpa [properInternal] using this
      exact List.Sublist.append (List.singleton_sublist.2 hcm) (List.Sublist.refl _)

theorem cfPrefix_spec (done rest : List BT) (h : cfPrefix done rest = true) :
    rest.Nodup ∧ (∀ x ∈ rest, x ∉ done) ∧
      ∀ x ∈ rest, ∀ c ∈ ichildren x, c ∈ done ∨ [c, x].Sublist rest := by
  induction rest generalizing done with
  | nil => simp
  | cons x rest ih =>
    simp only [cfPrefix, Bool.and_eq_true, List.all_eq_true, Bool.not_eq_true',
      List.contains_eq_mem, decide_eq_true_eq, decide_eq_false_iff_not] at h
    obtain ⟨⟨hc, hx⟩, hr⟩ := h
    obtain ⟨i1, i2, i3⟩ := ih (x :: done) hr
    refine ⟨List.nodup_cons.2 ⟨fun hm => i2 x hm List.mem_cons_self, i1⟩, ?_, ?_⟩
    · intro y hy
      rcases List.mem_cons.1 hy with rfl | hy
      · exact hx
      · exact fun hd => i2 y hy (List.mem_cons_of_mem _ hd)
    · intro y hy c hcy
      rcases List.mem_cons.1 hy with rfl | hy'
      · exact Or.inl (hc c hcy)
      · rcases i3 y hy' c hcy with h1 | h1
        · rcases List.mem_cons.1 h1 with he | h1'
          · rw [he]
            exact Or.inr (List.Sublist.cons_cons _ (List.singleton_sublist.2 hy'))
          · exact Or.inl h1'
        · exact Or.inr (h1.trans (List.sublist_cons_self _ _))

/-- **soundness of the certificate checker** run on the real traversal -/
theorem cfCheck_sound (t : BT) (hn : t.leaves.Nodup) (seq : List BT) (h : cfCheck t seq = true) :
    ChildrenFirst t seq := by
  simp only [cfCheck, Bool.and_eq_true, beq_iff_eq, List.all_eq_true, List.contains_eq_mem,
    decide_eq_true_eq] at h
  obtain ⟨⟨hlen, hsub⟩, hp⟩ := h
  obtain ⟨i1, _, i3⟩ := cfPrefix_spec [] seq hp
  refine ⟨?_, ?_⟩
  · have hsp : t.internal.Subperm seq := List.subperm_of_subset (internal_nodup t hn) hsub
    exact (hsp.perm_of_length_le (by omega)).symm
  · intro x hx c hc
    rcases i3 x hx c hc with h1 | h1
    · simp at h1
    · exact h1

/-! ## tree → path → tree -/

/-- `get_path` is `ssa_to_linear` applied to `get_ssa_path` (same traversal), including which
    of them raise -/
theorem getPath_eq_ssaToLinear_getSsaPath (n : Nat) (seq : List BT) :
    getPath n seq = (getSsaPath n seq).bind (ssaToLinear n) := getPath_eq n seq

theorem initial_dict (n : Nat) :
    ((List.range n).map BT.leaf).map (gOf []) = (List.range n).map fun i => (i, [i]) := by
  rw [List.map_map]
  apply List.map_congr_left
  intro i _
  simp [gOf, idT, nodeId, key, sortAsc, insertAsc, BT.leaves]

/-- **round trip through an SSA path**, for every children-first traversal of a tree whose
    leaves are `0..n-1`: `get_ssa_path` succeeds, is a valid SSA path, and
    `from_path(ssa_path=…)` creates exactly the nodes of the traversal (as sorted leaf lists),
    in order. -/
theorem ssa_path_roundtrip (t : BT) (n : Nat) (hl : t.leaves.Perm (List.range n)) (seq : List BT)
    (h : ChildrenFirst t seq) :
    ∃ path, getSsaPath n seq = some path ∧ ValidSsa (List.range n) n path ∧
      ∃ left, fromSsaPath n path = some (seq.map key, left) := by
  have hn : t.leaves.Nodup := hl.nodup_iff.2 List.nodup_range
  have hready := ready_of_childrenFirst t hn seq h.1 h.2 ((List.range n).map BT.leaf)
    (by intro i hi; exact List.mem_map.2 ⟨i, hl.mem_iff.1 hi, rfl⟩)
    (by intro x hx; obtain ⟨i, _, rfl⟩ := List.mem_map.1 hx; rfl)
  have hids : ((List.range n).map BT.leaf).map (idT []) = List.range n := by
    rw [List.map_map]
    conv => rhs; rw [← List.map_id (List.range n)]
    apply List.map_congr_left
    intro i _; simp [idT, nodeId]
  obtain ⟨path, h1, h2, left, h3⟩ := ssa_from seq ((List.range n).map BT.leaf) [] n hready
    (h.1.nodup_iff.2 (internal_nodup t hn))
    (by
      intro x hx hm
      obtain ⟨i, _, rfl⟩ := List.mem_map.1 hm
      exact leaf_not_mem_internal t i (h.1.mem_iff.1 hx))
    (by intro x hx; obtain ⟨i, _, rfl⟩ := List.mem_map.1 hx; rfl)
    (by rw [hids]; exact List.pairwise_lt_range)
    (by
      intro x hx
      obtain ⟨i, hi, rfl⟩ := List.mem_map.1 hx
      simpa [idT, nodeId] using hi)
  rw [hids] at h2
  rw [initial_dict] at h3
  exact ⟨path, h1, h2, left, h3⟩

/-- **converting a path does not change the tree**: for a valid SSA path (steps of one or two
    ids) both branches of `from_path` agree along `ssa_to_linear`. -/
theorem fromPath_ssaToLinear (n : Nat) (p : Path) (h : ValidSsa (List.range n) n p) :
    ∃ lp, ssaToLinear n p = some lp ∧ fromLinearPath n lp = fromSsaPath n p := by
  have hk : ((List.range n).map fun i => (i, [i])).map (·.1) = List.range n := by
    rw [List.map_map]
    conv => rhs; rw [← List.map_id (List.range n)]
    apply List.map_congr_left
    intro i _; rfl
  have hv : ((List.range n).map fun i => (i, [i])).map (·.2) = (List.range n).map fun i => [i] := by
    rw [List.map_map]
    apply List.map_congr_left
    intro i _; rfl
  obtain ⟨lp, h1, h2⟩ := fromLinear_eq_fromSsa p ((List.range n).map fun i => (i, [i])) n
    (by rw [hk]; exact idsOK_range n) (by rw [hk]; exact h)
  rw [hk] at h1
  rw [hv] at h2
  exact ⟨lp, h1, h2⟩

/-- **round trip through a linear path** (`get_path`), for every children-first traversal:
    `from_path(path=tree.get_path(order))` has exactly the nodes of the tree. -/
theorem path_roundtrip (t : BT) (n : Nat) (hl : t.leaves.Perm (List.range n)) (seq : List BT)
    (h : ChildrenFirst t seq) :
    ∃ lp, getPath n seq = some lp ∧ ValidLinear n lp ∧
      ∃ left, fromLinearPath n lp = some (seq.map key, left) ∧ (seq.map key).Perm (t.internal.map key) := by
  obtain ⟨path, h1, h2, left, h3⟩ := ssa_path_roundtrip t n hl seq h
  obtain ⟨lp, h4, h5⟩ := fromPath_ssaToLinear n path h2
  obtain ⟨lp', h6, h7, _⟩ := linear_ssa_inverse n path h2
  rw [h4] at h6
  cases h6
  refine ⟨lp, ?_, h7, left, ?_, h.1.map key⟩
  · rw [getPath_eq_ssaToLinear_getSsaPath, h1]; exact h4
  · rw [h5, h3]

/-- the round trip for the two real traversals, any `order` -/
theorem path_roundtrip_traversals (l r : BT) (n : Nat) (hl : (BT.node l r).leaves.Perm (List.range n))
    (order : BT → Nat) :
    (∃ lp left, getPath n (traverseOrdered (.node l r) order) = some lp ∧
      fromLinearPath n lp = some ((traverseOrdered (.node l r) order).map key, left)) ∧
    (∃ lp left, getPath n (traverseDfs (.node l r)) = some lp ∧
      fromLinearPath n lp = some ((traverseDfs (.node l r)).map key, left)) := by
  have hn : (BT.node l r).leaves.Nodup := hl.nodup_iff.2 List.nodup_range
  constructor
  · obtain ⟨lp, h1, _, left, h2, _⟩ := path_roundtrip _ n hl _ (traverse_ordered_children_first l r hn order)
    exact ⟨lp, left, h1, h2⟩
  · obtain ⟨lp, h1, _, left, h2, _⟩ := path_roundtrip _ n hl _ (traverse_dfs_postorder l r hn).2
    exact ⟨lp, left, h1, h2⟩

/-! ## edge paths -/

/-- **`edge_path_to_ssa`**: for every duplicate-free sequence of indices that occur in the
    inputs (a permutation or any sub-sequence), the function succeeds and returns exactly the path
    of the leaf-set definition `specEdge` — for each index in turn, *all current tensors one of
    whose leaves carries the index* are contracted (ids sorted), or nothing happens if there are
    fewer than two — and that path is a valid SSA path. -/
theorem edge_path_valid (inputs : List (List Ix)) (ep : List Ix) (hnd : ep.Nodup)
    (hin : ∀ ix ∈ ep, ∃ t ∈ inputs, ix ∈ t) :
    edgePathToSsa ep inputs = some (specEdge inputs ep) ∧
      ValidSsa (List.range inputs.length) inputs.length (specEdge inputs ep) := by
  have hkeys : ∀ ix ∈ ep, ix ∈ (edgeInit inputs).indToSsas.map (·.1) := by
    intro ix hix
    obtain ⟨t, ht, hixt⟩ := hin ix hix
    obtain ⟨i, hi, he⟩ := List.getElem_of_mem ht
    have h1 := (init_fold inputs).1
    apply (h1.keys ix).2
    refine Or.inl ⟨i, hi, ?_⟩
    rw [List.getD_eq_getElem?_getD, List.getElem?_eq_getElem hi, he]
    exact hixt
  obtain ⟨e', h1, h2⟩ := esim_fold inputs ep (edgeInit inputs) (specInit inputs) (esim_init inputs) hnd hkeys
  constructor
  · unfold edgePathToSsa specEdge
    rw [h1, Option.map_some, h2.path_eq]
  · unfold specEdge
    rw [foldl_specStep_path]
    have hcur : (specInit inputs).cur.map (·.1) = List.range inputs.length := by
      simp only [specInit, List.map_map]
      conv => rhs; rw [← List.map_id (List.range inputs.length)]
      apply List.map_congr_left
      intro i _; rfl
    have := specSuffix_valid inputs ep (specInit inputs) (by rw [hcur]; exact List.nodup_range)
      (by rw [hcur]; intro s hs; exact List.mem_range.1 hs)
    rw [hcur] at this
    simpa [specInit] using this

/-- **`from_path(edge_path=…)`** builds the tree of the leaf-set definition: for every duplicate-free
    sequence of indices occurring in the inputs, the tree made from the edge path is the tree made
    from the SSA path `specEdge inputs ep` — each index in turn merges *all* current tensors that
    carry it, whether or not the index is an output index (the output is not an argument). -/
theorem from_edge_path_eq (inputs : List (List Ix)) (ep : List Ix) (hnd : ep.Nodup)
    (hin : ∀ ix ∈ ep, ∃ t ∈ inputs, ix ∈ t) :
    fromEdgePath ep inputs = fromSsaPath inputs.length (specEdge inputs ep) := by
  unfold fromEdgePath
  rw [(edge_path_valid inputs ep hnd hin).1]
  rfl

/-- an index carried by two tensors generates its step also when it is an output (batch) index:
    `from_path(['ab','ac'], output='a', edge_path=['a'])` creates the node `{0,1}` -/
example : fromEdgePath [0] [[0, 1], [0, 2]] = some ([[0, 1]], [[0, 1]]) := by decide

/-- the guard is needed: a repeated index raises `KeyError` -/
theorem edge_path_repeated_index_raises :
    edgePathToSsa [1, 1] [[0, 1], [1, 2]] = none := by decide

/-! ## non-vacuity -/

def exTree : BT := .node (.node (.leaf 3) (.node (.leaf 0) (.leaf 2))) (.node (.leaf 1) (.leaf 4))

example : ValidLinear 5 [[0, 3], [1, 2], [0], [0, 1, 2]] := by
  simp [ValidLinear]
example : linearToSsa 5 [[0, 3], [1, 2], [0], [0, 1, 2]] = some [[3, 0], [4, 2], [1], [7, 6, 5]] := by decide
example : ssaToLinear 5 [[3, 0], [4, 2], [1], [7, 6, 5]] = some [[0, 3], [1, 2], [0], [0, 1, 2]] := by decide
example : exTree.leaves.Nodup := by decide
example : (traverseDfs exTree == exTree.internal) = true := by decide
/-- an order that prefers the *root*: the traversal still puts children first -/
example : (traverseOrdered exTree (fun x => 10 - x.leaves.length)).map (·.leaves) =
    [[0, 2], [3, 0, 2], [1, 4], [3, 0, 2, 1, 4]] := by decide
example : cfCheck exTree (traverseOrdered exTree (fun x => x.leaves.length % 2)) = true := by decide
example : edgePathToSsa [1, 0, 3, 2] [[0, 1], [1, 2], [2, 3], [3, 0, 4]] =
    some [[0, 1], [3, 4], [2, 5]] := by decide
example : specEdge [[0, 1], [1, 2], [2, 3], [3, 0, 4]] [1, 0, 3, 2] = [[0, 1], [3, 4], [2, 5]] := by decide
example : exTree.leaves.Perm (List.range 5) := by decide
example : getPath 5 (traverseDfs exTree) = some [[0, 2], [1, 3], [0, 1], [0, 1]] := by decide
example : fromLinearPath 5 [[0, 2], [1, 3], [0, 1], [0, 1]] =
    some ([[0, 2], [0, 2, 3], [1, 4], [0, 1, 2, 3, 4]], [[0, 1, 2, 3, 4]]) := by decide

end Cotengra.C10
