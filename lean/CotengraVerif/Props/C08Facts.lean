import CotengraVerif.Props.C08
import CotengraVerif.Generated.FactsC08

/-!
# C08 — closed obligations over the source-derived fact tables

`Generated/FactsC08.lean` is rewritten from the AST of `cotengra/scoring.py` and
`cotengra/hyperoptimizers/hyper.py` by `harness/c08.py: gen_facts` on every run of `./check C08`;
the obligations below are re-checked by the kernel (`decide`) against the tables of the *current*
source.  They instantiate the guard of `C08.record_costs_true_partial` and the parameters of the
worker model (`setupStack`, `applyWrapper`) with what the source says.
-/
namespace Cotengra.C08
open Cotengra Cotengra.Hyper Cotengra.Generated.C08

def wrapperName : Wrapper → String
  | .anneal => "anneal" | .slice => "slice" | .sliceReconf => "slice_reconf" | .reconf => "reconf"

/-- **figures_always_filled** — `ComputeScore` fills missing figures itself, or every exact
    objective (`flops, write, size, combo, limit`) does.  False on the tree as found (DESIGN 7f:
    `LimitObjective.__call__` does not); true after the proposed repair. -/
theorem figures_always_filled :
    computeScorePostEnsure = true ∨ ∀ p ∈ objectiveEnsures, p.2 = true := by decide

/-- the table covers the five exact objectives -/
theorem objective_table_complete :
    objectiveEnsures.map (·.1) = ["flops", "write", "size", "combo", "limit"] := by decide

/-- **setup_order_as_modelled** — `HyperOptimizer.setup` nests the wrappers in the order of
    `setupStack` -/
theorem setup_order_as_modelled :
    wrapperOrder = (setupStack true true true true).map wrapperName := by decide

/-- **every_wrapper_updates** — each of the four wrappers ends with
    `trial.update(tree.contract_stats())` after its last tree mutation, as `applyWrapper` does -/
theorem every_wrapper_updates :
    wrapperUpdates.map (·.1) = ["anneal", "slice", "slice_reconf", "reconf"] ∧
      ∀ p ∈ wrapperUpdates, p.2 = true := by decide

/-- **repaired_code_costs_true** — with the source facts of the current tree: for every exact
    objective of the table (as `ensures` flag), every option set, every tree behaviour, the record
    returned by `ComputeScore` carries the figures of the tree it carries (no guard left). -/
theorem repaired_code_costs_true {τ : Type} (ops : TreeOps τ) (a s sr r : Bool) (name : String)
    (ens : Bool) (hname : (name, ens) ∈ objectiveEnsures) (value : TDict τ → Option Score)
    (onErr : OnErr) (raw : Raw τ) (rec : RDict τ)
    (h : computeScore ops (setupStack a s sr r) { ensures := ens, value := value }
      computeScorePostEnsure onErr raw = some rec) : TrueRecord ops rec := by
  apply record_costs_true_partial ops _ _ _ onErr raw rec _ h
  rcases figures_always_filled with hp | hall
  · exact Or.inl hp
  · exact Or.inr (Or.inl (hall _ hname))

end Cotengra.C08
