import CotengraVerif.Props.C08
import CotengraVerif.Props.C08X
import CotengraVerif.Generated.FactsC08

/-!
# C08 — closed obligations over the source-derived fact tables

`Generated/FactsC08.lean` is rewritten from the AST of `cotengra/scoring.py` and
`cotengra/hyperoptimizers/hyper.py` by `harness/c08.py: gen_facts` on every run of `./check C08`;
the obligations below are re-checked by the kernel (`decide`) against the tables of the *current*
source.  They instantiate the guard of `C08.record_costs_true_partial` and the parameters of the
worker model (`setupStack`, `applyWrapper`) with what the source says.
-/
namespace Cotengra.C08
open Cotengra Cotengra.Hyper Cotengra.Generated.C08

def wrapperName : Wrapper → String
  | .anneal => "anneal" | .slice => "slice" | .sliceReconf => "slice_reconf" | .reconf => "reconf"

/-- **figures_always_filled** — `ComputeScore` fills missing figures itself, or every exact
    objective (`flops, write, size, combo, limit`) does.  False on the tree as found (DESIGN 7f:
    `LimitObjective.__call__` does not); true after the proposed repair. -/
theorem figures_always_filled :
    computeScorePostEnsure = true ∨ ∀ p ∈ objectiveEnsures, p.2 = true := by decide

/-- the table covers the five exact objectives -/
theorem objective_table_complete :
    objectiveEnsures.map (·.1) = ["flops", "write", "size", "combo", "limit"] := by decide

/-- **setup_order_as_modelled** — `HyperOptimizer.setup` nests the wrappers in the order of
    `setupStack` -/
theorem setup_order_as_modelled :
    wrapperOrder = (setupStack true true true true).map wrapperName := by decide

/-- **every_wrapper_updates** — each of the four wrappers ends with
    `trial.update(tree.contract_stats())` after its last tree mutation, as `applyWrapper` does -/
theorem every_wrapper_updates :
    wrapperUpdates.map (·.1) = ["anneal", "slice", "slice_reconf", "reconf"] ∧
      ∀ p ∈ wrapperUpdates, p.2 = true := by decide

/-- **repaired_code_costs_true** — with the source facts of the current tree: for every exact
    objective of the table (as `ensures` flag), every option set, every tree behaviour, the record
    returned by `ComputeScore` carries the figures of the tree it carries (no guard left). -/
theorem repaired_code_costs_true {τ : Type} (ops : TreeOps τ) (a s sr r : Bool) (name : String)
    (ens : Bool) (hname : (name, ens) ∈ objectiveEnsures) (value : TDict τ → Option Score)
    (onErr : OnErr) (raw : Raw τ) (rec : RDict τ)
    (h : computeScore ops (setupStack a s sr r) { ensures := ens, value := value }
      computeScorePostEnsure onErr raw = some rec) : TrueRecord ops rec := by
  apply record_costs_true_partial ops _ _ _ onErr raw rec _ h
  rcases figures_always_filled with hp | hall
  · exact Or.inl hp
  · exact Or.inr (Or.inl (hall _ hname))

/-- the source fact the full statements below rest on: `ComputeScore.__call__` itself calls
    `ensure_basic_quantities_are_computed(trial)` after scoring (the repair of DESIGN 7f) -/
theorem compute_score_post_ensures : computeScorePostEnsure = true := by decide

/-- **current_source_costs_true** — the full statement `record_costs_true_partial` stands for, on
    the current source, with no guard: for *every* objective (built-in or custom callable, filling
    the figures or not, returning any float including NaN), every option set and every behaviour
    of the trees, the record returned by `ComputeScore` carries `flops/write/size` equal to
    `contract_stats()` of the tree it carries. -/
theorem current_source_costs_true {τ : Type} (ops : TreeOps τ) (ws : List Wrapper)
    (obj : XObjective τ) (onErr : OnErr) (raw : Raw τ) (rec : XRDict τ)
    (h : xcomputeScore ops ws obj computeScorePostEnsure onErr raw = some rec) :
    TrueRecord ops (eraseRec rec) :=
  xrecord_costs_true ops ws obj _ onErr raw rec (Or.inl compute_score_post_ensures) h

/-- **current_source_search_correct** — `xhyper_search_correct_parallel` instantiated with the
    facts of the current source (wrapper order of `setup`, post-ensure): no guard left. -/
theorem current_source_search_correct {τ : Type} (ops : TreeOps τ) (idOf : τ → Nat)
    (statsOf : Nat → CStats) (hstats : ∀ t, ops.stats t = statsOf (idOf t)) (a s sr r : Bool)
    (obj : XObjective τ) (onErr : OnErr) (getSetting : XState → Setting)
    (raws : Nat → Setting → Raw τ) (times : Nat → Nat) (doneAt : Nat → Bool) (mts : Option Nat)
    (pre maxRepeats : Nat) (stop : StopRule) (choices : List Nat) :
    let ps := xsearchParallel (xworkerEnv ops idOf (setupStack a s sr r) obj computeScorePostEnsure
      onErr getSetting raws times doneAt) pre maxRepeats stop choices (XState.init mts)
    SearchCorrect statsOf maxRepeats ps.h ∧
      (onErr ≠ .raise → ps.raised = none ∧ ps.futures = []) :=
  xhyper_search_correct_parallel ops idOf statsOf hstats _ obj _ onErr
    (Or.inl compute_score_post_ensures) getSetting raws times doneAt mts pre maxRepeats stop choices

end Cotengra.C08
