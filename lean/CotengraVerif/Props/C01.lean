import CotengraVerif.Lemmas.SoundRun
import CotengraVerif.Lemmas.SortOK
import CotengraVerif.Lemmas.ChildrenFirst
import CotengraVerif.Model.Recipes
import Mathlib.Algebra.Ring.Int.Defs

/-!
# C01 — contracting with any tree gives the einsum value, in the declared axis order

## What is modelled (files of /repo, commit of the run)

* `Model/Net.lean` (shared): `compute_leaf_legs`, `get_legs`, `get_involved` (core.py:743-833).
* `Model/Recipes.lean`: `get_inds`, `get_can_dot`, `get_tensordot_axes`, `get_tensordot_perm`,
  `get_einsum_eq` (core.py:850-921), the preprocessing equation (`inputs_output_to_eq`,
  utils.py:1235), `extract_contractions` (contract.py:576-636), `sort_contraction_indices`
  (core.py:2920-3004, model only – see below).
* `Model/Program.lean`: the program, its interpreter `run` = `Contractor.__call__`
  (contract.py:757-805 without exponent stripping), the certificate checker `Admissible`.
* `Model/Tensor.lean`: functional arrays, `einsum1`, `einsum2`, `tensordot`, `transpose`
  (the model of numpy / autoray – trusted, validated on integers by the harness), the nested
  finite sum `sumOver`, and `Net.einsumSpec` – the mathematical einsum.

## What is proved (all for every network, tree, order, option, array size; no bound)

* `admissible_sound` – a program accepted by `Admissible` runs without raising on well-shaped
  arrays over any commutative semiring and returns the einsum of the network, axes = declared
  output in the declared order (einsum, tensordot(+perm) and preprocessing steps).
* `model_extract_admissible(_inds)` – the model's own extraction is `Admissible` for every
  network satisfying the guards, every complete tree, every children-first order, both
  `prefer_einsum` values and every admissible table of per-node index orders (the default one
  of `get_inds` is admissible: `inds_ok`).
* `model_extract_admissible_sorted` – in particular for the table that the model of
  `sort_contraction_indices` leaves behind, for every processing order (`priority`) and both
  flags (`sortInds_ok`).
* `childrenFirst_of_childrenEarlier` – `ChildrenFirst` (an inductive schedule) covers every
  traversal that is children-first in the plain positional sense (`ChildrenEarlier`: lists the
  internal nodes, every child that is a node occurs earlier); `model_extract_admissible_positional`
  restates the extraction theorem with that hypothesis.
* `model_contract_correct` – soundness and extraction combined: C01 for the model.
* `run_order_irrelevant` – any two children-first orders (and recipe choices) yield the same
  array (same shape, same entry at every position).

## Not modelled / not proved

`strip_exponent`, `autojit`, cuquantum, slicing drivers (`contract` loops over slices: C06),
floating point.
-/
namespace Cotengra.C01
open Cotengra Cotengra.Net

section
variable {R : Type} [CommSemiring R]

/-- the operand family of a list of arrays -/
def operands (arrays : List (Arr R)) : Nat → Arr R :=
  fun i => arrays.getD i { shape := [], val := fun _ => 0 }

/-- the arrays have the shapes the (sliced) terms declare -/
def WellShaped (n : Net) (rm : List Ix) (arrays : List (Arr R)) : Prop :=
  arrays.length = n.inputs.length ∧
    ∀ i (h : i < arrays.length), (arrays[i]).shape = (n.termRm rm i).map n.size

/-- what it means for an array to be the einsum of the network in the declared axis order:
    its shape is that of the declared output (minus removed indices) and its entry at the
    position an index assignment `σ` gives to the output axes is `einsumSpec σ`. -/
def IsEinsum (n : Net) (rm : List Ix) (arrays : List (Arr R)) (res : Arr R) : Prop :=
  res.shape = (n.outRm rm).map n.size ∧
    ∀ σ : Ix → Nat, res.val ((n.outRm rm).map σ) = n.einsumSpec rm (operands arrays) σ

/-- **Soundness of the certificate check (tree-free core).** -/
theorem admissibleCore_sound (n : Net) (rm : List Ix) (prog : Program) (arrays : List (Arr R))
    (hw : WellShaped n rm arrays) (ha : AdmissibleCore n rm prog = true) :
    ∃ res, run prog arrays = .ok res ∧ IsEinsum n rm arrays res := by
  obtain ⟨hlen, hshape⟩ := hw
  have hA : ∀ i (h : i < arrays.length), operands arrays i = arrays[i] := by
    intro i h
    simp [operands, List.getD_eq_getElem?_getD, h]
  unfold AdmissibleCore checkCore at ha
  split at ha
  · rename_i u hcore
    split at hcore
    · cases hcore
    · rename_i cs1 hpre
      split at hcore
      · cases hcore
      · rename_i cs2 hsteps
        -- final clause
        unfold checkFinal at hcore
        split at hcore
        · cases hcore
        · rename_i hne
          split at hcore
          · rename_i k ax
            split at hcore
            · cases hcore
            · rename_i hs0
              split at hcore
              · cases hcore
              · rename_i hax0
                have hs : sameSet k (List.range n.inputs.length) = true := of_not_not_true hs0
                have hax : ax = n.outRm rm := by
                  by_contra hc
                  exact hax0 (by simpa using hc)
                subst hax
                have hrel0 := init_rel n rm arrays (operands arrays) hlen hA hshape
                have hk0 : (keysOf (n.initAxes rm)).Nodup := by
                  rw [keysOf_init]; exact List.nodup_range
                obtain ⟨rs1, hr1, hrel1, hk1⟩ :=
                  checkPre_sound n rm (operands arrays) prog.pre _ _ hrel0 hk0 cs1 hpre
                obtain ⟨rs2, last, hr2, hrel2, _, hlast⟩ :=
                  checkSteps_sound n rm (operands arrays) prog.steps _ _ none hrel1 hk1 _ hsteps
                have hsne : prog.steps ≠ [] := by
                  intro e
                  rw [e] at hne
                  simp at hne
                obtain ⟨k', a, rest, hrs, hl⟩ := hlast (Or.inr hsne)
                subst hrs
                cases hrel2 with
                | cons hhead htail =>
                  cases htail
                  obtain ⟨hkk, inv⟩ := hhead
                  simp only at hkk inv
                  subst hl
                  refine ⟨a, ?_, inv.shape, ?_⟩
                  · simp only [run, hr1, hr2]
                  · intro σ
                    rw [inv.val σ]
                    unfold Net.einsumSpec
                    have hperm : k.Perm (List.range n.inputs.length) := by
                      rw [List.perm_ext_iff_of_nodup inv.nodup List.nodup_range]
                      exact (sameSet_iff _ _).1 hs
                    have hm : (n.missing rm k (n.outRm rm)).Perm (n.summedIx rm) := by
                      unfold Net.missing Net.summedIx
                      apply List.Perm.filter
                      rw [List.perm_ext_iff_of_nodup (occL_nodup n rm _) (occL_nodup n rm _)]
                      exact occL_perm_mem n rm hperm
                    rw [sumOver_perm n.size hm (missing_nodup n rm _ _)]
                    apply sumOver_congr
                    intro τ
                    exact prodS_perm n rm _ hperm τ
          · cases hcore
  · cases ha

/-- **`admissible_sound`.**  A program accepted by `Admissible` (for *any* tree argument), run by
    the interpreter on well-shaped arrays over any commutative semiring, does not raise and
    returns the einsum of the network with axes = the declared output, in the declared order. -/
theorem admissible_sound (n : Net) (rm : List Ix) (t : BT) (prog : Program)
    (arrays : List (Arr R)) (hw : WellShaped n rm arrays) (ha : Admissible n rm t prog = true) :
    ∃ res, run prog arrays = .ok res ∧ IsEinsum n rm arrays res := by
  apply admissibleCore_sound n rm prog arrays hw
  unfold Admissible checkProgram at ha
  unfold AdmissibleCore
  split at ha
  · rename_i u h
    split at h
    · cases h
    · rename_i hc
      rw [hc]
  · cases ha

/-- positional form: every entry of the result, addressed by a position of the right length -/
theorem IsEinsum.at_pos {n : Net} {rm : List Ix} {arrays : List (Arr R)} {res : Arr R}
    (h : IsEinsum n rm arrays res) (hnd : (n.outRm rm).Nodup) (idx : List Nat)
    (hl : idx.length = (n.outRm rm).length) :
    res.val idx = n.einsumSpec rm (operands arrays) (assoc ((n.outRm rm).zip idx)) := by
  rw [← h.2]
  congr 1
  symm
  apply map_assoc_zip _ _ hl.symm
  intro p hp q hq e
  obtain ⟨i, hi, rfl⟩ := List.mem_iff_getElem.1 hp
  obtain ⟨j, hj, rfl⟩ := List.mem_iff_getElem.1 hq
  simp only [List.getElem_zip] at e ⊢
  have : i = j := (List.Nodup.getElem_inj_iff hnd).1 e
  subst this
  rfl

/-- **`model_extract_admissible_inds`.**  For every network satisfying the guards of the real
    code, every complete tree, every children-first traversal, both values of `prefer_einsum`
    and every table of per-node index orders that orders each inner node's legs (what
    `sort_contraction_indices` may leave behind), the model's extraction is `Admissible`. -/
theorem model_extract_admissible_inds (n : Net) (rm : List Ix) (t : BT) (I : BT → List Ix)
    (order : List BT) (preferEinsum : Bool) (hN : 2 ≤ n.inputs.length) (hc : Complete n t)
    (G : Guards n) (hI : IndsOK n rm t I) (ho : ChildrenFirst t order) :
    Admissible n rm t (extractWith n rm I order preferEinsum) = true :=
  extractWith_admissible n rm t I order preferEinsum hN hc G hI ho

/-- **`model_extract_admissible`.**  The same for the default index orders of `get_inds`. -/
theorem model_extract_admissible (n : Net) (rm : List Ix) (t : BT) (order : List BT)
    (preferEinsum : Bool) (hN : 2 ≤ n.inputs.length) (hc : Complete n t) (G : Guards n)
    (ho : ChildrenFirst t order) :
    Admissible n rm t (extract n rm order preferEinsum) = true :=
  extractWith_admissible n rm t _ order preferEinsum hN hc G (inds_ok n rm t hN hc) ho

/-- `model_extract_admissible` for traversals given positionally: `order` lists exactly the
    internal nodes and every child that is itself a node occurs earlier in the list. -/
theorem model_extract_admissible_positional (n : Net) (rm : List Ix) (t : BT) (I : BT → List Ix)
    (order : List BT) (preferEinsum : Bool) (hN : 2 ≤ n.inputs.length) (hc : Complete n t)
    (G : Guards n) (hI : IndsOK n rm t I) (ho : ChildrenEarlier t order) :
    Admissible n rm t (extractWith n rm I order preferEinsum) = true :=
  extractWith_admissible n rm t I order preferEinsum hN hc G hI
    (childrenFirst_of_childrenEarlier t order (complete_nodup n t hc) ho)

/-- **`model_extract_admissible_sorted`.**  The same after the model of
    `sort_contraction_indices(priority, make_output_contig, make_contracted_contig)`, for every
    processing order `proc` over nodes of the tree. -/
theorem model_extract_admissible_sorted (n : Net) (rm : List Ix) (t : BT) (order proc : List BT)
    (preferEinsum outputContig contractedContig : Bool) (hN : 2 ≤ n.inputs.length)
    (hc : Complete n t) (G : Guards n) (ho : ChildrenFirst t order)
    (hp : ∀ p ∈ proc, p ∈ t.internal) :
    Admissible n rm t
      (extractWith n rm (sortInds n rm outputContig contractedContig proc) order preferEinsum)
        = true :=
  extractWith_admissible n rm t _ order preferEinsum hN hc G
    (sortInds_ok n rm t outputContig contractedContig proc hN hc (fun p h => by
      have := (C03.internal_leaves_sublist t p (hp p h)).length_le
      rw [complete_length n t hc] at this
      exact this)) ho

/-- **C01 for the model**: contracting well-shaped arrays through any complete tree, in any
    children-first order, with either recipe preference and any admissible index-order table,
    returns the einsum of the network in the declared axis order. -/
theorem model_contract_correct (n : Net) (rm : List Ix) (t : BT) (I : BT → List Ix)
    (order : List BT) (preferEinsum : Bool) (arrays : List (Arr R))
    (hN : 2 ≤ n.inputs.length) (hc : Complete n t) (G : Guards n) (hI : IndsOK n rm t I)
    (ho : ChildrenFirst t order) (hw : WellShaped n rm arrays) :
    ∃ res, run (extractWith n rm I order preferEinsum) arrays = .ok res ∧
      IsEinsum n rm arrays res :=
  admissible_sound n rm t _ arrays hw
    (model_extract_admissible_inds n rm t I order preferEinsum hN hc G hI ho)

/-- **`run_order_irrelevant`.**  Two admissible programs for the same network (in particular
    the extractions along any two children-first orders, with any recipe preference and any
    admissible index-order tables) run to the same array: same shape, same entry everywhere. -/
theorem run_order_irrelevant (n : Net) (rm : List Ix) (t₁ t₂ : BT) (p₁ p₂ : Program)
    (arrays : List (Arr R)) (hw : WellShaped n rm arrays)
    (h₁ : Admissible n rm t₁ p₁ = true) (h₂ : Admissible n rm t₂ p₂ = true) :
    ∃ r₁ r₂, run p₁ arrays = .ok r₁ ∧ run p₂ arrays = .ok r₂ ∧ r₁.shape = r₂.shape ∧
      ∀ σ : Ix → Nat, r₁.val ((n.outRm rm).map σ) = r₂.val ((n.outRm rm).map σ) := by
  obtain ⟨r₁, hr₁, hs₁, hv₁⟩ := admissible_sound n rm t₁ p₁ arrays hw h₁
  obtain ⟨r₂, hr₂, hs₂, hv₂⟩ := admissible_sound n rm t₂ p₂ arrays hw h₂
  exact ⟨r₁, r₂, hr₁, hr₂, hs₁.trans hs₂.symm, fun σ => (hv₁ σ).trans (hv₂ σ).symm⟩

/-- the model-level instance: any two children-first orders of the same tree -/
theorem run_order_irrelevant_model (n : Net) (rm : List Ix) (t : BT) (I : BT → List Ix)
    (o₁ o₂ : List BT) (pe₁ pe₂ : Bool) (arrays : List (Arr R))
    (hN : 2 ≤ n.inputs.length) (hc : Complete n t) (G : Guards n) (hI : IndsOK n rm t I)
    (h₁ : ChildrenFirst t o₁) (h₂ : ChildrenFirst t o₂) (hw : WellShaped n rm arrays) :
    ∃ r₁ r₂, run (extractWith n rm I o₁ pe₁) arrays = .ok r₁ ∧
      run (extractWith n rm I o₂ pe₂) arrays = .ok r₂ ∧ r₁.shape = r₂.shape ∧
      ∀ σ : Ix → Nat, r₁.val ((n.outRm rm).map σ) = r₂.val ((n.outRm rm).map σ) :=
  run_order_irrelevant n rm t t _ _ arrays hw
    (model_extract_admissible_inds n rm t I o₁ pe₁ hN hc G hI h₁)
    (model_extract_admissible_inds n rm t I o₂ pe₂ hN hc G hI h₂)

end

/-! ## non-vacuity: a 4-tensor network with a hyper index (4), a repeated index (2), a
    size-1 dimension (3), a dangling index (5) and two output indices -/

def exNet : Net :=
  { inputs := [[0, 1], [1, 2, 4], [2, 2, 3, 4], [4, 5]], output := [4, 0],
    sizes := [(0, 2), (1, 3), (2, 2), (3, 1), (4, 2), (5, 3)] }
def exTree : BT := .node (.node (.leaf 0) (.leaf 1)) (.node (.leaf 2) (.leaf 3))
/-- a second children-first order: right subtree first -/
def exOrder₂ : List BT :=
  [.node (.leaf 2) (.leaf 3), .node (.leaf 0) (.leaf 1), exTree]

example : 2 ≤ exNet.inputs.length := by decide
example : Complete exNet exTree := by unfold Complete; decide
example : Guards exNet := ⟨by decide, by decide⟩
example : ChildrenFirst exTree exTree.internal := childrenFirst_internal exTree
example : ChildrenFirst exTree exOrder₂ := by
  refine ⟨List.Perm.swap _ _ _, ?_⟩
  have p1 : (exTree.leaves.map BT.leaf).Perm [BT.leaf 2, BT.leaf 3, BT.leaf 0, BT.leaf 1] :=
    List.perm_append_comm (l₁ := [BT.leaf 0, BT.leaf 1]) (l₂ := [BT.leaf 2, BT.leaf 3])
  have p2 : [BT.node (.leaf 2) (.leaf 3), BT.leaf 0, BT.leaf 1].Perm
      [BT.leaf 0, BT.leaf 1, BT.node (.leaf 2) (.leaf 3)] :=
    List.perm_append_comm (l₁ := [BT.node (.leaf 2) (.leaf 3)]) (l₂ := [BT.leaf 0, BT.leaf 1])
  exact Sched.step p1 (Sched.step p2 (Sched.step (List.Perm.refl _) (Sched.nil (List.Perm.refl _))))
/-- the checker accepts the model's programs for this network (both recipe preferences, two
    orders) – an instance of `model_extract_admissible`, here by evaluation -/
example : Admissible exNet [] exTree (extract exNet [] exTree.internal false) = true := by decide
example : Admissible exNet [] exTree (extract exNet [] exOrder₂ true) = true := by decide
/-- the program does contain a preprocessing step, a tensordot step and an einsum step -/
example : (extract exNet [] exTree.internal false).pre.length = 2 ∧
    (extract exNet [] exTree.internal false).steps.map (fun s => match s.recipe with
      | .tdot .. => true | .einsum .. => false) = [true, false, false] := by decide
/-- the checker is not trivially true: the same program with the two output labels of the last
    equation exchanged (root axes in the wrong order) is rejected … -/
example : Admissible exNet [] exTree
    { (extract exNet [] exTree.internal true) with
      steps := (extract exNet [] exTree.internal true).steps.map fun s =>
        match s.recipe with
        | .einsum a b o => if s.parent.length == 4 then { s with recipe := .einsum a b o.reverse } else s
        | _ => s } = false := by decide
/-- … and so is the program whose first step also sums the hyper index 4, which is still
    needed by tensors 2 and 3 and by the output -/
example : Admissible exNet [] exTree
    { (extract exNet [] exTree.internal true) with
      steps := (extract exNet [] exTree.internal true).steps.map fun s =>
        match s.recipe with
        | .einsum a b o => if s.parent.length == 2 then { s with recipe := .einsum a b (o.take 1) } else s
        | _ => s } = false := by decide

/-! ### a concrete run over `Int`: hypotheses of `admissible_sound` are met, and the kernel
    evaluates both sides of its conclusion to the same integer -/

def exArr (shape : List Nat) (seed : Int) : Arr Int :=
  { shape := shape,
    val := fun idx => (idx.foldl (fun acc v => acc * 3 + (v : Int) + 1) seed) % 5 - 2 }

def exArrays : List (Arr Int) :=
  [exArr [2, 3] 1, exArr [3, 2, 2] 2, exArr [2, 2, 1, 2] 3, exArr [2, 3] 4]

def valAt (r : Except String (Arr Int)) (idx : List Nat) : Option Int :=
  match r with
  | .ok a => some (a.val idx)
  | .error _ => none

example : WellShaped exNet [] exArrays := ⟨by decide, by decide⟩
set_option maxRecDepth 100000 in
example : valAt (run (extract exNet [] exTree.internal false) exArrays) [1, 0] = some 24 ∧
    exNet.einsumSpec [] (operands exArrays) (assoc ([4, 0].zip [1, 0])) = 24 := by decide
set_option maxRecDepth 100000 in
example : valAt (run (extract exNet [] exOrder₂ true) exArrays) [0, 1] =
    some (exNet.einsumSpec [] (operands exArrays) (assoc ([4, 0].zip [0, 1]))) := by decide

end Cotengra.C01
