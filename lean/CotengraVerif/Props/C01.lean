import CotengraVerif.Lemmas.SoundRun
import CotengraVerif.Model.Recipes

/-!
# C01 — contracting with any tree gives the einsum value, in the declared axis order

(work in progress: `admissible_sound` first)
-/
namespace Cotengra.C01
open Cotengra Cotengra.Net

section
variable {R : Type} [CommSemiring R]

/-- the operand family of a list of arrays -/
def operands (arrays : List (Arr R)) : Nat → Arr R :=
  fun i => arrays.getD i { shape := [], val := fun _ => 0 }

/-- the arrays have the shapes the (sliced) terms declare -/
def WellShaped (n : Net) (rm : List Ix) (arrays : List (Arr R)) : Prop :=
  arrays.length = n.inputs.length ∧
    ∀ i (h : i < arrays.length), (arrays[i]).shape = (n.termRm rm i).map n.size

/-- what it means for an array to be the einsum of the network in the declared axis order:
    its shape is that of the declared output (minus removed indices) and its entry at the
    position an index assignment `σ` gives to the output axes is `einsumSpec σ`. -/
def IsEinsum (n : Net) (rm : List Ix) (arrays : List (Arr R)) (res : Arr R) : Prop :=
  res.shape = (n.outRm rm).map n.size ∧
    ∀ σ : Ix → Nat, res.val ((n.outRm rm).map σ) = n.einsumSpec rm (operands arrays) σ

/-- **Soundness of the certificate check (tree-free core).** -/
theorem admissibleCore_sound (n : Net) (rm : List Ix) (prog : Program) (arrays : List (Arr R))
    (hw : WellShaped n rm arrays) (ha : AdmissibleCore n rm prog = true) :
    ∃ res, run prog arrays = .ok res ∧ IsEinsum n rm arrays res := by
  obtain ⟨hlen, hshape⟩ := hw
  have hA : ∀ i (h : i < arrays.length), operands arrays i = arrays[i] := by
    intro i h
    simp [operands, List.getD_eq_getElem?_getD, h]
  unfold AdmissibleCore checkCore at ha
  split at ha
  · rename_i u hcore
    split at hcore
    · cases hcore
    · rename_i cs1 hpre
      split at hcore
      · cases hcore
      · rename_i cs2 hsteps
        -- final clause
        unfold checkFinal at hcore
        split at hcore
        · cases hcore
        · rename_i hne
          split at hcore
          · rename_i k ax
            split at hcore
            · cases hcore
            · rename_i hs0
              split at hcore
              · cases hcore
              · rename_i hax0
                have hs : sameSet k (List.range n.inputs.length) = true := of_not_not_true hs0
                have hax : ax = n.outRm rm := by
                  by_contra hc
                  exact hax0 (by simpa using hc)
                subst hax
                have hrel0 := init_rel n rm arrays (operands arrays) hlen hA hshape
                have hk0 : (keysOf (n.initAxes rm)).Nodup := by
                  rw [keysOf_init]; exact List.nodup_range
                obtain ⟨rs1, hr1, hrel1, hk1⟩ :=
                  checkPre_sound n rm (operands arrays) prog.pre _ _ hrel0 hk0 cs1 hpre
                obtain ⟨rs2, last, hr2, hrel2, _, hlast⟩ :=
                  checkSteps_sound n rm (operands arrays) prog.steps _ _ none hrel1 hk1 _ hsteps
                have hsne : prog.steps ≠ [] := by
                  intro e
                  rw [e] at hne
                  simp at hne
                obtain ⟨k', a, rest, hrs, hl⟩ := hlast (Or.inr hsne)
                subst hrs
                cases hrel2 with
                | cons hhead htail =>
                  cases htail
                  obtain ⟨hkk, inv⟩ := hhead
                  simp only at hkk inv
                  subst hl
                  refine ⟨a, ?_, inv.shape, ?_⟩
                  · simp only [run, hr1, hr2]
                  · intro σ
                    rw [inv.val σ]
                    unfold Net.einsumSpec
                    have hperm : k.Perm (List.range n.inputs.length) := by
                      rw [List.perm_ext_iff_of_nodup inv.nodup List.nodup_range]
                      exact (sameSet_iff _ _).1 hs
                    have hm : (n.missing rm k (n.outRm rm)).Perm (n.summedIx rm) := by
                      unfold Net.missing Net.summedIx
                      apply List.Perm.filter
                      rw [List.perm_ext_iff_of_nodup (occL_nodup n rm _) (occL_nodup n rm _)]
                      exact occL_perm_mem n rm hperm
                    rw [sumOver_perm n.size hm (missing_nodup n rm _ _)]
                    apply sumOver_congr
                    intro τ
                    exact prodS_perm n rm _ hperm τ
          · cases hcore
  · cases ha

/-- **`admissible_sound`.**  A program accepted by `Admissible` (for *any* tree argument), run by
    the interpreter on well-shaped arrays over any commutative semiring, does not raise and
    returns the einsum of the network with axes = the declared output, in the declared order. -/
theorem admissible_sound (n : Net) (rm : List Ix) (t : BT) (prog : Program)
    (arrays : List (Arr R)) (hw : WellShaped n rm arrays) (ha : Admissible n rm t prog = true) :
    ∃ res, run prog arrays = .ok res ∧ IsEinsum n rm arrays res := by
  apply admissibleCore_sound n rm prog arrays hw
  unfold Admissible checkProgram at ha
  unfold AdmissibleCore
  split at ha
  · rename_i u h
    split at h
    · cases h
    · rename_i hc
      rw [hc]
  · cases ha

end
end Cotengra.C01
