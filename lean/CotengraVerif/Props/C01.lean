import CotengraVerif.Model.Recipes

/-! # C01 (work in progress: interface first, theorems follow) -/
namespace Cotengra.C01
end Cotengra.C01
