import CotengraVerif.Lemmas.HyperLemmas
import CotengraVerif.Lemmas.HyperSearch
import CotengraVerif.Model.HyperTrial

/-!
# C08 — the hyper-optimizer returns its best trial and reports that trial's true costs

Modelled (cotengra/hyperoptimizers/hyper.py, see Model/Hyper.lean and Model/HyperTrial.lean):
`_maybe_report_result` (575-603), the assessing loop (712-726), `_gen_results` (605-621),
`_gen_results_parallel` / `_get_and_report_next_future` / `_maybe_cancel_futures`
(569-573, 623-657), the three `should_stop` rules (661-688), the post-processing wrappers
`SimulatedAnnealingTrialFn / SlicedTrialFn / SlicedReconfTrialFn / ReconfTrialFn` in the nesting
order of `setup` (175-267, 525-567), `ensure_basic_quantities_are_computed` (scoring.py:38-47) and
`ComputeScore` (283-340).

Oracles, universally quantified: the sampler (`get_setting`, may depend on the whole state), the
trial results, which pending future the pool completes next, the wall-clock stop decisions, the
tree mutators of the wrappers and their `contract_stats`.

Not modelled here: the progress bar, the optlib internals, the numeric value of the objective (an
oracle), the compressed / multi-contraction variants.  `times`, `get_trials()`, NaN / -inf scores,
`on_trial_error='raise'` leaving the search by an exception and the clean-up of finished in-flight
futures are in the extended transcription `Model/HyperX.lean` with the theorems of `Props/C08X.lean`
(this file's model is its image under NaN ↦ inf: `C08.xrunLog_erase`).
-/
namespace Cotengra.C08
open Cotengra Cotengra.Hyper

/-! ## 1. the best-so-far fold is the arg-min, for every completion order -/

/-- `e` sits at position `i` of the completion log, has a finite score, no entry of the log has
    a smaller score and every earlier entry has a strictly greater one -/
structure IsFirstMin (log : Log) (i : Nat) (e : Setting × Trial) : Prop where
  at_i : log[i]? = some e
  finite : slt e.2.score none = true
  le_all : ∀ e' ∈ log, sle e.2.score e'.2.score = true
  lt_before : ∀ j e', j < i → log[j]? = some e' → slt e.2.score e'.2.score = true

/-- what `self.best` must be after the trials of `log` completed in that order: still the
    initial record iff every score is `inf`; otherwise the trial dict of the first minimal entry,
    carrying that entry's own `params` and `method` -/
def BestSpec (log : Log) : Option BestRec → Prop
  | none => ∀ e ∈ log, e.2.score = none
  | some b => ∃ i e, IsFirstMin log i e ∧
      b = { trial := e.2, params := some e.1.params, method := some e.1.method }

/-- the invariant of the driver-side state -/
structure Tracks (st : HState) (log : Log) : Prop where
  methods : st.methodChoices = log.map (·.1.method)
  params : st.paramChoices = log.map (·.1.params)
  scores : st.scores = log.map (·.2.score)
  flops : st.costsFlops = log.map (·.2.flops)
  write : st.costsWrite = log.map (·.2.write)
  size : st.costsSize = log.map (·.2.size)
  best : BestSpec log st.best

theorem tracks_init (mts : Option Nat) : Tracks (HState.init mts) [] :=
  ⟨rfl, rfl, rfl, rfl, rfl, rfl, by simp [HState.init, BestSpec]⟩

theorem curBest_le_of_tracks {st : HState} {log : Log} (h : Tracks st log) :
    ∀ e' ∈ log, sle st.curBest e'.2.score = true := by
  intro e' he'
  have hb := h.best
  unfold HState.curBest
  cases hbest : st.best with
  | none =>
    rw [hbest] at hb
    simp only [BestSpec] at hb
    simp [hb e' he', sle_refl]
  | some b =>
    rw [hbest] at hb
    obtain ⟨i, e, hfm, rfl⟩ := hb
    exact hfm.le_all e' he'

theorem tracks_complete {st : HState} {log : Log} (h : Tracks st log) (s : Setting) (t : Trial) :
    Tracks (complete st s t) (log ++ [(s, t)]) := by
  refine ⟨by simp [h.methods], by simp [h.params], by simp [h.scores], by simp [h.flops],
    by simp [h.write], by simp [h.size], ?_⟩
  rw [complete_best]
  have hle := curBest_le_of_tracks h
  by_cases hlt : slt t.score st.curBest = true
  · -- the new trial is strictly better than everything before: it is the first minimum
    rw [if_pos hlt]
    refine ⟨log.length, (s, t), ⟨by simp, ?_, ?_, ?_⟩, rfl⟩
    · exact slt_of_slt_of_sle hlt (sle_none _)
    · intro e' he'
      rcases List.mem_append.1 he' with he' | he'
      · exact sle_of_slt (slt_of_slt_of_sle hlt (hle e' he'))
      · simp only [List.mem_singleton] at he'; subst he'; exact sle_refl _
    · intro j e' hj hje
      have : log[j]? = some e' := by
        rw [List.getElem?_append_left hj] at hje; exact hje
      exact slt_of_slt_of_sle hlt (hle e' (List.mem_of_getElem? this))
  · -- best unchanged
    have hlt' : slt t.score st.curBest = false := by simpa using hlt
    rw [if_neg hlt]
    have hb := h.best
    cases hbest : st.best with
    | none =>
      rw [hbest] at hb
      simp only [BestSpec] at hb ⊢
      intro e he
      rcases List.mem_append.1 he with he | he
      · exact hb e he
      · simp only [List.mem_singleton] at he; subst he
        have : st.curBest = none := by simp [HState.curBest, hbest]
        rw [this] at hlt'
        exact eq_none_of_not_slt_none hlt'
    | some b =>
      rw [hbest] at hb
      obtain ⟨i, e, hfm, rfl⟩ := hb
      have hi : i < log.length := by
        have := hfm.at_i
        by_contra hc
        rw [List.getElem?_eq_none (by omega)] at this
        cases this
      refine ⟨i, e, ⟨?_, hfm.finite, ?_, ?_⟩, rfl⟩
      · rw [List.getElem?_append_left hi]; exact hfm.at_i
      · intro e' he'
        rcases List.mem_append.1 he' with he' | he'
        · exact hfm.le_all e' he'
        · simp only [List.mem_singleton] at he'; subst he'
          have : st.curBest = e.2.score := by simp [HState.curBest, hbest]
          rw [this] at hlt'
          exact sle_of_not_slt hlt'
      · intro j e' hj hje
        rw [List.getElem?_append_left (by omega)] at hje
        exact hfm.lt_before j e' hj hje

/-- the invariant is kept by any sequence of completions -/
theorem tracks_runLog {st : HState} {log0 : Log} (h : Tracks st log0) (log : Log) :
    Tracks (runLog st log) (log0 ++ log) := by
  induction log using List.reverseRecOn with
  | nil => simpa using h
  | append_singleton l e ih =>
    obtain ⟨s, t⟩ := e
    rw [runLog_snoc, ← List.append_assoc]
    exact tracks_complete ih s t

/-- **best_is_argmin** — for *every* completion order `log` (any interleaving of a pool, any
    serial order, any number of consecutive searches on the same object): the score of
    `self.best` is the minimum of all recorded scores, and `self.best` is the first entry of the
    log that attains it, carrying its own params/method (`BestSpec`). -/
theorem best_is_argmin (mts : Option Nat) (log : Log) :
    let st := runLog (HState.init mts) log
    st.curBest = minScore (log.map (·.2.score)) ∧ BestSpec log st.best := by
  intro st
  have ht : Tracks st ([] ++ log) := tracks_runLog (tracks_init mts) log
  simp only [List.nil_append] at ht
  refine ⟨?_, ht.best⟩
  apply eq_minScore
  · intro x hx
    obtain ⟨e, he, rfl⟩ := List.mem_map.1 hx
    exact curBest_le_of_tracks ht e he
  · have hb := ht.best
    unfold HState.curBest
    cases hbest : st.best with
    | none => left; rfl
    | some b =>
      rw [hbest] at hb
      obtain ⟨i, e, hfm, rfl⟩ := hb
      right
      exact List.mem_map.2 ⟨e, List.mem_of_getElem? hfm.at_i, rfl⟩

theorem minScore_perm {l₁ l₂ : List Score} (hp : l₁.Perm l₂) : minScore l₁ = minScore l₂ := by
  apply eq_minScore
  · intro x hx; exact minScore_le l₁ x (hp.mem_iff.2 hx)
  · rcases minScore_mem l₁ with h | h
    · left; exact h
    · right; exact hp.mem_iff.1 h

/-- **best_score_order_independent** — two runs that complete the same multiset of trials in
    different orders end with the same best score, and in both the winner is one of the trials
    with that score. -/
theorem best_score_order_independent (mts : Option Nat) (log₁ log₂ : Log) (hp : log₁.Perm log₂) :
    (runLog (HState.init mts) log₁).curBest = (runLog (HState.init mts) log₂).curBest := by
  rw [(best_is_argmin mts log₁).1, (best_is_argmin mts log₂).1]
  exact minScore_perm (hp.map _)

/-- the winner is one of the completed trials, and never a failed (`inf`) one; it is the initial
    record only when every trial failed -/
theorem winner_is_a_finite_trial (mts : Option Nat) (log : Log) (b : BestRec)
    (hb : (runLog (HState.init mts) log).best = some b) :
    (∃ s, (s, b.trial) ∈ log ∧ b.params = some s.params ∧ b.method = some s.method) ∧
      slt b.trial.score none = true := by
  have h := (best_is_argmin mts log).2
  rw [hb] at h
  obtain ⟨i, e, hfm, rfl⟩ := h
  exact ⟨⟨e.1, List.mem_of_getElem? hfm.at_i, rfl, rfl⟩, hfm.finite⟩

/-- **failures_isolated (selection part)** — if any trial has a finite score, the search has a
    winner and its score is finite -/
theorem some_finite_gives_winner (mts : Option Nat) (log : Log) (e : Setting × Trial)
    (he : e ∈ log) (hfin : slt e.2.score none = true) :
    ∃ b, (runLog (HState.init mts) log).best = some b ∧ slt b.trial.score none = true := by
  have h := (best_is_argmin mts log).2
  cases hbest : (runLog (HState.init mts) log).best with
  | none =>
    rw [hbest] at h
    have := h e he
    rw [this] at hfin
    simp at hfin
  | some b => exact ⟨b, rfl, (winner_is_a_finite_trial mts log b hbest).2⟩

/-! ## 2. the parallel lists stay aligned -/

theorem zip_append_singleton {α β : Type} (l₁ : List α) (l₂ : List β) (a : α) (b : β)
    (h : l₁.length = l₂.length) : List.zip (l₁ ++ [a]) (l₂ ++ [b]) = List.zip l₁ l₂ ++ [(a, b)] := by
  rw [List.zip_append h]; rfl

/-- **lists_aligned** — after any completion log the i-th entries of `method_choices`,
    `param_choices`, `scores`, `costs_flops`, `costs_write`, `costs_size` are the six projections
    of the i-th completed (setting, trial) pair. -/
theorem lists_aligned (mts : Option Nat) (log : Log) :
    (runLog (HState.init mts) log).rows = log.map rowOf := by
  have ht : Tracks (runLog (HState.init mts) log) ([] ++ log) := tracks_runLog (tracks_init mts) log
  simp only [List.nil_append] at ht
  unfold HState.rows
  rw [ht.methods, ht.params, ht.scores, ht.flops, ht.write, ht.size]
  clear ht
  induction log with
  | nil => rfl
  | cons e l ih => simp only [List.map_cons, List.zip_cons_cons, ih, rowOf]

/-- the figures recorded for the winner are the winner's: the row of the log at the winning
    position carries exactly `best.trial`'s figures and `best.params` -/
theorem winner_row (mts : Option Nat) (log : Log) (b : BestRec)
    (hb : (runLog (HState.init mts) log).best = some b) :
    ∃ i : Nat, (runLog (HState.init mts) log).rows[i]? =
      some (b.method.getD 0, b.params.getD 0, b.trial.score, b.trial.flops, b.trial.write,
        b.trial.size) ∧ b.method.isSome ∧ b.params.isSome := by
  have h := (best_is_argmin mts log).2
  rw [hb] at h
  obtain ⟨i, e, hfm, rfl⟩ := h
  refine ⟨i, ?_, rfl, rfl⟩
  rw [lists_aligned, List.getElem?_map, hfm.at_i]
  rfl

/-! ## 3. searches are completion logs: budget, conservation, per-trial isolation -/

/-- **serial search** — `_search` without a pool is `runLog` over a log of at most `max_repeats`
    entries (exactly `max_repeats` when no stop rule is set); the k-th entry is the trial
    function's result for the k-th setting drawn, so no entry depends on any other trial's
    outcome except through the sampler. -/
theorem serial_search_spec (env : Env) (maxRepeats : Nat) (stop : StopRule) (st : HState) :
    ∃ log : Log,
      searchSerial env maxRepeats stop st =
        { runLog st log with submitted := st.submitted + log.length } ∧
      log.length ≤ maxRepeats ∧
      (∀ i (h : i < log.length), log[i].2 = env.trialFn (st.submitted + i) log[i].1) ∧
      (stop = .never → log.length = maxRepeats) :=
  serialLoop_spec env maxRepeats stop st

/-- **parallel search** — for every sequence of completion choices of the pool and every stop
    behaviour, `_search` with a pool is `runLog` over a log in which every entry is the result of
    a distinct submitted future paired with the setting submitted with it; at most `max_repeats`
    futures are submitted; every submitted future is either reported exactly once or cancelled
    (never both); with no stop rule nothing is cancelled and exactly `max_repeats` trials are
    reported. -/
theorem parallel_search_spec (env : Env) (pre maxRepeats : Nat) (stop : StopRule)
    (choices : List Nat) (st : HState) :
    let ps := searchParallel env pre maxRepeats stop choices st
    ∃ plog : List (Nat × Setting × Trial),
      ps.h = { runLog st (plog.map (·.2)) with submitted := ps.h.submitted } ∧
      ps.futures = [] ∧
      st.submitted ≤ ps.h.submitted ∧ ps.h.submitted ≤ st.submitted + maxRepeats ∧
      (plog.map (·.1) ++ ps.cancelled).Perm
        (List.range' st.submitted (ps.h.submitted - st.submitted)) ∧
      (∀ e ∈ plog, e.2.2 = env.trialFn e.1 e.2.1) ∧
      (stop = .never → ps.cancelled = [] ∧ plog.length = maxRepeats) := by
  intro ps
  obtain ⟨plog, hinv, hfut, hsub, hnever⟩ := parPhase1_spec env pre maxRepeats stop choices
    { h := st } [] (pinv_init env st)
  have hsub' : ps.h.submitted ≤ st.submitted + maxRepeats := hsub
  refine ⟨plog, hinv.hstate, hfut, hinv.sub_ge, hsub', ?_, hinv.results, ?_⟩
  · have := hinv.conserve
    rw [hfut] at this
    simp only [List.map_nil, List.append_nil] at this
    exact this
  · intro hn
    obtain ⟨hc, hs⟩ := hnever hn rfl
    refine ⟨hc, ?_⟩
    have hl := hinv.conserve.length_eq
    rw [hfut, hc] at hl
    simp at hl hs
    have : (searchParallel env pre maxRepeats stop choices st).h.submitted
        = st.submitted + maxRepeats := hs
    change plog.length = ps.h.submitted - st.submitted at hl
    rw [hl]
    change ps.h.submitted = _ at this
    omega

/-- **trial_budget** — a search (serial, or parallel under any schedule) appends at most
    `max_repeats` trials to the records, exactly `max_repeats` when no stop rule is set. -/
theorem trial_budget_serial (env : Env) (maxRepeats : Nat) (stop : StopRule) (st : HState) :
    (searchSerial env maxRepeats stop st).scores.length ≤ st.scores.length + maxRepeats ∧
    (stop = .never →
      (searchSerial env maxRepeats stop st).scores.length = st.scores.length + maxRepeats) := by
  obtain ⟨log, heq, hlen, _, hnever⟩ := serial_search_spec env maxRepeats stop st
  have hs : (searchSerial env maxRepeats stop st).scores = st.scores ++ log.map (·.2.score) := by
    rw [heq]; exact runLog_scores st log
  rw [hs]
  simp only [List.length_append, List.length_map]
  exact ⟨by omega, fun h => by rw [hnever h]⟩

theorem trial_budget_parallel (env : Env) (pre maxRepeats : Nat) (stop : StopRule)
    (choices : List Nat) (st : HState) :
    let ps := searchParallel env pre maxRepeats stop choices st
    ps.h.scores.length ≤ st.scores.length + maxRepeats ∧
    (stop = .never → ps.h.scores.length = st.scores.length + maxRepeats) := by
  intro ps
  obtain ⟨plog, heq, _, hge, hle, hperm, _, hnever⟩ :=
    parallel_search_spec env pre maxRepeats stop choices st
  have hs : ps.h.scores = st.scores ++ (plog.map (·.2)).map (·.2.score) := by
    change (searchParallel env pre maxRepeats stop choices st).h.scores = _
    rw [heq]; exact runLog_scores st _
  have hl := hperm.length_eq
  simp only [List.length_append, List.length_map, List.length_range'] at hl
  rw [hs]
  simp only [List.length_append, List.length_map]
  refine ⟨?_, fun h => by rw [(hnever h).2]⟩
  change plog.length + _ = ps.h.submitted - st.submitted at hl
  change st.submitted ≤ ps.h.submitted at hge
  change ps.h.submitted ≤ _ at hle
  omega

/-- **serial_parallel_same_best** — a serial search and a parallel search (any schedule) on a
    fresh optimizer that complete the same trials, in whatever orders, end with the same best
    score. -/
theorem serial_parallel_same_best (mts : Option Nat) (env₁ env₂ : Env) (pre n₁ n₂ : Nat)
    (stop₁ stop₂ : StopRule) (choices : List Nat) (log₁ : Log)
    (plog : List (Nat × Setting × Trial))
    (h₁ : searchSerial env₁ n₁ stop₁ (HState.init mts) =
      { runLog (HState.init mts) log₁ with submitted := log₁.length })
    (h₂ : (searchParallel env₂ pre n₂ stop₂ choices (HState.init mts)).h =
      { runLog (HState.init mts) (plog.map (·.2)) with
        submitted := (searchParallel env₂ pre n₂ stop₂ choices (HState.init mts)).h.submitted })
    (hp : log₁.Perm (plog.map (·.2))) :
    (searchSerial env₁ n₁ stop₁ (HState.init mts)).curBest =
      (searchParallel env₂ pre n₂ stop₂ choices (HState.init mts)).h.curBest := by
  rw [h₁, h₂]
  exact best_score_order_independent mts log₁ _ hp

/-! ## 4. order embeddings of the scores commute with everything (justifies the harness's
       rank canonicalisation of float scores) -/

def mapScore (f : Nat → Nat) : Score → Score
  | none => none
  | some a => some (f a)

theorem slt_mapScore (f : Nat → Nat) (hf : ∀ a b, a < b ↔ f a < f b) (a b : Score) :
    slt (mapScore f a) (mapScore f b) = slt a b := by
  cases a <;> cases b <;> simp [mapScore, slt]
  exact (hf _ _).symm

def mapTrialScore (f : Nat → Nat) (t : Trial) : Trial := { t with score := mapScore f t.score }

/-- the winner's position does not depend on the numeric values of the scores, only on their
    order: replacing every score by its image under a strictly monotone map selects the
    corresponding trial -/
theorem best_map_mono (f : Nat → Nat) (hf : ∀ a b, a < b ↔ f a < f b) (mts : Option Nat)
    (log : Log) :
    (runLog (HState.init mts) (log.map fun e => (e.1, mapTrialScore f e.2))).best =
      ((runLog (HState.init mts) log).best.map fun b =>
        { b with trial := mapTrialScore f b.trial }) := by
  suffices h : ∀ (st st' : HState),
      st'.best = (st.best.map fun b => { b with trial := mapTrialScore f b.trial }) →
      st'.paramChoices = st.paramChoices → st'.methodChoices = st.methodChoices →
      (runLog st' (log.map fun e => (e.1, mapTrialScore f e.2))).best =
        ((runLog st log).best.map fun b => { b with trial := mapTrialScore f b.trial }) by
    exact h _ _ rfl rfl rfl
  induction log with
  | nil => intro st st' hb _ _; simpa using hb
  | cons e l ih =>
    intro st st' hb hp hm
    simp only [List.map_cons, runLog, List.foldl_cons]
    apply ih
    · rw [complete_best, complete_best]
      have hc : st'.curBest = mapScore f st.curBest := by
        unfold HState.curBest
        rw [hb]
        cases st.best <;> rfl
      rw [hc]
      have : (mapTrialScore f e.2).score = mapScore f e.2.score := rfl
      rw [this, slt_mapScore f hf]
      split
      · rfl
      · exact hb
    · simp [hp]
    · simp [hm]

/-! ## 5. worker side: the recorded figures are those of the returned tree -/

section worker
variable {τ : Type}

/-- the three figures of the dict are `contract_stats()` of the dict's current tree -/
def Fresh (ops : TreeOps τ) (d : TDict τ) : Prop :=
  d.flops = some (ops.stats d.tree).flops ∧ d.write = some (ops.stats d.tree).write ∧
    d.size = some (ops.stats d.tree).size

theorem applyWrapper_fresh (ops : TreeOps τ) (w : Wrapper) (d d' : TDict τ)
    (h : applyWrapper ops w d = some d') : Fresh ops d' := by
  unfold applyWrapper at h
  cases hm : ops.mutate w d.tree with
  | none => simp [hm] at h
  | some t' =>
    simp only [hm, Option.some.injEq] at h
    subst h
    exact ⟨rfl, rfl, rfl⟩

theorem applyWrapper_tree (ops : TreeOps τ) (w : Wrapper) (d d' : TDict τ)
    (h : applyWrapper ops w d = some d') : ops.mutate w d.tree = some d'.tree := by
  unfold applyWrapper at h
  cases hm : ops.mutate w d.tree with
  | none => simp [hm] at h
  | some t' =>
    simp only [hm, Option.some.injEq] at h
    subst h; rfl

/-- **wrapper_stats_fresh** — for *any* non-empty stack of post-processing wrappers (any
    subset, any nesting order) and any behaviour of the tree mutators, the `flops/write/size` of
    the resulting trial are `contract_stats()` of the tree *after the last mutation*. -/
theorem wrapper_stats_fresh (ops : TreeOps τ) (ws : List Wrapper) (hne : ws ≠ []) (d d' : TDict τ)
    (h : runStack ops ws d = some d') : Fresh ops d' := by
  induction ws generalizing d with
  | nil => exact absurd rfl hne
  | cons w rest ih =>
    unfold runStack at h
    cases ha : applyWrapper ops w d with
    | none => simp [ha] at h
    | some d1 =>
      simp only [ha] at h
      cases rest with
      | nil =>
        simp only [runStack, Option.some.injEq] at h
        subst h
        exact applyWrapper_fresh ops w d d1 ha
      | cons w' rest' => exact ih (by simp) d1 h

/-- the sequence of trees a stack of wrappers goes through -/
def mutateAll (ops : TreeOps τ) : List Wrapper → τ → Option τ
  | [], t => some t
  | w :: ws, t =>
    match ops.mutate w t with
    | none => none
    | some t' => mutateAll ops ws t'

/-- the tree in the resulting trial is the original tree after all mutations, in stack order -/
theorem wrapper_tree_is_mutated (ops : TreeOps τ) (ws : List Wrapper) (d d' : TDict τ)
    (h : runStack ops ws d = some d') : mutateAll ops ws d.tree = some d'.tree := by
  induction ws generalizing d with
  | nil => simp only [runStack, Option.some.injEq] at h; subst h; rfl
  | cons w rest ih =>
    unfold runStack at h
    cases ha : applyWrapper ops w d with
    | none => simp [ha] at h
    | some d1 =>
      simp only [ha] at h
      unfold mutateAll
      rw [applyWrapper_tree ops w d d1 ha]
      exact ih d1 h

/-- `original_*` are the figures of the tree *before* any post-processing (`setdefault` keeps
    the innermost wrapper's value) -/
theorem wrapper_original_kept (ops : TreeOps τ) (ws : List Wrapper) (hne : ws ≠ []) (t : τ)
    (d' : TDict τ) (h : runStack ops ws (baseDict t) = some d') :
    d'.origFlops = some (ops.stats t).flops ∧ d'.origWrite = some (ops.stats t).write ∧
      d'.origSize = some (ops.stats t).size := by
  have key : ∀ (ws : List Wrapper) (d d' : TDict τ) (x y z : Nat),
      d.origFlops = some x → d.origWrite = some y → d.origSize = some z →
      runStack ops ws d = some d' →
      d'.origFlops = some x ∧ d'.origWrite = some y ∧ d'.origSize = some z := by
    intro ws
    induction ws with
    | nil =>
      intro d d' x y z hx hy hz h
      simp only [runStack, Option.some.injEq] at h; subst h; exact ⟨hx, hy, hz⟩
    | cons w rest ih =>
      intro d d' x y z hx hy hz h
      unfold runStack at h
      cases ha : applyWrapper ops w d with
      | none => simp [ha] at h
      | some d1 =>
        simp only [ha] at h
        refine ih d1 d' x y z ?_ ?_ ?_ h
        all_goals
          unfold applyWrapper at ha
          cases hm : ops.mutate w d.tree with
          | none => simp [hm] at ha
          | some t' =>
            simp only [hm, Option.some.injEq] at ha
            subst ha
            simp [setdefault, hx, hy, hz]
  cases ws with
  | nil => exact absurd rfl hne
  | cons w rest =>
    unfold runStack at h
    cases ha : applyWrapper ops w (baseDict t) with
    | none => simp [ha] at h
    | some d1 =>
      simp only [ha] at h
      refine key rest d1 d' _ _ _ ?_ ?_ ?_ h
      all_goals
        unfold applyWrapper at ha
        cases hm : ops.mutate w (baseDict t).tree with
        | none => simp [hm] at ha
        | some t' =>
          simp only [hm, Option.some.injEq] at ha
          subst ha
          simp [setdefault, baseDict]

theorem ensureBasic_fresh_of_fresh (ops : TreeOps τ) (d : TDict τ) (h : Fresh ops d) :
    ensureBasic ops d = d := by
  unfold ensureBasic
  obtain ⟨h1, h2, h3⟩ := h
  simp [h1, h2, h3]

/-- every figure of the dict is either missing or that of the dict's current tree -/
def PartialFresh (ops : TreeOps τ) (d : TDict τ) : Prop :=
  (d.flops = none ∨ d.flops = some (ops.stats d.tree).flops) ∧
  (d.write = none ∨ d.write = some (ops.stats d.tree).write) ∧
  (d.size = none ∨ d.size = some (ops.stats d.tree).size)

theorem partialFresh_of_fresh (ops : TreeOps τ) (d : TDict τ) (h : Fresh ops d) :
    PartialFresh ops d := ⟨Or.inr h.1, Or.inr h.2.1, Or.inr h.2.2⟩

theorem partialFresh_base (ops : TreeOps τ) (t : τ) : PartialFresh ops (baseDict t) :=
  ⟨Or.inl rfl, Or.inl rfl, Or.inl rfl⟩

/-- `ensure_basic_quantities_are_computed` completes a dict whose present figures are current -/
theorem ensureBasic_fresh_of_partial (ops : TreeOps τ) (d : TDict τ) (h : PartialFresh ops d) :
    Fresh ops (ensureBasic ops d) := by
  obtain ⟨h1, h2, h3⟩ := h
  unfold ensureBasic Fresh
  rcases h1 with h1 | h1 <;> rcases h2 with h2 | h2 <;> rcases h3 with h3 | h3 <;>
    simp [h1, h2, h3, setdefault]

@[simp] theorem ensureBasic_tree (ops : TreeOps τ) (d : TDict τ) :
    (ensureBasic ops d).tree = d.tree := by
  unfold ensureBasic; split <;> rfl

theorem ensureBasic_partial (ops : TreeOps τ) (d : TDict τ) (h : PartialFresh ops d) :
    PartialFresh ops (ensureBasic ops d) :=
  partialFresh_of_fresh ops _ (ensureBasic_fresh_of_partial ops d h)

/-- a result record all of whose figures are present, and — when it carries a tree — equal that
    tree's `contract_stats()` -/
def TrueRecord (ops : TreeOps τ) (r : RDict τ) : Prop :=
  (∃ f w s, r.flops = some f ∧ r.write = some w ∧ r.size = some s) ∧
  ∀ t, r.tree = some t →
    r.flops = some (some (ops.stats t).flops) ∧ r.write = some (some (ops.stats t).write) ∧
      r.size = some (some (ops.stats t).size)

theorem trueRecord_failRec (ops : TreeOps τ) : TrueRecord ops (failRec : RDict τ) :=
  ⟨⟨none, none, none, rfl, rfl, rfl⟩, by intro t h; cases h⟩

/-- the dict after the wrappers and the objective: its present figures are current; all are
    present under the guard -/
theorem scored_dict_fresh (ops : TreeOps τ) (ws : List Wrapper) (obj : Objective τ) (t : τ)
    (d d' : TDict τ) (sc : Score) (hs : runStack ops ws (baseDict t) = some d)
    (hc : obj.call ops d = some (d', sc)) :
    PartialFresh ops d' ∧ ((obj.ensures = true ∨ ws ≠ []) → Fresh ops d') := by
  have hd : PartialFresh ops d ∧ (ws ≠ [] → Fresh ops d) := by
    by_cases hws : ws = []
    · subst hws
      simp only [runStack, Option.some.injEq] at hs
      subst hs
      exact ⟨partialFresh_base ops t, fun h => absurd rfl h⟩
    · have hf := wrapper_stats_fresh ops ws hws (baseDict t) d hs
      exact ⟨partialFresh_of_fresh ops d hf, fun _ => hf⟩
  unfold Objective.call at hc
  cases hv : obj.value (if obj.ensures = true then ensureBasic ops d else d) with
  | none => simp [hv] at hc
  | some v =>
    simp only [hv, Option.some.injEq, Prod.mk.injEq] at hc
    obtain ⟨hd', _⟩ := hc
    subst hd'
    by_cases he : obj.ensures = true
    · simp only [he, if_true]
      have := ensureBasic_fresh_of_partial ops d hd.1
      exact ⟨partialFresh_of_fresh ops _ this, fun _ => this⟩
    · rw [if_neg he]
      refine ⟨hd.1, ?_⟩
      rintro (h | h)
      · exact absurd h he
      · exact hd.2 h

/-- **record_costs_true_partial** — (full statement: for every objective and every option set the
    record returned by `ComputeScore` carries `flops/write/size` equal to `contract_stats()` of
    the tree it carries.)  Proved under the guard
    `postEnsure = true ∨ obj.ensures = true ∨ ws ≠ []`: `ComputeScore` or the objective fills the
    missing figures, or at least one post-processing wrapper is configured.  Without the guard the
    statement is false for the model as it is for the code, see `record_costs_counterexample`
    (DESIGN 7f: `minimize='limit'` on the unrepaired tree). -/
theorem record_costs_true_partial (ops : TreeOps τ) (ws : List Wrapper) (obj : Objective τ)
    (postEnsure : Bool) (onErr : OnErr) (raw : Raw τ) (r : RDict τ)
    (hguard : postEnsure = true ∨ obj.ensures = true ∨ ws ≠ [])
    (h : computeScore ops ws obj postEnsure onErr raw = some r) : TrueRecord ops r := by
  unfold computeScore at h
  have hexc : ∀ r', (if onErr = OnErr.raise then (none : Option (RDict τ)) else some failRec)
      = some r' → TrueRecord ops r' := by
    intro r' h'
    split at h'
    · cases h'
    · simp only [Option.some.injEq] at h'; subst h'; exact trueRecord_failRec ops
  cases raw with
  | badTrial => simp only [Option.some.injEq] at h; subst h; exact trueRecord_failRec ops
  | error => exact hexc r h
  | ok t =>
    simp only at h
    cases hs : runStack ops ws (baseDict t) with
    | none => rw [hs] at h; exact hexc r h
    | some d =>
      rw [hs] at h
      simp only at h
      cases hc : obj.call ops d with
      | none => rw [hc] at h; exact hexc r h
      | some p =>
        obtain ⟨d', sc⟩ := p
        rw [hc] at h
        simp only [Option.some.injEq] at h
        subst h
        obtain ⟨hpart, hfr⟩ := scored_dict_fresh ops ws obj t d d' sc hs hc
        have hfresh : Fresh ops (if postEnsure = true then ensureBasic ops d' else d') := by
          by_cases hp : postEnsure = true
          · simp only [hp, if_true]; exact ensureBasic_fresh_of_partial ops d' hpart
          · simp only [hp]
            rcases hguard with h | h
            · exact absurd h hp
            · exact hfr h
        generalize (if postEnsure = true then ensureBasic ops d' else d') = d'' at hfresh
        obtain ⟨h1, h2, h3⟩ := hfresh
        refine ⟨⟨some (ops.stats d''.tree).flops, some (ops.stats d''.tree).write,
          some (ops.stats d''.tree).size, by simp [h1], by simp [h2], by simp [h3]⟩, ?_⟩
        intro t' ht'
        simp only [Option.some.injEq] at ht'
        subst ht'
        simp [h1, h2, h3]

/-- **failures_isolated (worker part)** — unless `on_trial_error='raise'`, `ComputeScore` always
    returns a record; a `BadTrial`, any other exception of the path function, of a wrapper or of
    the objective gives exactly the failure record (`inf` score and figures, no tree). -/
theorem computeScore_total (ops : TreeOps τ) (ws : List Wrapper) (obj : Objective τ)
    (postEnsure : Bool) (onErr : OnErr) (raw : Raw τ) (hne : onErr ≠ .raise) :
    ∃ r, computeScore ops ws obj postEnsure onErr raw = some r ∧
      (r.tree = none → r.score = none ∧ r.flops = some none ∧ r.write = some none ∧
        r.size = some none) := by
  unfold computeScore
  simp only [hne, if_false]
  cases raw with
  | badTrial => exact ⟨failRec, rfl, fun _ => ⟨rfl, rfl, rfl, rfl⟩⟩
  | error => exact ⟨failRec, rfl, fun _ => ⟨rfl, rfl, rfl, rfl⟩⟩
  | ok t =>
    simp only
    cases runStack ops ws (baseDict t) with
    | none => exact ⟨failRec, rfl, fun _ => ⟨rfl, rfl, rfl, rfl⟩⟩
    | some d =>
      simp only
      cases obj.call ops d with
      | none => exact ⟨failRec, rfl, fun _ => ⟨rfl, rfl, rfl, rfl⟩⟩
      | some p => exact ⟨_, rfl, fun h => by simp at h⟩

theorem computeScore_failure (ops : TreeOps τ) (ws : List Wrapper) (obj : Objective τ)
    (pe : Bool) (onErr : OnErr) :
    computeScore ops ws obj pe onErr (.badTrial : Raw τ) = some failRec := rfl

/-- a record with a finite score carries a tree -/
theorem finite_score_has_tree (ops : TreeOps τ) (ws : List Wrapper) (obj : Objective τ)
    (postEnsure : Bool) (onErr : OnErr) (raw : Raw τ) (r : RDict τ)
    (h : computeScore ops ws obj postEnsure onErr raw = some r)
    (hfin : slt r.score none = true) : r.tree.isSome = true := by
  unfold computeScore at h
  have hexc : ∀ r', (if onErr = OnErr.raise then (none : Option (RDict τ)) else some failRec)
      = some r' → slt r'.score none = true → r'.tree.isSome = true := by
    intro r' h' hf
    split at h'
    · cases h'
    · simp only [Option.some.injEq] at h'; subst h'; simp [failRec] at hf
  cases raw with
  | badTrial => simp only [Option.some.injEq] at h; subst h; simp [failRec] at hfin
  | error => exact hexc r h hfin
  | ok t =>
    simp only at h
    cases hs : runStack ops ws (baseDict t) with
    | none => rw [hs] at h; exact hexc r h hfin
    | some d =>
      rw [hs] at h
      simp only at h
      cases hc : obj.call ops d with
      | none => rw [hc] at h; exact hexc r h hfin
      | some p =>
        rw [hc] at h
        simp only [Option.some.injEq] at h
        subst h; rfl

/-- **scoring_failure_isolated** — a trial whose tree was built (and post-processed) fine but
    whose *scoring* raises (`obj.call = none`: a user objective rejecting the tree, an
    `OverflowError` inside a built-in objective, …) is turned into exactly the failure record,
    like any other failed trial, unless `on_trial_error='raise'`; `_maybe_report_result` can read
    it (no `KeyError`) and it carries score `inf` and no tree. -/
theorem scoring_failure_isolated (ops : TreeOps τ) (ws : List Wrapper) (obj : Objective τ)
    (postEnsure : Bool) (onErr : OnErr) (hne : onErr ≠ .raise) (t : τ) (d : TDict τ)
    (hs : runStack ops ws (baseDict t) = some d) (hc : obj.call ops d = none) (idOf : τ → Nat) :
    computeScore ops ws obj postEnsure onErr (.ok t) = some failRec ∧
      toTrial idOf (failRec : RDict τ) =
        some { score := none, flops := none, write := none, size := none, tree := none } := by
  constructor
  · unfold computeScore
    simp only [hs, hc, hne, if_false]
  · rfl

/-- a failure record in the log changes nothing for the others: the best after the log with the
    failed trial inserted anywhere is the best without it -/
theorem failed_trial_does_not_affect_best (mts : Option Nat) (l₁ l₂ : Log) (s : Setting)
    (t : Trial) (hfail : t.score = none) :
    (runLog (HState.init mts) (l₁ ++ (s, t) :: l₂)).best =
      (runLog (HState.init mts) (l₁ ++ l₂)).best := by
  have hstep : ∀ st : HState, (complete st s t).best = st.best ∧
      (complete st s t).paramChoices = st.paramChoices ++ [s.params] := by
    intro st
    refine ⟨?_, by simp⟩
    rw [complete_best, hfail]; simp
  -- the rest of the log only looks at `best` (through `curBest`) when deciding, and writes its own
  -- params; so states that agree on `best` stay in agreement on `best`
  have hrest : ∀ (l : Log) (st st' : HState), st'.best = st.best →
      (runLog st' l).best = (runLog st l).best := by
    intro l
    induction l with
    | nil => intro st st' h; exact h
    | cons e l ih =>
      intro st st' h
      simp only [runLog, List.foldl_cons]
      apply ih
      rw [complete_best, complete_best]
      have : st'.curBest = st.curBest := by unfold HState.curBest; rw [h]
      rw [this, h]
  rw [runLog_append, runLog_append]
  simp only [runLog, List.foldl_cons]
  exact hrest l₂ _ _ (hstep _).1

/-- a record that `_maybe_report_result` can read (no `KeyError`) and whose figures are true -/
theorem toTrial_of_trueRecord (ops : TreeOps τ) (idOf : τ → Nat) (r : RDict τ)
    (h : TrueRecord ops r) :
    ∃ t, toTrial idOf r = some t ∧ t.score = r.score ∧
      ∀ tr, r.tree = some tr → t.tree = some (idOf tr) ∧ t.flops = some (ops.stats tr).flops ∧
        t.write = some (ops.stats tr).write ∧ t.size = some (ops.stats tr).size := by
  obtain ⟨⟨f, w, s, hf, hw, hs⟩, htrue⟩ := h
  refine ⟨_, by unfold toTrial; rw [hf, hw, hs], rfl, ?_⟩
  intro tr htr
  obtain ⟨h1, h2, h3⟩ := htrue tr htr
  rw [hf] at h1; rw [hw] at h2; rw [hs] at h3
  simp only [Option.some.injEq] at h1 h2 h3
  exact ⟨by simp [htr], h1, h2, h3⟩

/-- a trial whose figures are those of the tree it carries (`statsOf` on tree ids) -/
def TrueCosts (statsOf : Nat → CStats) (t : Trial) : Prop :=
  ∀ id, t.tree = some id → t.flops = some (statsOf id).flops ∧
    t.write = some (statsOf id).write ∧ t.size = some (statsOf id).size

/-- **winner_costs_true** — if every completed trial records the figures of its own tree (which
    `record_costs_true_partial` gives for every trial built by `ComputeScore` under the guard), then
    after any completion order the figures stored in `self.best` are those of `self.best["tree"]`,
    and that tree exists. -/
theorem winner_costs_true (statsOf : Nat → CStats) (mts : Option Nat) (log : Log)
    (htrue : ∀ e ∈ log, TrueCosts statsOf e.2)
    (htree : ∀ e ∈ log, slt e.2.score none = true → e.2.tree.isSome = true) (b : BestRec)
    (hb : (runLog (HState.init mts) log).best = some b) :
    ∃ id, (runLog (HState.init mts) log).tree = some id ∧ b.trial.tree = some id ∧
      b.trial.flops = some (statsOf id).flops ∧ b.trial.write = some (statsOf id).write ∧
      b.trial.size = some (statsOf id).size := by
  obtain ⟨⟨s, hmem, _, _⟩, hfin⟩ := winner_is_a_finite_trial mts log b hb
  have h1 := htree _ hmem hfin
  obtain ⟨id, hid⟩ := Option.isSome_iff_exists.1 h1
  obtain ⟨hf, hw, hs⟩ := htrue _ hmem id hid
  have hid' : b.trial.tree = some id := hid
  exact ⟨id, by simp [HState.tree, hb, hid'], hid', hf, hw, hs⟩

/-! ## 5b. end to end: a search built from `ComputeScore` returns its best trial with that
        trial's true costs -/

/-- the trial as the driver side receives it from a worker (`on_trial_error` ≠ 'raise'); the
    fallback record is never used under the hypotheses of the theorems below -/
def workerTrial (ops : TreeOps τ) (idOf : τ → Nat) (ws : List Wrapper) (obj : Objective τ)
    (postEnsure : Bool) (onErr : OnErr) (raw : Raw τ) : Trial :=
  match computeScore ops ws obj postEnsure onErr raw with
  | none => { score := none, flops := none, write := none, size := none, tree := none }
  | some r =>
    match toTrial idOf r with
    | none => { score := none, flops := none, write := none, size := none, tree := none }
    | some t => t

theorem workerTrial_good (ops : TreeOps τ) (idOf : τ → Nat) (statsOf : Nat → CStats)
    (hstats : ∀ t, ops.stats t = statsOf (idOf t)) (ws : List Wrapper) (obj : Objective τ)
    (postEnsure : Bool) (onErr : OnErr) (raw : Raw τ) (hne : onErr ≠ .raise)
    (hguard : postEnsure = true ∨ obj.ensures = true ∨ ws ≠ []) :
    TrueCosts statsOf (workerTrial ops idOf ws obj postEnsure onErr raw) ∧
      (slt (workerTrial ops idOf ws obj postEnsure onErr raw).score none = true →
        (workerTrial ops idOf ws obj postEnsure onErr raw).tree.isSome = true) := by
  obtain ⟨r, hr, _⟩ := computeScore_total ops ws obj postEnsure onErr raw hne
  have htrue := record_costs_true_partial ops ws obj postEnsure onErr raw r hguard hr
  obtain ⟨t, ht, hsc, hfig⟩ := toTrial_of_trueRecord ops idOf r htrue
  have hw : workerTrial ops idOf ws obj postEnsure onErr raw = t := by
    unfold workerTrial; rw [hr]; simp only; rw [ht]
  rw [hw]
  constructor
  · intro id hid
    cases htr : r.tree with
    | none =>
      have : t.tree = none := by
        unfold toTrial at ht
        split at ht
        · simp only [Option.some.injEq] at ht; subst ht; simp [htr]
        · cases ht
      rw [this] at hid; cases hid
    | some tr =>
      obtain ⟨h0, h1, h2, h3⟩ := hfig tr htr
      rw [h0] at hid
      simp only [Option.some.injEq] at hid
      subst hid
      rw [← hstats]
      exact ⟨h1, h2, h3⟩
  · intro hfin
    rw [hsc] at hfin
    have := finite_score_has_tree ops ws obj postEnsure onErr raw r hr hfin
    obtain ⟨tr, htr⟩ := Option.isSome_iff_exists.1 this
    rw [(hfig tr htr).1]; rfl

/-- an environment whose trial results all come out of `ComputeScore` -/
def workerEnv (ops : TreeOps τ) (idOf : τ → Nat) (ws : List Wrapper) (obj : Objective τ)
    (postEnsure : Bool) (onErr : OnErr) (getSetting : HState → Setting)
    (raws : Nat → Setting → Raw τ) : Env :=
  { getSetting := getSetting,
    trialFn := fun k s => workerTrial ops idOf ws obj postEnsure onErr (raws k s) }

/-- **hyper_search_correct (serial)** — for every sampler, every outcome of the path functions
    (trees, `BadTrial`, exceptions), every behaviour of the post-processing steps, every option set
    and objective under the guard, every stop behaviour: after a serial search on a fresh optimizer
    the score of `self.best` is the minimum of all recorded scores, at most `max_repeats` trials
    were run, and if any trial succeeded `search` returns a tree whose `contract_stats()` are
    exactly the `flops/write/size` stored in `self.best`. -/
theorem hyper_search_correct_serial (ops : TreeOps τ) (idOf : τ → Nat) (statsOf : Nat → CStats)
    (hstats : ∀ t, ops.stats t = statsOf (idOf t)) (ws : List Wrapper) (obj : Objective τ)
    (postEnsure : Bool) (onErr : OnErr) (hne : onErr ≠ .raise)
    (hguard : postEnsure = true ∨ obj.ensures = true ∨ ws ≠ [])
    (getSetting : HState → Setting) (raws : Nat → Setting → Raw τ) (mts : Option Nat)
    (maxRepeats : Nat) (stop : StopRule) :
    let st := searchSerial (workerEnv ops idOf ws obj postEnsure onErr getSetting raws) maxRepeats
      stop (HState.init mts)
    st.curBest = minScore st.scores ∧ st.scores.length ≤ maxRepeats ∧
      ∀ b, st.best = some b → ∃ id, st.tree = some id ∧
        b.trial.flops = some (statsOf id).flops ∧ b.trial.write = some (statsOf id).write ∧
        b.trial.size = some (statsOf id).size := by
  intro st
  obtain ⟨log, heq, hlen, hres, _⟩ := serial_search_spec
    (workerEnv ops idOf ws obj postEnsure onErr getSetting raws) maxRepeats stop (HState.init mts)
  have hbest : st.best = (runLog (HState.init mts) log).best := by
    change (searchSerial _ maxRepeats stop (HState.init mts)).best = _; rw [heq]
  have hscores : st.scores = log.map (·.2.score) := by
    change (searchSerial _ maxRepeats stop (HState.init mts)).scores = _
    rw [heq]
    have := runLog_scores (HState.init mts) log
    simpa [HState.init] using this
  have hcur : st.curBest = (runLog (HState.init mts) log).curBest := by
    unfold HState.curBest; rw [hbest]
  have htree : st.tree = (runLog (HState.init mts) log).tree := by
    unfold HState.tree; rw [hbest]
  have hgood : ∀ e ∈ log, TrueCosts statsOf e.2 ∧
      (slt e.2.score none = true → e.2.tree.isSome = true) := by
    intro e he
    obtain ⟨i, hi, rfl⟩ := List.getElem_of_mem he
    rw [hres i hi]
    exact workerTrial_good ops idOf statsOf hstats ws obj postEnsure onErr _ hne hguard
  refine ⟨?_, ?_, ?_⟩
  · rw [hcur, hscores]; exact (best_is_argmin mts log).1
  · rw [hscores]; simpa using hlen
  · intro b hb
    rw [hbest] at hb
    obtain ⟨id, h1, _, h3, h4, h5⟩ := winner_costs_true statsOf mts log
      (fun e he => (hgood e he).1) (fun e he => (hgood e he).2) b hb
    exact ⟨id, by rw [htree]; exact h1, h3, h4, h5⟩

/-- **hyper_search_correct (parallel)** — the same for a search on a pool, for *every* sequence of
    completion choices (which pending future finishes next) and every `pre_dispatch` window. -/
theorem hyper_search_correct_parallel (ops : TreeOps τ) (idOf : τ → Nat) (statsOf : Nat → CStats)
    (hstats : ∀ t, ops.stats t = statsOf (idOf t)) (ws : List Wrapper) (obj : Objective τ)
    (postEnsure : Bool) (onErr : OnErr) (hne : onErr ≠ .raise)
    (hguard : postEnsure = true ∨ obj.ensures = true ∨ ws ≠ [])
    (getSetting : HState → Setting) (raws : Nat → Setting → Raw τ) (mts : Option Nat)
    (pre maxRepeats : Nat) (stop : StopRule) (choices : List Nat) :
    let st := (searchParallel (workerEnv ops idOf ws obj postEnsure onErr getSetting raws) pre
      maxRepeats stop choices (HState.init mts)).h
    st.curBest = minScore st.scores ∧ st.scores.length ≤ maxRepeats ∧
      ∀ b, st.best = some b → ∃ id, st.tree = some id ∧
        b.trial.flops = some (statsOf id).flops ∧ b.trial.write = some (statsOf id).write ∧
        b.trial.size = some (statsOf id).size := by
  intro st
  obtain ⟨plog, heq, _, _, _, _, hres, _⟩ := parallel_search_spec
    (workerEnv ops idOf ws obj postEnsure onErr getSetting raws) pre maxRepeats stop choices
    (HState.init mts)
  have hbud := (trial_budget_parallel
    (workerEnv ops idOf ws obj postEnsure onErr getSetting raws) pre maxRepeats stop choices
    (HState.init mts)).1
  have hbest : st.best = (runLog (HState.init mts) (plog.map (·.2))).best := by
    change (searchParallel _ pre maxRepeats stop choices (HState.init mts)).h.best = _; rw [heq]
  have hscores : st.scores = (plog.map (·.2)).map (·.2.score) := by
    change (searchParallel _ pre maxRepeats stop choices (HState.init mts)).h.scores = _
    rw [heq]
    have := runLog_scores (HState.init mts) (plog.map (·.2))
    simpa [HState.init] using this
  have hcur : st.curBest = (runLog (HState.init mts) (plog.map (·.2))).curBest := by
    unfold HState.curBest; rw [hbest]
  have htree : st.tree = (runLog (HState.init mts) (plog.map (·.2))).tree := by
    unfold HState.tree; rw [hbest]
  have hgood : ∀ e ∈ plog.map (·.2), TrueCosts statsOf e.2 ∧
      (slt e.2.score none = true → e.2.tree.isSome = true) := by
    intro e he
    obtain ⟨pe, hpe, rfl⟩ := List.mem_map.1 he
    rw [hres pe hpe]
    exact workerTrial_good ops idOf statsOf hstats ws obj postEnsure onErr _ hne hguard
  refine ⟨?_, ?_, ?_⟩
  · rw [hcur, hscores]; exact (best_is_argmin mts _).1
  · have : (HState.init mts).scores.length = 0 := rfl
    change st.scores.length ≤ _ at hbud
    omega
  · intro b hb
    rw [hbest] at hb
    obtain ⟨id, h1, _, h3, h4, h5⟩ := winner_costs_true statsOf mts _
      (fun e he => (hgood e he).1) (fun e he => (hgood e he).2) b hb
    exact ⟨id, by rw [htree]; exact h1, h3, h4, h5⟩

/-- an objective that does not fill the figures (as `LimitObjective.__call__` on the unrepaired
    tree), no post-processing configured -/
def limitLike : Objective Nat := { ensures := false, value := fun _ => some (some 4) }
def natOps : TreeOps Nat :=
  { stats := fun t => ⟨t * 10, t * 3, t⟩, mutate := fun _ t => some (t + 1) }

/-- **record_costs_counterexample** (DESIGN 7f) — without the guard the full statement fails: the
    record has no `flops` key, so `_maybe_report_result` raises `KeyError` (`toTrial = none`). -/
theorem record_costs_counterexample :
    ∃ r, computeScore natOps [] limitLike false .warn (.ok 5) = some r ∧ r.flops = none ∧
      toTrial id r = none ∧ ¬ TrueRecord natOps r := by
  refine ⟨_, rfl, rfl, rfl, ?_⟩
  rintro ⟨⟨f, w, s, hf, _, _⟩, _⟩
  cases hf

/-- non-vacuity: the same objective behind any wrapper, and an ensuring objective alone -/
example : ∃ r, computeScore natOps (setupStack true true false true) limitLike false .warn (.ok 5) = some r ∧
    r.flops = some (some 80) ∧ r.tree = some 8 := ⟨_, rfl, rfl, rfl⟩
example : ∃ r, computeScore natOps [] { limitLike with ensures := true } false .warn (.ok 5) = some r ∧
    r.flops = some (some 50) ∧ toTrial id r =
      some { score := some 4, flops := some 50, write := some 15, size := some 5, tree := some 5 } :=
  ⟨_, rfl, rfl, rfl⟩
/-- the repaired `ComputeScore` (post-ensure) with the non-filling objective and no wrapper -/
example : ∃ r, computeScore natOps [] limitLike true .warn (.ok 5) = some r ∧
    r.flops = some (some 50) ∧ (toTrial id r).isSome := ⟨_, rfl, rfl, rfl⟩
example : setupStack true true true true = [.anneal, .slice, .sliceReconf, .reconf] := rfl

end worker

/-! ## 6. non-vacuity and concrete instances -/

def tr (score : Score) (c : Nat) : Trial :=
  { score := score, flops := score.map (· + c), write := score, size := score, tree := score.map fun _ => 7 }

def exLog : Log :=
  [(⟨0, 10⟩, tr (some 5) 1), (⟨1, 11⟩, tr none 0), (⟨0, 12⟩, tr (some 3) 2), (⟨2, 13⟩, tr (some 3) 3),
   (⟨1, 14⟩, tr (some 9) 4)]

/-- ties: the first of the two minimal trials (params 12) wins, the `inf` trial is skipped -/
example : (runLog (HState.init none) exLog).best =
    some { trial := tr (some 3) 2, params := some 12, method := some 0 } := by decide
example : IsFirstMin exLog 2 (⟨0, 12⟩, tr (some 3) 2) :=
  ⟨by decide, by decide, by decide, by
    intro j e' hj hje
    have : j = 0 ∨ j = 1 := by omega
    rcases this with rfl | rfl <;> (simp [exLog] at hje; subst hje; decide)⟩
example : (runLog (HState.init none) exLog).rows.length = 5 := by decide
/-- every trial failed: `best` is still the initial record and `search` has no tree to return -/
example : (runLog (HState.init none) [(⟨0, 1⟩, tr none 0), (⟨0, 2⟩, tr none 0)]).tree = none := by
  decide

def exEnv : Env :=
  { getSetting := fun st => ⟨st.submitted % 2, 100 + st.submitted⟩,
    trialFn := fun k _ => tr (if k % 3 = 1 then none else some ((7 * k + 3) % 5)) k }

/-- a pool that always completes the most recently submitted future first, window 2 -/
example : (searchParallel exEnv 2 6 .never [1, 1, 1, 1, 1, 1] (HState.init none)).h.paramChoices
    = [101, 102, 103, 104, 105, 100] := by decide
example : (searchParallel exEnv 2 6 .never [1, 1, 1, 1, 1, 1] (HState.init none)).h.curBest
    = (searchSerial exEnv 6 .never (HState.init none)).curBest := by decide
/-- a stop after the second assessed trial cancels the pending futures -/
example : (searchParallel exEnv 3 6 (.clock [false, true]) [0, 0] (HState.init none)).cancelled
    = [3, 2] := by decide

end Cotengra.C08
