import CotengraVerif.Lemmas.Reusable
import CotengraVerif.Lemmas.ReusableFp

/-!
# C14 — a reusable optimizer's cache hit is a correct answer for the question asked

Model (Model/Reusable.lean), transcribed from cotengra/reusable.py:25-66 (`hash_contraction_a/b`
as the pickled tuples), :161-174 (`hash_query`), :231-262 (`_maybe_run_optimizer`), :299-307
(`search`), cotengra/utils.py `DiskDict` (`_mem_cache` over the directory; lookup / store /
memoisation order), hyper.py:923-935 and path_basic.py:1561-1570 (`_reconstruct_tree`: a tree
over the *query's* inputs/output/sizes from the stored path, then `remove_ind_` per stored
sliced index).

The sub-optimizer is an oracle: each query carries "what a search would return now"; theorems
hold for every oracle and every history of queries and process restarts.

Not modelled / assumed (design/C14.md): pickle + SHA-1 (+ `directory_split`) are injective on
the fingerprint tuples; float scores only through `<`; one live process at a time (a restart =
fresh `_mem_cache`, same directory); `ContractionTree.from_path`/`remove_ind_` themselves (C10,
C06); that the sub-optimizer returns a complete tree of the contraction it is given (C05).

Full statement: every returned tree is a complete tree of the queried contraction with the
stored sliced indices and score (`answer_is_for_query`, `stored_is_returned`); a repeated query
does not search again (`hit_no_search`); with 'improved' the stored score never gets worse
(`improved_monotone`); `cache_only` never searches (`cache_only_never_searches`); a fresh
process sees what was stored (`reload_agrees`); two contractions share an entry only if the
answer is equally valid for both: proved for fingerprint `a` (`fingerprint_a_sound`); **false
for fingerprint `b`** (`fingerprint_b_counterexample`), what remains true of `b` is
`fingerprint_b_partial`.
-/
namespace Cotengra.C14
open Cotengra Cotengra.Reusable

variable {K : Type} [DecidableEq K]

/-! ## the policy -/

/-- **hit_no_search**: entry present and `overwrite=False` ⇒ the stored entry is returned, the
    sub-optimizer does not run, and no key's entry changes. -/
theorem hit_no_search (cfg : Cfg) (k : K) (ans old : Con) (s : St K)
    (hv : s.dd.view k = some old) (ho : cfg.overwrite = .no) :
    (maybeRun cfg k ans s).2 = .ok false old ∧
    (maybeRun cfg k ans s).1.searches = s.searches ∧
    ∀ k', (maybeRun cfg k ans s).1.dd.view k' = s.dd.view k' := by
  rw [maybeRun_hit cfg k ans old s hv ho]
  exact ⟨rfl, rfl, fun k' => DD.view_load _ _ _⟩

/-- whatever entry a query returns is the entry that is stored for its key afterwards (path,
    score and sliced indices alike) -/
theorem stored_is_returned (cfg : Cfg) (k : K) (ans : Con) (s : St K) (b : Bool) (con : Con)
    (h : (maybeRun cfg k ans s).2 = .ok b con) :
    (maybeRun cfg k ans s).1.dd.view k = some con ∧ (b = true → con = ans) ∧
      (b = false → s.dd.view k = some con) := by
  cases hv : s.dd.view k with
  | none =>
    cases hc : cfg.cacheOnly with
    | true => rw [maybeRun_missing_cacheOnly cfg k ans s hv hc] at h; cases h
    | false =>
      rw [maybeRun_missing cfg k ans s hv hc] at h ⊢
      injection h with h1 h2
      subst h1; subst h2
      exact ⟨by simp [DD.view_set], fun _ => rfl, (fun e => by cases e)⟩
  | some old =>
    cases ho : cfg.overwrite with
    | no =>
      rw [maybeRun_hit cfg k ans old s hv ho] at h ⊢
      injection h with h1 h2
      subst h1; subst h2
      exact ⟨by rw [DD.view_load]; exact hv, (fun e => by cases e), fun _ => rfl⟩
    | yes =>
      cases hc : cfg.cacheOnly with
      | true =>
        rw [maybeRun_present_cacheOnly cfg k ans old s hv (by rw [ho]; decide) hc] at h; cases h
      | false =>
        rw [maybeRun_overwrite cfg k ans old s hv ho hc] at h ⊢
        injection h with h1 h2
        subst h1; subst h2
        exact ⟨by simp [DD.view_set], fun _ => rfl, (fun e => by cases e)⟩
    | improved =>
      cases hc : cfg.cacheOnly with
      | true =>
        rw [maybeRun_present_cacheOnly cfg k ans old s hv (by rw [ho]; decide) hc] at h; cases h
      | false =>
        cases hlt : better cfg ans old
        case true =>
          rw [maybeRun_improved_better cfg k ans old s hv ho hc hlt] at h ⊢
          injection h with h1 h2
          subst h1; subst h2
          exact ⟨by simp [DD.view_set], fun _ => rfl, (fun e => by cases e)⟩
        case false =>
          rw [maybeRun_improved_worse cfg k ans old s hv ho hc hlt] at h ⊢
          injection h with h1 h2
          subst h1; subst h2
          exact ⟨by rw [DD.view_load]; exact hv, (fun e => by cases e), fun _ => rfl⟩

/-- **cache_only_never_searches** (one step): with `cache_only=True` the sub-optimizer never
    runs and nothing stored changes; the answer is the stored entry (only possible with
    `overwrite=False`) or `KeyError`. -/
theorem cache_only_step (cfg : Cfg) (k : K) (ans : Con) (s : St K) (hc : cfg.cacheOnly = true) :
    (maybeRun cfg k ans s).1.searches = s.searches ∧
    (∀ k', (maybeRun cfg k ans s).1.dd.view k' = s.dd.view k') ∧
    ((maybeRun cfg k ans s).2 = .keyError ∨
      ∃ old, s.dd.view k = some old ∧ (maybeRun cfg k ans s).2 = .ok false old) := by
  cases hv : s.dd.view k with
  | none =>
    rw [maybeRun_missing_cacheOnly cfg k ans s hv hc]
    exact ⟨rfl, fun k' => DD.view_load _ _ _, Or.inl rfl⟩
  | some old =>
    by_cases ho : cfg.overwrite = .no
    · rw [maybeRun_hit cfg k ans old s hv ho]
      exact ⟨rfl, fun k' => DD.view_load _ _ _, Or.inr ⟨old, rfl, rfl⟩⟩
    · rw [maybeRun_present_cacheOnly cfg k ans old s hv ho hc]
      exact ⟨rfl, fun k' => DD.view_load _ _ _, Or.inl rfl⟩

/-- **improved_monotone** (one step): unless `overwrite=True` forces a replacement, an entry
    that is present stays present and its score does not get worse — for every key. -/
theorem improved_monotone_step (cfg : Cfg) (k : K) (ans : Con) (s : St K)
    (ho : cfg.overwrite ≠ .yes) (k' : K) (c : Con) (hv : s.dd.view k' = some c) :
    ∃ c', (maybeRun cfg k ans s).1.dd.view k' = some c' ∧ c'.score ≤ c.score := by
  by_cases hk : k' = k
  · subst hk
    cases hov : cfg.overwrite with
    | yes => exact absurd hov ho
    | no =>
      rw [maybeRun_hit cfg k' ans c s hv hov]
      exact ⟨c, by rw [DD.view_load]; exact hv, Int.le_refl _⟩
    | improved =>
      cases hc : cfg.cacheOnly with
      | true =>
        rw [maybeRun_present_cacheOnly cfg k' ans c s hv (by rw [hov]; decide) hc]
        exact ⟨c, by rw [DD.view_load]; exact hv, Int.le_refl _⟩
      | false =>
        cases hlt : better cfg ans c
        case true =>
          rw [maybeRun_improved_better cfg k' ans c s hv hov hc hlt]
          exact ⟨ans, by simp [DD.view_set], better_le cfg ans c hlt⟩
        case false =>
          rw [maybeRun_improved_worse cfg k' ans c s hv hov hc hlt]
          exact ⟨c, by rw [DD.view_load]; exact hv, Int.le_refl _⟩
  · exact ⟨c, by rw [view_maybeRun_other cfg k ans s k' hk]; exact hv, Int.le_refl _⟩

/-! ## `update_from_tree` -/

/-- `update_from_tree` never searches; with `overwrite=False` or `'improved'` an entry that is
    present stays present with a score that is not worse, for every key; a missing entry is
    created. -/
theorem update_from_tree_monotone (tie : Bool) (ow : Overwrite) (k : K) (new : Con) (s : St K) :
    (updateFromTree tie ow k new s).searches = s.searches ∧
    (s.dd.view k = none → (updateFromTree tie ow k new s).dd.view k = some new) ∧
    (ow ≠ .yes → ∀ k' c, s.dd.view k' = some c →
      ∃ c', (updateFromTree tie ow k new s).dd.view k' = some c' ∧ c'.score ≤ c.score) := by
  have hl : ∀ k', (s.dd.load k).view k' = s.dd.view k' := DD.view_load s.dd k
  refine ⟨?_, ?_, ?_⟩
  · unfold updateFromTree
    simp only []
    cases (s.dd.load k).view k with
    | none => rfl
    | some old =>
      cases ow with
      | no => rfl
      | yes => rfl
      | improved => simp only []; split <;> rfl
  · intro hv
    have : (s.dd.load k).view k = none := by rw [hl]; exact hv
    unfold updateFromTree
    simp only [this, DD.view_set, if_true]
  · intro how k' c hv
    unfold updateFromTree
    simp only []
    cases hvk : (s.dd.load k).view k with
    | none =>
      have hne : k' ≠ k := by
        intro e; subst e; rw [hl, hv] at hvk; cases hvk
      exact ⟨c, by simp only [DD.view_set, hne, if_false, hl]; exact hv, Int.le_refl _⟩
    | some old =>
      cases ow with
      | yes => exact absurd rfl how
      | no => exact ⟨c, by simp only [hl]; exact hv, Int.le_refl _⟩
      | improved =>
        simp only []
        split
        · rename_i hb
          by_cases e : k' = k
          · subst e
            have : old = c := by rw [hl, hv] at hvk; exact (Option.some.inj hvk).symm
            subst this
            exact ⟨new, by simp [DD.view_set], better_le _ new old hb⟩
          · exact ⟨c, by simp only [DD.view_set, e, if_false, hl]; exact hv, Int.le_refl _⟩
        · exact ⟨c, by simp only [hl]; exact hv, Int.le_refl _⟩

/-! ## histories with process restarts -/

/-- every policy in force during the history -/
def cfgsOf (y : Sys K) (evs : List (Ev K)) : List Cfg :=
  y.cfg :: evs.filterMap fun e => match e with
    | .restart c => some c
    | .query _ _ => none
    | .update _ _ _ => none

/-- no explicit `update_from_tree(..., overwrite=True)` in the history -/
def noForcedUpdate (evs : List (Ev K)) : Prop :=
  ∀ e ∈ evs, match e with
    | .update ow _ _ => ow ≠ .yes
    | _ => True

theorem cfgsOf_step_subset (y : Sys K) (e : Ev K) (rest : List (Ev K)) :
    ∀ c ∈ cfgsOf (y.step e).1 rest, c ∈ cfgsOf y (e :: rest) := by
  intro c hc
  cases e with
  | query k ans =>
    simp only [cfgsOf, Sys.step, List.filterMap_cons, List.mem_cons] at hc ⊢
    exact hc
  | restart c' =>
    simp only [cfgsOf, Sys.step, List.filterMap_cons, List.mem_cons] at hc ⊢
    rcases hc with rfl | hc
    · right; left; rfl
    · right; right; exact hc
  | update ow k new =>
    simp only [cfgsOf, Sys.step, List.filterMap_cons, List.mem_cons] at hc ⊢
    exact hc

/-- the coherence invariant of the two-level dictionary holds along every history -/
theorem memAgrees_run (y : Sys K) (evs : List (Ev K)) (h : DD.MemAgrees y.st.dd) :
    DD.MemAgrees (y.run evs).1.st.dd := by
  induction evs generalizing y with
  | nil => exact h
  | cons e rest ih =>
    simp only [Sys.run]
    apply ih
    cases e with
    | query k ans => exact memAgrees_maybeRun _ _ _ _ h
    | restart c => exact DD.memAgrees_reload _
    | update ow k new => exact memAgrees_updateFromTree _ _ _ _ _ h

theorem disk_isSome_run (y : Sys K) (evs : List (Ev K)) :
    (y.run evs).1.st.dd.disk.isSome = y.st.dd.disk.isSome := by
  induction evs generalizing y with
  | nil => rfl
  | cons e rest ih =>
    simp only [Sys.run]
    rw [ih]
    cases e with
    | query k ans => exact disk_isSome_maybeRun _ _ _ _
    | restart c => rfl
    | update ow k new => exact disk_isSome_updateFromTree _ _ _ _ _

/-- **reload_agrees**: at any point of any history (started by a fresh process) a new process on
    the same directory sees, for every key, exactly the entry the old process would return. -/
theorem reload_agrees (y : Sys K) (evs : List (Ev K)) (hm : y.st.dd.mem = [])
    (hd : y.st.dd.disk.isSome) (k : K) :
    (y.run evs).1.st.dd.reload.view k = (y.run evs).1.st.dd.view k := by
  apply DD.view_reload
  · apply memAgrees_run
    intro k c h; rw [hm] at h; simp [assocGet] at h
  · rw [disk_isSome_run]; exact hd

/-- **improved_monotone**: over any history of queries, `update_from_tree` calls and restarts
    (any mix of `overwrite=False` / `'improved'`, `cache_only` on or off) on a directory, the
    entry stored for any key never disappears and its score never gets worse. -/
theorem improved_monotone (y : Sys K) (evs : List (Ev K)) (hd : y.st.dd.disk.isSome)
    (hm : DD.MemAgrees y.st.dd) (hn : ∀ c ∈ cfgsOf y evs, c.overwrite ≠ .yes)
    (hu : noForcedUpdate evs) (k : K) (c : Con)
    (hv : y.st.dd.view k = some c) :
    ∃ c', (y.run evs).1.st.dd.view k = some c' ∧ c'.score ≤ c.score := by
  induction evs generalizing y c with
  | nil => exact ⟨c, hv, Int.le_refl _⟩
  | cons e rest ih =>
    simp only [Sys.run]
    have hn' : ∀ c ∈ cfgsOf (y.step e).1 rest, c.overwrite ≠ .yes :=
      fun c hc => hn c (cfgsOf_step_subset y e rest c hc)
    have hu' : noForcedUpdate rest := fun e' he' => hu e' (List.mem_cons_of_mem _ he')
    cases e with
    | query k2 ans =>
      have h0 : y.cfg.overwrite ≠ .yes := hn y.cfg (by simp [cfgsOf])
      obtain ⟨c1, hv1, hle1⟩ := improved_monotone_step y.cfg k2 ans y.st h0 k c hv
      obtain ⟨c2, hv2, hle2⟩ := ih (y.step (.query k2 ans)).1
        (by simp only [Sys.step]; rw [disk_isSome_maybeRun]; exact hd)
        (memAgrees_maybeRun _ _ _ _ hm) hn' hu' c1 hv1
      exact ⟨c2, hv2, Int.le_trans hle2 hle1⟩
    | restart c0 =>
      exact ih (y.step (.restart c0)).1 hd (DD.memAgrees_reload _) hn' hu' c
        (by simp only [Sys.step]; rw [DD.view_reload _ hm hd]; exact hv)
    | update ow k2 new =>
      have how : ow ≠ .yes := hu (.update ow k2 new) List.mem_cons_self
      obtain ⟨c1, hv1, hle1⟩ :=
        (update_from_tree_monotone y.cfg.tieReplace ow k2 new y.st).2.2 how k c hv
      obtain ⟨c2, hv2, hle2⟩ := ih (y.step (.update ow k2 new)).1
        (by simp only [Sys.step]; rw [disk_isSome_updateFromTree]; exact hd)
        (memAgrees_updateFromTree _ _ _ _ _ hm) hn' hu' c1 hv1
      exact ⟨c2, hv2, Int.le_trans hle2 hle1⟩

/-- **cache_only_never_searches**: along any history in which every policy has
    `cache_only=True`, the sub-optimizer never runs. -/
theorem cache_only_never_searches (y : Sys K) (evs : List (Ev K))
    (hc : ∀ c ∈ cfgsOf y evs, c.cacheOnly = true) :
    (y.run evs).1.st.searches = y.st.searches := by
  induction evs generalizing y with
  | nil => rfl
  | cons e rest ih =>
    simp only [Sys.run]
    rw [ih _ (fun c h => hc c (cfgsOf_step_subset y e rest c h))]
    cases e with
    | query k ans => exact (cache_only_step y.cfg k ans y.st (hc y.cfg (by simp [cfgsOf]))).1
    | restart c => rfl
    | update ow k new => exact (update_from_tree_monotone _ ow k new y.st).1

/-! ## the returned tree is a tree of the queried contraction -/

/-- every stored entry fits every contraction that maps to its key -/
def StoreFits (mB : Bool) (d : DD Fp) : Prop :=
  ∀ k c, d.view k = some c → ∀ q, fingerprint mB q = k → fits q c = true

/-- the fingerprint never identifies two contractions for which a stored answer could fit one
    but not the other -/
def FpRespects (mB : Bool) : Prop :=
  ∀ q q' c, fingerprint mB q = fingerprint mB q' → fits q c = true → fits q' c = true

theorem fpA_respects : FpRespects false := by
  intro q q' c h hf
  simp only [fingerprint, Bool.false_eq_true, if_false, Fp.a.injEq] at h
  exact (fits_congr_of_fpA q q' c h).symm ▸ hf

/-- **answer_is_for_query** (one query). `q` is the queried contraction, `t` the tree the
    sub-optimizer would build for it now (a tree of `q` that fits `q`), `sc` its score.  Under a
    fingerprint that respects fitting (proved for `a`), whatever `search` returns is a tree over
    **the query's** inputs/output/sizes, its path is a complete path for the query's number of
    tensors and its sliced indices are indices of the query — in both branches (just searched
    / reconstructed from the cache) — and the invariant is kept. -/
theorem answer_is_for_query (mB : Bool) (hR : FpRespects mB) (cfg : Cfg) (s : St Fp)
    (hS : StoreFits mB s.dd) (q : Net) (t : Tree) (sc : Int) (ht : t.net = q)
    (hfit : fits q (deconstruct t sc) = true) :
    (∀ r, searchTree q t (maybeRun cfg (fingerprint mB q) (deconstruct t sc) s).2 = some r →
        r.net = q ∧ fits q { path := r.path, score := 0, sliced := r.sliced } = true) ∧
    StoreFits mB (maybeRun cfg (fingerprint mB q) (deconstruct t sc) s).1.dd := by
  refine ⟨?_, ?_⟩
  · intro r hr
    cases hres : (maybeRun cfg (fingerprint mB q) (deconstruct t sc) s).2 with
    | keyError => rw [hres] at hr; simp [searchTree] at hr
    | ok b con =>
      rw [hres] at hr
      cases b with
      | true =>
        simp only [searchTree, Option.some.injEq] at hr
        subst hr
        exact ⟨ht, by simpa [fits, deconstruct] using hfit⟩
      | false =>
        simp only [searchTree, Option.some.injEq] at hr
        subst hr
        have hst := (stored_is_returned cfg _ _ s false con hres).2.2 rfl
        have := hS _ con hst q rfl
        exact ⟨rfl, by simpa [fits] using this⟩
  · intro k c hv q' hq'
    by_cases hk : k = fingerprint mB q
    · subst hk
      rcases maybeRun_dd cfg (fingerprint mB q) (deconstruct t sc) s with e | e
      · rw [e, DD.view_load] at hv; exact hS _ c hv q' hq'
      · rw [e, DD.view_set, if_pos rfl] at hv
        injection hv with hv; subst hv
        exact hR q q' _ hq'.symm hfit
    · rw [view_maybeRun_other cfg _ _ s k hk] at hv
      exact hS k c hv q' hq'

/-- histories at the level of contractions -/
inductive QEv where
  | query (q : Net) (t : Tree) (sc : Int)
  | restart (cfg : Cfg)

/-- the oracle is sane: the sub-optimizer's tree is a tree of the contraction it was given -/
def QEv.Sane : QEv → Prop
  | .query q t sc => t.net = q ∧ fits q (deconstruct t sc) = true
  | .restart _ => True

/-- run a history, collecting the trees handed back by `search` -/
def runTrees (mB : Bool) : Sys Fp → List QEv → List (Net × Option Tree)
  | _, [] => []
  | y, .query q t sc :: rest =>
    let r := maybeRun y.cfg (fingerprint mB q) (deconstruct t sc) y.st
    (q, searchTree q t r.2) :: runTrees mB { y with st := r.1 } rest
  | y, .restart c :: rest =>
    runTrees mB { cfg := c, st := { y.st with dd := y.st.dd.reload } } rest

theorem storeFits_reload (mB : Bool) (d : DD Fp) (hm : DD.MemAgrees d) (h : StoreFits mB d) :
    StoreFits mB d.reload := by
  intro k c hv q hq
  cases hd : d.disk.isSome with
  | true => rw [DD.view_reload d hm hd] at hv; exact h k c hv q hq
  | false =>
    have : d.reload.view k = none := by
      unfold DD.view DD.reload DD.diskGet
      cases hdd : d.disk with
      | none => simp [assocGet]
      | some f => rw [hdd] at hd; cases hd
    rw [this] at hv; cases hv

/-- **answer_is_for_query** (every history): starting from an empty cache, after any sequence
    of queries (each with a sane oracle answer) and process restarts with arbitrary policies,
    every tree `search` returns is a tree of the contraction that was asked for at that point,
    with a complete path and valid sliced indices. -/
theorem answer_is_for_query_history (mB : Bool) (hR : FpRespects mB) (y : Sys Fp) (evs : List QEv)
    (hS : StoreFits mB y.st.dd) (hm : DD.MemAgrees y.st.dd) (hsane : ∀ e ∈ evs, e.Sane) :
    ∀ qr ∈ runTrees mB y evs, ∀ r, qr.2 = some r →
      r.net = qr.1 ∧ fits qr.1 { path := r.path, score := 0, sliced := r.sliced } = true := by
  induction evs generalizing y with
  | nil => intro qr h; simp [runTrees] at h
  | cons e rest ih =>
    cases e with
    | query q t sc =>
      have hs : (QEv.query q t sc).Sane := hsane _ (by simp)
      obtain ⟨h1, h2⟩ := answer_is_for_query mB hR y.cfg y.st hS q t sc hs.1 hs.2
      intro qr hqr r hr
      simp only [runTrees, List.mem_cons] at hqr
      rcases hqr with rfl | hqr
      · exact h1 r hr
      · exact ih _ h2 (memAgrees_maybeRun _ _ _ _ hm) (fun e he => hsane e (by simp [he])) qr hqr r hr
    | restart c =>
      intro qr hqr r hr
      simp only [runTrees] at hqr
      exact ih _ (storeFits_reload mB _ hm hS) (DD.memAgrees_reload _)
        (fun e he => hsane e (by simp [he])) qr hqr r hr

/-! ## fingerprints -/

/-- **fingerprint_a_sound.**  Two contractions receive the same key under the default method
    only if they have the same number of tensors and differ merely in the order of the indices
    inside each term, inside the output and inside the size items; and then (sizes being a
    `dict`: distinct keys) *every* stored answer is equally valid for both: the same entries fit,
    and for every tree and every set of removed (sliced) indices the legs of every node, its size
    and its flops coincide, as does the number of slices — so the stored path, sliced indices and
    score mean the same thing for both. -/
theorem fingerprint_a_sound (q q' : Net) (h : fingerprint false q = fingerprint false q')
    (hnd : (q.sizes.map (·.1)).Nodup) :
    SameUpToOrder q q' ∧
    (∀ c, fits q c = fits q' c) ∧
    (∀ sliced, q.mult sliced = q'.mult sliced) ∧
    ∀ (rm : List Ix) (t : BT), t.leaves.Nodup → (∀ i ∈ t.leaves, i < q.inputs.length) →
      (∀ ix, Legs.get (q.legs rm t) ix = Legs.get (q'.legs rm t) ix) ∧
      q.nodeSize rm t = q'.nodeSize rm t ∧ q.nodeFlops rm t = q'.nodeFlops rm t := by
  simp only [fingerprint, Bool.false_eq_true, if_false, Fp.a.injEq] at h
  have hs := sameUpToOrder_of_fpA q q' h
  refine ⟨hs, fun c => fits_congr_of_fpA q q' c h, ?_, ?_⟩
  · intro sliced
    unfold Net.mult Net.prodSizes
    rw [show q.size = q'.size from funext (size_congr hs hnd)]
  · intro rm t hd hb
    exact ⟨legs_get_congr hs rm t hd hb, costs_congr_of_same hs hnd rm t hd hb⟩

/-- `ab,bc,cd->ad` and `ac,cb,bd->ad` (indices a,b,c,d = 0,1,2,3) with the same size dict
    `{a:2, b:3, c:5, d:7}` -/
def nb1 : Net := { inputs := [[0, 1], [1, 2], [2, 3]], output := [0, 3], sizes := [(0, 2), (1, 3), (2, 5), (3, 7)] }
def nb2 : Net := { inputs := [[0, 2], [2, 1], [1, 3]], output := [0, 3], sizes := [(0, 2), (1, 3), (2, 5), (3, 7)] }
/-- the tree ((0,1),2) -/
def tb : BT := .node (.node (.leaf 0) (.leaf 1)) (.leaf 2)

/-- **fingerprint_b_counterexample** (defect 7i).  Method `b` keeps the incidence lists of the
    indices without their labels and the size items with their labels, so it forgets *which*
    index carries which size: the two contractions below get the same key although the same
    tree costs 30+70 = 100 operations for the first and 30+42 = 72 for the second, and slicing
    index `b` (=1) means something different for each (it removes a 3-dimensional bond of the
    first step in one, of the second step in the other).  Method `a` tells them apart. -/
theorem fingerprint_b_counterexample :
    fingerprint true nb1 = fingerprint true nb2 ∧
    fingerprint false nb1 ≠ fingerprint false nb2 ∧
    nb1.nodeFlops [] tb = 70 ∧ nb2.nodeFlops [] tb = 42 ∧
    (nb1.stats [] [] tb).flops = 100 ∧ (nb2.stats [] [] tb).flops = 72 ∧
    (nb1.stats [1] [1] tb).flops ≠ (nb2.stats [1] [1] tb).flops := by
  decide

/-- … and through the optimizer: the first contraction is searched and stored with its score;
    the *different* second contraction is then answered from that entry, without a search, with
    the first one's score. -/
theorem fingerprint_b_shares_entry :
    let cfg : Cfg := { overwrite := .no, cacheOnly := false }
    let s0 : St Fp := { dd := { mem := [], disk := some [] }, searches := 0 }
    let con1 : Con := { path := [[0, 1], [0, 1]], score := 100, sliced := [] }
    let con2 : Con := { path := [[1, 2], [0, 1]], score := 51, sliced := [] }
    let s1 := (maybeRun cfg (fingerprint true nb1) con1 s0).1
    (maybeRun cfg (fingerprint true nb2) con2 s1).2 = .ok false con1 ∧
    (maybeRun cfg (fingerprint true nb2) con2 s1).1.searches = 1 := by
  decide

/-- what *is* true of method `b` (**fingerprint_b_partial**): the size items agree up to order
    and so does the multiset of incidence lists — i.e. the two contractions have isomorphic
    index/tensor incidence, with positions of tensors preserved; a stored *path* therefore
    contracts the same positions.  Not implied (see the counter-example): that corresponding
    indices have equal sizes, hence nothing about scores or about what a stored sliced label
    refers to. -/
theorem fingerprint_b_partial (q q' : Net) (h : fingerprint true q = fingerprint true q') :
    q.sizes.Perm q'.sizes ∧
    (((edgesOf q).map (·.2)).flatten).Perm (((edgesOf q').map (·.2)).flatten) := by
  simp only [fingerprint, if_true, Fp.b.injEq, fpB, FpB.mk.injEq] at h
  obtain ⟨he, hs⟩ := h
  refine ⟨perm_of_isort_eq _ _ _ hs, ?_⟩
  have hp := perm_of_isort_eq _ _ _ he
  have h1 : ∀ l : List (Ix × List Int),
      ((l.map fun kv => isort (fun a b => decide (a ≤ b)) kv.2).flatten).Perm ((l.map (·.2)).flatten) := by
    intro l
    induction l with
    | nil => exact List.Perm.refl _
    | cons a t ih =>
      simp only [List.map_cons, List.flatten_cons]
      exact (perm_isort _ _).append ih
  exact (h1 _).symm.trans ((List.Perm.flatten hp).trans (h1 _))

/-- … in particular, for contractions without index-free tensors, the number of tensors is
    determined by the `b`-key, so a stored *path* that is complete for one is complete for the
    other (scores and sliced labels are not covered: see the counter-example).  Without the
    side condition even this fails: `('a','a')` and `('a','a','')` share a `b`-key. -/
theorem fingerprint_b_partial_path (q q' : Net) (h : fingerprint true q = fingerprint true q')
    (hq : ∀ t ∈ q.inputs, t ≠ []) (hq' : ∀ t ∈ q'.inputs, t ≠ []) (path : List (List Nat)) :
    q.inputs.length = q'.inputs.length ∧
    validPath q.inputs.length path = validPath q'.inputs.length path := by
  simp only [fingerprint, if_true, Fp.b.injEq] at h
  have hn := fpB_same_N q q' h hq hq'
  exact ⟨hn, by rw [hn]⟩

/-- the side condition is needed: an index-free tensor is invisible to method `b` -/
theorem fingerprint_b_scalar_counterexample :
    fingerprint true { inputs := [[0], [0]], output := [], sizes := [(0, 2)] } =
      fingerprint true { inputs := [[0], [0], []], output := [], sizes := [(0, 2)] } := by
  decide

/-! ## non-vacuity -/

/-- `ab,bc->ac` and `ba,cb->ca`: same key under `a` (order inside terms/output is ignored) -/
def na1 : Net := { inputs := [[0, 1], [1, 2]], output := [0, 2], sizes := [(0, 2), (1, 3), (2, 5)] }
def na2 : Net := { inputs := [[1, 0], [2, 1]], output := [2, 0], sizes := [(2, 5), (0, 2), (1, 3)] }
example : fingerprint false na1 = fingerprint false na2 := by decide
example : (na1.sizes.map (·.1)).Nodup := by decide
example : fits na1 { path := [[0, 1]], score := 0, sliced := [1] } = true := by decide
example : fits na1 { path := [[0, 2]], score := 0, sliced := [] } = false := by decide

/-- a history exercising search, hit, improvement, rejection of a worse result, restart -/
example :
    let y : Sys Nat := { cfg := { overwrite := .improved, cacheOnly := false },
                         st := { dd := { mem := [], disk := some [] }, searches := 0 } }
    let c (sc : Int) : Con := { path := [[0, 1]], score := sc, sliced := [] }
    (y.run [.query 7 (c 50), .query 7 (c 60), .query 7 (c 40), .restart { overwrite := .no, cacheOnly := true },
            .query 7 (c 1), .query 8 (c 1)]).2 =
      [some (.ok true (c 50)), some (.ok false (c 50)), some (.ok true (c 40)), none,
       some (.ok false (c 40)), some .keyError] := by
  decide

end Cotengra.C14
