import CotengraVerif.Generated.FactsC02

/-!
  C02, source-derived obligation: every function of the real code that removes a node, assigns
  `info[…]["inds"]` or pops `"inds"` — i.e. every implementation of an `Op.mutator` of
  Model/RecipeCache.lean — also calls `_reset_contraction_recipes` (or is a primitive / the reset
  itself), and the reset drops every derived recipe key. The table is regenerated from /repo's AST
  by `harness/c02.py` on every run; if a mutator loses its reset this file stops compiling.
-/
namespace Cotengra.C02
open Facts

theorem mutators_end_with_reset :
    (∀ r ∈ rows, r.changes = true → (r.resets = true ∨ r.primitive = true)) ∧
      helperDropsAllRecipes = true := by decide

/-- non-vacuity: the table does contain the known mutators -/
theorem mutators_nonempty :
    (rows.filter (fun r => r.changes && r.resets)).length ≥ 4 := by decide

end Cotengra.C02
