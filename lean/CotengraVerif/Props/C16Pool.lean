import CotengraVerif.Model.ReusePool
import CotengraVerif.Lemmas.HyperSearch
import CotengraVerif.Props.C16

/-!
# C16 — pool-parallel sub-searches that overlap in time

Model: `Model/ReusePool.lean` — any number of `_search` calls with a pool, interleaved by an
arbitrary event sequence (`begin / submit / harvest / cancel` per search); the list object that
`self._futures` of a search resolves to is explicit.

* `pool_isolation` — with a fresh list per search (`self._futures = []`, the code), for every
  event sequence (every interleaving of two or more searches, every completion order, every stop
  behaviour, every sampler and trial function): every trial a search reports is one it dispatched
  itself, its driver-side state is the fold (`Hyper.runLog`) over its own trials only, and
  therefore every tree it can return (`best["tree"]`) is a tree of its own contraction.
* `pool_refines_single_search` — moreover each search, seen through `view`, moves exactly like
  the single-search model of C08 (`Hyper.submit / completeP / cancel`) on its own events and does
  not move at all on the events of other searches; so C08's theorems (`best_is_argmin`,
  `parallel_search_spec`, …) hold for each of the overlapping searches.
* `shared_list_counterexample` (`decide`) — with one class-level list (seeded change C16-r2-1)
  a search reports the other search's trial and its best tree is a tree of the other contraction.

This is what licenses `Model/Reuse.lean` / `Model/ReuseNest.lean` in treating a sub-search as a
completion log stamped with the query's own contraction (`stamp`), also when `parallel=` is a pool
shared by overlapping searches.
-/
namespace Cotengra.C16
open Cotengra Cotengra.Hyper Cotengra.Reuse Cotengra.ReusePool

theorem treeOf_setSub {n : Nat} {st : HState} (h : TreeOf n st) (k : Nat) : TreeOf n (setSub st k) :=
  h

/-- the log a search has folded so far: the futures it reported with the results the workers
    computed for them -/
def logOf (cfg : PCfg) (sr : Search) : Log := sr.reported.map fun f => (f.setting, trialOf cfg f)

structure PoolInv (cfg : PCfg) (s : PSys) : Prop where
  lt : ∀ σ, (s.searches σ).started = true → (s.searches σ).list < s.nextList
  inj : ∀ σ σ', (s.searches σ).started = true → (s.searches σ').started = true →
    (s.searches σ).list = (s.searches σ').list → σ = σ'
  own : ∀ σ, (s.searches σ).started = true → ∀ f ∈ s.lists (s.searches σ).list, f.origin = σ
  reported : ∀ σ, ∀ f ∈ (s.searches σ).reported, f.origin = σ
  cancelled : ∀ σ, ∀ f ∈ (s.searches σ).cancelled, f.origin = σ
  tree : ∀ σ, TreeOf (cfg.queryOf σ).net (s.searches σ).h
  hlog : ∀ σ, (s.searches σ).h =
    setSub (runLog HState.init (logOf cfg (s.searches σ))) (s.searches σ).h.submitted

theorem poolInv_start (cfg : PCfg) : PoolInv cfg PSys.start := by
  refine ⟨?_, ?_, ?_, ?_, ?_, ?_, ?_⟩
  · intro σ h; simp [PSys.start] at h
  · intro σ σ' h; simp [PSys.start] at h
  · intro σ h; simp [PSys.start] at h
  · intro σ f h; simp [PSys.start] at h
  · intro σ f h; simp [PSys.start] at h
  · intro σ; exact treeOf_init _
  · intro σ; rfl

theorem poolInv_begin (cfg : PCfg) (hf : cfg.freshList = true) (s : PSys) (σ : Nat)
    (h : PoolInv cfg s) : PoolInv cfg (pstep cfg s (.begin σ)) := by
  simp only [pstep, hf, if_true]
  refine ⟨?_, ?_, ?_, ?_, ?_, ?_, ?_⟩
  · intro σ' hs
    by_cases e : σ' = σ
    · subst e; simp only [updFn_same]; omega
    · simp only [updFn_other _ _ _ _ e] at hs ⊢
      have := h.lt σ' hs; omega
  · intro σ1 σ2 h1 h2 hl
    by_cases e1 : σ1 = σ <;> by_cases e2 : σ2 = σ
    · rw [e1, e2]
    · subst e1
      simp only [updFn_same, updFn_other _ _ _ _ e2] at h2 hl
      have := h.lt σ2 h2; omega
    · subst e2
      simp only [updFn_same, updFn_other _ _ _ _ e1] at h1 hl
      have := h.lt σ1 h1; omega
    · simp only [updFn_other _ _ _ _ e1, updFn_other _ _ _ _ e2] at h1 h2 hl
      exact h.inj σ1 σ2 h1 h2 hl
  · intro σ' hs f hfm
    by_cases e : σ' = σ
    · subst e; simp only [updFn_same] at hfm; cases hfm
    · simp only [updFn_other _ _ _ _ e] at hs hfm
      have hlt := h.lt σ' hs
      rw [updFn_other _ _ _ _ (by omega)] at hfm
      exact h.own σ' hs f hfm
  · intro σ' f hfm
    by_cases e : σ' = σ
    · subst e; simp only [updFn_same] at hfm; exact h.reported _ f hfm
    · simp only [updFn_other _ _ _ _ e] at hfm; exact h.reported σ' f hfm
  · intro σ' f hfm
    by_cases e : σ' = σ
    · subst e; simp only [updFn_same] at hfm; exact h.cancelled _ f hfm
    · simp only [updFn_other _ _ _ _ e] at hfm; exact h.cancelled σ' f hfm
  · intro σ'
    by_cases e : σ' = σ
    · subst e; simp only [updFn_same]; exact h.tree _
    · simp only [updFn_other _ _ _ _ e]; exact h.tree σ'
  · intro σ'
    by_cases e : σ' = σ
    · subst e; simp only [updFn_same]; exact h.hlog _
    · simp only [updFn_other _ _ _ _ e]; exact h.hlog σ'

/-- an event of a started search `σ` that leaves `started` and `list` alone and replaces the
    search record and the contents of its own list -/
theorem poolInv_update (cfg : PCfg) (s : PSys) (h : PoolInv cfg s) (σ : Nat)
    (hst : (s.searches σ).started = true) (sr' : Search) (l' : List Fut)
    (h1 : sr'.started = true) (h2 : sr'.list = (s.searches σ).list)
    (hown : ∀ f ∈ l', f.origin = σ) (hrep : ∀ f ∈ sr'.reported, f.origin = σ)
    (hcan : ∀ f ∈ sr'.cancelled, f.origin = σ) (htree : TreeOf (cfg.queryOf σ).net sr'.h)
    (hlog : sr'.h = setSub (runLog HState.init (logOf cfg sr')) sr'.h.submitted) :
    PoolInv cfg { s with searches := updFn s.searches σ sr',
                         lists := updFn s.lists (s.searches σ).list l' } := by
  have hstarted : ∀ σ', (updFn s.searches σ sr' σ').started = (s.searches σ').started := by
    intro σ'; by_cases e : σ' = σ
    · subst e; rw [updFn_same, h1, hst]
    · rw [updFn_other _ _ _ _ e]
  have hlist : ∀ σ', (updFn s.searches σ sr' σ').list = (s.searches σ').list := by
    intro σ'; by_cases e : σ' = σ
    · subst e; rw [updFn_same, h2]
    · rw [updFn_other _ _ _ _ e]
  refine ⟨?_, ?_, ?_, ?_, ?_, ?_, ?_⟩
  · intro σ' hs
    simp only [hstarted, hlist] at hs ⊢
    exact h.lt σ' hs
  · intro σ1 σ2 hs1 hs2 hl
    simp only [hstarted, hlist] at hs1 hs2 hl
    exact h.inj σ1 σ2 hs1 hs2 hl
  · intro σ' hs f hfm
    simp only [hstarted, hlist] at hs hfm
    by_cases e : σ' = σ
    · subst e
      rw [updFn_same] at hfm
      exact hown f hfm
    · have hne : (s.searches σ').list ≠ (s.searches σ).list :=
        fun hl => e (h.inj σ' σ hs hst hl)
      rw [updFn_other _ _ _ _ hne] at hfm
      exact h.own σ' hs f hfm
  · intro σ' f hfm
    by_cases e : σ' = σ
    · subst e; simp only [updFn_same] at hfm; exact hrep f hfm
    · simp only [updFn_other _ _ _ _ e] at hfm; exact h.reported σ' f hfm
  · intro σ' f hfm
    by_cases e : σ' = σ
    · subst e; simp only [updFn_same] at hfm; exact hcan f hfm
    · simp only [updFn_other _ _ _ _ e] at hfm; exact h.cancelled σ' f hfm
  · intro σ'
    by_cases e : σ' = σ
    · subst e; simp only [updFn_same]; exact htree
    · simp only [updFn_other _ _ _ _ e]; exact h.tree σ'
  · intro σ'
    by_cases e : σ' = σ
    · subst e; simp only [updFn_same]; exact hlog
    · simp only [updFn_other _ _ _ _ e]; exact h.hlog σ'

theorem poolInv_submit (cfg : PCfg) (s : PSys) (σ : Nat) (h : PoolInv cfg s) :
    PoolInv cfg (pstep cfg s (.submit σ)) := by
  simp only [pstep]
  by_cases hst : (s.searches σ).started = true
  swap
  · rw [if_neg hst]; exact h
  rw [if_pos hst]
  refine poolInv_update cfg s h σ hst _ _ hst rfl ?_ (h.reported σ) (h.cancelled σ)
    (treeOf_setSub (h.tree σ) _) ?_
  · intro f hfm
    rcases List.mem_append.1 hfm with hfm | hfm
    · exact h.own _ hst f hfm
    · simp only [List.mem_singleton] at hfm; subst hfm; rfl
  · have := h.hlog σ
    simp only [logOf, setSub_submitted] at this ⊢
    conv_lhs => rw [this]
    rfl

theorem treeOf_complete_trialOf (cfg : PCfg) (σ : Nat) (st : HState) (f : Fut) (hf : f.origin = σ)
    (h : TreeOf (cfg.queryOf σ).net st) :
    TreeOf (cfg.queryOf σ).net (complete st f.setting (trialOf cfg f)) := by
  apply treeOf_complete h
  intro m hm
  simp only [trialOf, stampT, hf] at hm
  cases ht : ((cfg.envs σ).trialFn f.k f.setting).tree with
  | none => simp [ht] at hm
  | some x => simp [ht] at hm; exact hm.symm

theorem poolInv_harvest (cfg : PCfg) (s : PSys) (σ c : Nat) (h : PoolInv cfg s) :
    PoolInv cfg (pstep cfg s (.harvest σ c)) := by
  simp only [pstep]
  by_cases hst : (s.searches σ).started = true
  swap
  · rw [if_neg hst]; exact h
  rw [if_pos hst]
  cases hp : pickAt (s.lists (s.searches σ).list) c with
  | none => exact h
  | some x =>
    obtain ⟨f, rest⟩ := x
    simp only
    have hperm := pickAt_perm _ c f rest hp
    have hforigin : f.origin = σ := h.own σ hst f (hperm.mem_iff.2 List.mem_cons_self)
    refine poolInv_update cfg s h σ hst _ _ hst rfl ?_ ?_ (h.cancelled σ)
      (treeOf_complete_trialOf cfg _ _ f hforigin (h.tree _)) ?_
    · intro g hg
      exact h.own _ hst g (hperm.mem_iff.2 (List.mem_cons_of_mem _ hg))
    · intro g hg
      rcases List.mem_append.1 hg with hg | hg
      · exact h.reported _ g hg
      · simp only [List.mem_singleton] at hg; subst hg; exact hforigin
    · have hl := h.hlog σ
      simp only [logOf, List.map_append, List.map_cons, List.map_nil] at hl ⊢
      rw [runLog_snoc]
      generalize runLog HState.init (List.map (fun f => (f.setting, trialOf cfg f))
        (s.searches σ).reported) = X at hl ⊢
      generalize (s.searches σ).h = H at hl ⊢
      have hc : complete H f.setting (trialOf cfg f)
          = setSub (complete X f.setting (trialOf cfg f)) H.submitted := by
        conv_lhs => rw [hl]
        rw [complete_setSub]
      rw [hc]
      rfl

theorem poolInv_cancel (cfg : PCfg) (s : PSys) (σ : Nat) (h : PoolInv cfg s) :
    PoolInv cfg (pstep cfg s (.cancel σ)) := by
  simp only [pstep]
  by_cases hst : (s.searches σ).started = true
  swap
  · rw [if_neg hst]; exact h
  rw [if_pos hst]
  refine poolInv_update cfg s h σ hst _ _ hst rfl ?_ (h.reported σ) ?_ (h.tree σ) (h.hlog σ)
  · intro g hg; cases hg
  · intro g hg
    rcases List.mem_append.1 hg with hg | hg
    · exact h.cancelled _ g hg
    · exact h.own _ hst g (List.mem_reverse.1 hg)

theorem poolStep_inv (cfg : PCfg) (hf : cfg.freshList = true) (s : PSys) (ev : Ev)
    (h : PoolInv cfg s) : PoolInv cfg (pstep cfg s ev) := by
  cases ev with
  | «begin» σ => exact poolInv_begin cfg hf s σ h
  | submit σ => exact poolInv_submit cfg s σ h
  | harvest σ c => exact poolInv_harvest cfg s σ c h
  | cancel σ => exact poolInv_cancel cfg s σ h

theorem prun_inv (cfg : PCfg) (hf : cfg.freshList = true) (s : PSys) (evs : List Ev)
    (h : PoolInv cfg s) : PoolInv cfg (prun cfg s evs) := by
  induction evs generalizing s with
  | nil => exact h
  | cons ev rest ih => exact ih _ (poolStep_inv cfg hf s ev h)

/-- **pool_isolation** — `self._futures` bound to a fresh list at the start of every search: for
    every event sequence — any number of overlapping pool-parallel searches, any interleaving of
    their submissions and harvests, any completion order, any cancellation — and all samplers and
    trial functions, each search `σ`
    (1) reports only futures it dispatched itself, and cancels only its own;
    (2) has folded exactly those trials: `h = runLog init (its own trials)` (up to the ghost
        submission counter), each computed by `σ`'s trial function on `σ`'s contraction;
    (3) so every tree it can return is a tree of its own contraction. -/
theorem pool_isolation (cfg : PCfg) (hf : cfg.freshList = true) (evs : List Ev) (σ : Nat) :
    let sr := (prun cfg PSys.start evs).searches σ
    (∀ f ∈ sr.reported, f.origin = σ) ∧ (∀ f ∈ sr.cancelled, f.origin = σ) ∧
    sr.h = setSub (runLog HState.init (stamp (cfg.queryOf σ)
        (sr.reported.map fun f => (f.setting, (cfg.envs σ).trialFn f.k f.setting)))) sr.h.submitted ∧
    TreeOf (cfg.queryOf σ).net sr.h := by
  intro sr
  have hinv := prun_inv cfg hf _ evs (poolInv_start cfg)
  refine ⟨hinv.reported σ, hinv.cancelled σ, ?_, hinv.tree σ⟩
  have hl := hinv.hlog σ
  have hmap : logOf cfg sr = stamp (cfg.queryOf σ)
      (sr.reported.map fun f => (f.setting, (cfg.envs σ).trialFn f.k f.setting)) := by
    simp only [logOf, stamp, List.map_map]
    apply List.map_congr_left
    intro f hfm
    have ho := hinv.reported σ f hfm
    simp only [Function.comp, trialOf, stampT, ho]
  rw [← hmap]
  exact hl

/-! ## each overlapping search is C08's single search -/

theorem pickAt_map {α β : Type} (g : α → β) (l : List α) (c : Nat) :
    pickAt (l.map g) c = (pickAt l c).map fun x => (g x.1, x.2.map g) := by
  cases l with
  | nil => rfl
  | cons a l =>
    have hi : c % (l.length + 1) < (a :: l).length := by
      simp only [List.length_cons]; exact Nat.mod_lt _ (by omega)
    simp only [pickAt, List.map_cons, List.length_map]
    rw [← List.map_cons, List.getElem?_map, List.getElem?_eq_getElem hi]
    simp only [Option.map_some, List.eraseIdx_map]

/-- **pool_refines_single_search** — under the invariant (any reachable state with fresh lists):
    an event of search `σ` moves `view σ` exactly as the corresponding operation of the
    single-search model of C08 (`Model/Hyper.lean`), with `σ`'s own sampler and `σ`'s own trial
    function on `σ`'s contraction; an event of another search does not move `view σ` at all. -/
theorem pool_refines_single_search (cfg : PCfg) (hf : cfg.freshList = true) (s : PSys)
    (h : PoolInv cfg s) (σ : Nat) (hst : (s.searches σ).started = true) :
    view (pstep cfg s (.submit σ)) σ
      = Hyper.submit (view s σ) ((envOf cfg σ).getSetting (view s σ).h) ∧
    (∀ c, view (pstep cfg s (.harvest σ c)) σ = completeP (envOf cfg σ) (view s σ) c) ∧
    view (pstep cfg s (.cancel σ)) σ = Hyper.cancel (view s σ) ∧
    (∀ ev σ', σ' ≠ σ → (ev = .begin σ' ∨ ev = .submit σ' ∨ (∃ c, ev = .harvest σ' c) ∨ ev = .cancel σ') →
      view (pstep cfg s ev) σ = view s σ) := by
  refine ⟨?_, ?_, ?_, ?_⟩
  · simp only [pstep, hst, if_true, view, updFn_same, Hyper.submit, envOf, List.map_append,
      List.map_cons, List.map_nil]
  · intro c
    simp only [pstep, hst, if_true]
    cases hp : pickAt (s.lists (s.searches σ).list) c with
    | none =>
      simp only [view, completeP, pickAt_map, hp, Option.map_none]
    | some x =>
      obtain ⟨f, rest⟩ := x
      have hperm := pickAt_perm _ c f rest hp
      have ho : f.origin = σ := h.own σ hst f (hperm.mem_iff.2 List.mem_cons_self)
      simp only [view, completeP, pickAt_map, hp, Option.map_some, updFn_same, envOf, trialOf, ho]
  · simp only [pstep, hst, if_true, view, updFn_same, Hyper.cancel, List.map_append,
      List.map_nil, List.map_reverse, List.map_map]
    rfl
  · intro ev σ' hne hev
    have hne' : σ ≠ σ' := fun e => hne e.symm
    rcases hev with rfl | rfl | ⟨c, rfl⟩ | rfl
    · simp only [pstep, hf, if_true, view, updFn_other _ _ _ _ hne']
      have hlt := h.lt σ hst
      rw [updFn_other _ _ _ _ (by omega)]
    · simp only [pstep]
      by_cases hs' : (s.searches σ').started = true
      · simp only [hs', if_true, view, updFn_other _ _ _ _ hne']
        have hl : (s.searches σ).list ≠ (s.searches σ').list := fun e => hne' (h.inj σ σ' hst hs' e)
        rw [updFn_other _ _ _ _ hl]
      · simp only [hs', Bool.false_eq_true, if_false]
    · simp only [pstep]
      by_cases hs' : (s.searches σ').started = true
      · simp only [hs', if_true]
        cases hp : pickAt (s.lists (s.searches σ').list) c with
        | none => rfl
        | some x =>
          simp only [view, updFn_other _ _ _ _ hne']
          have hl : (s.searches σ).list ≠ (s.searches σ').list :=
            fun e => hne' (h.inj σ σ' hst hs' e)
          rw [updFn_other _ _ _ _ hl]
      · simp only [hs', Bool.false_eq_true, if_false]
    · simp only [pstep]
      by_cases hs' : (s.searches σ').started = true
      · simp only [hs', if_true, view, updFn_other _ _ _ _ hne']
        have hl : (s.searches σ).list ≠ (s.searches σ').list := fun e => hne' (h.inj σ σ' hst hs' e)
        rw [updFn_other _ _ _ _ hl]
      · simp only [hs', Bool.false_eq_true, if_false]

/-! ## one class-level list for all instances (seeded change C16-r2-1) -/

def ptr (score : Nat) : Trial :=
  { score := some score, flops := some 1, write := some 1, size := some 1, tree := some 0 }

/-- search 0 is about contraction 10 (cheap trials), search 1 about contraction 11 (dear ones) -/
def poolCfg (fresh : Bool) : PCfg :=
  { freshList := fresh,
    queryOf := fun σ => { net := 10 + σ, key := σ, hard := true },
    envs := fun σ => { getSetting := fun st => ⟨0, st.submitted⟩,
                       trialFn := fun k _ => ptr (if σ = 0 then 1 + k else 50 + k) } }

/-- search 0 dispatches two trials, then search 1 runs a whole search (two trials), then search 0
    harvests -/
def overlap : List Ev :=
  [.begin 0, .submit 0, .submit 0, .begin 1, .submit 1, .submit 1, .harvest 1 0, .harvest 1 0,
   .cancel 1, .harvest 0 0, .harvest 0 0, .cancel 0]

/-- **shared_list_counterexample** — one list for every instance: search 1 harvests the two
    trials that search 0 dispatched (trees of contraction 10, and they score lower), so its best
    tree is a tree of contraction 10 although it was asked about 11; its own two futures are still
    in the shared list when it finishes and are popped/cancelled there, so search 0 finds nothing
    left to harvest. -/
theorem shared_list_counterexample :
    let s := prun (poolCfg false) PSys.start overlap
    (s.searches 1).h.tree = some 10 ∧ ((s.searches 1).reported.map (·.origin)) = [0, 0] ∧
    ((s.searches 1).cancelled.map (·.origin)) = [1, 1] ∧ (s.searches 0).h.tree = none := by
  decide

/-- the same events with a fresh list per search -/
example :
    let s := prun (poolCfg true) PSys.start overlap
    (s.searches 1).h.tree = some 11 ∧ ((s.searches 1).reported.map (·.origin)) = [1, 1] ∧
    (s.searches 0).h.tree = some 10 ∧ ((s.searches 0).reported.map (·.origin)) = [0, 0] ∧
    (s.searches 0).cancelled = [] := by
  decide

end Cotengra.C16
