import CotengraVerif.Props.C08
import CotengraVerif.Lemmas.HyperXLemmas
import CotengraVerif.Lemmas.HyperXSearch

/-!
# C08 (round 3) — NaN / -inf scores, aborted searches, clean-up of in-flight futures, `times`,
`get_trials()`

Theorems about `Model/HyperX.lean` (the extended transcription of hyper.py:571-772):

* scores are arbitrary Python floats; `<` and `>=` have the IEEE semantics (`xlt`, `xge`);
  `best_is_argmin_nan`: after any completion log `self.best` is the first trial that is minimal
  among the non-NaN scores, NaN trials are never adopted and never disturb later comparisons
  (`nan_trial_does_not_affect_best`); `ge_variant_counterexample`: the loop written as
  `if score >= best: since_best += 1 else: adopt` does not have that property, although it is the
  same function on NaN-free streams (`ge_variant_same_without_nan`);
* every search (serial / pool, stopped early or not, left by a raising worker or not) keeps the
  invariant `XTracks` — the seven record lists are projections of one log and `best` is the
  arg-min of exactly the recorded trials (`search_serial_tracks`, `search_parallel_tracks`):
  futures that were in flight when the loop ended are popped and never recorded, whether or not
  their worker had finished (`parallel_search_xspec`: recorded / in flight / cancelled / raised
  partition the submissions); `harvest_report_only_counterexample` shows that recording them
  without comparing breaks the property, `harvest_and_assess_tracks` that recording *and*
  comparing keeps it;
* `get_trials()` and the seventh list `times` are aligned with the log (`xlists_aligned`,
  `get_trials_aligned`, `xwinner_row`);
* the earlier model `Model/Hyper.lean` is the image of this one under the map that sends NaN to
  `inf` (`xrunLog_erase`): the driver treats a NaN trial exactly like a failed one, except for
  the value it appends to `scores`.
-/
namespace Cotengra.C08
open Cotengra Cotengra.Hyper

/-! ## 0. ordered-float facts used below -/

theorem xge_of_not_xlt {a b : XScore} (ha : a ≠ .nan) (hb : b ≠ .nan) (h : xlt a b = false) :
    xge a b = true := by
  rw [xge_eq_not_xlt ha hb, h]; rfl

theorem ne_nan_of_rank {a : XScore} {x : Score} (h : a.rank = some x) : a ≠ .nan := by
  intro e; rw [e] at h; cases h

theorem xge_refl_of_rank {a : XScore} {x : Score} (h : a.rank = some x) : xge a a = true := by
  rw [xge_of_rank h h]; exact sle_refl x

/-- `a < b ≤ c → a < c` -/
theorem xlt_of_xlt_of_xge {a b c : XScore} (h1 : xlt a b = true) (h2 : xge c b = true) :
    xlt a c = true := by
  obtain ⟨x, y, hx, hy, hxy⟩ := rank_of_xlt h1
  obtain ⟨z, y', hz, hy', hyz⟩ := rank_of_xge h2
  rw [hy] at hy'; cases hy'
  rw [xlt_of_rank hx hz]
  exact slt_of_slt_of_sle hxy hyz

theorem xge_of_xlt {a b : XScore} (h : xlt a b = true) : xge b a = true := by
  obtain ⟨x, y, hx, hy, hxy⟩ := rank_of_xlt h
  rw [xge_of_rank hy hx]; exact sle_of_slt hxy

/-! ## 1. the best-so-far fold with IEEE `<` is the arg-min over the non-NaN scores -/

/-- `e` sits at position `i` of the completion log, its score is an ordered float below `+inf`,
    every other entry is NaN or not smaller, every earlier entry is NaN or strictly greater -/
structure XIsFirstMin (log : XLog) (i : Nat) (e : Setting × XTrial) : Prop where
  at_i : log[i]? = some e
  usable : xlt e.2.score .inf = true
  le_all : ∀ e' ∈ log, e'.2.score = .nan ∨ xge e'.2.score e.2.score = true
  lt_before : ∀ j e', j < i → log[j]? = some e' →
    e'.2.score = .nan ∨ xlt e.2.score e'.2.score = true

/-- what `self.best` must be after the trials of `log`: still the initial record iff no trial has
    a usable score (each is NaN or `+inf`); otherwise the first minimal entry among the non-NaN
    ones, with that entry's own params/method -/
def XBestSpec (log : XLog) : Option XBest → Prop
  | none => ∀ e ∈ log, xlt e.2.score .inf = false
  | some b => ∃ i e, XIsFirstMin log i e ∧
      b = { trial := e.2, params := some e.1.params, method := some e.1.method }

/-- the invariant of the driver-side state -/
structure XTracks (st : XState) (log : XLog) : Prop where
  methods : st.methodChoices = log.map (·.1.method)
  params : st.paramChoices = log.map (·.1.params)
  scores : st.scores = log.map (·.2.score)
  times : st.times = log.map (·.2.time)
  flops : st.costsFlops = log.map (·.2.flops)
  write : st.costsWrite = log.map (·.2.write)
  size : st.costsSize = log.map (·.2.size)
  best : XBestSpec log st.best

theorem xtracks_init (mts : Option Nat) : XTracks (XState.init mts) [] :=
  ⟨rfl, rfl, rfl, rfl, rfl, rfl, rfl, by simp [XState.init, XBestSpec]⟩

/-- under the invariant `self.best["score"]` is never NaN and no recorded non-NaN score is below
    it -/
theorem xcurBest_of_tracks {st : XState} {log : XLog} (h : XTracks st log) :
    (∃ c, st.curBest.rank = some c) ∧
      ∀ e' ∈ log, e'.2.score = .nan ∨ xge e'.2.score st.curBest = true := by
  have hb := h.best
  unfold XState.curBest
  cases hbest : st.best with
  | none =>
    rw [hbest] at hb
    simp only [XBestSpec] at hb
    refine ⟨⟨none, rfl⟩, ?_⟩
    intro e' he'
    rcases nan_or_rank e'.2.score with hn | ⟨y, hy⟩
    · exact Or.inl hn
    · right
      have := hb e' he'
      rw [xlt_of_rank hy rank_inf] at this
      have hy' : y = none := eq_none_of_not_slt_none this
      subst hy'
      rw [xge_of_rank hy rank_inf]; rfl
  | some b =>
    rw [hbest] at hb
    obtain ⟨i, e, hfm, rfl⟩ := hb
    obtain ⟨x, _, hx, _, _⟩ := rank_of_xlt hfm.usable
    exact ⟨⟨x, hx⟩, hfm.le_all⟩

theorem xtracks_complete {st : XState} {log : XLog} (h : XTracks st log) (s : Setting)
    (t : XTrial) : XTracks (xcomplete st s t) (log ++ [(s, t)]) := by
  refine ⟨by simp [h.methods], by simp [h.params], by simp [h.scores], by simp [h.times],
    by simp [h.flops], by simp [h.write], by simp [h.size], ?_⟩
  rw [xcomplete_best]
  obtain ⟨⟨c, hc⟩, hle⟩ := xcurBest_of_tracks h
  by_cases hlt : xlt t.score st.curBest = true
  · rw [if_pos hlt]
    obtain ⟨x, c', hx, hc', hxc⟩ := rank_of_xlt hlt
    rw [hc] at hc'; cases hc'
    refine ⟨log.length, (s, t), ⟨by simp, ?_, ?_, ?_⟩, rfl⟩
    · rw [xlt_of_rank hx rank_inf]
      exact slt_of_slt_of_sle hxc (sle_none _)
    · intro e' he'
      rcases List.mem_append.1 he' with he' | he'
      · rcases hle e' he' with hn | hge
        · exact Or.inl hn
        · exact Or.inr (xge_of_xlt (xlt_of_xlt_of_xge hlt hge))
      · simp only [List.mem_singleton] at he'; subst he'
        exact Or.inr (xge_refl_of_rank hx)
    · intro j e' hj hje
      have : log[j]? = some e' := by
        rw [List.getElem?_append_left hj] at hje; exact hje
      rcases hle e' (List.mem_of_getElem? this) with hn | hge
      · exact Or.inl hn
      · exact Or.inr (xlt_of_xlt_of_xge hlt hge)
  · have hlt' : xlt t.score st.curBest = false := by simpa using hlt
    rw [if_neg hlt]
    have hb := h.best
    cases hbest : st.best with
    | none =>
      rw [hbest] at hb
      simp only [XBestSpec] at hb ⊢
      intro e he
      rcases List.mem_append.1 he with he | he
      · exact hb e he
      · simp only [List.mem_singleton] at he; subst he
        have : st.curBest = .inf := by simp [XState.curBest, hbest]
        rw [this] at hlt'
        exact hlt'
    | some b =>
      rw [hbest] at hb
      obtain ⟨i, e, hfm, rfl⟩ := hb
      have hi : i < log.length := by
        have := hfm.at_i
        by_contra hcon
        rw [List.getElem?_eq_none (by omega)] at this
        cases this
      refine ⟨i, e, ⟨?_, hfm.usable, ?_, ?_⟩, rfl⟩
      · rw [List.getElem?_append_left hi]; exact hfm.at_i
      · intro e' he'
        rcases List.mem_append.1 he' with he' | he'
        · exact hfm.le_all e' he'
        · simp only [List.mem_singleton] at he'; subst he'
          have hcur : st.curBest = e.2.score := by simp [XState.curBest, hbest]
          rw [hcur] at hlt' hc
          rcases nan_or_rank t.score with hn | ⟨x, hx⟩
          · exact Or.inl hn
          · exact Or.inr (xge_of_not_xlt (ne_nan_of_rank hx) (ne_nan_of_rank hc) hlt')
      · intro j e' hj hje
        rw [List.getElem?_append_left (by omega)] at hje
        exact hfm.lt_before j e' hj hje

/-- the invariant is kept by any sequence of completions -/
theorem xtracks_runLog {st : XState} {log0 : XLog} (h : XTracks st log0) (log : XLog) :
    XTracks (xrunLog st log) (log0 ++ log) := by
  induction log using List.reverseRecOn with
  | nil => simpa using h
  | append_singleton l e ih =>
    obtain ⟨s, t⟩ := e
    rw [xrunLog_snoc, ← List.append_assoc]
    exact xtracks_complete ih s t

/-- the invariant does not look at the ghost submission counter -/
theorem xtracks_withSub {st : XState} {log : XLog} (h : XTracks st log) (n : Nat) :
    XTracks { st with submitted := n } log :=
  ⟨h.methods, h.params, h.scores, h.times, h.flops, h.write, h.size, h.best⟩

/-- under the invariant: `self.best["score"]` is the minimum of the recorded non-NaN scores
    (`inf` when there is none) -/
theorem curBest_is_min_of_tracks {st : XState} {log : XLog} (h : XTracks st log) :
    st.curBest.rank = some (minScore ((log.map (·.2.score)).filterMap XScore.rank)) := by
  obtain ⟨⟨c, hc⟩, hle⟩ := xcurBest_of_tracks h
  rw [hc]
  congr 1
  apply eq_minScore
  · intro x hx
    obtain ⟨a, ha, hax⟩ := List.mem_filterMap.1 hx
    obtain ⟨e', he', rfl⟩ := List.mem_map.1 ha
    rcases hle e' he' with hn | hge
    · rw [hn] at hax; cases hax
    · rw [xge_of_rank hax hc] at hge; exact hge
  · have hb := h.best
    cases hbest : st.best with
    | none =>
      left
      have : st.curBest = .inf := by simp [XState.curBest, hbest]
      rw [this] at hc; cases hc; rfl
    | some b =>
      rw [hbest] at hb
      obtain ⟨i, e, hfm, rfl⟩ := hb
      right
      have hcur : st.curBest = e.2.score := by simp [XState.curBest, hbest]
      rw [hcur] at hc
      exact List.mem_filterMap.2 ⟨e.2.score,
        List.mem_map.2 ⟨e, List.mem_of_getElem? hfm.at_i, rfl⟩, hc⟩

/-- **best_is_argmin_nan** — scores are arbitrary floats (finite, `±inf`, NaN) compared with the
    IEEE `<`.  For every completion log (any pool interleaving, any number of consecutive
    searches): `self.best["score"]` is not NaN and is the minimum of the recorded non-NaN scores,
    and `self.best` is the first entry of the log attaining it, with its own params/method. -/
theorem best_is_argmin_nan (mts : Option Nat) (log : XLog) :
    let st := xrunLog (XState.init mts) log
    st.curBest.rank = some (minScore ((log.map (·.2.score)).filterMap XScore.rank)) ∧
      XBestSpec log st.best := by
  intro st
  have ht : XTracks st ([] ++ log) := xtracks_runLog (xtracks_init mts) log
  simp only [List.nil_append] at ht
  exact ⟨curBest_is_min_of_tracks ht, ht.best⟩

/-- the winner is one of the completed trials; its score is an ordered float below `+inf` — in
    particular never NaN -/
theorem nan_never_best (mts : Option Nat) (log : XLog) (b : XBest)
    (hb : (xrunLog (XState.init mts) log).best = some b) :
    (∃ s, (s, b.trial) ∈ log ∧ b.params = some s.params ∧ b.method = some s.method) ∧
      xlt b.trial.score .inf = true ∧ b.trial.score ≠ .nan := by
  have h := (best_is_argmin_nan mts log).2
  rw [hb] at h
  obtain ⟨i, e, hfm, rfl⟩ := h
  refine ⟨⟨e.1, List.mem_of_getElem? hfm.at_i, rfl, rfl⟩, hfm.usable, ?_⟩
  obtain ⟨x, _, hx, _, _⟩ := rank_of_xlt hfm.usable
  exact ne_nan_of_rank hx

/-- if any trial has a usable score the search has a winner (NaN / failed trials elsewhere in
    the log cannot prevent it) -/
theorem usable_gives_winner (mts : Option Nat) (log : XLog) (e : Setting × XTrial)
    (he : e ∈ log) (hus : xlt e.2.score .inf = true) :
    ∃ b, (xrunLog (XState.init mts) log).best = some b ∧ xlt b.trial.score .inf = true := by
  have h := (best_is_argmin_nan mts log).2
  cases hbest : (xrunLog (XState.init mts) log).best with
  | none =>
    rw [hbest] at h
    have := h e he
    rw [this] at hus; cases hus
  | some b => exact ⟨b, rfl, (nan_never_best mts log b hbest).2.1⟩

/-- states that agree on `best` stay in agreement on `best` -/
theorem xrunLog_best_congr (l : XLog) (st st' : XState) (h : st'.best = st.best) :
    (xrunLog st' l).best = (xrunLog st l).best := by
  induction l generalizing st st' with
  | nil => exact h
  | cons e l ih =>
    simp only [xrunLog, List.foldl_cons]
    apply ih
    rw [xcomplete_best, xcomplete_best]
    have : st'.curBest = st.curBest := by unfold XState.curBest; rw [h]
    rw [this, h]

/-- **nan_trial_does_not_affect_best** — a trial whose score is NaN, inserted anywhere in the
    stream, changes nothing for the others: it is not adopted and the comparisons of all later
    trials are made against the same `best` as without it. -/
theorem nan_trial_does_not_affect_best (mts : Option Nat) (l₁ l₂ : XLog) (s : Setting)
    (t : XTrial) (hnan : t.score = .nan) :
    (xrunLog (XState.init mts) (l₁ ++ (s, t) :: l₂)).best =
      (xrunLog (XState.init mts) (l₁ ++ l₂)).best := by
  rw [xrunLog_append, xrunLog_append, xrunLog_cons]
  apply xrunLog_best_congr
  rw [xcomplete_best, hnan]; simp

/-! ### the `>=`-else variant of the loop body (seeded change C08-r3-2) -/

/-- `if trial["score"] >= self.best["score"]: self.trials_since_best += 1  else: <adopt>` -/
def xassessGe (st : XState) (t : XTrial) : XState :=
  if xge t.score st.curBest then
    { st with trialsSinceBest := st.trialsSinceBest + 1 }
  else
    { st with
      trialsSinceBest := 0
      best := some { trial := t, params := st.paramChoices.getLast?,
                     method := st.methodChoices.getLast? } }

def xcompleteGe (st : XState) (s : Setting) (t : XTrial) : XState := xassessGe (xreport st s t) t

def xrunLogGe (st : XState) (log : XLog) : XState :=
  log.foldl (fun st e => xcompleteGe st e.1 e.2) st

theorem xassessGe_eq_of_ordered (st : XState) (t : XTrial) (ht : t.score ≠ .nan)
    (hc : st.curBest ≠ .nan) : xassessGe st t = xassess st t := by
  unfold xassessGe xassess
  rw [xge_eq_not_xlt ht hc]
  cases xlt t.score st.curBest <;> simp

/-- on streams without NaN the two ways of writing the loop body are the same function (so no
    test with ordinary scores can tell them apart) -/
theorem ge_variant_same_without_nan (mts : Option Nat) (log : XLog)
    (h : ∀ e ∈ log, e.2.score ≠ .nan) :
    xrunLogGe (XState.init mts) log = xrunLog (XState.init mts) log := by
  induction log using List.reverseRecOn with
  | nil => rfl
  | append_singleton l e ih =>
    have hl : ∀ e' ∈ l, e'.2.score ≠ .nan := fun e' he' => h e' (List.mem_append_left _ he')
    have he : e.2.score ≠ .nan := h e (by simp)
    obtain ⟨s, t⟩ := e
    rw [xrunLog_snoc]
    have : xrunLogGe (XState.init mts) (l ++ [(s, t)]) =
        xcompleteGe (xrunLogGe (XState.init mts) l) s t := by
      simp [xrunLogGe, List.foldl_append]
    rw [this, ih hl]
    unfold xcompleteGe xcomplete
    apply xassessGe_eq_of_ordered _ _ he
    rw [xreport_curBest]
    have ht : XTracks (xrunLog (XState.init mts) l) ([] ++ l) :=
      xtracks_runLog (xtracks_init mts) l
    obtain ⟨⟨c, hc⟩, _⟩ := xcurBest_of_tracks ht
    exact ne_nan_of_rank hc

def xt (score : XScore) (c : Nat) : XTrial :=
  { score := score, flops := some c, write := some c, size := some c, tree := some c, time := c }

/-- a good trial, a NaN trial, a worse trial -/
def exNaNLog : XLog := [(⟨0, 10⟩, xt (.fin 1) 1), (⟨0, 11⟩, xt .nan 2), (⟨1, 12⟩, xt (.fin 5) 3)]

/-- **ge_variant_counterexample** — with the `>=`-else loop body the NaN trial is adopted and the
    following (worse) trial after it: the result is not the arg-min of the usable scores; the
    loop as written in /repo returns the first trial. -/
theorem ge_variant_counterexample :
    (xrunLogGe (XState.init none) exNaNLog).curBest = .fin 5 ∧
      (xrunLogGe (XState.init none) (exNaNLog.take 2)).curBest = .nan ∧
      (xrunLog (XState.init none) exNaNLog).curBest = .fin 1 ∧
      ¬ XBestSpec exNaNLog (xrunLogGe (XState.init none) exNaNLog).best := by
  refine ⟨by decide, by decide, by decide, ?_⟩
  have hb : (xrunLogGe (XState.init none) exNaNLog).best =
      some { trial := xt (.fin 5) 3, params := some 12, method := some 1 } := by decide
  rw [hb]
  rintro ⟨i, e, hfm, heq⟩
  have he : e.2 = xt (.fin 5) 3 := by
    have := congrArg XBest.trial heq; exact this.symm
  have := hfm.le_all (⟨0, 10⟩, xt (.fin 1) 1) (by decide)
  rw [he] at this
  revert this; decide

/-- non-vacuity: the as-written loop on the same stream satisfies the specification -/
example : XIsFirstMin exNaNLog 0 (⟨0, 10⟩, xt (.fin 1) 1) :=
  ⟨by decide, by decide, by decide, by intro j e' hj; omega⟩

/-- `-inf` is an ordinary ordered float: it beats every finite score; all-NaN / all-failed
    streams leave the initial record (`self.tree` raises `KeyError`) -/
example : (xrunLog (XState.init none)
    [(⟨0, 1⟩, xt (.fin 3) 1), (⟨0, 2⟩, xt .ninf 2), (⟨0, 3⟩, xt (.fin 0) 3)]).curBest = .ninf := by
  decide
example : (xrunLog (XState.init none) [(⟨0, 1⟩, xt .nan 1), (⟨0, 2⟩, xt .inf 2), (⟨0, 3⟩, xt .nan 3)]).tree
    = none := by decide
/-- ties: the first of two equal minimal scores wins, NaN in between does not matter -/
example : (xrunLog (XState.init none)
    [(⟨0, 1⟩, xt (.fin 3) 1), (⟨0, 2⟩, xt .nan 2), (⟨0, 3⟩, xt (.fin 3) 3)]).tree = some 1 := by
  decide

/-! ## 2. the seven record lists and `get_trials()` are projections of one log -/

theorem xrows_of_tracks {st : XState} {log : XLog} (h : XTracks st log) :
    st.rows = log.map xrowOf := by
  unfold XState.rows
  rw [h.methods, h.params, h.scores, h.times, h.flops, h.write, h.size]
  clear h
  induction log with
  | nil => rfl
  | cons e l ih => simp only [List.map_cons, List.zip_cons_cons, ih, xrowOf]

theorem getTrials_of_tracks {st : XState} {log : XLog} (h : XTracks st log) :
    st.getTrials = log.map xtrialRow := by
  unfold XState.getTrials
  rw [h.methods, h.params, h.flops, h.write, h.size]
  clear h
  induction log with
  | nil => rfl
  | cons e l ih => simp only [List.map_cons, List.zip_cons_cons, ih, xtrialRow]

/-- **xlists_aligned** — after any completion log the i-th entries of `method_choices`,
    `param_choices`, `scores`, `times`, `costs_flops`, `costs_write`, `costs_size` are the seven
    projections of the i-th completed (setting, trial) pair. -/
theorem xlists_aligned (mts : Option Nat) (log : XLog) :
    (xrunLog (XState.init mts) log).rows = log.map xrowOf := by
  have ht : XTracks (xrunLog (XState.init mts) log) ([] ++ log) :=
    xtracks_runLog (xtracks_init mts) log
  simp only [List.nil_append] at ht
  exact xrows_of_tracks ht

/-- **get_trials_aligned** — `get_trials()` returns, in completion order, each trial's
    `(method, size, flops, write, params)`. -/
theorem get_trials_aligned (mts : Option Nat) (log : XLog) :
    (xrunLog (XState.init mts) log).getTrials = log.map xtrialRow := by
  have ht : XTracks (xrunLog (XState.init mts) log) ([] ++ log) :=
    xtracks_runLog (xtracks_init mts) log
  simp only [List.nil_append] at ht
  exact getTrials_of_tracks ht

/-- **xwinner_row** — under the invariant the row of the records at the winner's position (and
    the corresponding entry of `get_trials()`) carries exactly the figures, the time and the
    params/method stored in `self.best`. -/
theorem xwinner_row {st : XState} {log : XLog} (h : XTracks st log) (b : XBest)
    (hb : st.best = some b) :
    ∃ i : Nat,
      st.rows[i]? = some (b.method.getD 0, b.params.getD 0, b.trial.score, b.trial.time,
        b.trial.flops, b.trial.write, b.trial.size) ∧
      st.getTrials[i]? = some (b.method.getD 0, b.trial.size, b.trial.flops, b.trial.write,
        b.params.getD 0) ∧
      b.method.isSome ∧ b.params.isSome := by
  have hbs := h.best
  rw [hb] at hbs
  obtain ⟨i, e, hfm, rfl⟩ := hbs
  refine ⟨i, ?_, ?_, rfl, rfl⟩
  · rw [xrows_of_tracks h, List.getElem?_map, hfm.at_i]; rfl
  · rw [getTrials_of_tracks h, List.getElem?_map, hfm.at_i]; rfl

/-! ## 3. every search keeps the invariant: serial, on a pool, stopped early, left by an
       exception -/

/-- **search_serial_tracks** — a serial `_search` from any state satisfying the invariant (a
    fresh optimizer, or one that has been searched before, including searches that were left by
    an exception) ends in a state satisfying it, over the old log extended by at most
    `max_repeats` new trials, each the worker's result for the setting drawn for it.  If a worker
    raises (`on_trial_error='raise'`) the search is left with the trials completed so far
    recorded and compared; nothing else is lost. -/
theorem search_serial_tracks (env : XEnv) (maxRepeats : Nat) (stop : StopRule) (st : XState)
    (log0 : XLog) (h : XTracks st log0) :
    let R := xsearchSerial env maxRepeats stop st
    ∃ log : XLog, XTracks R.st (log0 ++ log) ∧ log.length ≤ maxRepeats ∧
      (∀ i (hi : i < log.length), env.trialFn (st.submitted + i) log[i].1 = some log[i].2) ∧
      (R.aborted = true → log.length < maxRepeats ∧
        ∃ s, env.trialFn (st.submitted + log.length) s = none) ∧
      (stop = .never → R.aborted = false → log.length = maxRepeats) ∧
      ((∀ k s, (env.trialFn k s).isSome = true) → R.aborted = false) := by
  intro R
  obtain ⟨log, heq, hlen, hab, hres, habn, hnever⟩ := xserialLoop_spec env maxRepeats stop st
  refine ⟨log, ?_, hlen, hres, fun ha => ⟨hab ha, habn ha⟩, hnever, ?_⟩
  · change XTracks (xserialLoop env maxRepeats stop st).st _
    rw [heq]
    exact xtracks_withSub (xtracks_runLog h log) _
  · intro hall
    cases hR : R.aborted with
    | false => rfl
    | true =>
      obtain ⟨s, hs⟩ := habn hR
      have := hall (st.submitted + log.length) s
      rw [hs] at this; cases this

/-- **parallel_search_xspec** — `_search` on a pool, for every sequence of completion choices,
    every `pre_dispatch`, every stop behaviour, every set of workers that raise and every set of
    futures already finished at clean-up: the state is `xrunLog` over a log of distinct submitted
    futures, each paired with its own setting and result; the submissions are partitioned into
    *recorded* (and compared), *still in `self._futures`* (only after an exception), *popped by
    `_maybe_cancel_futures`* and *the one whose result raised*; futures popped at clean-up are
    never recorded, finished or not. -/
theorem parallel_search_xspec (env : XEnv) (pre maxRepeats : Nat) (stop : StopRule)
    (choices : List Nat) (st : XState) :
    let ps := xsearchParallel env pre maxRepeats stop choices st
    ∃ plog : List (Nat × Setting × XTrial),
      ps.h = { xrunLog st (plog.map (·.2)) with submitted := ps.h.submitted } ∧
      (ps.raised = none → ps.futures = []) ∧
      st.submitted ≤ ps.h.submitted ∧ ps.h.submitted ≤ st.submitted + maxRepeats ∧
      (plog.map (·.1) ++ ps.futures.map (·.2) ++ ps.cancelled ++ ps.raised.toList).Perm
        (List.range' st.submitted (ps.h.submitted - st.submitted)) ∧
      (∀ e ∈ plog, env.trialFn e.1 e.2.1 = some e.2.2) ∧
      (∀ k, ps.raised = some k → ∃ s, env.trialFn k s = none) ∧
      (∀ f ∈ ps.discarded, f.2 ∈ ps.cancelled ∧ env.doneAt f.2 = true) ∧
      (∀ k ∈ ps.cancelled, k ∉ plog.map (·.1)) ∧
      (stop = .never → ps.raised = none → ps.cancelled = [] ∧ plog.length = maxRepeats) := by
  intro ps
  obtain ⟨plog, hinv, hfut, hsub, hnever⟩ := xparPhase1_spec env pre maxRepeats stop choices
    { h := st } [] (xpinv_init env st) rfl
  have hsub' : ps.h.submitted ≤ st.submitted + maxRepeats := hsub
  refine ⟨plog, hinv.hstate, hfut, hinv.sub_ge, hsub', hinv.conserve, hinv.results,
    hinv.raisedNone, hinv.discardedSub, ?_, ?_⟩
  · intro k hk hk'
    have hnd : (plog.map (·.1) ++ ps.futures.map (·.2) ++ ps.cancelled ++ ps.raised.toList).Nodup :=
      (hinv.conserve.nodup_iff).2 List.nodup_range'
    have h1 := (List.nodup_append.1 hnd).1
    have h2 := (List.nodup_append.1 h1).2.2
    exact h2 k (List.mem_append_left _ hk') k hk rfl
  · intro hn hrn
    obtain ⟨hc, hs⟩ := hnever hn hrn rfl
    refine ⟨hc, ?_⟩
    have hl : (plog.map (·.1) ++ ps.futures.map (·.2) ++ ps.cancelled ++ ps.raised.toList).length
        = (List.range' st.submitted (ps.h.submitted - st.submitted)).length :=
      hinv.conserve.length_eq
    have hf : ps.futures = [] := hfut hrn
    have hc' : ps.cancelled = [] := hc
    have hrn' : ps.raised = none := hrn
    rw [hf, hc', hrn'] at hl
    simp at hl
    have : ps.h.submitted = st.submitted + maxRepeats := hs
    omega

/-- **search_parallel_tracks** — a `_search` on a pool from any state satisfying the invariant
    ends in a state satisfying it, for *every* completion order, stopping point, raising worker
    and clean-up: `self.best` is the arg-min of exactly the trials recorded in `scores` — the
    trials whose futures were popped by `_maybe_cancel_futures` (finished or not) or left behind
    by an exception are neither recorded nor compared.  At most `max_repeats` trials are
    recorded. -/
theorem search_parallel_tracks (env : XEnv) (pre maxRepeats : Nat) (stop : StopRule)
    (choices : List Nat) (st : XState) (log0 : XLog) (h : XTracks st log0) :
    let ps := xsearchParallel env pre maxRepeats stop choices st
    ∃ plog : List (Nat × Setting × XTrial),
      XTracks ps.h (log0 ++ plog.map (·.2)) ∧
      plog.length + ps.futures.length + ps.cancelled.length + ps.raised.toList.length
        = ps.h.submitted - st.submitted ∧
      ps.h.submitted - st.submitted ≤ maxRepeats ∧
      (∀ e ∈ plog, env.trialFn e.1 e.2.1 = some e.2.2) ∧
      (∀ f ∈ ps.discarded, f.2 ∉ plog.map (·.1)) ∧
      ((∀ k s, (env.trialFn k s).isSome = true) → ps.raised = none ∧ ps.futures = []) := by
  intro ps
  obtain ⟨plog, heq, hfut, hge, hle, hperm, hres, hrn, hdis, hcan, _⟩ :=
    parallel_search_xspec env pre maxRepeats stop choices st
  have hge' : st.submitted ≤ ps.h.submitted := hge
  have hle' : ps.h.submitted ≤ st.submitted + maxRepeats := hle
  refine ⟨plog, ?_, ?_, by omega, hres, ?_, ?_⟩
  · change XTracks (xsearchParallel env pre maxRepeats stop choices st).h _
    rw [heq]
    exact xtracks_withSub (xtracks_runLog h _) _
  · have hl := hperm.length_eq
    simp only [List.length_append, List.length_map, List.length_range'] at hl
    exact hl
  · intro f hf
    exact hcan f.2 (hdis f hf).1
  · intro hall
    have hr : ps.raised = none := by
      cases hR : ps.raised with
      | none => rfl
      | some k =>
        obtain ⟨s, hs⟩ := hrn k hR
        have := hall k s
        rw [hs] at this; cases this
    exact ⟨hr, hfut hr⟩

/-- **early_stop_best_is_argmin_of_recorded** — on a fresh optimizer, for every pool schedule,
    stopping point (`max_time`, `'rate:…'`, `'equil:N'`), `pre_dispatch` window, set of finished
    in-flight futures: `self.best["score"]` is the minimum of the non-NaN entries of
    `self.scores` — of everything that was recorded — at most `max_repeats` trials are recorded,
    and the winner's row carries the winner's figures. -/
theorem early_stop_best_is_argmin_of_recorded (env : XEnv) (pre maxRepeats : Nat)
    (stop : StopRule) (choices : List Nat) (mts : Option Nat) :
    let st := (xsearchParallel env pre maxRepeats stop choices (XState.init mts)).h
    st.curBest.rank = some (minScore (st.scores.filterMap XScore.rank)) ∧
      st.scores.length ≤ maxRepeats ∧
      ∀ b, st.best = some b → ∃ i : Nat,
        st.rows[i]? = some (b.method.getD 0, b.params.getD 0, b.trial.score, b.trial.time,
          b.trial.flops, b.trial.write, b.trial.size) := by
  intro st
  obtain ⟨plog, ht, hcount, hbud, _, _, _⟩ := search_parallel_tracks env pre maxRepeats stop
    choices (XState.init mts) [] (xtracks_init mts)
  simp only [List.nil_append] at ht
  change XTracks st _ at ht
  refine ⟨?_, ?_, ?_⟩
  · rw [ht.scores]; exact curBest_is_min_of_tracks ht
  · rw [ht.scores]; simp only [List.length_map]; omega
  · intro b hb
    obtain ⟨i, h1, _⟩ := xwinner_row ht b hb
    exact ⟨i, h1⟩

/-! ### what else the clean-up could do with futures that had already finished -/

/- `harvestReportOnly` (seeded change C08-r3-1: `_maybe_cancel_futures` passes the result of every
   finished popped future to `_maybe_report_result` — recorded, fed to the optlib, but not compared)
   and `harvestAndAssess` (the harmless alternative: record *and* compare) are defined in
   `Model/HyperX.lean`. -/

def harvested (env : XEnv) (l : List (Setting × Nat)) : XLog :=
  l.filterMap fun f => (env.trialFn f.2 f.1).map fun t => (f.1, t)

/-- **harvest_and_assess_tracks** — a clean-up that records the finished in-flight trials *and*
    compares them keeps the invariant as well: "harvested after the loop ended" is fine as long
    as it is "also compared". -/
theorem harvest_and_assess_tracks (env : XEnv) (ps : XPState) (log : XLog)
    (h : XTracks ps.h log) :
    XTracks (harvestAndAssess env ps) (log ++ harvested env ps.discarded) := by
  unfold harvestAndAssess
  generalize ps.discarded = l
  generalize ps.h = st at h
  induction l generalizing st log with
  | nil => simpa [harvested] using h
  | cons f l ih =>
    simp only [List.foldl_cons]
    cases ht : env.trialFn f.2 f.1 with
    | none =>
      have : harvested env (f :: l) = harvested env l := by simp [harvested, ht]
      rw [this]; exact ih log st h
    | some t =>
      have : harvested env (f :: l) = (f.1, t) :: harvested env l := by simp [harvested, ht]
      rw [this]
      have := ih (log ++ [(f.1, t)]) _ (xtracks_complete h f.1 t)
      simpa using this

def exTrials : List XTrial := [xt (.fin 5) 0, xt (.fin 1) 1, xt (.fin 7) 2, xt (.fin 2) 3]

/-- four submissions with scores 5, 1, 7, 2; every worker finishes at once -/
def exEagerEnv : XEnv :=
  { getSetting := fun st => ⟨0, 100 + st.submitted⟩,
    trialFn := fun k _ => exTrials[k]?,
    doneAt := fun _ => true }

/-- **harvest_report_only_counterexample** — window 3, the search stops after its first assessed
    trial (score 5) while two finished futures (scores 1 and 7) are in flight.  The code as
    written drops them: recorded `[5]`, best 5.  The report-only clean-up records `[5, 7, 1]` but
    leaves best at 5 — not the minimum of the recorded scores. -/
theorem harvest_report_only_counterexample :
    let ps := xsearchParallel exEagerEnv 3 4 (.clock [true]) [0] (XState.init none)
    ps.h.scores = [.fin 5] ∧ ps.h.curBest = .fin 5 ∧ ps.cancelled = [2, 1] ∧
      ps.discarded.map (·.2) = [2, 1] ∧
      (harvestReportOnly exEagerEnv ps).scores = [.fin 5, .fin 7, .fin 1] ∧
      (harvestReportOnly exEagerEnv ps).curBest = .fin 5 ∧
      (harvestReportOnly exEagerEnv ps).curBest.rank ≠
        some (minScore ((harvestReportOnly exEagerEnv ps).scores.filterMap XScore.rank)) ∧
      (harvestAndAssess exEagerEnv ps).curBest = .fin 1 := by
  decide

/-- a worker that raises (`on_trial_error='raise'`) in a window of 2: the search is left with
    the first trial recorded, one future still in `self._futures`, nothing cancelled -/
example :
    let env : XEnv := { exEagerEnv with trialFn := fun k _ => if k = 1 then none else exTrials[k]? }
    let ps := xsearchParallel env 2 4 .never [0, 0, 0, 0] (XState.init none)
    ps.raised = some 1 ∧ ps.h.scores = [.fin 5] ∧ ps.futures.map (·.2) = [2] ∧ ps.cancelled = [] := by
  decide

/-! ## 4. worker side with a float-valued objective, and the searches end to end -/

section xworker
variable {τ : Type}

/-- forget the difference between NaN and `+inf` (both never win, both are never reported to the
    optlib); ordered floats keep their order -/
def xerase (a : XScore) : Score := a.rank.getD none

def eraseObj (o : XObjective τ) : Objective τ :=
  { ensures := o.ensures, value := fun d => (o.value d).map xerase }

def eraseRec (r : XRDict τ) : RDict τ :=
  { score := xerase r.score, flops := r.flops, write := r.write, size := r.size, tree := r.tree }

theorem usable_iff_erase (a : XScore) : xlt a .inf = slt (xerase a) none := by
  cases a <;> rfl

theorem eraseObj_call (ops : TreeOps τ) (obj : XObjective τ) (d : TDict τ) :
    Objective.call ops (eraseObj obj) d =
      (XObjective.call ops obj d).map (fun p => (p.1, xerase p.2)) := by
  unfold Objective.call XObjective.call
  have h1 : (eraseObj obj).ensures = obj.ensures := rfl
  have h2 : ∀ x, (eraseObj obj).value x = (obj.value x).map xerase := fun _ => rfl
  simp only [h1, h2]
  cases obj.value (if obj.ensures = true then ensureBasic ops d else d) <;> rfl

/-- `ComputeScore` never looks at the value of the score: the float-valued transcription is the
    earlier one up to the score it passes through -/
theorem xcomputeScore_erase (ops : TreeOps τ) (ws : List Wrapper) (obj : XObjective τ)
    (postEnsure : Bool) (onErr : OnErr) (raw : Raw τ) :
    (xcomputeScore ops ws obj postEnsure onErr raw).map eraseRec =
      computeScore ops ws (eraseObj obj) postEnsure onErr raw := by
  unfold xcomputeScore computeScore
  have hexc : (if onErr = OnErr.raise then (none : Option (XRDict τ)) else some xfailRec).map
      eraseRec = if onErr = OnErr.raise then none else some failRec := by
    split <;> rfl
  cases raw with
  | badTrial => rfl
  | error => exact hexc
  | ok t =>
    simp only
    cases runStack ops ws (baseDict t) with
    | none => exact hexc
    | some d =>
      simp only
      rw [eraseObj_call]
      cases obj.call ops d with
      | none => exact hexc
      | some p => rfl

/-- **xrecord_costs_true** — whatever float the objective returns (NaN included), the record
    returned by `ComputeScore` carries `flops/write/size` equal to `contract_stats()` of the tree
    it carries (same guard as `record_costs_true_partial`; no guard is left on the current source,
    see `C08Facts.current_source_costs_true`). -/
theorem xrecord_costs_true (ops : TreeOps τ) (ws : List Wrapper) (obj : XObjective τ)
    (postEnsure : Bool) (onErr : OnErr) (raw : Raw τ) (r : XRDict τ)
    (hguard : postEnsure = true ∨ obj.ensures = true ∨ ws ≠ [])
    (h : xcomputeScore ops ws obj postEnsure onErr raw = some r) : TrueRecord ops (eraseRec r) := by
  have := xcomputeScore_erase ops ws obj postEnsure onErr raw
  rw [h] at this
  exact record_costs_true_partial ops ws (eraseObj obj) postEnsure onErr raw (eraseRec r) hguard this.symm

/-- a record with a usable score carries a tree -/
theorem xusable_score_has_tree (ops : TreeOps τ) (ws : List Wrapper) (obj : XObjective τ)
    (postEnsure : Bool) (onErr : OnErr) (raw : Raw τ) (r : XRDict τ)
    (h : xcomputeScore ops ws obj postEnsure onErr raw = some r)
    (hus : xlt r.score .inf = true) : r.tree.isSome = true := by
  have := xcomputeScore_erase ops ws obj postEnsure onErr raw
  rw [h] at this
  have hf := finite_score_has_tree ops ws (eraseObj obj) postEnsure onErr raw (eraseRec r) this.symm
    (by change slt (xerase r.score) none = true; rw [← usable_iff_erase]; exact hus)
  exact hf

/-- unless `on_trial_error='raise'` the worker always returns a record -/
theorem xcomputeScore_total (ops : TreeOps τ) (ws : List Wrapper) (obj : XObjective τ)
    (postEnsure : Bool) (onErr : OnErr) (raw : Raw τ) (hne : onErr ≠ .raise) :
    ∃ r, xcomputeScore ops ws obj postEnsure onErr raw = some r := by
  have := xcomputeScore_erase ops ws obj postEnsure onErr raw
  obtain ⟨r', hr', _⟩ := computeScore_total ops ws (eraseObj obj) postEnsure onErr raw hne
  rw [hr'] at this
  cases hx : xcomputeScore ops ws obj postEnsure onErr raw with
  | none => rw [hx] at this; cases this
  | some r => exact ⟨r, rfl⟩

/-- what the driver receives from a worker: `none` = the call raises -/
def xworkerTrial (ops : TreeOps τ) (idOf : τ → Nat) (ws : List Wrapper) (obj : XObjective τ)
    (postEnsure : Bool) (onErr : OnErr) (time : Nat) (raw : Raw τ) : Option XTrial :=
  match xcomputeScore ops ws obj postEnsure onErr raw with
  | none => none
  | some r => xtoTrial idOf time r

def XTrueCosts (statsOf : Nat → CStats) (t : XTrial) : Prop :=
  ∀ id, t.tree = some id → t.flops = some (statsOf id).flops ∧
    t.write = some (statsOf id).write ∧ t.size = some (statsOf id).size

theorem xworkerTrial_good (ops : TreeOps τ) (idOf : τ → Nat) (statsOf : Nat → CStats)
    (hstats : ∀ t, ops.stats t = statsOf (idOf t)) (ws : List Wrapper) (obj : XObjective τ)
    (postEnsure : Bool) (onErr : OnErr) (time : Nat) (raw : Raw τ)
    (hguard : postEnsure = true ∨ obj.ensures = true ∨ ws ≠ []) (t : XTrial)
    (h : xworkerTrial ops idOf ws obj postEnsure onErr time raw = some t) :
    XTrueCosts statsOf t ∧ (xlt t.score .inf = true → t.tree.isSome = true) := by
  unfold xworkerTrial at h
  cases hx : xcomputeScore ops ws obj postEnsure onErr raw with
  | none => rw [hx] at h; cases h
  | some r =>
    rw [hx] at h
    simp only at h
    have htrue := xrecord_costs_true ops ws obj postEnsure onErr raw r hguard hx
    obtain ⟨⟨f, w, s, hf, hw, hs⟩, hfig⟩ := htrue
    have hf' : r.flops = some f := hf
    have hw' : r.write = some w := hw
    have hs' : r.size = some s := hs
    unfold xtoTrial at h
    rw [hf', hw', hs'] at h
    simp only [Option.some.injEq] at h
    subst h
    constructor
    · intro id hid
      simp only at hid
      cases htr : r.tree with
      | none => rw [htr] at hid; cases hid
      | some tr =>
        rw [htr] at hid
        simp only [Option.map_some, Option.some.injEq] at hid
        subst hid
        obtain ⟨h1, h2, h3⟩ := hfig tr htr
        have h1' : r.flops = some (some (ops.stats tr).flops) := h1
        have h2' : r.write = some (some (ops.stats tr).write) := h2
        have h3' : r.size = some (some (ops.stats tr).size) := h3
        rw [hf'] at h1'; rw [hw'] at h2'; rw [hs'] at h3'
        simp only [Option.some.injEq] at h1' h2' h3'
        rw [← hstats]
        exact ⟨h1', h2', h3'⟩
    · intro hus
      have := xusable_score_has_tree ops ws obj postEnsure onErr raw r hx hus
      obtain ⟨tr, htr⟩ := Option.isSome_iff_exists.1 this
      simp [htr]

/-- under the invariant, if every recorded trial carries the figures of its own tree, so does
    `self.best`, and `self.tree` exists -/
theorem xwinner_costs_true (statsOf : Nat → CStats) {st : XState} {log : XLog}
    (h : XTracks st log) (htrue : ∀ e ∈ log, XTrueCosts statsOf e.2)
    (htree : ∀ e ∈ log, xlt e.2.score .inf = true → e.2.tree.isSome = true) (b : XBest)
    (hb : st.best = some b) :
    ∃ id, st.tree = some id ∧ b.trial.tree = some id ∧
      b.trial.flops = some (statsOf id).flops ∧ b.trial.write = some (statsOf id).write ∧
      b.trial.size = some (statsOf id).size := by
  have hbs := h.best
  rw [hb] at hbs
  obtain ⟨i, e, hfm, rfl⟩ := hbs
  have hmem : e ∈ log := List.mem_of_getElem? hfm.at_i
  obtain ⟨id, hid⟩ := Option.isSome_iff_exists.1 (htree e hmem hfm.usable)
  obtain ⟨hf, hw, hs⟩ := htrue e hmem id hid
  exact ⟨id, by simp [XState.tree, hb, hid], hid, hf, hw, hs⟩

/-- an environment whose trial results all come out of `ComputeScore` -/
def xworkerEnv (ops : TreeOps τ) (idOf : τ → Nat) (ws : List Wrapper) (obj : XObjective τ)
    (postEnsure : Bool) (onErr : OnErr) (getSetting : XState → Setting)
    (raws : Nat → Setting → Raw τ) (times : Nat → Nat) (doneAt : Nat → Bool) : XEnv :=
  { getSetting := getSetting,
    trialFn := fun k s => xworkerTrial ops idOf ws obj postEnsure onErr (times k) (raws k s),
    doneAt := doneAt }

/-- what C08 asks of the state after a search -/
structure SearchCorrect (statsOf : Nat → CStats) (maxRepeats : Nat) (st : XState) : Prop where
  /-- `best["score"]` is the minimum of the recorded non-NaN scores -/
  argmin : st.curBest.rank = some (minScore (st.scores.filterMap XScore.rank))
  budget : st.scores.length ≤ maxRepeats
  /-- the figures stored in `self.best` are `contract_stats()` of `self.tree` -/
  costs : ∀ b, st.best = some b → ∃ id, st.tree = some id ∧
    b.trial.flops = some (statsOf id).flops ∧ b.trial.write = some (statsOf id).write ∧
    b.trial.size = some (statsOf id).size
  /-- the winner's row of the records and of `get_trials()` carries the same figures -/
  row : ∀ b, st.best = some b → ∃ i : Nat,
    st.getTrials[i]? = some (b.method.getD 0, b.trial.size, b.trial.flops, b.trial.write,
      b.params.getD 0)

/-- **xhyper_search_correct_serial** — for every sampler, every outcome of the path functions,
    every behaviour of the post-processing steps, every option set, every objective returning
    *any* float (NaN, `±inf`) or raising, every `on_trial_error` mode, every stop behaviour: after
    a serial search on a fresh optimizer — also one left by a raising worker — the score of
    `self.best` is the minimum of the recorded non-NaN scores, at most `max_repeats` trials were
    recorded, `self.best[flops|write|size]` are `contract_stats()` of the returned tree; the
    search is left by an exception only with `on_trial_error='raise'`. -/
theorem xhyper_search_correct_serial (ops : TreeOps τ) (idOf : τ → Nat) (statsOf : Nat → CStats)
    (hstats : ∀ t, ops.stats t = statsOf (idOf t)) (ws : List Wrapper) (obj : XObjective τ)
    (postEnsure : Bool) (onErr : OnErr)
    (hguard : postEnsure = true ∨ obj.ensures = true ∨ ws ≠ [])
    (getSetting : XState → Setting) (raws : Nat → Setting → Raw τ) (times : Nat → Nat)
    (mts : Option Nat) (maxRepeats : Nat) (stop : StopRule) :
    let R := xsearchSerial (xworkerEnv ops idOf ws obj postEnsure onErr getSetting raws times
      (fun _ => false)) maxRepeats stop (XState.init mts)
    SearchCorrect statsOf maxRepeats R.st ∧ (onErr ≠ .raise → R.aborted = false) := by
  intro R
  obtain ⟨log, ht, hlen, hres, _, _, hall⟩ := search_serial_tracks
    (xworkerEnv ops idOf ws obj postEnsure onErr getSetting raws times (fun _ => false))
    maxRepeats stop (XState.init mts) [] (xtracks_init mts)
  simp only [List.nil_append] at ht
  change XTracks R.st log at ht
  have hgood : ∀ e ∈ log, XTrueCosts statsOf e.2 ∧
      (xlt e.2.score .inf = true → e.2.tree.isSome = true) := by
    intro e he
    obtain ⟨i, hi, rfl⟩ := List.getElem_of_mem he
    exact xworkerTrial_good ops idOf statsOf hstats ws obj postEnsure onErr _ _ hguard _
      (hres i hi)
  refine ⟨⟨?_, ?_, ?_, ?_⟩, ?_⟩
  · rw [ht.scores]; exact curBest_is_min_of_tracks ht
  · rw [ht.scores]; simpa using hlen
  · intro b hb
    obtain ⟨id, h1, _, h3, h4, h5⟩ := xwinner_costs_true statsOf ht
      (fun e he => (hgood e he).1) (fun e he => (hgood e he).2) b hb
    exact ⟨id, h1, h3, h4, h5⟩
  · intro b hb
    obtain ⟨i, _, h2, _⟩ := xwinner_row ht b hb
    exact ⟨i, h2⟩
  · intro hne
    apply hall
    intro k s
    change (xworkerTrial ops idOf ws obj postEnsure onErr (times k) (raws k s)).isSome = true
    obtain ⟨r, hr⟩ := xcomputeScore_total ops ws obj postEnsure onErr (raws k s) hne
    have htrue := xrecord_costs_true ops ws obj postEnsure onErr (raws k s) r hguard hr
    obtain ⟨⟨f, w, sz, hf, hw, hs⟩, _⟩ := htrue
    have hf' : r.flops = some f := hf
    have hw' : r.write = some w := hw
    have hs' : r.size = some sz := hs
    unfold xworkerTrial xtoTrial
    rw [hr]; simp only [hf', hw', hs']; rfl

/-- **xhyper_search_correct_parallel** — the same on a pool, for every sequence of completion
    choices, every `pre_dispatch` window, every stopping point and every set of in-flight futures
    that had already finished when the loop ended. -/
theorem xhyper_search_correct_parallel (ops : TreeOps τ) (idOf : τ → Nat)
    (statsOf : Nat → CStats) (hstats : ∀ t, ops.stats t = statsOf (idOf t)) (ws : List Wrapper)
    (obj : XObjective τ) (postEnsure : Bool) (onErr : OnErr)
    (hguard : postEnsure = true ∨ obj.ensures = true ∨ ws ≠ [])
    (getSetting : XState → Setting) (raws : Nat → Setting → Raw τ) (times : Nat → Nat)
    (doneAt : Nat → Bool) (mts : Option Nat) (pre maxRepeats : Nat) (stop : StopRule)
    (choices : List Nat) :
    let ps := xsearchParallel (xworkerEnv ops idOf ws obj postEnsure onErr getSetting raws times
      doneAt) pre maxRepeats stop choices (XState.init mts)
    SearchCorrect statsOf maxRepeats ps.h ∧
      (onErr ≠ .raise → ps.raised = none ∧ ps.futures = []) := by
  intro ps
  obtain ⟨plog, ht, hcount, hbud, hres, _, hall⟩ := search_parallel_tracks
    (xworkerEnv ops idOf ws obj postEnsure onErr getSetting raws times doneAt)
    pre maxRepeats stop choices (XState.init mts) [] (xtracks_init mts)
  simp only [List.nil_append] at ht
  change XTracks ps.h _ at ht
  have hgood : ∀ e ∈ plog.map (·.2), XTrueCosts statsOf e.2 ∧
      (xlt e.2.score .inf = true → e.2.tree.isSome = true) := by
    intro e he
    obtain ⟨pe, hpe, rfl⟩ := List.mem_map.1 he
    exact xworkerTrial_good ops idOf statsOf hstats ws obj postEnsure onErr _ _ hguard _
      (hres pe hpe)
  refine ⟨⟨?_, ?_, ?_, ?_⟩, ?_⟩
  · rw [ht.scores]; exact curBest_is_min_of_tracks ht
  · rw [ht.scores]; simp only [List.length_map]; omega
  · intro b hb
    obtain ⟨id, h1, _, h3, h4, h5⟩ := xwinner_costs_true statsOf ht
      (fun e he => (hgood e he).1) (fun e he => (hgood e he).2) b hb
    exact ⟨id, h1, h3, h4, h5⟩
  · intro b hb
    obtain ⟨i, _, h2, _⟩ := xwinner_row ht b hb
    exact ⟨i, h2⟩
  · intro hne
    apply hall
    intro k s
    change (xworkerTrial ops idOf ws obj postEnsure onErr (times k) (raws k s)).isSome = true
    obtain ⟨r, hr⟩ := xcomputeScore_total ops ws obj postEnsure onErr (raws k s) hne
    have htrue := xrecord_costs_true ops ws obj postEnsure onErr (raws k s) r hguard hr
    obtain ⟨⟨f, w, sz, hf, hw, hs⟩, _⟩ := htrue
    have hf' : r.flops = some f := hf
    have hw' : r.write = some w := hw
    have hs' : r.size = some sz := hs
    unfold xworkerTrial xtoTrial
    rw [hr]; simp only [hf', hw', hs']; rfl

/-- non-vacuity: an objective that answers NaN for odd trees, over the wrapper stack of
    `setupStack`, repaired `ComputeScore`; the NaN record still carries its tree's figures -/
def nanOddObjective : XObjective Nat :=
  { ensures := false, value := fun d => some (if d.tree % 2 = 1 then .nan else .fin d.tree) }

example : ∃ r, xcomputeScore natOps [] nanOddObjective true .warn (.ok 5) = some r ∧
    r.score = .nan ∧ r.flops = some (some 50) ∧ r.tree = some 5 := ⟨_, rfl, rfl, rfl, rfl⟩
example : ∃ r, xcomputeScore natOps (setupStack false true false false) nanOddObjective true
    .raise (.ok 5) = some r ∧ r.score = .fin 6 ∧ r.flops = some (some 60) := ⟨_, rfl, rfl, rfl⟩
example : xcomputeScore natOps [] nanOddObjective true .raise (.error : Raw Nat) = none := rfl

end xworker

/-! ## 5. the earlier model is the image of this one under NaN ↦ inf -/

def eraseTrial (t : XTrial) : Trial :=
  { score := xerase t.score, flops := t.flops, write := t.write, size := t.size, tree := t.tree }

def eraseBest (b : XBest) : BestRec :=
  { trial := eraseTrial b.trial, params := b.params, method := b.method }

/-- the earlier model's state: NaN scores read as `inf`, `times` forgotten -/
def eraseState (st : XState) : HState :=
  { methodChoices := st.methodChoices, paramChoices := st.paramChoices,
    scores := st.scores.map xerase, costsFlops := st.costsFlops, costsWrite := st.costsWrite,
    costsSize := st.costsSize, bestScore := xerase st.bestScore, best := st.best.map eraseBest,
    trialsSinceBest := st.trialsSinceBest,
    optlibReports := st.optlibReports.map fun p => (p.1, xerase p.2),
    maxTrainingSteps := st.maxTrainingSteps, submitted := st.submitted }

theorem xlt_erase (a b : XScore) (hb : b ≠ .nan) : xlt a b = slt (xerase a) (xerase b) := by
  cases a <;> cases b <;> first | rfl | exact absurd rfl hb

theorem eraseState_curBest (st : XState) : (eraseState st).curBest = xerase st.curBest := by
  unfold HState.curBest XState.curBest eraseState
  cases st.best <;> rfl

theorem xcomplete_erase (st : XState) (s : Setting) (t : XTrial) (hb : st.bestScore ≠ .nan)
    (hc : st.curBest ≠ .nan) :
    eraseState (xcomplete st s t) = complete (eraseState st) s (eraseTrial t) := by
  have h1 : xlt t.score st.bestScore = slt (xerase t.score) (xerase st.bestScore) := xlt_erase _ _ hb
  have h2 : xlt t.score st.curBest = slt (xerase t.score) (xerase st.curBest) := xlt_erase _ _ hc
  have h3 : xlt t.score .inf = slt (xerase t.score) none := xlt_erase _ _ (by decide)
  unfold xcomplete complete xassess assess
  rw [xreport_curBest, report_curBest, eraseState_curBest, h2]
  unfold xreport report
  simp only [h1, h3]
  have hm : (eraseTrial t).score = xerase t.score := rfl
  cases hlt : slt (xerase t.score) (xerase st.curBest) <;>
  cases hnb : slt (xerase t.score) (xerase st.bestScore) <;>
  cases hrep : slt (xerase t.score) none <;>
  cases hmts : st.maxTrainingSteps <;>
  simp [eraseState, eraseBest, hlt, hnb, hrep, hmts, eraseTrial] <;>
  (split <;> simp)

theorem xcomplete_curBest (st : XState) (s : Setting) (t : XTrial) :
    (xcomplete st s t).curBest = if xlt t.score st.curBest then t.score else st.curBest := by
  have hdef : ∀ st' : XState, st'.curBest =
      match st'.best with
      | none => .inf
      | some b => b.trial.score := fun _ => rfl
  rw [hdef (xcomplete st s t), xcomplete_best]
  by_cases h : xlt t.score st.curBest = true
  · rw [if_pos h, if_pos h]
  · rw [if_neg h, if_neg h]; rfl

theorem xrunLog_erase_from (log : XLog) (st : XState) (hb : st.bestScore ≠ .nan)
    (hc : st.curBest ≠ .nan) :
    eraseState (xrunLog st log) = runLog (eraseState st) (log.map fun e => (e.1, eraseTrial e.2)) := by
  induction log generalizing st with
  | nil => rfl
  | cons e l ih =>
    simp only [xrunLog_cons, List.map_cons, runLog, List.foldl_cons]
    rw [← xcomplete_erase st e.1 e.2 hb hc]
    apply ih
    · unfold xcomplete
      rw [xassess_bestScore]
      unfold xreport
      simp only
      split
      · rename_i h; obtain ⟨x, _, hx, _, _⟩ := rank_of_xlt h; exact ne_nan_of_rank hx
      · exact hb
    · rw [xcomplete_curBest]
      by_cases h : xlt e.2.score st.curBest = true
      · rw [if_pos h]; obtain ⟨x, _, hx, _, _⟩ := rank_of_xlt h; exact ne_nan_of_rank hx
      · rw [if_neg h]; exact hc

/-- **xrunLog_erase** — the earlier model (`Model/Hyper.lean`, scores without NaN) is the image of
    this one under the map that reads NaN as `inf`: the driver treats a NaN-scored trial exactly
    like a failed one (never adopted, never reported to the optlib, `trials_since_best`
    incremented), except for the value appended to `scores`.  All theorems of `Props/C08.lean`
    about `runLog` therefore speak about the erased run. -/
theorem xrunLog_erase (mts : Option Nat) (log : XLog) :
    eraseState (xrunLog (XState.init mts) log) =
      runLog (HState.init mts) (log.map fun e => (e.1, eraseTrial e.2)) :=
  xrunLog_erase_from log (XState.init mts) (by simp [XState.init]) (by simp [XState.init, XState.curBest])
/-! ## 6. what is fed to the optlib -/

theorem xcomplete_reports (st : XState) (s : Setting) (t : XTrial) :
    (xcomplete st s t).optlibReports =
      if ((match st.maxTrainingSteps with
            | none => true
            | some m => decide (st.scores.length < m)) || xlt t.score st.bestScore)
          && xlt t.score .inf
      then st.optlibReports ++ [(s.params, t.score)] else st.optlibReports := by
  unfold xcomplete
  rw [xassess_reports]
  rfl

/-- **optlib_reports_sound** — every call of the optlib's `report_result` is for a recorded
    trial and carries that trial's score, which is an ordered float below `+inf`: failed and
    NaN-scored trials are never fed to the optlib. -/
theorem optlib_reports_sound (mts : Option Nat) (log : XLog) :
    ∀ p ∈ (xrunLog (XState.init mts) log).optlibReports,
      xlt p.2 .inf = true ∧ ∃ e ∈ log, e.1.params = p.1 ∧ e.2.score = p.2 := by
  induction log using List.reverseRecOn with
  | nil => intro p hp; cases hp
  | append_singleton l e ih =>
    obtain ⟨s, t⟩ := e
    rw [xrunLog_snoc, xcomplete_reports]
    intro p hp
    generalize hw : (match (xrunLog (XState.init mts) l).maxTrainingSteps with
      | none => true
      | some m => decide ((xrunLog (XState.init mts) l).scores.length < m)) = w at hp
    cases hcond : ((w || xlt t.score (xrunLog (XState.init mts) l).bestScore)
        && xlt t.score .inf) with
    | true =>
      rw [hcond, if_pos rfl] at hp
      rcases List.mem_append.1 hp with hp | hp
      · obtain ⟨h1, e', he', h2⟩ := ih p hp
        exact ⟨h1, e', List.mem_append_left _ he', h2⟩
      · simp only [List.mem_singleton] at hp
        subst hp
        simp only [Bool.and_eq_true] at hcond
        exact ⟨hcond.2, (s, t), by simp, rfl, rfl⟩
    | false =>
      rw [hcond] at hp
      simp only [Bool.false_eq_true, if_false] at hp
      obtain ⟨h1, e', he', h2⟩ := ih p hp
      exact ⟨h1, e', List.mem_append_left _ he', h2⟩

/-- without `max_training_steps` every trial with a usable score is reported, in completion
    order -/
theorem optlib_reports_complete (log : XLog) :
    (xrunLog (XState.init none) log).optlibReports =
      (log.filter fun e => xlt e.2.score .inf).map fun e => (e.1.params, e.2.score) := by
  induction log using List.reverseRecOn with
  | nil => rfl
  | append_singleton l e ih =>
    obtain ⟨s, t⟩ := e
    rw [xrunLog_snoc, xcomplete_reports, ih, xrunLog_mts]
    simp only [XState.init, Bool.true_or, Bool.true_and, List.filter_append, List.map_append]
    cases h : xlt t.score .inf <;> simp [h]

end Cotengra.C08
