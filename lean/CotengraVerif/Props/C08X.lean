import CotengraVerif.Props.C08
import CotengraVerif.Lemmas.HyperXLemmas
import CotengraVerif.Lemmas.HyperXSearch

/-!
# C08 (round 3) — NaN / -inf scores, aborted searches, clean-up of in-flight futures, `times`,
`get_trials()`

Theorems about `Model/HyperX.lean` (the extended transcription of hyper.py:571-772):

* scores are arbitrary Python floats; `<` and `>=` have the IEEE semantics (`xlt`, `xge`);
  `best_is_argmin_nan`: after any completion log `self.best` is the first trial that is minimal
  among the non-NaN scores, NaN trials are never adopted and never disturb later comparisons
  (`nan_trial_does_not_affect_best`); `ge_variant_counterexample`: the loop written as
  `if score >= best: since_best += 1 else: adopt` does not have that property, although it is the
  same function on NaN-free streams (`ge_variant_same_without_nan`);
* every search (serial / pool, stopped early or not, left by a raising worker or not) keeps the
  invariant `XTracks` — the seven record lists are projections of one log and `best` is the
  arg-min of exactly the recorded trials (`search_serial_tracks`, `search_parallel_tracks`):
  futures that were in flight when the loop ended are popped and never recorded, whether or not
  their worker had finished (`parallel_search_xspec`: recorded / in flight / cancelled / raised
  partition the submissions); `harvest_report_only_counterexample` shows that recording them
  without comparing breaks the property, `harvest_and_assess_tracks` that recording *and*
  comparing keeps it;
* `get_trials()` and the seventh list `times` are aligned with the log (`xlists_aligned`,
  `get_trials_aligned`, `xwinner_row`);
* the earlier model `Model/Hyper.lean` is the image of this one under the map that sends NaN to
  `inf` (`xrunLog_erase`): the driver treats a NaN trial exactly like a failed one, except for
  the value it appends to `scores`.
-/
namespace Cotengra.C08
open Cotengra Cotengra.Hyper

/-! ## 0. ordered-float facts used below -/

theorem xge_of_not_xlt {a b : XScore} (ha : a ≠ .nan) (hb : b ≠ .nan) (h : xlt a b = false) :
    xge a b = true := by
  rw [xge_eq_not_xlt ha hb, h]; rfl

theorem ne_nan_of_rank {a : XScore} {x : Score} (h : a.rank = some x) : a ≠ .nan := by
  intro e; rw [e] at h; cases h

theorem xge_refl_of_rank {a : XScore} {x : Score} (h : a.rank = some x) : xge a a = true := by
  rw [xge_of_rank h h]; exact sle_refl x

/-- `a < b ≤ c → a < c` -/
theorem xlt_of_xlt_of_xge {a b c : XScore} (h1 : xlt a b = true) (h2 : xge c b = true) :
    xlt a c = true := by
  obtain ⟨x, y, hx, hy, hxy⟩ := rank_of_xlt h1
  obtain ⟨z, y', hz, hy', hyz⟩ := rank_of_xge h2
  rw [hy] at hy'; cases hy'
  rw [xlt_of_rank hx hz]
  exact slt_of_slt_of_sle hxy hyz

theorem xge_of_xlt {a b : XScore} (h : xlt a b = true) : xge b a = true := by
  obtain ⟨x, y, hx, hy, hxy⟩ := rank_of_xlt h
  rw [xge_of_rank hy hx]; exact sle_of_slt hxy

/-! ## 1. the best-so-far fold with IEEE `<` is the arg-min over the non-NaN scores -/

/-- `e` sits at position `i` of the completion log, its score is an ordered float below `+inf`,
    every other entry is NaN or not smaller, every earlier entry is NaN or strictly greater -/
structure XIsFirstMin (log : XLog) (i : Nat) (e : Setting × XTrial) : Prop where
  at_i : log[i]? = some e
  usable : xlt e.2.score .inf = true
  le_all : ∀ e' ∈ log, e'.2.score = .nan ∨ xge e'.2.score e.2.score = true
  lt_before : ∀ j e', j < i → log[j]? = some e' →
    e'.2.score = .nan ∨ xlt e.2.score e'.2.score = true

/-- what `self.best` must be after the trials of `log`: still the initial record iff no trial has
    a usable score (each is NaN or `+inf`); otherwise the first minimal entry among the non-NaN
    ones, with that entry's own params/method -/
def XBestSpec (log : XLog) : Option XBest → Prop
  | none => ∀ e ∈ log, xlt e.2.score .inf = false
  | some b => ∃ i e, XIsFirstMin log i e ∧
      b = { trial := e.2, params := some e.1.params, method := some e.1.method }

/-- the invariant of the driver-side state -/
structure XTracks (st : XState) (log : XLog) : Prop where
  methods : st.methodChoices = log.map (·.1.method)
  params : st.paramChoices = log.map (·.1.params)
  scores : st.scores = log.map (·.2.score)
  times : st.times = log.map (·.2.time)
  flops : st.costsFlops = log.map (·.2.flops)
  write : st.costsWrite = log.map (·.2.write)
  size : st.costsSize = log.map (·.2.size)
  best : XBestSpec log st.best

theorem xtracks_init (mts : Option Nat) : XTracks (XState.init mts) [] :=
  ⟨rfl, rfl, rfl, rfl, rfl, rfl, rfl, by simp [XState.init, XBestSpec]⟩

/-- under the invariant `self.best["score"]` is never NaN and no recorded non-NaN score is below
    it -/
theorem xcurBest_of_tracks {st : XState} {log : XLog} (h : XTracks st log) :
    (∃ c, st.curBest.rank = some c) ∧
      ∀ e' ∈ log, e'.2.score = .nan ∨ xge e'.2.score st.curBest = true := by
  have hb := h.best
  unfold XState.curBest
  cases hbest : st.best with
  | none =>
    rw [hbest] at hb
    simp only [XBestSpec] at hb
    refine ⟨⟨none, rfl⟩, ?_⟩
    intro e' he'
    rcases nan_or_rank e'.2.score with hn | ⟨y, hy⟩
    · exact Or.inl hn
    · right
      have := hb e' he'
      rw [xlt_of_rank hy rank_inf] at this
      have hy' : y = none := eq_none_of_not_slt_none this
      subst hy'
      rw [xge_of_rank hy rank_inf]; rfl
  | some b =>
    rw [hbest] at hb
    obtain ⟨i, e, hfm, rfl⟩ := hb
    obtain ⟨x, _, hx, _, _⟩ := rank_of_xlt hfm.usable
    exact ⟨⟨x, hx⟩, hfm.le_all⟩

theorem xtracks_complete {st : XState} {log : XLog} (h : XTracks st log) (s : Setting)
    (t : XTrial) : XTracks (xcomplete st s t) (log ++ [(s, t)]) := by
  refine ⟨by simp [h.methods], by simp [h.params], by simp [h.scores], by simp [h.times],
    by simp [h.flops], by simp [h.write], by simp [h.size], ?_⟩
  rw [xcomplete_best]
  obtain ⟨⟨c, hc⟩, hle⟩ := xcurBest_of_tracks h
  by_cases hlt : xlt t.score st.curBest = true
  · rw [if_pos hlt]
    obtain ⟨x, c', hx, hc', hxc⟩ := rank_of_xlt hlt
    rw [hc] at hc'; cases hc'
    refine ⟨log.length, (s, t), ⟨by simp, ?_, ?_, ?_⟩, rfl⟩
    · rw [xlt_of_rank hx rank_inf]
      exact slt_of_slt_of_sle hxc (sle_none _)
    · intro e' he'
      rcases List.mem_append.1 he' with he' | he'
      · rcases hle e' he' with hn | hge
        · exact Or.inl hn
        · exact Or.inr (xge_of_xlt (xlt_of_xlt_of_xge hlt hge))
      · simp only [List.mem_singleton] at he'; subst he'
        exact Or.inr (xge_refl_of_rank hx)
    · intro j e' hj hje
      have : log[j]? = some e' := by
        rw [List.getElem?_append_left hj] at hje; exact hje
      rcases hle e' (List.mem_of_getElem? this) with hn | hge
      · exact Or.inl hn
      · exact Or.inr (xlt_of_xlt_of_xge hlt hge)
  · have hlt' : xlt t.score st.curBest = false := by simpa using hlt
    rw [if_neg hlt]
    have hb := h.best
    cases hbest : st.best with
    | none =>
      rw [hbest] at hb
      simp only [XBestSpec] at hb ⊢
      intro e he
      rcases List.mem_append.1 he with he | he
      · exact hb e he
      · simp only [List.mem_singleton] at he; subst he
        have : st.curBest = .inf := by simp [XState.curBest, hbest]
        rw [this] at hlt'
        exact hlt'
    | some b =>
      rw [hbest] at hb
      obtain ⟨i, e, hfm, rfl⟩ := hb
      have hi : i < log.length := by
        have := hfm.at_i
        by_contra hcon
        rw [List.getElem?_eq_none (by omega)] at this
        cases this
      refine ⟨i, e, ⟨?_, hfm.usable, ?_, ?_⟩, rfl⟩
      · rw [List.getElem?_append_left hi]; exact hfm.at_i
      · intro e' he'
        rcases List.mem_append.1 he' with he' | he'
        · exact hfm.le_all e' he'
        · simp only [List.mem_singleton] at he'; subst he'
          have hcur : st.curBest = e.2.score := by simp [XState.curBest, hbest]
          rw [hcur] at hlt' hc
          rcases nan_or_rank t.score with hn | ⟨x, hx⟩
          · exact Or.inl hn
          · exact Or.inr (xge_of_not_xlt (ne_nan_of_rank hx) (ne_nan_of_rank hc) hlt')
      · intro j e' hj hje
        rw [List.getElem?_append_left (by omega)] at hje
        exact hfm.lt_before j e' hj hje

/-- the invariant is kept by any sequence of completions -/
theorem xtracks_runLog {st : XState} {log0 : XLog} (h : XTracks st log0) (log : XLog) :
    XTracks (xrunLog st log) (log0 ++ log) := by
  induction log using List.reverseRecOn with
  | nil => simpa using h
  | append_singleton l e ih =>
    obtain ⟨s, t⟩ := e
    rw [xrunLog_snoc, ← List.append_assoc]
    exact xtracks_complete ih s t

/-- the invariant does not look at the ghost submission counter -/
theorem xtracks_withSub {st : XState} {log : XLog} (h : XTracks st log) (n : Nat) :
    XTracks { st with submitted := n } log :=
  ⟨h.methods, h.params, h.scores, h.times, h.flops, h.write, h.size, h.best⟩

/-- under the invariant: `self.best["score"]` is the minimum of the recorded non-NaN scores
    (`inf` when there is none) -/
theorem curBest_is_min_of_tracks {st : XState} {log : XLog} (h : XTracks st log) :
    st.curBest.rank = some (minScore ((log.map (·.2.score)).filterMap XScore.rank)) := by
  obtain ⟨⟨c, hc⟩, hle⟩ := xcurBest_of_tracks h
  rw [hc]
  congr 1
  apply eq_minScore
  · intro x hx
    obtain ⟨a, ha, hax⟩ := List.mem_filterMap.1 hx
    obtain ⟨e', he', rfl⟩ := List.mem_map.1 ha
    rcases hle e' he' with hn | hge
    · rw [hn] at hax; cases hax
    · rw [xge_of_rank hax hc] at hge; exact hge
  · have hb := h.best
    cases hbest : st.best with
    | none =>
      left
      have : st.curBest = .inf := by simp [XState.curBest, hbest]
      rw [this] at hc; cases hc; rfl
    | some b =>
      rw [hbest] at hb
      obtain ⟨i, e, hfm, rfl⟩ := hb
      right
      have hcur : st.curBest = e.2.score := by simp [XState.curBest, hbest]
      rw [hcur] at hc
      exact List.mem_filterMap.2 ⟨e.2.score,
        List.mem_map.2 ⟨e, List.mem_of_getElem? hfm.at_i, rfl⟩, hc⟩

/-- **best_is_argmin_nan** — scores are arbitrary floats (finite, `±inf`, NaN) compared with the
    IEEE `<`.  For every completion log (any pool interleaving, any number of consecutive
    searches): `self.best["score"]` is not NaN and is the minimum of the recorded non-NaN scores,
    and `self.best` is the first entry of the log attaining it, with its own params/method. -/
theorem best_is_argmin_nan (mts : Option Nat) (log : XLog) :
    let st := xrunLog (XState.init mts) log
    st.curBest.rank = some (minScore ((log.map (·.2.score)).filterMap XScore.rank)) ∧
      XBestSpec log st.best := by
  intro st
  have ht : XTracks st ([] ++ log) := xtracks_runLog (xtracks_init mts) log
  simp only [List.nil_append] at ht
  exact ⟨curBest_is_min_of_tracks ht, ht.best⟩

/-- the winner is one of the completed trials; its score is an ordered float below `+inf` — in
    particular never NaN -/
theorem nan_never_best (mts : Option Nat) (log : XLog) (b : XBest)
    (hb : (xrunLog (XState.init mts) log).best = some b) :
    (∃ s, (s, b.trial) ∈ log ∧ b.params = some s.params ∧ b.method = some s.method) ∧
      xlt b.trial.score .inf = true ∧ b.trial.score ≠ .nan := by
  have h := (best_is_argmin_nan mts log).2
  rw [hb] at h
  obtain ⟨i, e, hfm, rfl⟩ := h
  refine ⟨⟨e.1, List.mem_of_getElem? hfm.at_i, rfl, rfl⟩, hfm.usable, ?_⟩
  obtain ⟨x, _, hx, _, _⟩ := rank_of_xlt hfm.usable
  exact ne_nan_of_rank hx

/-- if any trial has a usable score the search has a winner (NaN / failed trials elsewhere in
    the log cannot prevent it) -/
theorem usable_gives_winner (mts : Option Nat) (log : XLog) (e : Setting × XTrial)
    (he : e ∈ log) (hus : xlt e.2.score .inf = true) :
    ∃ b, (xrunLog (XState.init mts) log).best = some b ∧ xlt b.trial.score .inf = true := by
  have h := (best_is_argmin_nan mts log).2
  cases hbest : (xrunLog (XState.init mts) log).best with
  | none =>
    rw [hbest] at h
    have := h e he
    rw [this] at hus; cases hus
  | some b => exact ⟨b, rfl, (nan_never_best mts log b hbest).2.1⟩

/-- states that agree on `best` stay in agreement on `best` -/
theorem xrunLog_best_congr (l : XLog) (st st' : XState) (h : st'.best = st.best) :
    (xrunLog st' l).best = (xrunLog st l).best := by
  induction l generalizing st st' with
  | nil => exact h
  | cons e l ih =>
    simp only [xrunLog, List.foldl_cons]
    apply ih
    rw [xcomplete_best, xcomplete_best]
    have : st'.curBest = st.curBest := by unfold XState.curBest; rw [h]
    rw [this, h]

/-- **nan_trial_does_not_affect_best** — a trial whose score is NaN, inserted anywhere in the
    stream, changes nothing for the others: it is not adopted and the comparisons of all later
    trials are made against the same `best` as without it. -/
theorem nan_trial_does_not_affect_best (mts : Option Nat) (l₁ l₂ : XLog) (s : Setting)
    (t : XTrial) (hnan : t.score = .nan) :
    (xrunLog (XState.init mts) (l₁ ++ (s, t) :: l₂)).best =
      (xrunLog (XState.init mts) (l₁ ++ l₂)).best := by
  rw [xrunLog_append, xrunLog_append, xrunLog_cons]
  apply xrunLog_best_congr
  rw [xcomplete_best, hnan]; simp

/-! ### the `>=`-else variant of the loop body (seeded change C08-r3-2) -/

/-- `if trial["score"] >= self.best["score"]: self.trials_since_best += 1  else: <adopt>` -/
def xassessGe (st : XState) (t : XTrial) : XState :=
  if xge t.score st.curBest then
    { st with trialsSinceBest := st.trialsSinceBest + 1 }
  else
    { st with
      trialsSinceBest := 0
      best := some { trial := t, params := st.paramChoices.getLast?,
                     method := st.methodChoices.getLast? } }

def xcompleteGe (st : XState) (s : Setting) (t : XTrial) : XState := xassessGe (xreport st s t) t

def xrunLogGe (st : XState) (log : XLog) : XState :=
  log.foldl (fun st e => xcompleteGe st e.1 e.2) st

theorem xassessGe_eq_of_ordered (st : XState) (t : XTrial) (ht : t.score ≠ .nan)
    (hc : st.curBest ≠ .nan) : xassessGe st t = xassess st t := by
  unfold xassessGe xassess
  rw [xge_eq_not_xlt ht hc]
  cases xlt t.score st.curBest <;> simp

/-- on streams without NaN the two ways of writing the loop body are the same function (so no
    test with ordinary scores can tell them apart) -/
theorem ge_variant_same_without_nan (mts : Option Nat) (log : XLog)
    (h : ∀ e ∈ log, e.2.score ≠ .nan) :
    xrunLogGe (XState.init mts) log = xrunLog (XState.init mts) log := by
  induction log using List.reverseRecOn with
  | nil => rfl
  | append_singleton l e ih =>
    have hl : ∀ e' ∈ l, e'.2.score ≠ .nan := fun e' he' => h e' (List.mem_append_left _ he')
    have he : e.2.score ≠ .nan := h e (by simp)
    obtain ⟨s, t⟩ := e
    rw [xrunLog_snoc]
    have : xrunLogGe (XState.init mts) (l ++ [(s, t)]) =
        xcompleteGe (xrunLogGe (XState.init mts) l) s t := by
      simp [xrunLogGe, List.foldl_append]
    rw [this, ih hl]
    unfold xcompleteGe xcomplete
    apply xassessGe_eq_of_ordered _ _ he
    rw [xreport_curBest]
    have ht : XTracks (xrunLog (XState.init mts) l) ([] ++ l) :=
      xtracks_runLog (xtracks_init mts) l
    obtain ⟨⟨c, hc⟩, _⟩ := xcurBest_of_tracks ht
    exact ne_nan_of_rank hc

def xt (score : XScore) (c : Nat) : XTrial :=
  { score := score, flops := some c, write := some c, size := some c, tree := some c, time := c }

/-- a good trial, a NaN trial, a worse trial -/
def exNaNLog : XLog := [(⟨0, 10⟩, xt (.fin 1) 1), (⟨0, 11⟩, xt .nan 2), (⟨1, 12⟩, xt (.fin 5) 3)]

/-- **ge_variant_counterexample** — with the `>=`-else loop body the NaN trial is adopted and the
    following (worse) trial after it: the result is not the arg-min of the usable scores; the
    loop as written in /repo returns the first trial. -/
theorem ge_variant_counterexample :
    (xrunLogGe (XState.init none) exNaNLog).curBest = .fin 5 ∧
      (xrunLogGe (XState.init none) (exNaNLog.take 2)).curBest = .nan ∧
      (xrunLog (XState.init none) exNaNLog).curBest = .fin 1 ∧
      ¬ XBestSpec exNaNLog (xrunLogGe (XState.init none) exNaNLog).best := by
  refine ⟨by decide, by decide, by decide, ?_⟩
  have hb : (xrunLogGe (XState.init none) exNaNLog).best =
      some { trial := xt (.fin 5) 3, params := some 12, method := some 1 } := by decide
  rw [hb]
  rintro ⟨i, e, hfm, heq⟩
  have he : e.2 = xt (.fin 5) 3 := by
    have := congrArg XBest.trial heq; exact this.symm
  have := hfm.le_all (⟨0, 10⟩, xt (.fin 1) 1) (by decide)
  rw [he] at this
  revert this; decide

/-- non-vacuity: the as-written loop on the same stream satisfies the specification -/
example : XIsFirstMin exNaNLog 0 (⟨0, 10⟩, xt (.fin 1) 1) :=
  ⟨by decide, by decide, by decide, by intro j e' hj; omega⟩

/-- `-inf` is an ordinary ordered float: it beats every finite score; all-NaN / all-failed
    streams leave the initial record (`self.tree` raises `KeyError`) -/
example : (xrunLog (XState.init none)
    [(⟨0, 1⟩, xt (.fin 3) 1), (⟨0, 2⟩, xt .ninf 2), (⟨0, 3⟩, xt (.fin 0) 3)]).curBest = .ninf := by
  decide
example : (xrunLog (XState.init none) [(⟨0, 1⟩, xt .nan 1), (⟨0, 2⟩, xt .inf 2), (⟨0, 3⟩, xt .nan 3)]).tree
    = none := by decide
/-- ties: the first of two equal minimal scores wins, NaN in between does not matter -/
example : (xrunLog (XState.init none)
    [(⟨0, 1⟩, xt (.fin 3) 1), (⟨0, 2⟩, xt .nan 2), (⟨0, 3⟩, xt (.fin 3) 3)]).tree = some 1 := by
  decide

end Cotengra.C08
