import CotengraVerif.Lemmas.Crash
import CotengraVerif.Lemmas.Reusable

/-!
# C15 — a crash while writing the on-disk cache never poisons later runs

Model (Model/Crash.lean), transcribed from cotengra/utils.py `DiskDict` (`__contains__`,
`__setitem__`, `__getitem__`, lines 650-730 after the repair, 651-707 before) and the caller
cotengra/reusable.py:161-174 (`hash_query`: key, `directory_split`), :231-262
(`_maybe_run_optimizer`, default policy):

* file system below the cache directory = `Path → Option Bytes` (+ sub-directories);
* the writer = list of system calls (`mkdir`, `create`(=open 'wb'), `append`(=write), `rename`
  (=os.replace), `unlink`); **a crash = death before any call, between any two calls, or inside a
  `write` after any number of bytes** (`crashStates`);
* `writeAtomic` (repaired code) and `writeInplace` (code as it was);
* the later reader: `lookupNew` (repaired: unreadable == missing) / `lookupOld` (as it was:
  `exists()` then `pickle.load`, ending in `raise e` with `e` unbound);
* `pickle` is an abstract `Codec`; the theorems for the repaired code need **nothing** about
  it except `parse (ser v) = some v` to name the new entry.

Not modelled (trusted, see design/C15.md): POSIX semantics of `rename` (atomic, no torn
metadata after a *process* crash; power loss / fsync is out of scope), two writers racing on the
same temporary name (the name contains pid and thread id), the `_mem_cache` layer (a fresh
process starts with an empty one; C14 covers it).

Full statement (property text): if the writing process dies at any instant while storing, any
later process either finds a complete entry or behaves as if the entry were absent and
searches; it never fails permanently and never uses a partial entry; earlier entries stay
readable.  `crash_safe` below is that statement for the repaired protocol, for every file
system state, key, value, layout and crash point.  For the code as it was the statement is
false: `inplace_crash_poisons` / `inplace_write_counterexample`.
-/
namespace Cotengra.C15
open Cotengra.Crash

/-! ## the certificate form: any admissible system-call trace is crash-safe -/

/-- **Soundness of the trace checker.**  If the (observed) sequence of system calls of a writer
    passes `admissible f B`, then at every instant at which the writer can be killed every file
    that can belong to a key other than `f` is exactly as before, and `f` holds either exactly
    what it held before or the complete new content `B`. -/
theorem admissible_crash_safe (f : Path) (B : Bytes) (hf : isKeyPath f = true) (fs : FS)
    (ops : List Op) (ha : admissible f B fs ops = true) :
    ∀ fs' ∈ crashStates fs ops,
      (∀ p, isKeyPath p = true → p ≠ f → fs'.files p = fs.files p) ∧
      (fs'.files f = fs.files f ∨ fs'.files f = some B) :=
  inv_crashStates fs f B hf ops fs ⟨fun _ _ _ => rfl, Or.inl rfl⟩ ha

/-- no call of a trace raises (used to show the totalised `step` is never exploited) -/
def allSucceed : FS → List Op → Bool
  | _, [] => true
  | fs, op :: rest => fs.canStep op && allSucceed (fs.step op) rest

/-- In the repaired protocol no system call fails, from any state in which the cache directory
    exists (`DiskDict.__init__` creates it). -/
theorem writeAtomic_canStep (fs : FS) (split : Bool) (k : Key) (tag : Name) (data : Bytes)
    (hroot : fs.dirs [] = true) :
    allSucceed fs (writeAtomic split k tag data) = true := by
  cases split
  · simp [writeAtomic, allSucceed, FS.canStep, FS.step, tmpPath, keyPath, FS.parent, hroot,
      files_setFile, dirs_setFile]
  · simp [writeAtomic, allSucceed, FS.canStep, FS.step, tmpPath, keyPath, FS.parent,
      files_setFile, dirs_setFile]

/-- **The repaired writer is admissible**, for every state, key, layout, temp-file tag and
    content. -/
theorem writeAtomic_admissible (fs : FS) (split : Bool) (k : Key) (tag : Name) (data : Bytes)
    (hroot : fs.dirs [] = true) (_hk : hexName k = true) :
    admissible (keyPath split k) data fs (writeAtomic split k tag data) = true := by
  have ht := tmp_not_key split k tag
  cases split
  · simp only [writeAtomic, Bool.false_eq_true, if_false, List.nil_append, admissible_cons,
      admissible, opOK, ht, Bool.not_false, Bool.true_and, Bool.and_true, beq_self_eq_true]
    simp [FS.step, FS.canStep, tmpPath, keyPath, FS.parent, hroot, files_setFile]
  · simp only [writeAtomic, if_true, List.cons_append, List.nil_append, admissible_cons,
      admissible, opOK, ht, Bool.not_false, Bool.true_and, Bool.and_true, beq_self_eq_true]
    simp [FS.step, FS.canStep, tmpPath, keyPath, FS.parent, files_setFile]

/-- the in-place writer is rejected by the checker (it creates/truncates the key's own file) -/
theorem writeInplace_not_admissible (fs : FS) (split : Bool) (k : Key) (data : Bytes)
    (hk : hexName k = true) :
    admissible (keyPath split k) data fs (writeInplace split k data) = false := by
  have hkp := isKeyPath_keyPath split k hk
  cases split
  · simp only [writeInplace, Bool.false_eq_true, if_false, List.nil_append, admissible_cons, opOK,
      hkp]
    simp
  · simp only [writeInplace, if_true, List.cons_append, List.nil_append, admissible_cons, opOK,
      hkp]
    simp

/-! ## the property, for the repaired code -/

/-- file level: at every crash point of the repaired writer the entry's file is the old one or
    the complete new one, and no other key's file changed. -/
theorem atomic_files (fs : FS) (split : Bool) (k : Key) (tag : Name) (data : Bytes)
    (hroot : fs.dirs [] = true) (hk : hexName k = true) :
    ∀ fs' ∈ crashStates fs (writeAtomic split k tag data),
      (∀ k', hexName k' = true → k' ≠ k →
          fs'.files (keyPath split k') = fs.files (keyPath split k')) ∧
      (fs'.files (keyPath split k) = fs.files (keyPath split k) ∨
        fs'.files (keyPath split k) = some data) := by
  intro fs' hm
  have h := admissible_crash_safe (keyPath split k) data (isKeyPath_keyPath split k hk) fs _
    (writeAtomic_admissible fs split k tag data hroot hk) fs' hm
  refine ⟨fun k' hk' hne => ?_, h.2⟩
  exact h.1 _ (isKeyPath_keyPath split k' hk') (fun e => hne (keyPath_inj split k' k e))

theorem queryNew_snd {E : Type} (C : Codec E) (split : Bool) (tag : Name) (fs : FS) (k : Key) (w : E) :
    (queryNew C split tag fs k w).2 =
      match lookupNew C fs split k with
      | some e => .hit e
      | none => .searched w := by
  unfold queryNew
  cases lookupNew C fs split k <;> rfl

/-- **C15, repaired code.**  The writer of entry `k := v` is killed at *any* instant
    (`fs' ∈ crashStates …`: before/after any system call, inside the write after any number of
    bytes), starting from *any* directory content `fs` (new entry, overwrite of an existing
    entry, unrelated or even unreadable files present).  Then a later fresh process

    1. asking for `k` sees exactly what it would have seen had the write never begun (the
       complete old entry, or "absent" → it searches and stores), or it hits the complete new
       entry `v` — nothing else, in particular nothing built from a partial file;
    2. asking for any other key `k'` sees exactly what it would have seen before: earlier
       entries stay readable;
    3. never raises (for every key, with whatever the directory contains). -/
theorem crash_safe {E : Type} (C : Codec E) (fs : FS) (split : Bool) (k : Key) (tag tag' : Name)
    (v : E) (hroot : fs.dirs [] = true) (hk : hexName k = true)
    (hrt : C.parse (C.ser v) = some v) :
    ∀ fs' ∈ crashStates fs (writeAtomic split k tag (C.ser v)), ∀ w : E,
      ((queryNew C split tag' fs' k w).2 = (queryNew C split tag' fs k w).2 ∨
        (queryNew C split tag' fs' k w).2 = .hit v) ∧
      (∀ k', hexName k' = true → k' ≠ k →
        (queryNew C split tag' fs' k' w).2 = (queryNew C split tag' fs k' w).2) ∧
      (∀ k'', (queryNew C split tag' fs' k'' w).2 ≠ .raised) := by
  intro fs' hm w
  obtain ⟨hother, hself⟩ := atomic_files fs split k tag (C.ser v) hroot hk fs' hm
  simp only [queryNew_snd]
  refine ⟨?_, ?_, ?_⟩
  · rcases hself with h | h
    · left; simp only [lookupNew, readEntry, h]
    · right; simp only [lookupNew, readEntry, h, Option.bind_some, hrt]
  · intro k' hk' hne
    simp only [lookupNew, readEntry, hother k' hk' hne]
  · intro k''
    split <;> simp

/-- the same crash states are harmless for the *old* reader too, provided the directory held
    only complete entries before: the atomic writer alone already removes the poisoning. -/
theorem atomic_writer_old_reader {E : Type} (C : Codec E) (fs : FS) (split : Bool) (k : Key)
    (tag : Name) (v : E) (hroot : fs.dirs [] = true) (hk : hexName k = true)
    (hrt : C.parse (C.ser v) = some v)
    (hwf : ∀ k', hexName k' = true → lookupOld C fs split k' ≠ .raises) :
    ∀ fs' ∈ crashStates fs (writeAtomic split k tag (C.ser v)),
      ∀ k', hexName k' = true → lookupOld C fs' split k' ≠ .raises := by
  intro fs' hm k' hk'
  obtain ⟨hother, hself⟩ := atomic_files fs split k tag (C.ser v) hroot hk fs' hm
  by_cases e : k' = k
  · subst e
    rcases hself with h | h
    · have := hwf k' hk'
      simpa only [lookupOld, h] using this
    · simp [lookupOld, h, hrt]
  · have := hwf k' hk'
    simpa only [lookupOld, hother k' hk' e] using this

/-- a whole sequence of later processes (each fresh, each asking for some key and storing what
    it searched): none of them ever raises — the repaired reader cannot be poisoned by
    *anything* the directory contains. -/
def laterNew {E} (C : Codec E) (split : Bool) (tag : Name) : FS → List (Key × E) → List (Outcome E)
  | _, [] => []
  | fs, (k, w) :: rest =>
    let r := queryNew C split tag fs k w
    r.2 :: laterNew C split tag r.1 rest

theorem new_reader_never_raises {E} (C : Codec E) (split : Bool) (tag : Name) (fs : FS)
    (qs : List (Key × E)) : ∀ o ∈ laterNew C split tag fs qs, o ≠ .raised := by
  induction qs generalizing fs with
  | nil => simp [laterNew]
  | cons q rest ih =>
    obtain ⟨k, w⟩ := q
    intro o ho
    simp only [laterNew, List.mem_cons] at ho
    rcases ho with rfl | ho
    · rw [queryNew_snd]; split <;> simp
    · exact ih _ o ho

/-! ## the code as it was: the property is false -/

def laterOld {E} (C : Codec E) (split : Bool) : FS → List (Key × E) → List (Outcome E)
  | _, [] => []
  | fs, (k, w) :: rest =>
    let r := queryOld C split fs k w
    r.2 :: laterOld C split r.1 rest

/-- once the old reader raises for `k` it raises for ever: the failing lookup leaves the
    directory as it is, so every later process that asks for `k` fails the same way. -/
theorem old_raise_is_permanent {E} (C : Codec E) (split : Bool) (fs : FS) (k : Key)
    (h : lookupOld C fs split k = .raises) (ws : List E) :
    laterOld C split fs (ws.map fun w => (k, w)) = ws.map fun _ => .raised := by
  induction ws with
  | nil => rfl
  | cons w rest ih =>
    simp only [List.map_cons, laterOld, queryOld, h]
    rw [ih]

/-- **Negation of C15 for the in-place protocol, for every key, value and directory state**:
    (`pickle.load` of an empty file raises `EOFError`, i.e. `parse [] = none`).
    Killing the writer right after `open(fname,'wb+')` leaves an empty file; from then on every
    later process asking for that contraction fails, permanently. -/
theorem inplace_crash_poisons {E} (C : Codec E) (hempty : C.parse [] = none) (fs : FS) (split : Bool)
    (k : Key) (v : E) (hroot : fs.dirs [] = true) :
    ∃ fs' ∈ crashStates fs (writeInplace split k (C.ser v)),
      ∀ ws : List E, laterOld C split fs' (ws.map fun w => (k, w)) = ws.map fun _ => .raised := by
  cases split
  · refine ⟨fs.step (.create (keyPath false k)), ?_, old_raise_is_permanent C false _ k ?_⟩
    · simp [writeInplace, crashStates]
    · simp [lookupOld, FS.step, FS.canStep, keyPath, FS.parent, hroot, files_setFile, hempty]
  · refine ⟨(fs.step (.mkdir (FS.parent (keyPath true k)))).step (.create (keyPath true k)), ?_,
      old_raise_is_permanent C true _ k ?_⟩
    · simp [writeInplace, crashStates]
    · simp [lookupOld, FS.step, FS.canStep, keyPath, FS.parent, files_setFile, hempty]

/-- the in-place writer is still survivable with the repaired *reader*, under the (weak) pickle
    assumption that a prefix of a pickle never loads as a *different* complete entry: the later
    process then sees the old entry, the new entry, or nothing.  (The old entry can be lost —
    allowed by the property — but nothing wrong is ever used and nobody raises.) -/
theorem inplace_writer_new_reader {E} (C : Codec E) (fs : FS) (split : Bool) (k : Key) (v : E)
    (hroot : fs.dirs [] = true) (_hk : hexName k = true)
    (hpre : ∀ j, C.parse ((C.ser v).take j) = none ∨ C.parse ((C.ser v).take j) = some v) :
    ∀ fs' ∈ crashStates fs (writeInplace split k (C.ser v)),
      (lookupNew C fs' split k = lookupNew C fs split k ∨ lookupNew C fs' split k = none ∨
        lookupNew C fs' split k = some v) ∧
      (∀ k', hexName k' = true → k' ≠ k → lookupNew C fs' split k' = lookupNew C fs split k') := by
  intro fs' hm
  have hkey : ∀ k', k' ≠ k → keyPath split k' ≠ keyPath split k :=
    fun k' hne e => hne (keyPath_inj split k' k e)
  -- the files: other keys untouched; the entry's file is the old content or a prefix of the new
  have hfiles : (∀ p, p ≠ keyPath split k → fs'.files p = fs.files p) ∧
      (fs'.files (keyPath split k) = fs.files (keyPath split k) ∨
        ∃ j, fs'.files (keyPath split k) = some ((C.ser v).take j)) := by
    have hcreate : ∀ g : FS, g.dirs (FS.parent (keyPath split k)) = true →
        (g.step (.create (keyPath split k))).files (keyPath split k) = some [] := by
      intro g hg; simp [FS.step, FS.canStep, hg, files_setFile]
    have happ : ∀ (g : FS) (b : Bytes), g.files (keyPath split k) = some [] →
        (g.step (.append (keyPath split k) b)).files (keyPath split k) = some b := by
      intro g b hg; simp [FS.step, FS.canStep, hg, files_setFile]
    have hoth : ∀ (g : FS) (op : Op), (match op with
          | .mkdir _ => True | .create p => p = keyPath split k
          | .append p _ => p = keyPath split k | _ => False) →
        ∀ p, p ≠ keyPath split k → (g.step op).files p = g.files p := by
      intro g op hop p hp
      apply files_step_other
      cases op <;> simp_all
    cases split
    · simp only [writeInplace, Bool.false_eq_true, if_false, List.nil_append, crashStates, partials,
        List.mem_cons, List.mem_append, List.mem_map, List.mem_range,
        List.not_mem_nil, or_false] at hm
      have hd : fs.dirs (FS.parent (keyPath false k)) = true := by simpa [keyPath, FS.parent] using hroot
      rcases hm with rfl | rfl | ⟨j, _, rfl⟩ | rfl
      · exact ⟨fun _ _ => rfl, Or.inl rfl⟩
      · exact ⟨hoth fs _ rfl, Or.inr ⟨0, by rw [hcreate fs hd]; rfl⟩⟩
      · refine ⟨fun p hp => ?_, Or.inr ⟨j, ?_⟩⟩
        · rw [hoth _ (.append _ _) rfl p hp, hoth fs _ rfl p hp]
        · rw [happ _ _ (hcreate fs hd)]
      · refine ⟨fun p hp => ?_, Or.inr ⟨(C.ser v).length, ?_⟩⟩
        · rw [hoth _ (.append _ _) rfl p hp, hoth fs _ rfl p hp]
        · rw [happ _ _ (hcreate fs hd), List.take_length]
    · simp only [writeInplace, if_true, List.cons_append, List.nil_append, crashStates, partials,
        List.mem_cons, List.mem_append, List.mem_map, List.mem_range,
        List.not_mem_nil, or_false, List.nil_append] at hm
      have hd : (fs.step (.mkdir (FS.parent (keyPath true k)))).dirs (FS.parent (keyPath true k)) = true := by
        simp [FS.step, FS.canStep]
      have hm0 : ∀ p, (fs.step (.mkdir (FS.parent (keyPath true k)))).files p = fs.files p :=
        fun p => files_step_other fs _ p trivial
      rcases hm with rfl | rfl | rfl | ⟨j, _, rfl⟩ | rfl
      · exact ⟨fun _ _ => rfl, Or.inl rfl⟩
      · exact ⟨fun p _ => hm0 p, Or.inl (hm0 _)⟩
      · exact ⟨fun p hp => by rw [hoth _ _ rfl p hp, hm0], Or.inr ⟨0, by rw [hcreate _ hd]; rfl⟩⟩
      · refine ⟨fun p hp => ?_, Or.inr ⟨j, ?_⟩⟩
        · rw [hoth _ (.append _ _) rfl p hp, hoth _ _ rfl p hp, hm0]
        · rw [happ _ _ (hcreate _ hd)]
      · refine ⟨fun p hp => ?_, Or.inr ⟨(C.ser v).length, ?_⟩⟩
        · rw [hoth _ (.append _ _) rfl p hp, hoth _ _ rfl p hp, hm0]
        · rw [happ _ _ (hcreate _ hd), List.take_length]
  refine ⟨?_, fun k' _ hne => ?_⟩
  · rcases hfiles.2 with h | ⟨j, h⟩
    · left; simp only [lookupNew, readEntry, h]
    · right
      simp only [lookupNew, readEntry, h, Option.bind_some]
      exact hpre j
  · simp only [lookupNew, readEntry, hfiles.1 _ (hkey k' hne)]

/-! ## the prefix discipline: in-place writers are survivable with the tolerant reader -/

/-- **Soundness of the weaker checker** `admissibleP`: at every crash point other keys' files are
    untouched and the entry's file holds its old content or a prefix of the new content. -/
theorem admissibleP_crash_safe (f : Path) (B : Bytes) (hf : isKeyPath f = true) (fs : FS)
    (ops : List Op) (ha : admissibleP f B fs ops = true) :
    ∀ fs' ∈ crashStates fs ops,
      (∀ p, isKeyPath p = true → p ≠ f → fs'.files p = fs.files p) ∧
      (fs'.files f = fs.files f ∨ ∃ j, fs'.files f = some (B.take j)) :=
  invP_crashStates fs f B hf ops fs ⟨fun _ _ _ => rfl, Or.inl rfl⟩ ha

/-- the in-place writer obeys the prefix discipline -/
theorem writeInplace_admissibleP (fs : FS) (split : Bool) (k : Key) (data : Bytes)
    (hroot : fs.dirs [] = true) :
    admissibleP (keyPath split k) data fs (writeInplace split k data) = true := by
  cases split
  · simp only [writeInplace, Bool.false_eq_true, if_false, List.nil_append, admissibleP_cons,
      admissibleP, opOKP, beq_self_eq_true, Bool.true_or, if_true, Bool.true_and, Bool.and_true]
    simp [FS.step, FS.canStep, keyPath, FS.parent, hroot, files_setFile]
  · simp only [writeInplace, if_true, List.cons_append, List.nil_append, admissibleP_cons,
      admissibleP, opOKP, beq_self_eq_true, Bool.true_or, if_true, Bool.true_and, Bool.and_true]
    simp [FS.step, FS.canStep, keyPath, FS.parent, files_setFile]

/-- **Any writer whose system calls pass `admissibleP`** (in particular: any in-place writer
    that only ever extends the entry's file towards the complete pickle) **is crash-safe for
    the tolerant reader**, provided a prefix of the pickle of `v` never loads as a different
    entry: the later process finds the old entry, the new entry `v`, or nothing (and searches);
    other entries are untouched.  (Nobody raises: `new_reader_never_raises`.) -/
theorem prefix_discipline_new_reader {E} (C : Codec E) (fs : FS) (split : Bool) (k : Key) (v : E)
    (ops : List Op) (hk : hexName k = true)
    (ha : admissibleP (keyPath split k) (C.ser v) fs ops = true)
    (hpre : ∀ j, C.parse ((C.ser v).take j) = none ∨ C.parse ((C.ser v).take j) = some v) :
    ∀ fs' ∈ crashStates fs ops,
      (lookupNew C fs' split k = lookupNew C fs split k ∨ lookupNew C fs' split k = none ∨
        lookupNew C fs' split k = some v) ∧
      (∀ k', hexName k' = true → k' ≠ k → lookupNew C fs' split k' = lookupNew C fs split k') := by
  intro fs' hm
  obtain ⟨hother, hself⟩ := admissibleP_crash_safe (keyPath split k) (C.ser v)
    (isKeyPath_keyPath split k hk) fs ops ha fs' hm
  refine ⟨?_, fun k' hk' hne => ?_⟩
  · rcases hself with h | ⟨j, h⟩
    · left; simp only [lookupNew, readEntry, h]
    · right
      simp only [lookupNew, readEntry, h, Option.bind_some]
      exact hpre j
  · simp only [lookupNew, readEntry,
      hother _ (isKeyPath_keyPath split k' hk') (fun e => hne (keyPath_inj split k' k e))]

/-! ## later processes opened with the default arguments (`directory_split="auto"`) -/

/-- the repaired writer keeps its temporary file next to the entry, never directly below the
    cache directory of a split cache -/
theorem writeAtomic_layoutOK (k : Key) (tag : Name) (data : Bytes) :
    layoutOK true (writeAtomic true k tag data) = true := by
  simp [layoutOK, writeAtomic, rootClean, tmpPath, keyPath, FS.parent]

/-- **auto_layout_stable.**  In a split cache (nothing but sub-directories below the cache
    directory) a writer whose system calls pass `layoutOK` — in particular the repaired writer —
    can be killed at any instant: still no regular file lies directly below the cache directory,
    so a later process opened with `directory_split="auto"` can only conclude "split", whichever
    entry the directory listing yields first. -/
theorem auto_layout_stable (fs : FS) (ops : List Op) (h0 : ∀ n, fs.files [n] = none)
    (hl : layoutOK true ops = true) :
    ∀ fs' ∈ crashStates fs ops, ¬ autoMayBe fs' false := by
  intro fs' hm hauto
  have hr := rootNoFiles_crashStates ops fs h0 hl fs' hm
  simp only [autoMayBe, Bool.false_eq_true, if_false] at hauto
  obtain ⟨n, hn⟩ := hauto
  rw [hr n] at hn
  cases hn

/-- a temporary file directly below the cache directory (e.g. `tempfile.mkstemp(dir=root)`)
    breaks this: after a kill "auto" may conclude "flat" and miss every entry -/
theorem root_tmp_counterexample :
    ∃ fs' ∈ crashStates (FS.ofList [([['a','b'], ['c']], [1])] [[['a','b']]])
        [Op.create [['t','m','p']], Op.append [['t','m','p']] [7], Op.rename [['t','m','p']] [['a','b'], ['d']]],
      autoMayBe fs' false := by
  refine ⟨(FS.ofList [([['a','b'], ['c']], [1])] [[['a','b']]]).step (.create [['t','m','p']]), ?_, ?_⟩
  · simp [crashStates]
  · simp only [autoMayBe, Bool.false_eq_true, if_false]
    exact ⟨['t','m','p'], by decide⟩

/-! ## the file protocol implements the abstract `disk` map of C14 -/

section Refinement
open Cotengra.Reusable

/-- the un-crashed repaired writer installs exactly the new content at the key's file … -/
theorem run_writeAtomic_self (fs : FS) (split : Bool) (k : Key) (tag : Name) (data : Bytes)
    (hroot : fs.dirs [] = true) :
    (fs.run (writeAtomic split k tag data)).files (keyPath split k) = some data := by
  cases split
  · simp only [FS.run, writeAtomic, Bool.false_eq_true, if_false, List.nil_append, List.foldl]
    simp [FS.step, FS.canStep, tmpPath, keyPath, FS.parent, hroot, files_setFile, dirs_setFile]
  · simp only [FS.run, writeAtomic, if_true, List.cons_append, List.nil_append, List.foldl]
    simp [FS.step, FS.canStep, tmpPath, keyPath, FS.parent, files_setFile, dirs_setFile]

theorem run_mem_crashStates (fs : FS) (ops : List Op) : fs.run ops ∈ crashStates fs ops := by
  induction ops generalizing fs with
  | nil => simp [FS.run, crashStates]
  | cons op rest ih =>
    simp only [FS.run, List.foldl_cons, crashStates, List.mem_cons, List.mem_append]
    right; right
    exact ih (fs.step op)

/-- … and leaves every other key's entry as it was -/
theorem run_writeAtomic_other (fs : FS) (split : Bool) (k : Key) (tag : Name) (data : Bytes)
    (hroot : fs.dirs [] = true) (hk : hexName k = true) (k' : Key) (hk' : hexName k' = true)
    (hne : k' ≠ k) :
    (fs.run (writeAtomic split k tag data)).files (keyPath split k') = fs.files (keyPath split k') :=
  (atomic_files fs split k tag data hroot hk _ (run_mem_crashStates _ _)).1 k' hk' hne

/-- C14's abstract dictionary `dd` describes the directory `fs`: there is a directory, and for
    every (hex) key what the process would find is what the files hold -/
def Abs (C : Codec Con) (split : Bool) (fs : FS) (dd : DD Key) : Prop :=
  ∀ k, hexName k = true → dd.view k = lookupNew C fs split k

/-- **The file protocol implements C14's `disk` map.**  One query of a process with the default
    policy: the file-system level reader/writer of C15 (`queryNew`) and the abstract policy of
    C14 (`maybeRun`) give the same answer — a hit with the same entry, or a search whose result
    is stored — and the abstraction relation is kept (so it holds along whole histories). -/
theorem queryNew_refines_maybeRun (C : Codec Con) (hrt : ∀ v, C.parse (C.ser v) = some v)
    (split : Bool) (tag : Name) (fs : FS) (dd : DD Key) (n : Nat) (k : Key) (w : Con)
    (hroot : fs.dirs [] = true) (hk : hexName k = true) (habs : Abs C split fs dd) :
    ((∃ e, (queryNew C split tag fs k w).2 = .hit e ∧
        (maybeRun { overwrite := .no, cacheOnly := false } k w { dd := dd, searches := n }).2 = .ok false e) ∨
     ((queryNew C split tag fs k w).2 = .searched w ∧
        (maybeRun { overwrite := .no, cacheOnly := false } k w { dd := dd, searches := n }).2 = .ok true w)) ∧
    Abs C split (queryNew C split tag fs k w).1
      (maybeRun { overwrite := .no, cacheOnly := false } k w { dd := dd, searches := n }).1.dd := by
  have hv := habs k hk
  cases hl : lookupNew C fs split k with
  | some e =>
    rw [hl] at hv
    rw [maybeRun_hit _ k w e _ hv rfl]
    have hq : queryNew C split tag fs k w = (fs, .hit e) := by simp only [queryNew, hl]
    rw [hq]
    refine ⟨Or.inl ⟨e, rfl, rfl⟩, ?_⟩
    intro k' hk'
    simp only [DD.view_load]
    exact habs k' hk'
  | none =>
    rw [hl] at hv
    rw [maybeRun_missing _ k w _ hv rfl]
    have hq : queryNew C split tag fs k w =
        (fs.run (writeAtomic split k tag (C.ser w)), .searched w) := by simp only [queryNew, hl]
    rw [hq]
    refine ⟨Or.inr ⟨rfl, rfl⟩, ?_⟩
    intro k' hk'
    rw [DD.view_set]
    by_cases e : k' = k
    · subst e
      simp only [if_true, lookupNew, readEntry, run_writeAtomic_self fs split k' tag _ hroot,
        Option.bind_some, hrt]
    · simp only [e, if_false, DD.view_load, lookupNew, readEntry,
        run_writeAtomic_other fs split k tag _ hroot hk k' hk' e]
      exact habs k' hk'

end Refinement

/-! ## non-vacuity: a concrete codec, directory and keys -/

/-- toy stand-in for pickle: one length byte, then the payload -/
def toy : Codec (List Nat) where
  ser e := e.length :: e
  parse b := match b with
    | [] => none
    | n :: rest => if n ≤ rest.length then some (rest.take n) else none

theorem toy_roundtrip (e : List Nat) : toy.parse (toy.ser e) = some e := by
  simp [toy]

theorem toy_empty : toy.parse [] = none := rfl

/-- a strict prefix of a toy pickle does not load -/
theorem toy_prefix (e : List Nat) (j : Nat) (hj : j < (toy.ser e).length) :
    toy.parse ((toy.ser e).take j) = none := by
  cases j with
  | zero => rfl
  | succ j =>
    simp only [toy, List.length_cons] at hj
    simp only [toy, List.take_succ_cons, List.length_take]
    rw [if_neg]
    omega

def k1 : Key := "3fa9".toList
def k2 : Key := "3f07".toList
/-- a directory (split layout) that already holds complete entries for `k1` and `k2` -/
def fs0 : FS := FS.ofList [(keyPath true k1, toy.ser [7, 7]), (keyPath true k2, toy.ser [5])]
  [[k1.take 2]]

example : fs0.dirs [] = true := by decide
example : hexName k1 = true := by decide
/-- the hypotheses of `crash_safe` are satisfiable, and its three cases all occur: there are
    crash points after which a later process still sees the old entry, and one (after the
    rename) after which it sees the new one -/
example : (crashStates fs0 (writeAtomic true k1 "77".toList (toy.ser [1, 2, 3]))).length = 9 := by
  decide
example : ((crashStates fs0 (writeAtomic true k1 "77".toList (toy.ser [1, 2, 3]))).map
    fun s => lookupNew toy s true k1) =
    [some [7, 7], some [7, 7], some [7, 7], some [7, 7], some [7, 7], some [7, 7], some [7, 7],
     some [7, 7], some [1, 2, 3]] := by decide
example : ((crashStates fs0 (writeAtomic true k1 "77".toList (toy.ser [1, 2, 3]))).map
    fun s => lookupNew toy s true k2) = List.replicate 9 (some [5]) := by decide

/-- **Concrete counter-example for the code as it was**: overwrite of an existing entry, writer
    killed after 2 of the 4 bytes; the file exists, does not unpickle, and the old reader raises
    for this contraction in every later process (here: three of them). -/
theorem inplace_write_counterexample :
    ∃ fs' ∈ crashStates fs0 (writeInplace true k1 (toy.ser [1, 2, 3])),
      fs'.files (keyPath true k1) = some [3, 1] ∧
      lookupOld toy fs' true k1 = .raises ∧
      laterOld toy true fs' [(k1, [9]), (k1, [9]), (k1, [9])] = [.raised, .raised, .raised] := by
  refine ⟨((fs0.step (.mkdir [k1.take 2])).step (.create (keyPath true k1))).step
    (.append (keyPath true k1) [3, 1]), ?_, ?_, ?_, ?_⟩
  · simp only [writeInplace, if_true, List.cons_append, List.nil_append, crashStates, partials,
      List.mem_cons, List.mem_append, List.mem_map, List.mem_range]
    right; right; right; left
    exact ⟨2, by decide, rfl⟩
  · decide
  · decide
  · decide

/-- … while the repaired reader on the very same poisoned directory simply searches again and
    repairs the entry -/
example :
    let bad := ((fs0.step (.mkdir [k1.take 2])).step (.create (keyPath true k1))).step
      (.append (keyPath true k1) [3, 1])
    laterNew toy true "78".toList bad [(k1, [9]), (k1, [4])] = [.searched [9], .hit [9]] := by
  decide

end Cotengra.C15
