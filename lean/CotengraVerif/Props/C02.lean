import CotengraVerif.Model.RecipeCache

/-!
# C02 — tree transformations never change the value the tree computes

The value a tree computes is the value of the program `extract_contractions` builds from the
per-node recipes; C01 (`admissible_sound`, `model_extract_admissible`) shows that a program built
from recipes that *agree with the index orders currently returned by `get_inds`* is the einsum,
for every network, tree and valid index order. What a history of transformations can break is
exactly that agreement: recipes are cached, and mutators re-create nodes and re-order indices.

This file proves the cache discipline for **all histories** over the model
`Model/RecipeCache.lean`:

* `Coherent`: every cached recipe equals the recipe function applied to the *currently cached*
  index orders of the node and its two children (so `get_inds` returns exactly those).
* getters (`get_inds`, `get_einsum_eq`/`get_tensordot_*`) preserve `Coherent` (lazy caching never
  overwrites), every repaired mutator (arbitrary change followed by `_reset_contraction_recipes`)
  re-establishes it, hence every history over getters and repaired mutators is coherent
  (`reachable_coherent`), and every recipe handed to the contractor is the recipe of the index
  orders in force (`recipe_matches_final_inds`).
* the discipline *before* the repair (mutators that keep the recipes of surviving nodes) is not
  coherent: `unfixed_counterexample` (the history behind defects 7(b), 7(c) of DESIGN.md).

That every mutator of the real class does end with the reset is a source-derived fact table,
regenerated from /repo's AST on every run (`Generated/FactsC02.lean`, obligation
`mutators_end_with_reset`); that the real `info` dictionaries are coherent after every step of
random histories, and that the real programs are admissible and compute the reference value, is
checked by `harness/c02.py`.
-/
namespace Cotengra.C02
open Cotengra Cotengra.RC

variable {ρ : Type}

/-- every cached recipe agrees with the currently cached index orders of the node and its
    children -/
def Coherent (R : List Ix → List Ix → List Ix → ρ) (s : RC ρ) : Prop :=
  ∀ p x, s.lookupRec p = some x →
    ∃ l r pI lI rI, s.childrenOf p = some (l, r) ∧ s.lookupInds p = some pI ∧
      s.lookupInds l = some lI ∧ s.lookupInds r = some rI ∧ x = R pI lI rI

theorem coherent_init (R : List Ix → List Ix → List Ix → ρ) (ch) : Coherent R (RC.empty ch : RC ρ) := by
  intro p x h
  simp [RC.empty, lookupRec] at h

/-! ### `get_inds` -/

theorem getInds_fst_recs (s : RC ρ) (p v) : (s.getInds p v).1.recs = s.recs := by
  unfold getInds; split <;> rfl

theorem getInds_fst_ch (s : RC ρ) (p v) : (s.getInds p v).1.ch = s.ch := by
  unfold getInds; split <;> rfl

/-- lazy caching never overwrites: what was cached stays cached with the same value -/
theorem getInds_keeps (s : RC ρ) (p v q w) (h : s.lookupInds q = some w) :
    (s.getInds p v).1.lookupInds q = some w := by
  unfold getInds
  split
  · exact h
  · rename_i hn
    simp only [lookupInds] at *
    by_cases e : q = p
    · subst e; rw [hn] at h; cases h
    · have hb : (q == p) = false := by simpa using e
      simp [List.lookup, hb, h]

/-- the value `get_inds` returns is cached afterwards -/
theorem getInds_cached (s : RC ρ) (p v) :
    (s.getInds p v).1.lookupInds p = some (s.getInds p v).2 := by
  unfold getInds
  split
  · rename_i w h; exact h
  · simp [lookupInds, List.lookup]

theorem coherent_getInds (R : List Ix → List Ix → List Ix → ρ) (s : RC ρ) (p v)
    (hc : Coherent R s) : Coherent R (s.getInds p v).1 := by
  intro q x hx
  have hx' : s.lookupRec q = some x := by
    simpa [lookupRec, getInds_fst_recs] using hx
  obtain ⟨l, r, pI, lI, rI, h1, h2, h3, h4, h5⟩ := hc q x hx'
  exact ⟨l, r, pI, lI, rI, by simpa [childrenOf, getInds_fst_ch] using h1,
    getInds_keeps s p v q pI h2, getInds_keeps s p v l lI h3, getInds_keeps s p v r rI h4, h5⟩

/-! ### `get_einsum_eq`, `get_tensordot_axes`, `get_tensordot_perm` -/

/-- the recipe handed out is the recipe of the index orders in force afterwards -/
theorem recipe_matches_final_inds (R : List Ix → List Ix → List Ix → ρ) (s : RC ρ) (p vp vl vr x)
    (hc : Coherent R s) (h : (getRecipe R s p vp vl vr).2 = some x) :
    ∃ l r pI lI rI, (getRecipe R s p vp vl vr).1.childrenOf p = some (l, r) ∧
      (getRecipe R s p vp vl vr).1.lookupInds p = some pI ∧
      (getRecipe R s p vp vl vr).1.lookupInds l = some lI ∧
      (getRecipe R s p vp vl vr).1.lookupInds r = some rI ∧ x = R pI lI rI := by
  unfold getRecipe at *
  split at h
  · rename_i y hy
    simp only [hy]
    simp only at h; cases h
    exact hc p _ hy
  · rename_i hn
    simp only [hn]
    split at h
    · simp at h
    · rename_i l r hch
      simp only [hch]
      simp only at h
      simp only [Option.some.injEq] at h
      subst h
      refine ⟨l, r, _, _, _, ?_, ?_, ?_, ?_, rfl⟩
      · simp [childrenOf, getInds_fst_ch] at hch ⊢; exact hch
      · exact getInds_cached _ p vp
      · exact getInds_keeps _ p vp l _ (getInds_keeps _ r vr l _ (getInds_cached s l vl))
      · exact getInds_keeps _ p vp r _ (getInds_cached _ r vr)

theorem coherent_getRecipe (R : List Ix → List Ix → List Ix → ρ) (s : RC ρ) (p vp vl vr)
    (hc : Coherent R s) : Coherent R (getRecipe R s p vp vl vr).1 := by
  unfold getRecipe
  split
  · exact hc
  · rename_i hn
    split
    · exact hc
    · rename_i l r hch
      simp only
      -- the state after the three `get_inds`
      have hc3 : Coherent R (((s.getInds l vl).1.getInds r vr).1.getInds p vp).1 :=
        coherent_getInds R _ p vp (coherent_getInds R _ r vr (coherent_getInds R s l vl hc))
      intro q x hx
      by_cases e : q = p
      · subst e
        simp only [lookupRec, List.lookup, beq_self_eq_true] at hx
        cases hx
        refine ⟨l, r, _, _, _, ?_, ?_, ?_, ?_, rfl⟩
        · simp [childrenOf, getInds_fst_ch] at hch ⊢; exact hch
        · exact getInds_cached _ q vp
        · exact getInds_keeps _ q vp l _ (getInds_keeps _ r vr l _ (getInds_cached s l vl))
        · exact getInds_keeps _ q vp r _ (getInds_cached _ r vr)
      · have hx' : (((s.getInds l vl).1.getInds r vr).1.getInds p vp).1.lookupRec q = some x := by
          simp only [lookupRec, List.lookup] at hx
          have : (q == p) = false := by simpa using e
          simpa [this, lookupRec] using hx
        obtain ⟨l', r', pI, lI, rI, h1, h2, h3, h4, h5⟩ := hc3 q x hx'
        exact ⟨l', r', pI, lI, rI, h1, h2, h3, h4, h5⟩

/-! ### mutators -/

theorem coherent_mutator (R : List Ix → List Ix → List Ix → ρ) (s : RC ρ) (ch' inds' k) :
    Coherent R (s.mutate ch' inds' k).resetRecipes := by
  intro p x h
  simp [resetRecipes, lookupRec] at h

/-- a history without un-repaired mutators -/
def Repaired : List (Op ρ) → Prop
  | [] => True
  | .mutatorNoReset _ _ _ :: _ => False
  | _ :: t => Repaired t

theorem coherent_step (R : List Ix → List Ix → List Ix → ρ) (s : RC ρ) (o : Op ρ)
    (ho : ∀ a b c, o ≠ .mutatorNoReset a b c) (hc : Coherent R s) : Coherent R (RC.step R s o) := by
  cases o with
  | getInds p v => exact coherent_getInds R s p v hc
  | getRecipe p vp vl vr => exact coherent_getRecipe R s p vp vl vr hc
  | mutator ch' inds' k => exact coherent_mutator R s ch' inds' k
  | mutatorNoReset a b c => exact absurd rfl (ho a b c)

/-- **every history** over the getters and the repaired mutators, from any initial structure,
    leaves the recipe caches coherent -/
theorem reachable_coherent (R : List Ix → List Ix → List Ix → ρ) (ch) (ops : List (Op ρ))
    (h : Repaired ops) : Coherent R (RC.run R (RC.empty ch) ops) := by
  unfold RC.run
  suffices ∀ s : RC ρ, Coherent R s → Coherent R (ops.foldl (RC.step R) s) from
    this _ (coherent_init R ch)
  induction ops with
  | nil => intro s hs; exact hs
  | cons o t ih =>
    intro s hs
    simp only [List.foldl_cons]
    cases o with
    | getInds p v => exact ih h _ (coherent_getInds R s p v hs)
    | getRecipe p vp vl vr => exact ih h _ (coherent_getRecipe R s p vp vl vr hs)
    | mutator ch' inds' k => exact ih h _ (coherent_mutator R s ch' inds' k)
    | mutatorNoReset a b c => exact absurd h (by simp [Repaired])

/-! ### the discipline before the repair is not coherent

The history of defect 7(c): contract (caches the parent's recipe), re-create the child `[0,1]`
with another axis order without touching the parent `[0,1,2]`, whose recipe survives. -/

abbrev Triple := List Ix × List Ix × List Ix

def exCh : List (Node × Node × Node) := [([0, 1], [0], [1]), ([0, 1, 2], [0, 1], [2])]

def exOps : List (Op Triple) :=
  [ .getRecipe [0, 1, 2] [5] [5, 6] [6],
    -- the child [0,1] is re-created; its `inds` is re-derived in another order; the parent's
    -- cached recipe is kept (`keepRec` true for the parent)
    .mutatorNoReset exCh [([0, 1, 2], [5]), ([0, 1], [6, 5]), ([2], [6])] (fun p => p == [0, 1, 2]) ]

theorem unfixed_counterexample :
    ¬ Coherent (fun a b c => ((a, b, c) : Triple)) (RC.run (fun a b c => (a, b, c)) (RC.empty exCh) exOps) := by
  intro h
  have hl : (RC.run (fun a b c => ((a, b, c) : Triple)) (RC.empty exCh) exOps).lookupRec [0, 1, 2]
      = some ([5], [5, 6], [6]) := by decide
  obtain ⟨l, r, pI, lI, rI, h1, h2, h3, h4, h5⟩ := h _ _ hl
  have hch : (RC.run (fun a b c => ((a, b, c) : Triple)) (RC.empty exCh) exOps).childrenOf [0, 1, 2]
      = some ([0, 1], [2]) := by decide
  rw [hch] at h1
  cases h1
  have hli : (RC.run (fun a b c => ((a, b, c) : Triple)) (RC.empty exCh) exOps).lookupInds [0, 1]
      = some [6, 5] := by decide
  rw [hli] at h3
  cases h3
  simp at h5

/-- non-vacuity: the same history with the repaired mutator is coherent and non-trivial -/
example : Repaired ([ .getRecipe [0, 1, 2] [5] [5, 6] [6],
    .mutator exCh [([0, 1, 2], [5]), ([0, 1], [6, 5]), ([2], [6])] (fun p => p == [0, 1, 2]),
    .getRecipe [0, 1, 2] [5] [5, 6] [6] ] : List (Op Triple)) := by simp [Repaired]

end Cotengra.C02
