import CotengraVerif.Model.ReuseNest
import CotengraVerif.Props.C16

/-!
# C16 — re-entrant (nested) queries, in any thread interleaving

Model: `Model/ReuseNest.lean` — every thread carries a stack of frames; a trial function of a
running sub-search may put queries (to the same or another optimizer object, through `search` or
`__call__`) before it reports; what each query's sub-search does is the nesting tree `QTree`.

* `nested_isolation` — every schedule, every assignment of nesting trees (any depth and width) to
  any number of threads, every trial behaviour, every hash function, per-object `overwrite` /
  `cache_only`, all three kinds of object: a tree returned to *any* query (outer or nested) is a
  tree of the contraction that query asked about.
* `nested_isolation_seq` — the one-thread instance (`runNested`).
* `register_first_counterexample` (`decide`) — with the registration of the sub-optimizer moved in
  front of `opt.search` (seeded change C16-r2-2) the outer query of a depth-1 nesting gets the
  nested query's tree; the same history on the real order is right.
* `nested_no_spurious_errors` — if every sub-search anywhere in the nesting trees has a successful
  trial and `cache_only` is off, no call (outer or nested) raises, for every schedule.
* `nested_path_isolation` — the path interface (`__call__`): if the hash separates the
  contractions that are asked (`Keyed`), the path returned to any query, outer or nested, was
  found by a search on that query's contraction.  `path_collision_counterexample`: without the
  hypothesis it is false (that is C14's subject, not C16's).

Not modelled: `on_trial_error='raise'` (an exception of a nested query aborting the outer
search), pre-emption inside one dict operation, DiskDict files.
-/
namespace Cotengra.C16
open Cotengra Cotengra.Hyper Cotengra.Reuse Cotengra.ReuseNest

/-- slot `t` of the object holds an optimizer all of whose trees are trees of contraction `n` -/
def Reg (t : Nat) (r : NRState) (n : Nat) : Prop :=
  ∃ id opt, r.subopts t = some (id, opt) ∧ TreeOf n opt

/-- what the innermost frame of thread `t` relies on; `r` is the object it talks to -/
def TopOk (t : Nat) (r : NRState) (fr : Frame) : Prop :=
  match fr.pc with
  | .searching _ _ opt _ => TreeOf fr.q.net opt
  | .ran _ _ opt => TreeOf fr.q.net opt
  | .stored _ _ => Reg t r fr.q.net
  | .compare _ _ => Reg t r fr.q.net
  | .have true _ => Reg t r fr.q.net
  | _ => True

/-- a frame below the innermost one is inside a trial of its sub-search -/
def SearchingOk (fr : Frame) : Prop :=
  ∃ m id opt todo, fr.pc = .searching m id opt todo ∧ TreeOf fr.q.net opt

/-- every tree returned so far (to outer and nested queries) belongs to its query -/
def NResultsOk (th : NThread) : Prop :=
  ∀ r ∈ th.results, r.viaCall = false → ∀ n, r.got = some n → n = r.q.net

structure NLocalInv (t : Nat) (th : NThread) (objs : Nat → NRState) : Prop where
  results : NResultsOk th
  stack : ∀ fr below, th.stack = fr :: below →
    TopOk t (objs fr.obj) fr ∧ ∀ f ∈ below, SearchingOk f

def NInv (s : NSys) : Prop := ∀ t, NLocalInv t (s.threads t) s.objs

theorem topOk_of_searchingOk {t : Nat} {r : NRState} {fr : Frame} (h : SearchingOk fr) :
    TopOk t r fr := by
  obtain ⟨m, id, opt, todo, hpc, htree⟩ := h
  simp only [TopOk, hpc]
  exact htree

theorem treeOf_step (q : Query) (opt : HState) (s : Setting) (tr : Trial) (h : TreeOf q.net opt) :
    TreeOf q.net (runLog opt (stamp q [(s, tr)])) :=
  treeOf_runLog_stamp q [(s, tr)] h

/-- the object after the step (`r` itself when a nested query is pushed) -/
def robj (r : NRState) : Outcome → NRState
  | .cont _ _ r' _ => r'
  | .push _ _ => r
  | .pop _ _ r' => r'

/-- a step of `t`'s innermost frame never writes another thread's slot -/
theorem stepTop_subopts_other (cfg : NCfg) (t t' n : Nat) (fr : Frame) (r : NRState) (h : t' ≠ t) :
    (robj r (stepTop cfg t n fr r)).subopts t' = r.subopts t' := by
  unfold stepTop
  cases fr.pc with
  | start =>
    simp only
    cases fr.kind <;> simp only <;> (try split) <;> rfl
  | gotOpt => simp only; cases fr.kind <;> rfl
  | hashed m =>
    simp only
    split
    · split
      · rfl
      · simp only [robj]
        split
        · simp only [updFn, h, if_false]
        · rfl
    · split <;> rfl
  | searching m id opt todo =>
    simp only
    split
    · rfl
    · simp only [robj, writeThrough]
      split
      · split
        · simp only [updFn, h, if_false]
        · rfl
      · rfl
    · cases fr.kind <;> simp only <;> (try split) <;> rfl
  | ran m id opt =>
    simp only [robj]
    split
    · rfl
    · simp only [updFn, h, if_false]
  | stored m con =>
    simp only
    split
    · split <;> rfl
    · rfl
  | compare con old => simp only; split <;> rfl
  | «have» b con =>
    simp only
    split
    · rfl
    · split
      · split <;> rfl
      · rfl

def OutOk (t : Nat) (fr : Frame) : Outcome → Prop
  | .cont _ fr' r' _ => TopOk t r' fr' ∧ fr'.obj = fr.obj
  | .push fr' _ => SearchingOk fr'
  | .pop _ res _ => fr.viaCall = false → ∀ m, res = some m → m = fr.q.net

/-- the step of the innermost frame keeps what the frame relies on, hands a searching frame to
    the nested query, and returns only trees of the frame's own query -/
theorem stepTop_ok (cfg : NCfg) (hreg : cfg.registerFirst = false) (t n : Nat) (fr : Frame)
    (r : NRState) (h : TopOk t r fr) : OutOk t fr (stepTop cfg t n fr r) := by
  unfold stepTop
  cases hpc : fr.pc with
  | start =>
    simp only
    cases fr.kind with
    | reusable => simp only [OutOk, TopOk]; exact ⟨trivial, trivial⟩
    | autoCached =>
      simp only
      split
      · simp only [OutOk, TopOk]; exact ⟨trivial, trivial⟩
      · simp only [OutOk]; intro _ m hm; simpa using hm.symm
    | autoPlain =>
      simp only
      split
      · simp only [OutOk, TopOk]; exact ⟨trivial, trivial⟩
      · simp only [OutOk]; intro _ m hm; simpa using hm.symm
  | gotOpt =>
    simp only
    cases fr.kind with
    | autoPlain => simp only [OutOk, TopOk]; exact ⟨treeOf_init _, trivial⟩
    | reusable => simp only [OutOk, TopOk]; exact ⟨trivial, trivial⟩
    | autoCached => simp only [OutOk, TopOk]; exact ⟨trivial, trivial⟩
  | hashed m =>
    simp only
    split
    · split
      · simp only [OutOk]; intro _ m hm; cases hm
      · simp only [OutOk, TopOk]; exact ⟨treeOf_init _, trivial⟩
    · split
      · simp only [OutOk]; intro _ m hm; cases hm
      · simp only [OutOk, TopOk]; exact ⟨trivial, trivial⟩
  | searching m id opt todo =>
    simp only [TopOk, hpc] at h
    simp only
    split
    · exact ⟨_, _, _, _, rfl, h⟩
    · simp only [OutOk, TopOk]
      exact ⟨treeOf_step fr.q opt _ _ h, trivial⟩
    · cases fr.kind with
      | autoPlain => simp only [OutOk]; intro _ k hk; exact h k hk
      | reusable =>
        simp only
        split
        · simp only [OutOk]; intro _ k hk; cases hk
        · simp only [OutOk, TopOk]; exact ⟨h, trivial⟩
      | autoCached =>
        simp only
        split
        · simp only [OutOk]; intro _ k hk; cases hk
        · simp only [OutOk, TopOk]; exact ⟨h, trivial⟩
  | ran m id opt =>
    simp only [TopOk, hpc] at h
    simp only [hreg, Bool.false_eq_true, if_false, OutOk, TopOk]
    exact ⟨⟨id, opt, by simp, h⟩, trivial⟩
  | stored m con =>
    simp only [TopOk, hpc] at h
    simp only
    split
    · split
      · simp only [OutOk]; intro _ k hk; cases hk
      · simp only [OutOk, TopOk]; exact ⟨h, trivial⟩
    · simp only [OutOk, TopOk]; exact ⟨h, trivial⟩
  | compare con old =>
    simp only [TopOk, hpc] at h
    simp only
    split
    · simp only [OutOk, TopOk]; exact ⟨h, trivial⟩
    · simp only [OutOk, TopOk]; exact ⟨trivial, trivial⟩
  | «have» b con =>
    simp only
    split
    · simp only [OutOk]; intro hv; rename_i hc; rw [hv] at hc; cases hc
    · cases b with
      | true =>
        simp only [TopOk, hpc] at h
        obtain ⟨id, opt, hs, ht⟩ := h
        simp only [if_true, hs, OutOk]
        intro _ k hk; exact ht k hk
      | false =>
        simp only [Bool.false_eq_true, if_false, OutOk]
        intro _ k hk; simpa using hk.symm

theorem topOk_frame (t : Nat) (r r' : NRState) (fr : Frame) (hs : r'.subopts t = r.subopts t)
    (h : TopOk t r fr) : TopOk t r' fr := by
  unfold TopOk Reg at *
  cases hpc : fr.pc with
  | start => simp only
  | gotOpt => simp only
  | hashed m => simp only
  | searching m id opt todo => simpa [hpc] using h
  | ran m id opt => simpa [hpc] using h
  | stored m con => simpa [hpc, hs] using h
  | compare con old => simpa [hpc, hs] using h
  | «have» b con =>
    cases b with
    | true => simpa [hpc, hs] using h
    | false => simp only

theorem nResultsOk_snoc {th : NThread} (h : NResultsOk th) (x : Res)
    (hx : x.viaCall = false → ∀ n, x.got = some n → n = x.q.net) (l : List Res)
    (hl : l = th.results ++ [x]) : ∀ r ∈ l, r.viaCall = false → ∀ n, r.got = some n → n = r.q.net := by
  intro r hr
  rw [hl] at hr
  rcases List.mem_append.1 hr with hr | hr
  · exact h r hr
  · simp only [List.mem_singleton] at hr; subst hr; exact hx

/-- the stepping thread keeps its own invariant -/
theorem stepThread_inv (cfg : NCfg) (hreg : cfg.registerFirst = false) (t : Nat) (th : NThread)
    (objs : Nat → NRState) (hinv : NLocalInv t th objs) :
    NLocalInv t (stepThread cfg t th objs).1 (stepThread cfg t th objs).2.1 := by
  obtain ⟨hres, hst⟩ := hinv
  unfold stepThread
  cases hstack : th.stack with
  | nil =>
    simp only
    cases hq : th.queue with
    | nil =>
      simp only
      exact ⟨hres, by intro fr below hh; rw [hstack] at hh; cases hh⟩
    | cons c rest =>
      simp only
      refine ⟨hres, ?_⟩
      intro fr below hh
      simp only [List.cons.injEq] at hh
      obtain ⟨rfl, rfl⟩ := hh
      refine ⟨?_, by intro f hf; cases hf⟩
      cases c with
      | node q kind obj v trials => simp [TopOk, frameOf]
  | cons fr below =>
    obtain ⟨htop, hbelow⟩ := hst fr below hstack
    have hok := stepTop_ok cfg hreg t th.nalloc fr (objs fr.obj) htop
    simp only
    cases hs : stepTop cfg t th.nalloc fr (objs fr.obj) with
    | cont l fr' r' n' =>
      rw [hs] at hok
      simp only [OutOk] at hok
      simp only
      refine ⟨hres, ?_⟩
      intro f bl hh
      simp only [List.cons.injEq] at hh
      obtain ⟨rfl, rfl⟩ := hh
      refine ⟨?_, hbelow⟩
      rw [hok.2, updFn_same]
      exact hok.1
    | push fr' c =>
      rw [hs] at hok
      simp only [OutOk] at hok
      simp only
      refine ⟨hres, ?_⟩
      intro f bl hh
      simp only [List.cons.injEq] at hh
      obtain ⟨rfl, rfl⟩ := hh
      refine ⟨?_, ?_⟩
      · cases c with
        | node q kind obj v trials => simp [TopOk, frameOf]
      · intro f hf
        rcases List.mem_cons.1 hf with rfl | hf
        · exact hok
        · exact hbelow f hf
    | pop l res r' =>
      rw [hs] at hok
      simp only [OutOk] at hok
      simp only
      refine ⟨nResultsOk_snoc hres ⟨fr.q, fr.viaCall, below.length, res⟩ hok _ rfl, ?_⟩
      intro f bl hh
      have hh' : below = f :: bl := hh
      have hf : SearchingOk f := hbelow f (by rw [hh']; exact List.mem_cons_self)
      refine ⟨topOk_of_searchingOk hf, ?_⟩
      intro g hg
      exact hbelow g (by rw [hh']; exact List.mem_cons_of_mem _ hg)

/-- what a step of `t` does to the objects, seen from another thread `t'` -/
theorem stepThread_subopts_other (cfg : NCfg) (t t' : Nat) (th : NThread) (objs : Nat → NRState)
    (h : t' ≠ t) (o : Nat) :
    ((stepThread cfg t th objs).2.1 o).subopts t' = (objs o).subopts t' := by
  unfold stepThread
  cases th.stack with
  | nil => simp only; cases th.queue <;> rfl
  | cons fr below =>
    have hfr := stepTop_subopts_other cfg t t' th.nalloc fr (objs fr.obj) h
    simp only
    cases hs : stepTop cfg t th.nalloc fr (objs fr.obj) with
    | cont l fr' r' n' =>
      rw [hs] at hfr
      simp only [robj] at hfr
      simp only
      by_cases ho : o = fr.obj
      · subst ho; rw [updFn_same]; exact hfr
      · rw [updFn_other _ _ _ _ ho]
    | push fr' c => rfl
    | pop l res r' =>
      rw [hs] at hfr
      simp only [robj] at hfr
      simp only
      by_cases ho : o = fr.obj
      · subst ho; rw [updFn_same]; exact hfr
      · rw [updFn_other _ _ _ _ ho]

theorem nstep_inv (cfg : NCfg) (hreg : cfg.registerFirst = false) (s : NSys) (t : Nat)
    (hinv : NInv s) : NInv (ReuseNest.step cfg s t) := by
  intro t'
  unfold ReuseNest.step
  by_cases h : t' = t
  · subst h
    simp only [updFn_same]
    exact stepThread_inv cfg hreg t' _ _ (hinv t')
  · obtain ⟨hres, hst⟩ := hinv t'
    simp only [updFn_other _ _ _ _ h]
    refine ⟨hres, ?_⟩
    intro fr below hh
    obtain ⟨htop, hbelow⟩ := hst fr below hh
    exact ⟨topOk_frame t' _ _ fr (stepThread_subopts_other cfg t t' _ _ h fr.obj) htop, hbelow⟩

theorem nrunSched_inv (cfg : NCfg) (hreg : cfg.registerFirst = false) (s : NSys)
    (sched : List Nat) (hinv : NInv s) : NInv (ReuseNest.runSched cfg s sched) := by
  induction sched generalizing s with
  | nil => exact hinv
  | cons t rest ih => exact ih (ReuseNest.step cfg s t) (nstep_inv cfg hreg s t hinv)

theorem ninv_start (queues : Nat → List QTree) : NInv (NSys.start queues) := by
  intro t
  refine ⟨by intro r hr; simp [NSys.start] at hr, ?_⟩
  intro fr below hh
  simp [NSys.start] at hh

/-- **nested_isolation** — for every schedule, any number of threads, every assignment of
    nesting trees to them (queries nested to any depth inside the trial functions of running
    sub-searches, put to the same or to other objects, through either interface), every trial
    behaviour, every hash function, per-object `overwrite`/`cache_only`: each tree returned by
    `search` — to an outer *or* a nested query — is a tree of the contraction that call asked
    about.  Needs the real order "search, then register" (`registerFirst = false`). -/
theorem nested_isolation (cfg : NCfg) (hreg : cfg.registerFirst = false)
    (queues : Nat → List QTree) (sched : List Nat) (t : Nat) (r : Res)
    (h : r ∈ ((ReuseNest.runSched cfg (NSys.start queues) sched).threads t).results)
    (hv : r.viaCall = false) (n : Nat) (hn : r.got = some n) : n = r.q.net :=
  (nrunSched_inv cfg hreg _ sched (ninv_start queues) t).results r h hv n hn

/-- the same from any state satisfying the invariant (earlier traffic on the objects) -/
theorem nested_isolation_from (cfg : NCfg) (hreg : cfg.registerFirst = false) (s : NSys)
    (hinv : NInv s) (sched : List Nat) (t : Nat) (r : Res)
    (h : r ∈ ((ReuseNest.runSched cfg s sched).threads t).results)
    (hv : r.viaCall = false) (n : Nat) (hn : r.got = some n) : n = r.q.net :=
  (nrunSched_inv cfg hreg s sched hinv t).results r h hv n hn

/-- **nested_isolation_seq** — one thread, any sequence of nesting trees, any number of steps -/
theorem nested_isolation_seq (cfg : NCfg) (hreg : cfg.registerFirst = false) (qs : List QTree)
    (fuel : Nat) (r : Res) (h : r ∈ (runNested cfg qs fuel).results) (hv : r.viaCall = false)
    (n : Nat) (hn : r.got = some n) : n = r.q.net :=
  nested_isolation cfg hreg _ _ 0 r h hv n hn

/-! ## the path interface (`__call__`), outer and nested -/

def ntr (score : Nat) : Trial :=
  { score := some score, flops := some 1, write := some 1, size := some 1, tree := some 0 }

def nq1 : Query := { net := 1, key := 1, hard := true }
def nq2 : Query := { net := 2, key := 2, hard := true }
def nq3 : Query := { net := 3, key := 3, hard := true }


/-- the hash separates the contractions that are asked anywhere in the nesting tree -/
inductive Keyed (netOf : Nat → Nat) : QTree → Prop
  | node {q : Query} {kind : Mode} {obj : Nat} {v : Bool} {trials : List TrialPlan} :
      q.net = netOf q.key → (∀ tp ∈ trials, ∀ c ∈ tp.1, Keyed netOf c) →
      Keyed netOf (.node q kind obj v trials)

def TrialsKeyed (netOf : Nat → Nat) (l : List TrialPlan) : Prop :=
  ∀ tp ∈ l, ∀ c ∈ tp.1, Keyed netOf c

def FrameKeyed (netOf : Nat → Nat) (fr : Frame) : Prop :=
  fr.q.net = netOf fr.q.key ∧ TrialsKeyed netOf fr.trials

/-- every cache entry under key `k` was found by a search on the contraction with that key -/
def CacheK (netOf : Nat → Nat) (r : NRState) : Prop :=
  ∀ k con, r.cache k = some con → con.origin = netOf k

/-- thread-local facts of a frame (any position in the stack) -/
def PcPath (netOf : Nat → Nat) (fr : Frame) : Prop :=
  match fr.pc with
  | .searching _ _ opt todo => TreeOf fr.q.net opt ∧ TrialsKeyed netOf todo
  | .ran _ _ opt => TreeOf fr.q.net opt
  | .stored _ con => con.origin = fr.q.net
  | .compare con old => con.origin = fr.q.net ∧ old.origin = fr.q.net
  | .have _ con => con.origin = fr.q.net
  | _ => True

def POk (netOf : Nat → Nat) (fr : Frame) : Outcome → Prop
  | .cont _ fr' r' _ => FrameKeyed netOf fr' ∧ PcPath netOf fr' ∧ CacheK netOf r'
  | .push fr' c => FrameKeyed netOf fr' ∧ PcPath netOf fr' ∧ Keyed netOf c
  | .pop _ res r' => CacheK netOf r' ∧ (fr.viaCall = true → ∀ m, res = some m → m = fr.q.net)

theorem cacheK_upd {netOf : Nat → Nat} {r : NRState} (h : CacheK netOf r) (k : Nat) (con : Con)
    (hc : con.origin = netOf k) (s : Nat → Option (Nat × HState)) :
    CacheK netOf { subopts := s, cache := updFn r.cache k (some con) } := by
  intro k' con' hh
  simp only [updFn] at hh
  split at hh
  · rename_i hk; subst hk; cases hh; exact hc
  · exact h k' con' hh

theorem cacheK_subopts {netOf : Nat → Nat} {r : NRState} (h : CacheK netOf r)
    (s : Nat → Option (Nat × HState)) : CacheK netOf { r with subopts := s } := h

theorem cacheK_writeThrough {netOf : Nat → Nat} {r : NRState} (h : CacheK netOf r) (t id : Nat)
    (opt : HState) : CacheK netOf (writeThrough r t id opt) := by
  unfold writeThrough
  split
  · split
    · exact h
    · exact h
  · exact h

theorem origin_of_treeOf {n : Nat} {opt : HState} (h : TreeOf n opt) : opt.tree.getD n = n := by
  cases ht : opt.tree with
  | none => rfl
  | some m => simp [h m ht]

theorem stepTop_path (cfg : NCfg) (netOf : Nat → Nat) (t n : Nat) (fr : Frame) (r : NRState)
    (hk : FrameKeyed netOf fr) (hp : PcPath netOf fr) (hc : CacheK netOf r) :
    POk netOf fr (stepTop cfg t n fr r) := by
  unfold stepTop
  cases hpc : fr.pc with
  | start =>
    simp only
    cases fr.kind with
    | reusable => simp only [POk, PcPath, FrameKeyed]; exact ⟨hk, trivial, hc⟩
    | autoCached =>
      simp only
      split
      · simp only [POk, PcPath, FrameKeyed]; exact ⟨hk, trivial, hc⟩
      · simp only [POk]; exact ⟨hc, by intro _ m hm; simpa using hm.symm⟩
    | autoPlain =>
      simp only
      split
      · simp only [POk, PcPath, FrameKeyed]; exact ⟨hk, trivial, hc⟩
      · simp only [POk]; exact ⟨hc, by intro _ m hm; simpa using hm.symm⟩
  | gotOpt =>
    simp only
    cases fr.kind with
    | autoPlain => simp only [POk, PcPath, FrameKeyed]; exact ⟨hk, ⟨treeOf_init _, hk.2⟩, hc⟩
    | reusable => simp only [POk, PcPath, FrameKeyed]; exact ⟨hk, trivial, hc⟩
    | autoCached => simp only [POk, PcPath, FrameKeyed]; exact ⟨hk, trivial, hc⟩
  | hashed m =>
    simp only
    split
    · split
      · simp only [POk]; exact ⟨hc, by intro _ m hm; cases hm⟩
      · simp only [POk, PcPath, FrameKeyed]
        refine ⟨hk, ⟨treeOf_init _, hk.2⟩, ?_⟩
        split
        · exact cacheK_subopts hc _
        · exact hc
    · split
      · simp only [POk]; exact ⟨hc, by intro _ m hm; cases hm⟩
      · rename_i con hcon
        simp only [POk, PcPath, FrameKeyed]
        exact ⟨hk, by rw [hc _ _ hcon, hk.1], hc⟩
  | searching m id opt todo =>
    simp only [PcPath, hpc] at hp
    obtain ⟨htree, htodo⟩ := hp
    simp only
    split
    · rename_i c cs s tr rest
      simp only [POk, PcPath, FrameKeyed]
      refine ⟨hk, ⟨htree, ?_⟩, htodo _ List.mem_cons_self c List.mem_cons_self⟩
      intro tp htp c' hc'
      rcases List.mem_cons.1 htp with rfl | htp
      · exact htodo _ List.mem_cons_self c' (List.mem_cons_of_mem _ hc')
      · exact htodo tp (List.mem_cons_of_mem _ htp) c' hc'
    · rename_i s tr rest
      simp only [POk, PcPath, FrameKeyed]
      refine ⟨hk, ⟨treeOf_step fr.q opt _ _ htree, ?_⟩, cacheK_writeThrough hc _ _ _⟩
      intro tp htp c' hc'
      exact htodo tp (List.mem_cons_of_mem _ htp) c' hc'
    · cases fr.kind with
      | autoPlain => simp only [POk]; exact ⟨hc, by intro _ k hk'; exact htree k hk'⟩
      | reusable =>
        simp only
        split
        · simp only [POk]; exact ⟨hc, by intro _ k hk'; cases hk'⟩
        · simp only [POk, PcPath, FrameKeyed]; exact ⟨hk, htree, hc⟩
      | autoCached =>
        simp only
        split
        · simp only [POk]; exact ⟨hc, by intro _ k hk'; cases hk'⟩
        · simp only [POk, PcPath, FrameKeyed]; exact ⟨hk, htree, hc⟩
  | ran m id opt =>
    simp only [PcPath, hpc] at hp
    simp only [POk, PcPath, FrameKeyed]
    refine ⟨hk, origin_of_treeOf hp, ?_⟩
    split
    · exact hc
    · exact cacheK_subopts hc _
  | stored m con =>
    simp only [PcPath, hpc] at hp
    simp only
    split
    · split
      · simp only [POk]; exact ⟨hc, by intro _ k hk'; cases hk'⟩
      · rename_i old hold
        simp only [POk, PcPath, FrameKeyed]
        exact ⟨hk, ⟨hp, by rw [hc _ _ hold, hk.1]⟩, hc⟩
    · simp only [POk, PcPath, FrameKeyed]
      exact ⟨hk, hp, cacheK_upd hc _ _ (by rw [hp, hk.1]) _⟩
  | compare con old =>
    simp only [PcPath, hpc] at hp
    simp only
    split
    · simp only [POk, PcPath, FrameKeyed]
      exact ⟨hk, hp.1, cacheK_upd hc _ _ (by rw [hp.1, hk.1]) _⟩
    · simp only [POk, PcPath, FrameKeyed]; exact ⟨hk, hp.2, hc⟩
  | «have» b con =>
    simp only [PcPath, hpc] at hp
    simp only
    split
    · simp only [POk]; exact ⟨hc, by intro _ k hk'; cases hk'; exact hp⟩
    · rename_i hv
      split
      · split
        · simp only [POk]; exact ⟨hc, by intro h; exact absurd h hv⟩
        · simp only [POk]; exact ⟨hc, by intro h; exact absurd h hv⟩
      · simp only [POk]; exact ⟨hc, by intro h; exact absurd h hv⟩

/-- every path returned so far was found by a search on its query's contraction -/
def NPathsOk (th : NThread) : Prop :=
  ∀ r ∈ th.results, r.viaCall = true → ∀ n, r.got = some n → n = r.q.net

structure PLocalInv (netOf : Nat → Nat) (th : NThread) : Prop where
  results : NPathsOk th
  queue : ∀ c ∈ th.queue, Keyed netOf c
  stack : ∀ fr ∈ th.stack, FrameKeyed netOf fr ∧ PcPath netOf fr

def PInv (netOf : Nat → Nat) (s : NSys) : Prop :=
  (∀ o, CacheK netOf (s.objs o)) ∧ ∀ t, PLocalInv netOf (s.threads t)

theorem frame_of_keyed {netOf : Nat → Nat} {c : QTree} (h : Keyed netOf c) :
    FrameKeyed netOf (frameOf c) ∧ PcPath netOf (frameOf c) := by
  cases h with
  | node h1 h2 => exact ⟨⟨h1, h2⟩, by simp [PcPath, frameOf]⟩

theorem stepThread_path (cfg : NCfg) (netOf : Nat → Nat) (t : Nat) (th : NThread)
    (objs : Nat → NRState) (hc : ∀ o, CacheK netOf (objs o)) (hinv : PLocalInv netOf th) :
    (∀ o, CacheK netOf ((stepThread cfg t th objs).2.1 o)) ∧
      PLocalInv netOf (stepThread cfg t th objs).1 := by
  obtain ⟨hres, hq, hst⟩ := hinv
  unfold stepThread
  cases hstack : th.stack with
  | nil =>
    simp only
    cases hqq : th.queue with
    | nil =>
      simp only
      exact ⟨hc, hres, (by intro c hc'; rw [hqq] at hc'; cases hc'),
        (by intro f hf; rw [hstack] at hf; cases hf)⟩
    | cons c rest =>
      simp only
      rw [hqq] at hq
      refine ⟨hc, hres, fun c' hc' => hq c' (List.mem_cons_of_mem _ hc'), ?_⟩
      intro fr hfr
      simp only [List.mem_singleton] at hfr
      subst hfr
      exact frame_of_keyed (hq c List.mem_cons_self)
  | cons fr below =>
    rw [hstack] at hst
    obtain ⟨hk, hp⟩ := hst fr List.mem_cons_self
    have hok := stepTop_path cfg netOf t th.nalloc fr (objs fr.obj) hk hp (hc fr.obj)
    have hbelow : ∀ f ∈ below, FrameKeyed netOf f ∧ PcPath netOf f :=
      fun f hf => hst f (List.mem_cons_of_mem _ hf)
    simp only
    cases hs : stepTop cfg t th.nalloc fr (objs fr.obj) with
    | cont l fr' r' n' =>
      rw [hs] at hok
      simp only [POk] at hok
      simp only
      refine ⟨?_, hres, hq, ?_⟩
      · intro o
        by_cases ho : o = fr.obj
        · subst ho; rw [updFn_same]; exact hok.2.2
        · rw [updFn_other _ _ _ _ ho]; exact hc o
      · intro f hf
        rcases List.mem_cons.1 hf with rfl | hf
        · exact ⟨hok.1, hok.2.1⟩
        · exact hbelow f hf
    | push fr' c =>
      rw [hs] at hok
      simp only [POk] at hok
      simp only
      refine ⟨hc, hres, hq, ?_⟩
      intro f hf
      rcases List.mem_cons.1 hf with rfl | hf
      · exact frame_of_keyed hok.2.2
      · rcases List.mem_cons.1 hf with rfl | hf
        · exact ⟨hok.1, hok.2.1⟩
        · exact hbelow f hf
    | pop l res r' =>
      rw [hs] at hok
      simp only [POk] at hok
      simp only
      refine ⟨?_, ?_, hq, hbelow⟩
      · intro o
        by_cases ho : o = fr.obj
        · subst ho; rw [updFn_same]; exact hok.1
        · rw [updFn_other _ _ _ _ ho]; exact hc o
      · intro r hr
        rcases List.mem_append.1 hr with hr | hr
        · exact hres r hr
        · simp only [List.mem_singleton] at hr; subst hr; exact hok.2

theorem pstep_inv (cfg : NCfg) (netOf : Nat → Nat) (s : NSys) (t : Nat) (h : PInv netOf s) :
    PInv netOf (ReuseNest.step cfg s t) := by
  obtain ⟨hc, hth⟩ := h
  have hstep := stepThread_path cfg netOf t (s.threads t) s.objs hc (hth t)
  unfold ReuseNest.step
  refine ⟨hstep.1, ?_⟩
  intro t'
  by_cases htt : t' = t
  · subst htt; simp only [updFn_same]; exact hstep.2
  · simp only [updFn_other _ _ _ _ htt]; exact hth t'

/-- **nested_path_isolation** — the path interface, for every schedule, any number of threads,
    every nesting (queries put through `__call__` or `search` at any depth, to any objects),
    every `overwrite`/`cache_only` setting, *both* registration orders: if the hash separates the
    contractions that are asked (`q.net = netOf q.key` for every query of every nesting tree),
    then the path returned to a query — taken from the cache or found by the call's own
    sub-search — was found by a search on that query's contraction. -/
theorem nested_path_isolation (cfg : NCfg) (netOf : Nat → Nat) (queues : Nat → List QTree)
    (hkeyed : ∀ t, ∀ c ∈ queues t, Keyed netOf c) (sched : List Nat) (t : Nat) (r : Res)
    (h : r ∈ ((ReuseNest.runSched cfg (NSys.start queues) sched).threads t).results)
    (hv : r.viaCall = true) (n : Nat) (hn : r.got = some n) : n = r.q.net := by
  have key : ∀ (sched : List Nat) (s : NSys), PInv netOf s →
      PInv netOf (ReuseNest.runSched cfg s sched) := by
    intro sched
    induction sched with
    | nil => intro s hs; exact hs
    | cons t0 rest ih => intro s hs; exact ih _ (pstep_inv cfg netOf s t0 hs)
  have hstart : PInv netOf (NSys.start queues) := by
    refine ⟨by intro o k con hh; simp [NSys.start, NRState.empty] at hh, ?_⟩
    intro t
    exact ⟨by intro r hr; simp [NSys.start] at hr, hkeyed t, by intro fr hfr; simp [NSys.start] at hfr⟩
  exact ((key sched _ hstart).2 t).results r h hv n hn

/-- two different contractions with one key (a hash collision) -/
def cq1 : Query := { net := 1, key := 5, hard := true }
def cq2 : Query := { net := 2, key := 5, hard := true }

/-- **path_collision_counterexample** — without the hypothesis on the hash the statement for the
    path interface is false: the second contraction is handed the first one's path (C14 decides
    when the hash separates contractions; the tree interface is unaffected, `nested_isolation`). -/
theorem path_collision_counterexample :
    ((runNested {} [.node cq1 .reusable 0 true [([], ⟨0, 0⟩, ntr 4)],
                    .node cq2 .reusable 0 true [([], ⟨0, 0⟩, ntr 4)],
                    .node cq2 .reusable 0 false [([], ⟨0, 0⟩, ntr 4)]] 24).results.map
      fun r => (r.q.net, r.viaCall, r.got))
      = [(1, true, some 1), (2, true, some 1), (2, false, some 2)] := by decide

/-- non-vacuity of `Keyed`: the nesting trees of the examples below are keyed by the identity -/
example : Keyed id (.node nq1 .reusable 0 false
    [([.node nq2 .reusable 0 true [([], ⟨0, 0⟩, ntr 4)]], ⟨0, 0⟩, ntr 7)]) := by
  refine .node rfl ?_
  intro tp htp c hc
  simp only [List.mem_singleton] at htp
  subst htp
  simp only [List.mem_singleton] at hc
  subst hc
  exact .node rfl (by intro tp htp c hc; simp only [List.mem_singleton] at htp; subst htp; cases hc)

/-! ## the order matters: "register, then search" (seeded change C16-r2-2) -/

/-- the inner query: one trial, nothing nested -/
def inner2 : QTree := .node nq2 .reusable 0 false [([], ⟨0, 0⟩, ntr 4)]
/-- the outer query: its first trial consults the same object about contraction 2 -/
def outer1 : QTree := .node nq1 .reusable 0 false [([inner2], ⟨0, 0⟩, ntr 7), ([], ⟨0, 1⟩, ntr 6)]

/-- **register_first_counterexample** — registration before the search: the nested query
    overwrites the thread's slot, and the outer query is answered with the nested query's tree. -/
theorem register_first_counterexample :
    ((runNested { registerFirst := true } [outer1] 20).results.map fun r => (r.q.net, r.depth, r.got))
      = [(2, 1, some 2), (1, 0, some 2)] := by decide

/-- the same history on the real order: both queries get their own tree -/
example : ((runNested {} [outer1] 20).results.map fun r => (r.q.net, r.depth, r.got))
    = [(2, 1, some 2), (1, 0, some 1)] := by decide

/-- depth 3, a cache hit at depth 2 (contraction 2 again), `overwrite='improved'`, a second object,
    the path interface at depth 1 -/
def deep : QTree :=
  .node nq1 .reusable 0 false
    [([.node nq2 .reusable 0 true
        [([.node nq3 .reusable 1 false
            [([inner2], ⟨0, 0⟩, ntr 5)]], ⟨0, 0⟩, ntr 4)],
       inner2], ⟨0, 0⟩, ntr 9)]

set_option maxRecDepth 8000 in
example : ((runNested { overwrite := fun o => if o = 0 then .improved else .yes } [deep, outer1] 62).results.map
    fun r => (r.q.net, r.depth, r.viaCall, r.got))
    = [(2, 3, false, some 2), (3, 2, false, some 3), (2, 1, true, some 2), (2, 1, false, some 2),
       (1, 0, false, some 1), (2, 1, false, some 2), (1, 0, false, some 1)] := by decide

def altSched : List Nat := (List.range 40).map (· % 2)

set_option maxRecDepth 8000 in
/-- two threads, both nesting on one shared object, interleaved inside each other's searches -/
example :
    let s := ReuseNest.runSched {} (NSys.start fun t => if t = 0 then [outer1] else if t = 1 then
      [.node nq2 .reusable 0 false [([.node nq1 .reusable 0 false [([], ⟨0, 0⟩, ntr 3)]], ⟨0, 0⟩, ntr 8)]]
      else []) altSched;
    ((s.threads 0).results.map fun r => (r.q.net, r.depth, r.got)) = [(2, 1, some 2), (1, 0, some 1)] ∧
    ((s.threads 1).results.map fun r => (r.q.net, r.depth, r.got)) = [(1, 1, some 1), (2, 0, some 2)] := by
  decide

/-! ## no spurious errors under nesting -/

def Fin (tp : TrialPlan) : Prop := slt tp.2.2.score none = true

/-- every sub-search anywhere in the nesting tree has a successful trial, and successful trials
    carry trees -/
inductive GoodTree : QTree → Prop
  | node {q : Query} {kind : Mode} {obj : Nat} {v : Bool} {trials : List TrialPlan} :
      (∃ tp ∈ trials, Fin tp) → (∀ tp ∈ trials, Fin tp → tp.2.2.tree.isSome = true) →
      (∀ tp ∈ trials, ∀ c ∈ tp.1, GoodTree c) → GoodTree (.node q kind obj v trials)

/-- the trials still to run: successful ones carry trees, nested queries are good -/
def TodoOk (l : List TrialPlan) : Prop :=
  (∀ tp ∈ l, Fin tp → tp.2.2.tree.isSome = true) ∧ (∀ tp ∈ l, ∀ c ∈ tp.1, GoodTree c)

/-- the best record, if there is one, carries a tree -/
def BestHasTree (opt : HState) : Prop := ∀ b, opt.best = some b → b.trial.tree.isSome = true

theorem bestHasTree_init : BestHasTree HState.init := by
  intro b h; simp [HState.init] at h

theorem slt_none_of_slt {a b : Score} (h : slt a b = true) : slt a none = true := by
  cases a <;> cases b <;> simp_all [slt]

theorem step_best (q : Query) (opt : HState) (s : Setting) (tr : Trial)
    (hb : BestHasTree opt) (ht : slt tr.score none = true → tr.tree.isSome = true) :
    BestHasTree (runLog opt (stamp q [(s, tr)])) ∧
      ((opt.best.isSome = true ∨ slt tr.score none = true) →
        (runLog opt (stamp q [(s, tr)])).best.isSome = true) := by
  have hrun : runLog opt (stamp q [(s, tr)])
      = complete opt s { tr with tree := tr.tree.map fun _ => q.net } := rfl
  rw [hrun]
  have hbest := complete_best opt s { tr with tree := tr.tree.map fun _ => q.net }
  refine ⟨?_, ?_⟩
  · intro b hbb
    rw [hbest] at hbb
    split at hbb
    · rename_i hlt
      cases hbb
      simp only [Option.isSome_map]
      exact ht (slt_none_of_slt hlt)
    · exact hb b hbb
  · intro hor
    rw [hbest]
    split
    · rfl
    · rename_i hlt
      rcases hor with h | h
      · exact h
      · -- a finite score that is not below the current best: there is a current best
        cases hbo : opt.best with
        | some b => rfl
        | none =>
          exfalso
          apply hlt
          simp only [HState.curBest, hbo]
          exact h

/-- the object holds, in slot `t`, an optimizer with a tree -/
def RegLive (t : Nat) (r : NRState) : Prop :=
  ∃ id opt, r.subopts t = some (id, opt) ∧ opt.tree.isSome = true

def CacheHas (r : NRState) (q : Query) (missing : Bool) : Prop :=
  missing = false → (r.cache q.key).isSome = true

/-- thread-local facts of a frame inside its sub-search -/
def SearchLive (opt : HState) (todo : List TrialPlan) : Prop :=
  BestHasTree opt ∧ TodoOk todo ∧ (opt.best.isSome = true ∨ ∃ tp ∈ todo, Fin tp)

def FrameGood (fr : Frame) : Prop :=
  (∃ tp ∈ fr.trials, Fin tp) ∧ TodoOk fr.trials

/-- what the innermost frame needs in order not to raise -/
def TopLive (t : Nat) (r : NRState) (fr : Frame) : Prop :=
  match fr.pc with
  | .start => FrameGood fr
  | .gotOpt => FrameGood fr
  | .hashed m => FrameGood fr ∧ CacheHas r fr.q m
  | .searching m _ opt todo => SearchLive opt todo ∧ CacheHas r fr.q m
  | .ran m _ opt => opt.tree.isSome = true ∧ CacheHas r fr.q m
  | .stored m _ => CacheHas r fr.q m ∧ RegLive t r
  | .compare _ _ => RegLive t r
  | .have true _ => RegLive t r
  | .have false _ => True

/-- a frame below the innermost one: inside a trial, no demands on shared state except that the
    cache entry it saw stays -/
def BelowLive (objs : Nat → NRState) (fr : Frame) : Prop :=
  ∃ m id opt todo, fr.pc = .searching m id opt todo ∧ SearchLive opt todo ∧ CacheHas (objs fr.obj) fr.q m


def LiveOk (t : Nat) (objs : Nat → NRState) (fr : Frame) : Outcome → Prop
  | .cont _ fr' r' _ => TopLive t r' fr' ∧ fr'.obj = fr.obj
  | .push fr' c => BelowLive objs fr' ∧ GoodTree c ∧ fr'.obj = fr.obj
  | .pop _ res _ => res.isSome = true

theorem cacheHas_isNone (r : NRState) (q : Query) : CacheHas r q (r.cache q.key).isNone := by
  intro h
  cases hc : r.cache q.key <;> simp_all

theorem writeThrough_cache (r : NRState) (t id : Nat) (opt : HState) :
    (writeThrough r t id opt).cache = r.cache := by
  unfold writeThrough
  split
  · split <;> rfl
  · rfl

theorem todoOk_tail {tp : TrialPlan} {rest : List TrialPlan} (h : TodoOk (tp :: rest)) : TodoOk rest :=
  ⟨fun x hx => h.1 x (List.mem_cons_of_mem _ hx), fun x hx => h.2 x (List.mem_cons_of_mem _ hx)⟩

theorem tree_of_best {opt : HState} (hb : BestHasTree opt) (hs : opt.best.isSome = true) :
    opt.tree.isSome = true := by
  cases hbo : opt.best with
  | none => rw [hbo] at hs; cases hs
  | some b => simp only [HState.tree, hbo]; exact hb b hbo

theorem frameGood_of_goodTree {c : QTree} (h : GoodTree c) : FrameGood (frameOf c) := by
  cases h with
  | node h1 h2 h3 => exact ⟨h1, h2, h3⟩

theorem stepTop_live (cfg : NCfg) (hreg : cfg.registerFirst = false)
    (hco : ∀ o, cfg.cacheOnly o = false) (t n : Nat) (objs : Nat → NRState) (fr : Frame)
    (h : TopLive t (objs fr.obj) fr) : LiveOk t objs fr (stepTop cfg t n fr (objs fr.obj)) := by
  unfold stepTop
  cases hpc : fr.pc with
  | start =>
    simp only [TopLive, hpc] at h
    simp only
    cases fr.kind with
    | reusable => simp only [LiveOk, TopLive]; exact ⟨⟨h, cacheHas_isNone _ _⟩, trivial⟩
    | autoCached =>
      simp only
      split
      · simp only [LiveOk, TopLive]; exact ⟨h, trivial⟩
      · simp only [LiveOk, Option.isSome_some]
    | autoPlain =>
      simp only
      split
      · simp only [LiveOk, TopLive]; exact ⟨h, trivial⟩
      · simp only [LiveOk, Option.isSome_some]
  | gotOpt =>
    simp only [TopLive, hpc] at h
    simp only
    cases fr.kind with
    | autoPlain =>
      simp only [LiveOk, TopLive]
      exact ⟨⟨⟨bestHasTree_init, h.2, Or.inr h.1⟩, by intro hh; cases hh⟩, trivial⟩
    | reusable => simp only [LiveOk, TopLive]; exact ⟨⟨h, cacheHas_isNone _ _⟩, trivial⟩
    | autoCached => simp only [LiveOk, TopLive]; exact ⟨⟨h, cacheHas_isNone _ _⟩, trivial⟩
  | hashed m =>
    simp only [TopLive, hpc] at h
    simp only [hco, Bool.false_eq_true, if_false, hreg]
    split
    · simp only [LiveOk, TopLive]
      exact ⟨⟨⟨bestHasTree_init, h.1.2, Or.inr h.1.1⟩, h.2⟩, trivial⟩
    · rename_i hcond
      have hm : m = false := by cases m <;> simp_all
      have hc := h.2 hm
      split
      · rename_i hnone; rw [hnone] at hc; cases hc
      · simp only [LiveOk, TopLive]; exact ⟨trivial, trivial⟩
  | searching m id opt todo =>
    simp only [TopLive, hpc] at h
    obtain ⟨⟨hbest, htodo, hor⟩, hcache⟩ := h
    simp only
    split
    · rename_i c cs s tr rest
      simp only [LiveOk]
      refine ⟨⟨m, id, opt, _, rfl, ⟨hbest, ⟨?_, ?_⟩, ?_⟩, hcache⟩, ?_, trivial⟩
      · intro tp htp hfin
        rcases List.mem_cons.1 htp with rfl | htp
        · exact htodo.1 (c :: cs, s, tr) List.mem_cons_self hfin
        · exact htodo.1 tp (List.mem_cons_of_mem _ htp) hfin
      · intro tp htp c' hc'
        rcases List.mem_cons.1 htp with rfl | htp
        · exact htodo.2 (c :: cs, s, tr) List.mem_cons_self c' (List.mem_cons_of_mem _ hc')
        · exact htodo.2 tp (List.mem_cons_of_mem _ htp) c' hc'
      · rcases hor with hb | ⟨tp, htp, hfin⟩
        · exact Or.inl hb
        · right
          rcases List.mem_cons.1 htp with rfl | htp
          · exact ⟨(cs, s, tr), List.mem_cons_self, hfin⟩
          · exact ⟨tp, List.mem_cons_of_mem _ htp, hfin⟩
      · exact htodo.2 (c :: cs, s, tr) List.mem_cons_self c List.mem_cons_self
    · rename_i s tr rest
      have hst := step_best fr.q opt s tr hbest (htodo.1 ([], s, tr) List.mem_cons_self)
      simp only [LiveOk, TopLive]
      refine ⟨⟨⟨hst.1, todoOk_tail htodo, ?_⟩, ?_⟩, trivial⟩
      · rcases hor with hb | ⟨tp, htp, hfin⟩
        · exact Or.inl (hst.2 (Or.inl hb))
        · rcases List.mem_cons.1 htp with rfl | htp
          · exact Or.inl (hst.2 (Or.inr hfin))
          · exact Or.inr ⟨tp, htp, hfin⟩
      · intro hm
        rw [writeThrough_cache]
        exact hcache hm
    · have hsome : opt.best.isSome = true := by
        rcases hor with hb | ⟨tp, htp, _⟩
        · exact hb
        · cases htp
      have htree := tree_of_best hbest hsome
      cases fr.kind with
      | autoPlain => simp only [LiveOk]; exact htree
      | reusable =>
        simp only
        split
        · rename_i hnone; rw [hnone] at htree; cases htree
        · simp only [LiveOk, TopLive]; exact ⟨⟨htree, hcache⟩, trivial⟩
      | autoCached =>
        simp only
        split
        · rename_i hnone; rw [hnone] at htree; cases htree
        · simp only [LiveOk, TopLive]; exact ⟨⟨htree, hcache⟩, trivial⟩
  | ran m id opt =>
    simp only [TopLive, hpc] at h
    simp only [hreg, Bool.false_eq_true, if_false, LiveOk, TopLive]
    exact ⟨⟨h.2, ⟨id, opt, by simp, h.1⟩⟩, trivial⟩
  | stored m con =>
    simp only [TopLive, hpc] at h
    simp only
    split
    · rename_i hcond
      have hm : m = false := by cases m <;> simp_all
      have hc := h.1 hm
      split
      · rename_i hnone; rw [hnone] at hc; cases hc
      · simp only [LiveOk, TopLive]; exact ⟨h.2, trivial⟩
    · simp only [LiveOk, TopLive]; exact ⟨h.2, trivial⟩
  | compare con old =>
    simp only [TopLive, hpc] at h
    simp only
    split
    · simp only [LiveOk, TopLive]; exact ⟨h, trivial⟩
    · simp only [LiveOk, TopLive]; exact ⟨trivial, trivial⟩
  | «have» b con =>
    simp only
    split
    · simp only [LiveOk, Option.isSome_some]
    · cases b with
      | true =>
        simp only [TopLive, hpc] at h
        obtain ⟨id, opt, hs, ht⟩ := h
        simp only [if_true, hs, LiveOk]
        exact ht
      | false => simp only [Bool.false_eq_true, if_false, LiveOk, Option.isSome_some]

/-- cache entries are never removed -/
theorem stepTop_cache_mono (cfg : NCfg) (t n : Nat) (fr : Frame) (r : NRState) (k : Nat)
    (h : (r.cache k).isSome = true) : ((robj r (stepTop cfg t n fr r)).cache k).isSome = true := by
  unfold stepTop
  cases fr.pc with
  | start => simp only; cases fr.kind <;> simp only <;> (try split) <;> exact h
  | gotOpt => simp only; cases fr.kind <;> exact h
  | hashed m =>
    simp only
    split
    · split
      · exact h
      · simp only [robj]; split <;> exact h
    · split <;> exact h
  | searching m id opt todo =>
    simp only
    split
    · exact h
    · simp only [robj, writeThrough_cache]; exact h
    · cases fr.kind <;> simp only <;> (try split) <;> exact h
  | ran m id opt => simp only [robj]; split <;> exact h
  | stored m con =>
    simp only
    split
    · split <;> exact h
    · simp only [robj, updFn]; split <;> simp_all
  | compare con old =>
    simp only
    split
    · simp only [robj, updFn]; split <;> simp_all
    · exact h
  | «have» b con =>
    simp only
    split
    · exact h
    · split
      · split <;> exact h
      · exact h

theorem stepThread_cache_mono (cfg : NCfg) (t : Nat) (th : NThread) (objs : Nat → NRState)
    (o k : Nat) (h : ((objs o).cache k).isSome = true) :
    (((stepThread cfg t th objs).2.1 o).cache k).isSome = true := by
  unfold stepThread
  cases th.stack with
  | nil => simp only; cases th.queue <;> exact h
  | cons fr below =>
    simp only
    have hm := stepTop_cache_mono cfg t th.nalloc fr (objs fr.obj) k
    cases hs : stepTop cfg t th.nalloc fr (objs fr.obj) with
    | cont l fr' r' n' =>
      rw [hs] at hm; simp only [robj] at hm
      simp only
      by_cases ho : o = fr.obj
      · subst ho; rw [updFn_same]; exact hm h
      · rw [updFn_other _ _ _ _ ho]; exact h
    | push fr' c => exact h
    | pop l res r' =>
      rw [hs] at hm; simp only [robj] at hm
      simp only
      by_cases ho : o = fr.obj
      · subst ho; rw [updFn_same]; exact hm h
      · rw [updFn_other _ _ _ _ ho]; exact h

theorem cacheHas_mono {r r' : NRState} {q : Query} {m : Bool}
    (hmono : ∀ k, (r.cache k).isSome = true → (r'.cache k).isSome = true) (h : CacheHas r q m) :
    CacheHas r' q m := fun hm => hmono _ (h hm)

theorem topLive_frame (t : Nat) (r r' : NRState) (fr : Frame) (hs : r'.subopts t = r.subopts t)
    (hmono : ∀ k, (r.cache k).isSome = true → (r'.cache k).isSome = true)
    (h : TopLive t r fr) : TopLive t r' fr := by
  unfold TopLive RegLive at *
  cases hpc : fr.pc with
  | start => simpa [hpc] using h
  | gotOpt => simpa [hpc] using h
  | hashed m => rw [hpc] at h; exact ⟨h.1, cacheHas_mono hmono h.2⟩
  | searching m id opt todo => rw [hpc] at h; exact ⟨h.1, cacheHas_mono hmono h.2⟩
  | ran m id opt => rw [hpc] at h; exact ⟨h.1, cacheHas_mono hmono h.2⟩
  | stored m con => rw [hpc] at h; exact ⟨cacheHas_mono hmono h.1, by rw [hs]; exact h.2⟩
  | compare con old => rw [hpc] at h; simp only; rw [hs]; exact h
  | «have» b con =>
    cases b with
    | true => rw [hpc] at h; simp only; rw [hs]; exact h
    | false => simp only

theorem belowLive_mono {objs objs' : Nat → NRState} {fr : Frame}
    (hmono : ∀ o k, ((objs o).cache k).isSome = true → ((objs' o).cache k).isSome = true)
    (h : BelowLive objs fr) : BelowLive objs' fr := by
  obtain ⟨m, id, opt, todo, hpc, hs, hc⟩ := h
  exact ⟨m, id, opt, todo, hpc, hs, cacheHas_mono (hmono fr.obj) hc⟩

theorem topLive_of_below {t : Nat} {objs : Nat → NRState} {fr : Frame} (h : BelowLive objs fr) :
    TopLive t (objs fr.obj) fr := by
  obtain ⟨m, id, opt, todo, hpc, hs, hc⟩ := h
  simp only [TopLive, hpc]
  exact ⟨hs, hc⟩

structure LLocalInv (t : Nat) (th : NThread) (objs : Nat → NRState) : Prop where
  noerr : ∀ r ∈ th.results, r.got.isSome = true
  queue : ∀ c ∈ th.queue, GoodTree c
  stack : ∀ fr below, th.stack = fr :: below →
    TopLive t (objs fr.obj) fr ∧ ∀ f ∈ below, BelowLive objs f

def LInv (s : NSys) : Prop := ∀ t, LLocalInv t (s.threads t) s.objs

theorem stepThread_live (cfg : NCfg) (hreg : cfg.registerFirst = false)
    (hco : ∀ o, cfg.cacheOnly o = false) (t : Nat) (th : NThread) (objs : Nat → NRState)
    (hinv : LLocalInv t th objs) :
    LLocalInv t (stepThread cfg t th objs).1 (stepThread cfg t th objs).2.1 := by
  have hmono := stepThread_cache_mono cfg t th objs
  obtain ⟨hne, hq, hst⟩ := hinv
  unfold stepThread at hmono ⊢
  cases hstack : th.stack with
  | nil =>
    simp only
    cases hqq : th.queue with
    | nil =>
      simp only
      exact ⟨hne, (by intro c hc; rw [hqq] at hc; cases hc),
        (by intro fr below hh; rw [hstack] at hh; cases hh)⟩
    | cons c rest =>
      simp only
      rw [hqq] at hq
      refine ⟨hne, fun c' hc' => hq c' (List.mem_cons_of_mem _ hc'), ?_⟩
      intro fr below hh
      simp only [List.cons.injEq] at hh
      obtain ⟨rfl, rfl⟩ := hh
      refine ⟨?_, by intro f hf; cases hf⟩
      have hg := frameGood_of_goodTree (hq c List.mem_cons_self)
      cases c with
      | node q kind obj v trials => simpa [TopLive, frameOf] using hg
  | cons fr below =>
    rw [hstack] at hmono
    simp only at hmono
    obtain ⟨htop, hbelow⟩ := hst fr below hstack
    have hok := stepTop_live cfg hreg hco t th.nalloc objs fr htop
    simp only
    cases hs : stepTop cfg t th.nalloc fr (objs fr.obj) with
    | cont l fr' r' n' =>
      rw [hs] at hok hmono
      simp only [LiveOk] at hok
      simp only at hmono ⊢
      refine ⟨hne, hq, ?_⟩
      intro f bl hh
      simp only [List.cons.injEq] at hh
      obtain ⟨rfl, rfl⟩ := hh
      refine ⟨?_, fun g hg => belowLive_mono hmono (hbelow g hg)⟩
      rw [hok.2, updFn_same]
      exact hok.1
    | push fr' c =>
      rw [hs] at hok
      simp only [LiveOk] at hok
      simp only
      refine ⟨hne, hq, ?_⟩
      intro f bl hh
      simp only [List.cons.injEq] at hh
      obtain ⟨rfl, rfl⟩ := hh
      refine ⟨?_, ?_⟩
      · have hg := frameGood_of_goodTree hok.2.1
        cases c with
        | node q kind obj v trials => simpa [TopLive, frameOf] using hg
      · intro g hg
        rcases List.mem_cons.1 hg with rfl | hg
        · exact hok.1
        · exact hbelow g hg
    | pop l res r' =>
      rw [hs] at hok hmono
      simp only [LiveOk] at hok
      simp only at hmono ⊢
      refine ⟨?_, hq, ?_⟩
      · intro r hr
        rcases List.mem_append.1 hr with hr | hr
        · exact hne r hr
        · simp only [List.mem_singleton] at hr; subst hr; exact hok
      · intro f bl hh
        have hh' : below = f :: bl := hh
        have hf : BelowLive objs f := hbelow f (by rw [hh']; exact List.mem_cons_self)
        refine ⟨topLive_of_below (belowLive_mono hmono hf), ?_⟩
        intro g hg
        exact belowLive_mono hmono (hbelow g (by rw [hh']; exact List.mem_cons_of_mem _ hg))

theorem lstep_inv (cfg : NCfg) (hreg : cfg.registerFirst = false)
    (hco : ∀ o, cfg.cacheOnly o = false) (s : NSys) (t : Nat) (hinv : LInv s) :
    LInv (ReuseNest.step cfg s t) := by
  intro t'
  unfold ReuseNest.step
  by_cases h : t' = t
  · subst h
    simp only [updFn_same]
    exact stepThread_live cfg hreg hco t' _ _ (hinv t')
  · obtain ⟨hne, hq, hst⟩ := hinv t'
    simp only [updFn_other _ _ _ _ h]
    refine ⟨hne, hq, ?_⟩
    intro fr below hh
    obtain ⟨htop, hbelow⟩ := hst fr below hh
    have hmono := stepThread_cache_mono cfg t (s.threads t) s.objs
    exact ⟨topLive_frame t' _ _ fr (stepThread_subopts_other cfg t t' _ _ h fr.obj) (hmono fr.obj) htop,
      fun g hg => belowLive_mono hmono (hbelow g hg)⟩

/-- **nested_no_spurious_errors** — for every schedule, any number of threads and any nesting: if
    every sub-search anywhere in the nesting trees has a successful trial (and successful trials
    carry trees) and `cache_only` is off, no call — outer or nested, `search` or `__call__` — ever
    raises: `last_opt` is never `None` when it is read, a cache entry seen by `hash_query` is still
    there when it is fetched (also after the nested queries of the own sub-search and the traffic
    of other threads), and every sub-search ends with a tree.  With `nested_isolation`: every call
    returns a tree of its own contraction. -/
theorem nested_no_spurious_errors (cfg : NCfg) (hreg : cfg.registerFirst = false)
    (hco : ∀ o, cfg.cacheOnly o = false) (queues : Nat → List QTree)
    (hgood : ∀ t, ∀ c ∈ queues t, GoodTree c) (sched : List Nat) (t : Nat) (r : Res)
    (h : r ∈ ((ReuseNest.runSched cfg (NSys.start queues) sched).threads t).results) :
    r.got.isSome = true := by
  have key : ∀ (sched : List Nat) (s : NSys), LInv s → LInv (ReuseNest.runSched cfg s sched) := by
    intro sched
    induction sched with
    | nil => intro s hs; exact hs
    | cons t0 rest ih => intro s hs; exact ih _ (lstep_inv cfg hreg hco s t0 hs)
  have hstart : LInv (NSys.start queues) := by
    intro t
    exact ⟨by intro r hr; simp [NSys.start] at hr, hgood t, by intro fr below hh; simp [NSys.start] at hh⟩
  exact (key sched _ hstart t).noerr r h

/-- the hypotheses are satisfiable: the nesting trees of the examples are good -/
example : GoodTree outer1 := by
  refine .node ⟨_, List.mem_cons_self, rfl⟩ (by intro tp htp _; simp [ntr] at htp; rcases htp with rfl | rfl <;> rfl) ?_
  intro tp htp c hc
  simp only [List.mem_cons, List.not_mem_nil, or_false] at htp
  rcases htp with rfl | rfl
  · simp only [List.mem_singleton] at hc
    subst hc
    exact .node ⟨_, List.mem_cons_self, rfl⟩ (by intro tp htp _; simp [ntr] at htp; subst htp; rfl)
      (by intro tp htp c hc; simp at htp; subst htp; cases hc)
  · cases hc


end Cotengra.C16
