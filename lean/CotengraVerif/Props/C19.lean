import CotengraVerif.Lemmas.StripRun
import CotengraVerif.Lemmas.StripPairs
import CotengraVerif.Lemmas.StripZero
import Mathlib.Analysis.SpecialFunctions.Pow.Real
import Mathlib.Analysis.SpecialFunctions.Log.Base

/-!
# C19 — exponent stripping preserves the value and survives extreme scales

**Full statement.** With exponent stripping enabled, mantissa × 10^exponent equals the plain
contraction result for every network, tree and set of sliced indices whenever that result is
non-zero; and when the individual input tensors have magnitudes anywhere within 1e-100..1e100,
the mantissa and exponent are finite and correct even where the plain floating-point contraction
would overflow or underflow.

**Model** (`Model/Strip.lean`, generic in the scalar field; the driver runs it over `Rat`):
the loop of `Contractor.__call__` (contract.py:766-803) over the dictionary `temps` with
`pop`/insert, un-normalised single-term steps and the per-step `f = max|p|`, `p := p / f`,
`exponent += log10 f` (kept as the list of factors), the `check_zero` exit and the `0/0 = nan`
poisoning when a factor is 0 and `check_zero` is off; `add_maybe_exponent_stripped`
(core.py:135-161), its `functools.reduce` over slices and the chunk rescaling of `gather_slices`
(core.py:3313-3348).  Array primitives are modelled by their meaning (`contract`, `reduce1`).
Floating point is *not* modelled: all statements are over an ordered field (ℝ below), i.e. IEEE
rounding, overflow of `10 ** x` and numpy's `max/abs/log10` are replaced by their real
counterparts -- this is the part of the property that is decided by the differential oracle of
harness/c19.py rather than by proof.

**Theorems** (all for every program, every size assignment, every input):
* `strip_invariant` -- along any well-formed step sequence (`WF`: operands are live, the written
  key is new -- the discipline of `temps.pop`), if no normalising factor is 0, the plain loop
  succeeds too, its live intermediates are the stripped ones scaled entry by entry, and the
  product of the live scales is the product of the factors divided out so far.
* `strip_root_exact` / `strip_root_exact_real` -- hence for a completed contraction
  `10 ^ exponent · mantissa = plain result`, with `exponent = Σ log10 f`.
* `nonzero_result_no_zero_factor`, `check_zero_exit_sound` -- a zero factor forces a zero result.
* `strip_exact_of_nonzero(_real)` -- **the property at full strength for one contraction** (an
  unsliced tree, or one slice): result ≠ 0 ⇒ `10 ^ exponent · mantissa = result`.
* `add_stripped_exact(_real)`, `sum_stripped_exact`, `gather_stripped_exact` -- adding two
  (mantissa, exponent) pairs, reducing over slices and rescaling chunks are exact.
* `sliced_exact_partial` -- slices contracted with stripping and summed per chunk denote the sum
  of the plain slice results, *under the guard that every slice ends without a zero factor*.
* `sliced_exact_check_zero` -- with `check_zero=True` (repaired `add_maybe_exponent_stripped`) the
  same without any guard, zero-valued slices included.
* `magnitude_bound_normalised`, `magnitude_bound_step`, `magnitude_bound_real` -- after every step
  `max|p| = 1`; every entry a step forms is bounded by `K · max|l| · max|r|`; with operands
  bounded by 1e100 and at most 1e100 summed terms nothing exceeds 1e300.

**Partial / counter-example.**  For a *sliced* contraction with the default `check_zero=False`
the guard of `sliced_exact_partial` is a genuine restriction of the property: one slice whose
value is 0 poisons a non-zero total with nan (DESIGN §7 n, known finding) --
`sliced_nan_counterexample` proves this on a concrete two-slice network.  The gather over chunks
with zero chunks (`gatherRes`) is modelled and tied by the correspondence but not proved.
-/
namespace Cotengra.C19
open Cotengra.Strip

variable {α : Type} [Field α] [LinearOrder α] [IsStrictOrderedRing α]

/-- initial state of a stripped run -/
def init (T0 : Temps α) : SState α := { temps := T0, factors := [] }

theorem inv_init (T0 : Temps α) (hnd : (keys T0).Nodup) : Inv (fun _ => (1 : α)) T0 (init T0) := by
  refine ⟨?_, hnd, ?_, ?_, rfl, rfl⟩
  · unfold mapScale
    simp only [scale_one]
    exact (List.map_id' T0).symm
  · simp [init]
  · intro f hf; simp [init] at hf

/-- **strip_invariant.**  For every well-formed step sequence and every input: if the stripped
    loop ends without having met a zero factor, then the plain loop succeeds on the same input,
    and there are scales `c` such that every live plain intermediate is `c key ·` the stripped
    one, with `Π_{live} c = Π factors` and all factors positive. -/
theorem strip_invariant (size : Ix → Nat) (cz : Bool) (steps : List Step) (T0 : Temps α)
    (hnd : (keys T0).Nodup) (hwf : WF steps (keys T0)) (S : SState α)
    (h : runStrip size cz steps (init T0) = some S) (hok : S.zero = false ∧ S.nan = false) :
    ∃ (c : Nat → α) (P : Temps α), runPlain size steps T0 = some P ∧ P = mapScale c S.temps ∧
      ((keys S.temps).map c).prod = S.factors.prod ∧ ∀ f ∈ S.factors, 0 < f := by
  obtain ⟨c, P, hp, hinv⟩ := run_inv size cz steps _ T0 (init T0) S (inv_init T0 hnd) hwf h hok
  exact ⟨c, P, hp, hinv.rel, hinv.acc, hinv.pos⟩

/-- **Completed contraction**: one live intermediate (the root) is left; then
    `plain root = (Π factors) · mantissa`. -/
theorem strip_root_exact (size : Ix → Nat) (cz : Bool) (steps : List Step) (T0 : Temps α)
    (hnd : (keys T0).Nodup) (hwf : WF steps (keys T0)) (S : SState α)
    (h : runStrip size cz steps (init T0) = some S) (hok : S.zero = false ∧ S.nan = false)
    (k : Nat) (m : Tensor α) (hroot : S.temps = [(k, m)]) :
    runPlain size steps T0 = some [(k, scale S.factors.prod m)] ∧ ∀ f ∈ S.factors, 0 < f := by
  obtain ⟨c, P, hp, hrel, hacc, hpos⟩ := strip_invariant size cz steps T0 hnd hwf S h hok
  refine ⟨?_, hpos⟩
  rw [hp, hrel, hroot]
  simp only [hroot, keys, List.map_cons, List.map_nil, List.prod_cons, List.prod_nil, mul_one] at hacc
  simp [mapScale, hacc]

/-! ## the log domain (what the code stores): `exponent = Σ log10 f`, value `= 10 ^ exponent · m` -/

/-- `exponent` as accumulated by the loop: `0.0 + log10 f₁ + log10 f₂ + …` -/
noncomputable def exponentOf (factors : List ℝ) : ℝ := (factors.map (Real.logb 10)).sum

theorem rpow_exponentOf (factors : List ℝ) (hpos : ∀ f ∈ factors, 0 < f) :
    (10 : ℝ) ^ exponentOf factors = factors.prod := by
  induction factors with
  | nil => simp [exponentOf]
  | cons f rest ih =>
    have hf : 0 < f := hpos f List.mem_cons_self
    have ih' := ih (fun g hg => hpos g (List.mem_cons_of_mem _ hg))
    unfold exponentOf at ih' ⊢
    simp only [List.map_cons, List.sum_cons, List.prod_cons]
    rw [Real.rpow_add (by norm_num : (0 : ℝ) < 10), ih',
      Real.rpow_logb (by norm_num) (by norm_num) hf]

/-- **strip_root_exact_real.**  `10 ^ exponent · mantissa = plain contraction result`. -/
theorem strip_root_exact_real (size : Ix → Nat) (cz : Bool) (steps : List Step) (T0 : Temps ℝ)
    (hnd : (keys T0).Nodup) (hwf : WF steps (keys T0)) (S : SState ℝ)
    (h : runStrip size cz steps (init T0) = some S) (hok : S.zero = false ∧ S.nan = false)
    (k : Nat) (m : Tensor ℝ) (hroot : S.temps = [(k, m)]) :
    runPlain size steps T0 = some [(k, scale ((10 : ℝ) ^ exponentOf S.factors) m)] := by
  obtain ⟨hp, hpos⟩ := strip_root_exact size cz steps T0 hnd hwf S h hok k m hroot
  rw [rpow_exponentOf S.factors hpos]
  exact hp

/-! ## pairs -/

/-- **add_stripped_exact** (factor domain) -/
theorem add_stripped_exact (x y : Stripped α) (hx : 0 < x.f) (hy : 0 < y.f) :
    (addStripped x y).val = addT x.val y.val := addStripped_val x y hx hy

/-- **sum_stripped_exact**: `functools.reduce(add_maybe_exponent_stripped, slices)` -/
theorem sum_stripped_exact (acc : Stripped α) (xs : List (Stripped α)) (hacc : 0 < acc.f)
    (hxs : ∀ x ∈ xs, 0 < x.f) :
    (sumStripped acc xs).val = xs.foldl (fun t x => addT t x.val) acc.val :=
  (sumStripped_val xs acc hacc hxs).1

/-- **gather_stripped_exact**: chunk rescaling of `gather_slices` -/
theorem gather_stripped_exact (chunks : List (Stripped α)) (hpos : ∀ c ∈ chunks, 0 < c.f) :
    (rescaleChunks chunks).1.map (scale (rescaleChunks chunks).2) = chunks.map Stripped.val :=
  (rescaleChunks_val chunks hpos).1

/-- `add_maybe_exponent_stripped` as written (core.py:156-159), in the log domain over ℝ -/
noncomputable def addLog (x y : Tensor ℝ × ℝ) : Tensor ℝ × ℝ :=
  let e := max x.2 y.2
  (addT (scale ((10 : ℝ) ^ (x.2 - e)) x.1) (scale ((10 : ℝ) ^ (y.2 - e)) y.1), e)

/-- the pair `(m, e)` read as a `Stripped` value: factor `10 ^ e` -/
noncomputable def ofLog (x : Tensor ℝ × ℝ) : Stripped ℝ := { m := x.1, f := (10 : ℝ) ^ x.2 }

theorem rpow10_max (a b : ℝ) : (10 : ℝ) ^ max a b = max ((10 : ℝ) ^ a) ((10 : ℝ) ^ b) := by
  have hmono : Monotone fun t : ℝ => (10 : ℝ) ^ t := fun s t hst =>
    Real.rpow_le_rpow_of_exponent_le (by norm_num) hst
  exact hmono.map_max

/-- the log-domain code is the image of the factor-domain model under `F = 10 ^ e` -/
theorem addLog_eq_addStripped (x y : Tensor ℝ × ℝ) : ofLog (addLog x y) = addStripped (ofLog x) (ofLog y) := by
  unfold ofLog addLog addStripped
  simp only [rpow10_max]
  congr 2
  · rw [← rpow10_max, Real.rpow_sub (by norm_num)]
  · rw [← rpow10_max, Real.rpow_sub (by norm_num)]

/-- **add_stripped_exact_real**: `10^e · m = 10^xe · xm + 10^ye · ym` -/
theorem add_stripped_exact_real (x y : Tensor ℝ × ℝ) :
    scale ((10 : ℝ) ^ (addLog x y).2) (addLog x y).1 =
      addT (scale ((10 : ℝ) ^ x.2) x.1) (scale ((10 : ℝ) ^ y.2) y.1) := by
  have h := add_stripped_exact (ofLog x) (ofLog y)
    (Real.rpow_pos_of_pos (by norm_num) _) (Real.rpow_pos_of_pos (by norm_num) _)
  rw [← addLog_eq_addStripped] at h
  exact h

/-! ## composition: sliced contraction -/

/-- result of one slice that met no zero factor: root mantissa and the product of the factors -/
def sliceStripped (size : Ix → Nat) (cz : Bool) (steps : List Step) (T0 : Temps α) :
    Option (Stripped α) :=
  match runStrip size cz steps (init T0) with
  | some S =>
    if S.zero || S.nan then none
    else match S.temps with
      | [(_, m)] => some { m := m, f := S.factors.prod }
      | _ => none
  | none => none

def slicePlain (size : Ix → Nat) (steps : List Step) (T0 : Temps α) : Option (Tensor α) :=
  match runPlain size steps T0 with
  | some [(_, v)] => some v
  | _ => none

theorem prod_pos_of_forall (l : List α) (h : ∀ f ∈ l, 0 < f) : 0 < l.prod := by
  induction l with
  | nil => simp
  | cons a t ih =>
    simp only [List.prod_cons]
    exact mul_pos (h a List.mem_cons_self) (ih fun f hf => h f (List.mem_cons_of_mem _ hf))

/-- a slice that met no zero factor denotes its plain value, with a positive factor -/
theorem slice_exact (size : Ix → Nat) (cz : Bool) (steps : List Step) (T0 : Temps α)
    (hnd : (keys T0).Nodup) (hwf : WF steps (keys T0)) (s : Stripped α)
    (h : sliceStripped size cz steps T0 = some s) :
    slicePlain size steps T0 = some s.val ∧ 0 < s.f := by
  unfold sliceStripped at h
  cases hr : runStrip size cz steps (init T0) with
  | none => simp [hr] at h
  | some S =>
    simp only [hr] at h
    by_cases hb : (S.zero || S.nan) = true
    · simp [hb] at h
    · simp only [hb, Bool.false_eq_true, if_false] at h
      have hok : S.zero = false ∧ S.nan = false := by
        simp only [Bool.or_eq_true, not_or, Bool.not_eq_true] at hb
        exact hb
      match hT : S.temps, h with
      | [(k, m)], h =>
        simp only [Option.some.injEq] at h
        subst h
        obtain ⟨hp, hpos⟩ := strip_root_exact size cz steps T0 hnd hwf S hr hok k m hT
        refine ⟨?_, prod_pos_of_forall _ hpos⟩
        simp [slicePlain, hp, Stripped.val]

/-- **sliced_exact_partial** (partial: under the guard that every slice ends without a zero factor --
    with the default `check_zero=False` a zero-valued slice violates it, see
    `sliced_nan_counterexample`).  All slices of one output chunk are contracted with stripping
    and reduced with `add_maybe_exponent_stripped`: the result denotes the sum of the plain slice
    results. -/
theorem sliced_exact_partial (size : Ix → Nat) (cz : Bool) (steps : List Step)
    (T0 : Temps α) (Ts : List (Temps α))
    (hnd : ∀ T ∈ T0 :: Ts, (keys T).Nodup) (hwf : ∀ T ∈ T0 :: Ts, WF steps (keys T))
    (s0 : Stripped α) (ss : List (Stripped α))
    (h0 : sliceStripped size cz steps T0 = some s0)
    (hs : Ts.map (sliceStripped size cz steps) = ss.map some) :
    ∃ (v0 : Tensor α) (vs : List (Tensor α)), slicePlain size steps T0 = some v0 ∧
      Ts.map (slicePlain size steps) = vs.map some ∧
      (sumStripped s0 ss).val = vs.foldl addT v0 ∧ 0 < (sumStripped s0 ss).f := by
  have e0 := slice_exact size cz steps T0 (hnd T0 List.mem_cons_self) (hwf T0 List.mem_cons_self) s0 h0
  have hall : ∀ (Ts : List (Temps α)) (ss : List (Stripped α)),
      (∀ T ∈ Ts, (keys T).Nodup) → (∀ T ∈ Ts, WF steps (keys T)) →
      Ts.map (sliceStripped size cz steps) = ss.map some →
      Ts.map (slicePlain size steps) = (ss.map Stripped.val).map some ∧ ∀ x ∈ ss, 0 < x.f := by
    intro Ts
    induction Ts with
    | nil =>
      intro ss _ _ h
      cases ss with
      | nil => simp
      | cons _ _ => simp at h
    | cons T rest ih =>
      intro ss hnd hwf h
      cases ss with
      | nil => simp at h
      | cons s srest =>
        simp only [List.map_cons, List.cons.injEq] at h
        have e := slice_exact size cz steps T (hnd T List.mem_cons_self) (hwf T List.mem_cons_self) s h.1
        have r := ih srest (fun T' h' => hnd T' (List.mem_cons_of_mem _ h'))
          (fun T' h' => hwf T' (List.mem_cons_of_mem _ h')) h.2
        refine ⟨by simp [e.1, r.1], ?_⟩
        intro x hx
        rcases List.mem_cons.1 hx with hx | hx
        · subst hx; exact e.2
        · exact r.2 x hx
  have r := hall Ts ss (fun T h => hnd T (List.mem_cons_of_mem _ h))
    (fun T h => hwf T (List.mem_cons_of_mem _ h)) hs
  have hsum := sumStripped_val ss s0 e0.2 r.2
  refine ⟨s0.val, ss.map Stripped.val, e0.1, r.1, ?_, hsum.2⟩
  rw [hsum.1, List.foldl_map]

/-! ## zero factors: for one contraction "result ≠ 0" implies "no factor is 0" -/

theorem hasZero_singleton {k : Nat} {v : Tensor α} (h : HasZero [(k, v)]) : IsZero v := by
  obtain ⟨k', v', hk, hv⟩ := h
  unfold Temps.get? at hk
  simp only [List.lookup_cons, List.lookup_nil] at hk
  by_cases e : k' = k
  · subst e
    simp only [beq_self_eq_true, Option.some.injEq] at hk
    subst hk; exact hv
  · have : (k' == k) = false := by simpa using e
    simp [this] at hk

/-- **nonzero_result_no_zero_factor.**  If the plain result of a (well-formed) contraction is not
    identically zero, the stripped loop never meets a zero factor: neither the `check_zero` exit
    nor the `0/0` poisoning happens. -/
theorem nonzero_result_no_zero_factor (size : Ix → Nat) (cz : Bool) (steps : List Step) (T0 : Temps α)
    (hnd : (keys T0).Nodup) (hwf : WF steps (keys T0)) (S : SState α)
    (h : runStrip size cz steps (init T0) = some S) (k : Nat) (v : Tensor α)
    (hp : runPlain size steps T0 = some [(k, v)]) (hnz : ¬ IsZero v) :
    S.zero = false ∧ S.nan = false := by
  by_contra hbad
  have hbad' : S.zero = true ∨ S.nan = true := by
    by_cases hz : S.zero = true
    · exact Or.inl hz
    · right
      by_contra hn
      exact hbad ⟨by simpa using hz, by simpa using hn⟩
  exact hnz (hasZero_singleton
    (flagged_run_hasZero size cz steps _ T0 _ (init T0) S (inv_init T0 hnd) hwf h hp hbad'))

/-- **check_zero is sound**: the early exit `return 0.0, -inf` is only taken when the plain result
    is identically zero. -/
theorem check_zero_exit_sound (size : Ix → Nat) (cz : Bool) (steps : List Step) (T0 : Temps α)
    (hnd : (keys T0).Nodup) (hwf : WF steps (keys T0)) (S : SState α)
    (h : runStrip size cz steps (init T0) = some S) (hz : S.zero = true ∨ S.nan = true)
    (k : Nat) (v : Tensor α) (hp : runPlain size steps T0 = some [(k, v)]) : IsZero v :=
  hasZero_singleton (flagged_run_hasZero size cz steps _ T0 _ (init T0) S (inv_init T0 hnd) hwf h hp hz)

/-- **The property at full strength for one contraction** (an unsliced tree, or one slice): for
    every well-formed program and every input, whenever the result is non-zero,
    `(Π factors) · mantissa = result` -- no side condition on the factors. -/
theorem strip_exact_of_nonzero (size : Ix → Nat) (cz : Bool) (steps : List Step) (T0 : Temps α)
    (hnd : (keys T0).Nodup) (hwf : WF steps (keys T0)) (S : SState α)
    (h : runStrip size cz steps (init T0) = some S) (k : Nat) (v : Tensor α)
    (hp : runPlain size steps T0 = some [(k, v)]) (hnz : ¬ IsZero v) :
    ∃ m, S.temps = [(k, m)] ∧ v = scale S.factors.prod m ∧ ∀ f ∈ S.factors, 0 < f := by
  have hok := nonzero_result_no_zero_factor size cz steps T0 hnd hwf S h k v hp hnz
  obtain ⟨c, P, hp', hrel, hacc, hpos⟩ := strip_invariant size cz steps T0 hnd hwf S h hok
  rw [hp] at hp'
  simp only [Option.some.injEq] at hp'
  subst hp'
  match hT : S.temps, hrel, hacc with
  | [], hrel, _ => simp [mapScale] at hrel
  | [(k', m)], hrel, hacc =>
    simp only [mapScale, List.map_cons, List.map_nil, List.cons.injEq, Prod.mk.injEq, and_true] at hrel
    simp only [keys, List.map_cons, List.map_nil, List.prod_cons, List.prod_nil, mul_one] at hacc
    refine ⟨m, ?_, ?_, hpos⟩
    · rw [hrel.1]
    · rw [hrel.2, hacc]
  | _ :: _ :: _, hrel, _ => simp [mapScale] at hrel

/-- the same in the log domain over ℝ -/
theorem strip_exact_of_nonzero_real (size : Ix → Nat) (cz : Bool) (steps : List Step) (T0 : Temps ℝ)
    (hnd : (keys T0).Nodup) (hwf : WF steps (keys T0)) (S : SState ℝ)
    (h : runStrip size cz steps (init T0) = some S) (k : Nat) (v : Tensor ℝ)
    (hp : runPlain size steps T0 = some [(k, v)]) (hnz : ¬ IsZero v) :
    ∃ m, S.temps = [(k, m)] ∧ v = scale ((10 : ℝ) ^ exponentOf S.factors) m := by
  obtain ⟨m, hT, hv, hpos⟩ := strip_exact_of_nonzero size cz steps T0 hnd hwf S h k v hp hnz
  exact ⟨m, hT, by rw [rpow_exponentOf S.factors hpos]; exact hv⟩

/-! ## sliced contraction with `check_zero=True` (repaired code): exact for every input -/

theorem prodL_eq_prod (l : List α) : prodL l = l.prod := by
  induction l with
  | nil => rfl
  | cons a t ih => simp [prodL, ih]

/-- with `check_zero=True` the `0/0` poisoning never happens -/
theorem no_nan_check_zero (size : Ix → Nat) : ∀ (steps : List Step) (S S' : SState α),
    runStrip size true steps S = some S' → S.nan = false → S'.nan = false := by
  intro steps
  induction steps with
  | nil => intro S S' h hn; simp only [runStrip, Option.some.injEq] at h; subst h; exact hn
  | cons st rest ih =>
    intro S S' h hn
    simp only [runStrip] at h
    cases h1 : stepStrip size true S st with
    | none => simp [h1] at h
    | some S1 =>
      simp only [h1, Option.bind_some] at h
      refine ih S1 S' h ?_
      cases st with
      | pre i out =>
        simp only [stepStrip] at h1
        split at h1
        · simp only [Option.pure_def, Option.some.injEq] at h1; subst h1; exact hn
        · cases hx : S.temps.get? i with
          | none => simp [hx] at h1
          | some x =>
            simp only [hx, Option.bind_eq_bind, Option.bind_some, Option.pure_def,
              Option.some.injEq] at h1
            subst h1; exact hn
      | pair p l r out =>
        simp only [stepStrip] at h1
        split at h1
        · simp only [Option.pure_def, Option.some.injEq] at h1; subst h1; exact hn
        · cases ha : S.temps.get? l with
          | none => simp [ha] at h1
          | some a =>
            simp only [ha, Option.bind_eq_bind, Option.bind_some] at h1
            cases hb : (S.temps.erase l).get? r with
            | none => simp [hb] at h1
            | some b =>
              simp only [hb, Option.bind_some] at h1
              split at h1
              · simp only [if_true, Option.pure_def, Option.some.injEq] at h1; subst h1; exact hn
              · simp only [Option.pure_def, Option.some.injEq] at h1; subst h1; exact hn

/-- what a slice result says about the slice's plain value -/
def Good (r : SRes α) (V : Tensor α) : Prop :=
  match r with
  | .ok s => s.val = V ∧ 0 < s.f
  | .zero => IsZero V
  | .nan => False

theorem slice_good (size : Ix → Nat) (steps : List Step) (T0 : Temps α)
    (hnd : (keys T0).Nodup) (hwf : WF steps (keys T0)) (r : SRes α) (v : Tensor α)
    (hr : sliceRes size true steps T0 = some r) (hv : slicePlain size steps T0 = some v) :
    Good r v := by
  have hplain : ∃ k, runPlain size steps T0 = some [(k, v)] := by
    unfold slicePlain at hv
    match hrp : runPlain size steps T0, hv with
    | some [(k, v')], hv =>
      simp only [Option.some.injEq] at hv
      subst hv
      exact ⟨k, rfl⟩
  obtain ⟨k, hp⟩ := hplain
  unfold sliceRes at hr
  cases hrun : runStrip size true steps { temps := T0, factors := [] } with
  | none => simp [hrun] at hr
  | some S =>
    have hrun' : runStrip size true steps (init T0) = some S := hrun
    have hnn : S.nan = false := no_nan_check_zero size steps _ S hrun rfl
    simp only [hrun, hnn, Bool.false_eq_true, if_false] at hr
    by_cases hz : S.zero = true
    · simp only [hz, if_true, Option.some.injEq] at hr
      subst hr
      exact check_zero_exit_sound size true steps T0 hnd hwf S hrun' (Or.inl hz) k v hp
    · have hz' : S.zero = false := by simpa using hz
      simp only [hz', Bool.false_eq_true, if_false] at hr
      match hT : S.temps, hr with
      | [(k', m)], hr =>
        simp only [Option.some.injEq] at hr
        subst hr
        obtain ⟨hp', hpos⟩ := strip_root_exact size true steps T0 hnd hwf S hrun' ⟨hz', hnn⟩ k' m hT
        rw [hp] at hp'
        simp only [Option.some.injEq, List.cons.injEq, Prod.mk.injEq, and_true] at hp'
        refine ⟨?_, ?_⟩
        · simp only [Stripped.val, prodL_eq_prod]; exact hp'.2.symm
        · simp only [prodL_eq_prod]; exact prod_pos_of_forall _ hpos

theorem zipWith_add_zero_right : ∀ (a b : List α), (∀ x ∈ b, x = 0) → b.length = a.length →
    List.zipWith (· + ·) a b = a := by
  intro a
  induction a with
  | nil => intro b _ _; simp
  | cons x xs ih =>
    intro b hb hl
    cases b with
    | nil => simp at hl
    | cons y ys =>
      simp only [List.zipWith_cons_cons, List.cons.injEq]
      refine ⟨by rw [hb y List.mem_cons_self]; simp, ?_⟩
      exact ih ys (fun z hz => hb z (List.mem_cons_of_mem _ hz)) (by simpa using hl)

theorem zipWith_add_zero_left : ∀ (a b : List α), (∀ x ∈ a, x = 0) → b.length = a.length →
    List.zipWith (· + ·) a b = b := by
  intro a
  induction a with
  | nil => intro b _ hl; simp at hl; simp [hl]
  | cons x xs ih =>
    intro b ha hl
    cases b with
    | nil => simp at hl
    | cons y ys =>
      simp only [List.zipWith_cons_cons, List.cons.injEq]
      refine ⟨by rw [ha x List.mem_cons_self]; simp, ?_⟩
      exact ih ys (fun z hz => ha z (List.mem_cons_of_mem _ hz)) (by simpa using hl)

/-- one `add_maybe_exponent_stripped` keeps the results in step with the plain partial sums -/
theorem good_add (r r' : SRes α) (V v : Tensor α) (hg : Good r V) (hg' : Good r' v)
    (hi : v.inds = V.inds) (hl : v.data.length = V.data.length) :
    Good (addRes r r') (addT V v) := by
  cases r with
  | nan => exact hg.elim
  | zero =>
    cases r' with
    | nan => exact hg'.elim
    | zero =>
      intro x hx
      simp only [addT] at hx
      rw [zipWith_add_zero_left V.data v.data hg hl] at hx
      exact hg' x hx
    | ok y =>
      refine ⟨?_, hg'.2⟩
      have : addT V v = v := by
        unfold addT
        rw [zipWith_add_zero_left V.data v.data hg hl]
        cases v; cases V; simp_all
      rw [this]; exact hg'.1
  | ok x =>
    cases r' with
    | nan => exact hg'.elim
    | zero =>
      refine ⟨?_, hg.2⟩
      have : addT V v = V := by
        unfold addT
        rw [zipWith_add_zero_right V.data v.data hg' hl]
      rw [this]; exact hg.1
    | ok y =>
      refine ⟨?_, addStripped_pos x y hg.2⟩
      rw [addStripped_val x y hg.2 hg'.2, hg.1, hg'.1]

theorem addT_shape (V v : Tensor α) (hl : v.data.length = V.data.length) :
    (addT V v).inds = V.inds ∧ (addT V v).data.length = V.data.length := by
  unfold addT
  simp [List.length_zipWith, hl]

/-- **sliced_exact_check_zero.**  With `check_zero=True` (and the repaired
    `add_maybe_exponent_stripped`, `addRes`) the reduction over the slices of a chunk is exact for
    *every* input, zero-valued slices included: the result is never `nan`; a finite pair denotes
    the sum of the plain slice results; `(0.0, -inf)` is returned only if that sum is zero. -/
theorem sliced_exact_check_zero (size : Ix → Nat) (steps : List Step) :
    ∀ (Ts : List (Temps α)) (rs : List (SRes α)) (vs : List (Tensor α)) (r0 : SRes α) (V0 : Tensor α),
    (∀ T ∈ Ts, (keys T).Nodup) → (∀ T ∈ Ts, WF steps (keys T)) →
    Ts.map (sliceRes size true steps) = rs.map some →
    Ts.map (slicePlain size steps) = vs.map some →
    (∀ v ∈ vs, v.inds = V0.inds ∧ v.data.length = V0.data.length) →
    Good r0 V0 → Good (sumRes addRes r0 rs) (vs.foldl addT V0) := by
  intro Ts
  induction Ts with
  | nil =>
    intro rs vs r0 V0 _ _ hr hv _ hg
    cases rs with
    | cons _ _ => simp at hr
    | nil =>
      cases vs with
      | cons _ _ => simp at hv
      | nil => exact hg
  | cons T rest ih =>
    intro rs vs r0 V0 hnd hwf hr hv hsh hg
    cases rs with
    | nil => simp at hr
    | cons r rs' =>
      cases vs with
      | nil => simp at hv
      | cons v vs' =>
        simp only [List.map_cons, List.cons.injEq] at hr hv
        have hgv := slice_good size steps T (hnd T List.mem_cons_self) (hwf T List.mem_cons_self)
          r v hr.1 hv.1
        have hshv := hsh v List.mem_cons_self
        have hstep := good_add r0 r V0 v hg hgv hshv.1 hshv.2
        have hsh' := addT_shape V0 v hshv.2
        simp only [sumRes, List.foldl_cons]
        apply ih rs' vs' (addRes r0 r) (addT V0 v)
          (fun T' h => hnd T' (List.mem_cons_of_mem _ h)) (fun T' h => hwf T' (List.mem_cons_of_mem _ h))
          hr.2 hv.2 _ hstep
        intro w hw
        have := hsh w (List.mem_cons_of_mem _ hw)
        exact ⟨by rw [hsh'.1]; exact this.1, by rw [hsh'.2]; exact this.2⟩

/-! ## magnitude bounds -/

/-- after the normalisation of a step, `max|p| = 1` -/
theorem magnitude_bound_normalised (d : List α) (hf : maxAbs d ≠ 0) :
    maxAbs (d.map fun x => x / maxAbs d) = 1 := maxAbs_normalised d hf

/-- every entry formed by a step is bounded by `K · max|l| · max|r|` (`K` = number of summed terms) -/
theorem magnitude_bound_step (size : Ix → Nat) (l r : Tensor α) (out : List Ix) :
    ∀ x ∈ (contract size l r out).data,
      |x| ≤ (assignments size (summedOf (l.inds ++ r.inds) out)).length *
              (maxAbs l.data * maxAbs r.data) := contract_entry_le size l r out

/-- with operands bounded by 1e100 (input tensors; normalised intermediates have `max = 1`) and at
    most 1e100 summed terms, no entry formed by a step exceeds 1e300 -/
theorem magnitude_bound_real (size : Ix → Nat) (l r : Tensor ℝ) (out : List Ix)
    (hl : maxAbs l.data ≤ (10 : ℝ) ^ (100 : ℕ)) (hr : maxAbs r.data ≤ (10 : ℝ) ^ (100 : ℕ))
    (hK : ((assignments size (summedOf (l.inds ++ r.inds) out)).length : ℝ) ≤ (10 : ℝ) ^ (100 : ℕ)) :
    ∀ x ∈ (contract size l r out).data, |x| ≤ (10 : ℝ) ^ (300 : ℕ) := by
  intro x hx
  have h := magnitude_bound_step size l r out x hx
  have h0l := maxAbs_nonneg l.data
  have h0r := maxAbs_nonneg r.data
  have hK0 : (0 : ℝ) ≤ ((assignments size (summedOf (l.inds ++ r.inds) out)).length : ℝ) :=
    Nat.cast_nonneg _
  calc |x| ≤ _ := h
    _ ≤ (10 : ℝ) ^ (100 : ℕ) * ((10 : ℝ) ^ (100 : ℕ) * (10 : ℝ) ^ (100 : ℕ)) := by
        apply mul_le_mul hK (mul_le_mul hl hr h0r (by positivity)) (mul_nonneg h0l h0r) (by positivity)
    _ = (10 : ℝ) ^ (300 : ℕ) := by rw [← pow_add, ← pow_add]

/-! ## non-vacuity and the known finding, on concrete rational inputs -/

section examples

/-- `ab,bc->ac` with `b` summed: one pairwise step writing key 2 -/
def exSize : Ix → Nat := fun _ => 2
def exSteps : List Step := [.pair 2 0 1 [0, 2]]
def exT0 : Temps ℚ := [(0, ⟨[0, 1], [1, 2, 3, 4]⟩), (1, ⟨[1, 2], [1 / 2, 0, 0, -8]⟩)]

/-- the hypotheses of `strip_root_exact` are met by a concrete contraction: distinct keys,
    well-formed program, the stripped run ends without a zero factor with mantissa
    `[1/64, -1/2, 3/64, -1]` and the single factor 32 -/
example : (keys exT0).Nodup ∧ WF exSteps (keys exT0) ∧
    runStrip exSize false exSteps (init exT0) =
      some { temps := [(2, ⟨[0, 2], [1 / 64, -1 / 2, 3 / 64, -1]⟩)], factors := [32] } := by
  refine ⟨by decide, wf_of_wfB _ _ (by decide), by decide +kernel⟩

/-- ... and the conclusion says what it should: plain result `[1/2, -16, 3/2, -32]` -/
example : runPlain exSize exSteps exT0 = some [(2, ⟨[0, 2], [1 / 2, -16, 3 / 2, -32]⟩)] := by
  decide +kernel

/-- `a,a->` with `a` (size 2) sliced: each slice is a product of two scalars -/
def slSteps : List Step := [.pair 2 0 1 []]
def slT (x y : ℚ) : Temps ℚ := [(0, ⟨[], [x]⟩), (1, ⟨[], [y]⟩)]

def isNan : SRes ℚ → Bool
  | .nan => true
  | _ => false

/-- **Counter-example (known finding, DESIGN §7 n).**  `x = [0, 1]`, `y = [1, 1]`, `a` sliced,
    default `check_zero=False`: slice 0 has the value 0 (factor 0, `0/0`), slice 1 the value 1.
    The plain total is `0 + 1 = 1 ≠ 0`, yet the stripped and reduced result is `nan`: the
    property's "mantissa × 10^exponent = result whenever the result is non-zero" fails. -/
theorem sliced_nan_counterexample :
    slicePlain exSize slSteps (slT 0 1) = some ⟨[], [0]⟩ ∧
    slicePlain exSize slSteps (slT 1 1) = some ⟨[], [1]⟩ ∧
    (match sliceRes exSize false slSteps (slT 0 1), sliceRes exSize false slSteps (slT 1 1) with
     | some a, some b => isNan (sumRes addRes a [b])
     | _, _ => false) = true := by
  refine ⟨by decide +kernel, by decide +kernel, by decide +kernel⟩

/-- with `check_zero=True` (and the repaired `add_maybe_exponent_stripped`) the same input, even
    with the zero slice first and repeated, gives the exact total `(1, 10^0)` -/
example :
    (match sliceRes exSize true slSteps (slT 0 1), sliceRes exSize true slSteps (slT 0 5),
           sliceRes exSize true slSteps (slT 1 1) with
     | some a, some b, some c => sumRes addRes a [b, c]
     | _, _, _ => .nan) = .ok { m := ⟨[], [1]⟩, f := 1 } := by decide +kernel

/-- the unrepaired `add_maybe_exponent_stripped` turns two zero slices into `nan` -/
example :
    (match sliceRes exSize true slSteps (slT 0 1), sliceRes exSize true slSteps (slT 0 5),
           sliceRes exSize true slSteps (slT 1 1) with
     | some a, some b, some c => isNan (sumRes addResOld a [b, c])
     | _, _, _ => false) = true := by decide +kernel

end examples

end Cotengra.C19
