import CotengraVerif.Lemmas.SlicerTree
import Mathlib.Tactic.SplitIfs

/-!
# C07 — the slice finder's predicted costs are real and its targets are honoured

Model (`Model/Slicer.lean`), transcribed from cotengra/slicer.py and cotengra/utils.py:
* `Slicer.Costs` with `init / remove / removeAll / touchAll` = `ContractionCosts.__init__`
  (:43-75), `remove` (:136-192), the defaultdict side effect of `score_slice_index`
  (scoring.py:106-326); `MaxCounter` (utils.py:209-276);
* `Slicer.trial / trialLoop / best / searchLoop / forbiddenOf` = `SliceFinder.trial` (:333-406),
  `best` (:288-331, `k=None`), `search` (:408-429), `__init__` (:256-267);
* `Slicer.treeCons / conOf` = `from_contraction_tree` (:95-112) over the shared tree model
  (`Net.legs / involved / sizeIn / nodeFlops`, core.py:743-848).
The "tree actually sliced on those indices" is the shared from-scratch model
`Net.stats (ixs.reverse ++ rm) (ixs.reverse ++ sliced) t`, which C03 ties to the real
`remove_ind` chain and proves equal to the leaf-set definition.

Not modelled: the floating point score / Gumbel noise / arg-max (an oracle: `picks`, every
theorem is for all of them), `best(k=…)`, `from_info` (opt_einsum `PathInfo`), plotting.
`overhead <= target` is decided exactly on integers (`Costs.overheadLe`).

Guards (`TreeHyp`): leaves distinct and in range, output indices distinct and each present in
some input, all sizes ≥ 1; `init`/`remove` returning `some` = no lookup of the real code raised.
-/
namespace Cotengra.C07
open Cotengra Cotengra.Net Cotengra.Legs Cotengra.Slicer

/-! ## 1. the incremental cost model -/

/-- **remove_spec.** `ContractionCosts.remove(ix)` on an object whose accumulators equal their
    definitions returns an object whose accumulators equal their definitions for the contraction
    list with `ix` erased (`sliceIf`), `nslices` multiplied by the dimension. -/
theorem remove_spec (c c' : Costs) (ix : Ix) (hacc : Acc c) (hok : AllOK c) (hpos : SdPos c.sizeDict)
    (h : c.remove ix = some c') : RemoveOut c c' ix :=
  remove_out c c' ix hacc hok hpos h

/-- objects reachable from `c0` by `remove`s (along `ixs`) and score evaluations -/
inductive Reach (c0 : Costs) : List Ix → Costs → Prop
  | base : Reach c0 [] c0
  | touch {ixs c} : Reach c0 ixs c → Reach c0 ixs c.touchAll
  | remove {ixs c ix c'} : Reach c0 ixs c → c.remove ix = some c' → Reach c0 (ixs ++ [ix]) c'

theorem touchAll_acc (c : Costs) (h : Acc c) : Acc c.touchAll := by
  refine ⟨h.flops, h.sizes, h.wher, h.wherNd, ?_, ?_⟩
  · intro ix hx
    show IDict.get ((AL.keys c.sizeDict).foldl IDict.touch c.fred) ix = _
    rw [IDict.get_foldl_touch]; exact h.fred ix hx
  · intro ix hx
    show IDict.get ((AL.keys c.sizeDict).foldl IDict.touch c.wred) ix = _
    rw [IDict.get_foldl_touch]; exact h.wred ix hx

theorem reach_inv (c0 : Costs) (h0 : Acc c0) (hok0 : AllOK c0) (hpos0 : SdPos c0.sizeDict)
    (ixs : List Ix) (c : Costs) (hr : Reach c0 ixs c) :
    Acc c ∧ AllOK c ∧ SdPos c.sizeDict := by
  induction hr with
  | base => exact ⟨h0, hok0, hpos0⟩
  | touch _ ih => exact ⟨touchAll_acc _ ih.1, ih.2.1, ih.2.2⟩
  | remove _ hrem ih =>
    have := remove_out _ _ _ ih.1 ih.2.1 ih.2.2 hrem
    exact ⟨this.acc, this.ok, this.pos⟩

/-- **reductions_inv.** After construction and any sequence of removals / score evaluations,
    `_flop_reductions[ix]` and `_write_reductions[ix]` (read with the default 0) equal their
    definitions on the current contraction list, `_flops` is the sum of the flops and `_sizes`
    represents the multiset of the sizes, for every index. -/
theorem reductions_inv (cons : List Con) (sd : List (Ix × Nat)) (c0 c : Costs) (ixs : List Ix)
    (hinit : Costs.init cons sd = some c0) (hok : ∀ x ∈ cons, ConOK sd x) (hpos : SdPos sd)
    (hr : Reach c0 ixs c) (ix : Ix) :
    c.fred.get ix = fredSpec c.sizeDict c.cons ix ∧ c.wred.get ix = wredSpec c.sizeDict c.cons ix ∧
    c.flops = (c.cons.map fun x => (x.flops : Int)).sum ∧
    MaxCounter.Rep c.mxsizes (c.cons.map (·.size)) := by
  obtain ⟨a0, e1, e2, _, _⟩ := init_acc cons sd 1 c0 hinit (fun x hx => (hok x hx).nodupI)
  have hok0 : AllOK c0 := by intro x hx; rw [e1] at hx; rw [e2]; exact hok x hx
  have := (reach_inv c0 a0 hok0 (by rw [e2]; exact hpos) ixs c hr).1
  exact ⟨this.fred ix (by simp), this.wred ix (by simp), this.flops, this.sizes⟩

/-! ## 2. the cost model versus the tree -/

/-- relation between a stored tuple and the internal node it came from, for the tree with the
    indices `rm'` removed -/
def Rel (n : Net) (rm' : List Ix) (t : BT) (a : Con) (s : BT) : Prop :=
  s ∈ t.internal ∧ (∀ x ∈ a.legs, x ∈ a.involved) ∧ ConEq a (conOf n rm' t s)

/-- the state of a cost object derived from the tree `t` (already removed: `rm`) after the
    removals `R` (most recent first) -/
structure TreeRel (n : Net) (rm : List Ix) (t : BT) (order : List BT) (R : List Ix) (c : Costs) : Prop where
  rel : List.Forall₂ (Rel n (R ++ rm) t) c.cons order
  szAgree : ∀ x, x ∉ R → szOf c.sizeDict x = szOf n.sizes x
  gone : ∀ x ∈ R, AL.has c.sizeDict x = false
  ns : c.nslices = prodSz n.sizes R

theorem treeRel_init (n : Net) (rm : List Ix) (t : BT) (order : List BT) (h : TreeHyp n t)
    (hord : ∀ s ∈ order, s ∈ t.internal) (c0 : Costs)
    (hinit : Costs.init (order.map (conOf n rm t)) n.sizes = some c0) :
    Acc c0 ∧ AllOK c0 ∧ SdPos c0.sizeDict ∧ TreeRel n rm t order [] c0 ∧ c0.originalFlops = c0.flops := by
  have hokc : ∀ x ∈ order.map (conOf n rm t), ConOK n.sizes x := by
    intro x hx
    obtain ⟨s, hs, rfl⟩ := List.mem_map.1 hx
    exact conOf_ok n rm t s h (hord s hs)
  obtain ⟨a0, e1, e2, e3, e4⟩ := init_acc _ n.sizes 1 c0 hinit (fun x hx => (hokc x hx).nodupI)
  refine ⟨a0, ?_, ?_, ⟨?_, ?_, ?_, ?_⟩, e4⟩
  · intro x hx; rw [e1] at hx; rw [e2]; exact hokc x hx
  · rw [e2]; intro ix; rw [← size_eq_szOf]; exact h.szPos ix
  · rw [e1, List.forall₂_map_left_iff]
    simp only [List.nil_append]
    have : ∀ l : List BT, (∀ s ∈ l, s ∈ t.internal) →
        List.Forall₂ (fun s s' => Rel n rm t (conOf n rm t s) s') l l := by
      intro l hl
      induction l with
      | nil => exact List.Forall₂.nil
      | cons s tl ih =>
        refine List.Forall₂.cons ⟨hl s List.mem_cons_self, ?_, fun _ => Iff.rfl, fun _ => Iff.rfl⟩
          (ih (fun s' hs' => hl s' (List.mem_cons_of_mem _ hs')))
        exact (conOf_ok n rm t s h (hl s List.mem_cons_self)).sub
    exact this order hord
  · intro x _; rw [e2]
  · intro x hx; cases hx
  · rw [e3]; simp [prodSz]

theorem treeRel_touch (n : Net) (rm : List Ix) (t : BT) (order : List BT) (R : List Ix) (c : Costs)
    (h : TreeRel n rm t order R c) : TreeRel n rm t order R c.touchAll :=
  ⟨h.rel, h.szAgree, h.gone, h.ns⟩

theorem treeRel_remove (n : Net) (rm : List Ix) (t : BT) (order : List BT) (hyp : TreeHyp n t)
    (R : List Ix) (c c' : Costs) (ix : Ix) (h : TreeRel n rm t order R c)
    (hacc : Acc c) (hok : AllOK c) (hpos : SdPos c.sizeDict) (hrem : c.remove ix = some c') :
    TreeRel n rm t order (ix :: R) c' := by
  have out := remove_out c c' ix hacc hok hpos hrem
  have hhas : AL.has c.sizeDict ix = true := by
    unfold Costs.remove at hrem
    split at hrem
    · rename_i hg
      unfold Costs.removeOK at hg
      simp only [Bool.and_eq_true] at hg
      exact hg.1.1.1.1
    · cases hrem
  have hixR : ix ∉ R := by
    intro hm
    rw [h.gone ix hm] at hhas; cases hhas
  refine ⟨?_, ?_, ?_, ?_⟩
  · rw [out.cons, List.forall₂_map_left_iff]
    apply List.Forall₂.imp _ h.rel
    intro a s ⟨hs, hsub, he⟩
    refine ⟨hs, ?_, ?_⟩
    · intro x hx
      rw [mem_sliceIf_legs _ _ _ hsub] at hx
      rw [mem_sliceIf_involved]
      exact ⟨hsub x hx.1, hx.2⟩
    · exact conEq_step n (R ++ rm) t s hyp hs ix _ a hsub he
  · intro x hx
    simp only [List.mem_cons, not_or] at hx
    rw [out.sd, szOf_del _ _ _ hx.1]
    exact h.szAgree x hx.2
  · intro x hx
    rw [out.sd, AL.has_del]
    rcases List.mem_cons.1 hx with e | e
    · subst e; simp
    · rw [h.gone x e]; simp
  · rw [out.ns, h.ns, h.szAgree ix hixR]
    simp [prodSz, Nat.mul_comm]

theorem cnt_pos_not_rm (n : Net) (rm : List Ix) (t : BT) (x : Ix) (h : 0 < n.cnt rm t x) : x ∉ rm := by
  intro hm
  have : n.cnt rm t x = 0 := by
    unfold cnt
    apply List.sum_eq_zero
    intro y hy
    obtain ⟨i, _, rfl⟩ := List.mem_map.1 hy
    unfold occ termRm
    apply List.count_eq_zero_of_not_mem
    intro hmem
    have := (List.mem_filter.1 hmem).2
    simp [hm] at this
  omega

theorem involved_not_rm (n : Net) (rm : List Ix) (t s : BT) (hyp : TreeHyp n t) (hs : s ∈ t.internal)
    (x : Ix) (hx : x ∈ (conOf n rm t s).involved) : x ∉ rm := by
  obtain ⟨hnd, hinb, l, r, rfl⟩ := sub_hyp n t s hyp hs
  have hx' : x ∈ keys (n.involved rm (.node l r)) := hx
  rw [C03.involved_iff n rm l r hnd hinb] at hx'
  rcases hx' with h | h
  · exact cnt_pos_not_rm n rm l x h.1
  · exact cnt_pos_not_rm n rm r x h.1

theorem figures_of_rel (n : Net) (rm' R : List Ix) (t : BT) (hyp : TreeHyp n t) (sd : List (Ix × Nat))
    (hR : ∀ x, x ∈ R → x ∈ rm') (hsz : ∀ x, x ∉ R → szOf sd x = szOf n.sizes x)
    (l1 : List Con) (l2 : List BT) (hok : ∀ a ∈ l1, ConOK sd a)
    (hrel : List.Forall₂ (Rel n rm' t) l1 l2) :
    l1.map (·.flops) = l2.map (n.nodeFlops rm') ∧ l1.map (·.size) = l2.map (n.sizeIn rm' t) := by
  induction hrel with
  | nil => exact ⟨rfl, rfl⟩
  | @cons a s l1' l2' hab _ ih =>
    obtain ⟨hs, _, he⟩ := hab
    have iht := ih (fun a' ha' => hok a' (List.mem_cons_of_mem _ ha'))
    have hoka := hok a List.mem_cons_self
    have hagree : ∀ x ∈ a.involved, szOf sd x = szOf n.sizes x := by
      intro x hx
      apply hsz
      intro hxR
      exact involved_not_rm n rm' t s hyp hs x ((he.1 x).1 hx) (hR x hxR)
    have := conEq_figures sd n.sizes a _ hoka (conOf_ok n rm' t s hyp hs) he hagree
    simp only [List.map_cons, iht.1, iht.2]
    exact ⟨by rw [this.1]; rfl, by rw [this.2]; rfl⟩

theorem reach_treeRel (n : Net) (rm : List Ix) (t : BT) (order : List BT) (hyp : TreeHyp n t)
    (hord : ∀ s ∈ order, s ∈ t.internal) (c0 : Costs)
    (hinit : Costs.init (order.map (conOf n rm t)) n.sizes = some c0)
    (ixs : List Ix) (c : Costs) (hr : Reach c0 ixs c) :
    Acc c ∧ AllOK c ∧ SdPos c.sizeDict ∧ TreeRel n rm t order ixs.reverse c ∧
      c.originalFlops = c0.flops := by
  obtain ⟨a0, ok0, p0, r0, o0⟩ := treeRel_init n rm t order hyp hord c0 hinit
  induction hr with
  | base => exact ⟨a0, ok0, p0, r0, o0⟩
  | touch _ ih => exact ⟨touchAll_acc _ ih.1, ih.2.1, ih.2.2.1, treeRel_touch _ _ _ _ _ _ ih.2.2.2.1,
      ih.2.2.2.2⟩
  | remove _ hrem ih =>
    have out := remove_out _ _ _ ih.1 ih.2.1 ih.2.2.1 hrem
    refine ⟨out.acc, out.ok, out.pos, ?_, by rw [out.orig]; exact ih.2.2.2.2⟩
    rw [List.reverse_append, List.reverse_singleton, List.singleton_append]
    exact treeRel_remove n rm t order hyp _ _ _ _ ih.2.2.2.1 ih.1 ih.2.1 ih.2.2.1 hrem

theorem prodSizes_eq_prod (n : Net) (l : List Ix) : n.prodSizes l = (l.map n.size).prod := by
  unfold prodSizes; rw [List.prod_eq_foldl]

theorem prodSz_eq_prodSizes (n : Net) (l : List Ix) : prodSz n.sizes l = n.prodSizes l := by
  rw [prodSizes_eq_prod]; unfold prodSz
  congr 1
  exact List.map_congr_left (fun x _ => (size_eq_szOf n x).symm)

theorem int_sum_cast (l : List Nat) : (l.map (Nat.cast : Nat → Int)).sum = ((l.sum : Nat) : Int) := by
  induction l with
  | nil => rfl
  | cons a t ih => rw [List.map_cons, List.sum_cons, List.sum_cons, ih]; push_cast; rfl

/-- **costs_remove_eq_tree.** Build `ContractionCosts` from the tree `t` (any order of the
    contractions; `rm` already sliced/projected), then apply removals `ixs` (interleaved with any
    number of score evaluations). Whenever no lookup raises, the object's `flops`, `size` and
    `nslices` are those of the tree re-read from scratch with `ixs` removed as well. -/
theorem costs_remove_eq_tree (n : Net) (rm : List Ix) (t : BT) (order : List BT) (hyp : TreeHyp n t)
    (hperm : order.Perm t.internal) (c0 : Costs)
    (hinit : Costs.init (order.map (conOf n rm t)) n.sizes = some c0)
    (ixs : List Ix) (c : Costs) (hr : Reach c0 ixs c) :
    c.flops = ((t.internal.map (n.nodeFlops (ixs.reverse ++ rm))).sum : Nat) ∧
    c.size = MaxCounter.maxOpt (t.internal.map (n.sizeIn (ixs.reverse ++ rm) t)) ∧
    c.nslices = n.prodSizes ixs ∧
    c.originalFlops = ((t.internal.map (n.nodeFlops rm)).sum : Nat) := by
  have hord : ∀ s ∈ order, s ∈ t.internal := fun s hs => hperm.subset hs
  obtain ⟨acc, ok, _, tr, orig⟩ := reach_treeRel n rm t order hyp hord c0 hinit ixs c hr
  have fig := figures_of_rel n (ixs.reverse ++ rm) ixs.reverse t hyp c.sizeDict
    (fun x hx => List.mem_append_left _ hx) tr.szAgree c.cons order ok tr.rel
  refine ⟨?_, ?_, ?_, ?_⟩
  · rw [acc.flops]
    have : (c.cons.map fun x => (x.flops : Int)) = (c.cons.map (·.flops)).map (Nat.cast : Nat → Int) := by
      rw [List.map_map]; rfl
    rw [this, fig.1, int_sum_cast]
    congr 1
    exact (hperm.map _).sum_eq
  · show c.mxsizes.mx = _
    rw [acc.sizes.mx, fig.2]
    exact maxOpt_perm (hperm.map _)
  · rw [tr.ns, prodSz_eq_prodSizes, prodSizes_eq_prod, prodSizes_eq_prod, List.map_reverse,
      List.prod_reverse]
  · -- the original flops are those of the unsliced object
    obtain ⟨acc0, ok0, _, tr0, _⟩ := reach_treeRel n rm t order hyp hord c0 hinit [] c0 Reach.base
    have fig0 := figures_of_rel n ([] ++ rm) [] t hyp c0.sizeDict (fun x hx => by cases hx)
      tr0.szAgree c0.cons order ok0 tr0.rel
    rw [orig, acc0.flops]
    have : (c0.cons.map fun x => (x.flops : Int)) = (c0.cons.map (·.flops)).map (Nat.cast : Nat → Int) := by
      rw [List.map_map]; rfl
    rw [this, fig0.1, int_sum_cast]
    congr 1
    exact (hperm.map _).sum_eq

theorem removeAll_reach (c0 : Costs) (pre : List Ix) (c : Costs) (hpre : Reach c0 pre c)
    (ixs : List Ix) (c' : Costs) (h : c.removeAll ixs = some c') : Reach c0 (pre ++ ixs) c' := by
  induction ixs generalizing pre c with
  | nil => simp only [Costs.removeAll, Option.some.injEq] at h; subst h; simpa using hpre
  | cons ix rest ih =>
    simp only [Costs.removeAll] at h
    split at h
    · cases h
    · rename_i c1 hc1
      have := ih (pre ++ [ix]) c1 (Reach.remove hpre hc1) h
      simpa using this

/-- **costs_eq_sliced_tree_stats** (the property's first sentence). With `sliced ⊆ rm` the indices
    that already multiply the slice count (`m0 = mult sliced`, "on top of the current number of
    slices"): the predicted total cost, size and number of slices are exactly
    `contract_stats()` / `multiplicity` of the tree sliced on `ixs` as well. -/
theorem costs_eq_sliced_tree_stats (n : Net) (rm sliced : List Ix) (t : BT) (order : List BT)
    (hyp : TreeHyp n t) (hperm : order.Perm t.internal) (c0 : Costs)
    (hinit : Costs.init (order.map (conOf n rm t)) n.sizes = some c0)
    (ixs : List Ix) (c : Costs) (hr : Reach c0 ixs c) (hnode : t.internal ≠ []) :
    let st := n.stats (ixs.reverse ++ rm) (ixs.reverse ++ sliced) t
    ((n.mult sliced : Nat) : Int) * c.totalFlops = (st.flops : Int) ∧
    c.size = some st.size ∧
    n.mult (ixs.reverse ++ sliced) = n.mult sliced * c.nslices := by
  obtain ⟨h1, h2, h3, _⟩ := costs_remove_eq_tree n rm t order hyp hperm c0 hinit ixs c hr
  have hm : n.mult (ixs.reverse ++ sliced) = n.mult sliced * c.nslices := by
    rw [h3]; unfold mult
    rw [prodSizes_eq_prod, prodSizes_eq_prod, prodSizes_eq_prod, List.map_append, List.prod_append,
      List.map_reverse, List.prod_reverse, Nat.mul_comm]
  refine ⟨?_, ?_, hm⟩
  · show _ * ((c.nslices : Int) * c.flops) = _
    unfold stats
    simp only
    rw [hm, h1]
    push_cast
    ring
  · rw [h2]
    unfold MaxCounter.maxOpt stats
    have : t.internal.map (n.sizeIn (ixs.reverse ++ rm) t) ≠ [] := by
      intro e; exact hnode (List.map_eq_nil_iff.1 e)
    simp only [this, if_false]

/-! ## 3. the search -/

/-- the sorted key of a chain of picks -/
def keyOf (ixs : List Ix) : List Ix := ixs.foldl (fun acc x => insertSorted x acc) []

theorem mem_insertSorted (x y : Nat) (l : List Nat) : y ∈ insertSorted x l ↔ (y = x ∨ y ∈ l) := by
  induction l with
  | nil => simp [insertSorted]
  | cons a t ih =>
    unfold insertSorted
    split
    · simp
    · split
      · rename_i h; subst h; simp
      · simp only [List.mem_cons, ih]
        constructor
        · rintro (h | h | h)
          · exact Or.inr (Or.inl h)
          · exact Or.inl h
          · exact Or.inr (Or.inr h)
        · rintro (h | h | h)
          · exact Or.inr (Or.inl h)
          · exact Or.inl h
          · exact Or.inr (Or.inr h)

theorem mem_keyOf (ixs : List Ix) (y : Ix) : y ∈ keyOf ixs ↔ y ∈ ixs := by
  unfold keyOf
  have : ∀ acc : List Nat, y ∈ ixs.foldl (fun acc x => insertSorted x acc) acc ↔ (y ∈ ixs ∨ y ∈ acc) := by
    induction ixs with
    | nil => intro acc; simp
    | cons a t ih =>
      intro acc
      simp only [List.foldl_cons, ih, mem_insertSorted, List.mem_cons]
      constructor
      · rintro (h | h | h)
        · exact Or.inl (Or.inr h)
        · exact Or.inl (Or.inl h)
        · exact Or.inr h
      · rintro ((h | h) | h)
        · exact Or.inr (Or.inl h)
        · exact Or.inl h
        · exact Or.inr (Or.inr h)
  simpa using this []

theorem keyOf_snoc (ixs : List Ix) (x : Ix) : keyOf (ixs ++ [x]) = insertSorted x (keyOf ixs) := by
  unfold keyOf; simp

/-- every cache entry is a genuine chain of removals from `c0` that avoids `forb` -/
def CacheInv (forb : List Ix) (c0 : Costs) (cache : Cache) : Prop :=
  ∀ kc ∈ cache, ∃ ixs, keyOf ixs = kc.1 ∧ Reach c0 ixs kc.2 ∧ ∀ x ∈ ixs, x ∉ forb

theorem cache_get_mem (cache : Cache) (k : List Ix) (c : Costs) (h : cache.get? k = some c) :
    (k, c) ∈ cache := by
  induction cache with
  | nil => cases h
  | cons kv t ih =>
    obtain ⟨k', v⟩ := kv
    unfold Cache.get? at h
    split at h
    · rename_i e; subst e; simp only [Option.some.injEq] at h; subst h; exact List.mem_cons_self
    · exact List.mem_cons_of_mem _ (ih h)

theorem cache_set_mem (cache : Cache) (k : List Ix) (c : Costs) (kc : List Ix × Costs)
    (h : kc ∈ cache.set k c) : kc ∈ cache ∨ kc = (k, c) := by
  induction cache with
  | nil => simp only [Cache.set, List.mem_singleton] at h; exact Or.inr h
  | cons kv t ih =>
    obtain ⟨k', v⟩ := kv
    unfold Cache.set at h
    split at h
    · rename_i e
      rcases List.mem_cons.1 h with e' | e'
      · right; rw [e', e]
      · left; exact List.mem_cons_of_mem _ e'
    · rcases List.mem_cons.1 h with e' | e'
      · left; rw [e']; exact List.mem_cons_self
      · rcases ih e' with h' | h'
        · left; exact List.mem_cons_of_mem _ h'
        · right; exact h'

theorem cacheInv_set (forb : List Ix) (c0 : Costs) (cache : Cache) (k : List Ix) (c : Costs)
    (h : CacheInv forb c0 cache)
    (hk : ∃ ixs, keyOf ixs = k ∧ Reach c0 ixs c ∧ ∀ x ∈ ixs, x ∉ forb) :
    CacheInv forb c0 (cache.set k c) := by
  intro kc hkc
  rcases cache_set_mem cache k c kc hkc with h' | h'
  · exact h kc h'
  · subst h'; exact hk

theorem trialLoop_inv (forb : List Ix) (tg : Targets) (c0 : Costs) (picks : List Ix) (cache : Cache)
    (key : List Ix) (cost : Costs) (h : CacheInv forb c0 cache)
    (hk : ∃ ixs, keyOf ixs = key ∧ Reach c0 ixs cost ∧ ∀ x ∈ ixs, x ∉ forb) :
    CacheInv forb c0 (trialLoop forb tg picks cache key cost).1 := by
  induction picks generalizing cache key cost with
  | nil => unfold trialLoop; exact h
  | cons ix rest ih =>
    unfold trialLoop
    split
    · exact h
    · split
      · exact h
      · obtain ⟨ixs, hkey, hreach, hforb⟩ := hk
        have hk' : ∃ ixs, keyOf ixs = key ∧ Reach c0 ixs cost.touchAll ∧ ∀ x ∈ ixs, x ∉ forb :=
          ⟨ixs, hkey, Reach.touch hreach, hforb⟩
        have hc1 := cacheInv_set forb c0 cache key cost.touchAll h hk'
        simp only
        split
        · exact hc1
        · rename_i hnf
          have hnf' : ix ∉ forb := by simpa using hnf
          split
          · exact hc1
          · rename_i cache' ncost hstep
            -- the step either hit the cache or removed `ix` from the current cost
            have hboth : CacheInv forb c0 cache' ∧
                ∃ ixs', keyOf ixs' = insertSorted ix key ∧ Reach c0 ixs' ncost ∧ ∀ x ∈ ixs', x ∉ forb := by
              split at hstep
              · rename_i nc hget
                simp only [Option.some.injEq, Prod.mk.injEq] at hstep
                obtain ⟨e1, e2⟩ := hstep
                subst e1 e2
                exact ⟨hc1, hc1 _ (cache_get_mem _ _ _ hget)⟩
              · split at hstep
                · cases hstep
                · rename_i nc hrem
                  simp only [Option.some.injEq, Prod.mk.injEq] at hstep
                  obtain ⟨e1, e2⟩ := hstep
                  subst e1 e2
                  have hnew : ∃ ixs', keyOf ixs' = insertSorted ix key ∧ Reach c0 ixs' nc ∧
                      ∀ x ∈ ixs', x ∉ forb := by
                    refine ⟨ixs ++ [ix], by rw [keyOf_snoc, hkey], Reach.remove (Reach.touch hreach) hrem, ?_⟩
                    intro x hx
                    rcases List.mem_append.1 hx with e | e
                    · exact hforb x e
                    · simp only [List.mem_singleton] at e; subst e; exact hnf'
                  exact ⟨cacheInv_set forb c0 _ _ _ hc1 hnew, hnew⟩
            split_ifs <;> first | exact hboth.1 | exact ih cache' (insertSorted ix key) ncost hboth.1 hboth.2

theorem trial_inv (forb : List Ix) (tg : Targets) (c0 : Costs) (picks : List Ix) (cache : Cache)
    (h : CacheInv forb c0 cache) : CacheInv forb c0 (trial forb tg picks cache).1 := by
  unfold trial
  split
  · exact h
  · rename_i cost hget
    split
    · exact h
    · exact trialLoop_inv forb tg c0 picks cache [] cost h (h _ (cache_get_mem _ _ _ hget))

/-- the trials of a `search` keep the cache invariant, whatever cache they start from -/
theorem searchLoop_inv (forb : List Ix) (tg : Targets) (c0 : Costs) (trials : List (List Ix)) :
    ∀ cache, CacheInv forb c0 cache → CacheInv forb c0 (searchLoop forb tg trials cache).1 := by
  induction trials with
  | nil => intro cache h; exact h
  | cons p rest ih =>
    intro cache h
    unfold searchLoop
    have ht := trial_inv forb tg c0 p cache h
    split
    · rename_i cache' _ _ heq
      rw [heq] at ht
      exact ih cache' ht
    · rename_i cache' r _ heq
      rw [heq] at ht
      exact ht

theorem cacheInv_init (forb : List Ix) (c0 : Costs) : CacheInv forb c0 [([], c0)] := by
  intro kc hkc
  simp only [List.mem_singleton] at hkc; subst hkc
  exact ⟨[], rfl, Reach.base, fun _ h => by cases h⟩

/-- **session_cache_sound.** One finder object, any history of `search` calls with any per-call
    targets and any oracle answers (also calls that raised): every entry of `SliceFinder.costs`
    is still a genuine removal chain avoiding the forbidden set. -/
theorem session_cache_sound (forb : List Ix) (tg0 : Targets) (c0 : Costs) (calls : List Call) :
    ∀ cache, CacheInv forb c0 cache → CacheInv forb c0 (sessionCache forb tg0 calls cache) := by
  induction calls with
  | nil => intro cache h; exact h
  | cons cl rest ih =>
    intro cache h
    unfold sessionCache
    exact ih _ (searchLoop_inv forb _ c0 cl.trials cache h)

/-- **cache_sound.** After any number of trials with any oracle answers, every entry
    `(key, cost)` of `SliceFinder.costs` is a chain of `remove`s from the unsliced cost along
    indices whose set is `key`, none of them forbidden. -/
theorem cache_sound (forb : List Ix) (tg : Targets) (c0 : Costs) (trials : List (List Ix)) :
    CacheInv forb c0 (searchLoop forb tg trials [([], c0)]).1 :=
  searchLoop_inv forb tg c0 trials _ (cacheInv_init forb c0)

/-- **never_forbidden.** No key of `costs` contains a forbidden index — for every oracle (so the
    `raise` at slicer.py:379 is what keeps output indices out when `allow_outer=False`, and inner
    ones when `allow_outer='only'`). -/
theorem never_forbidden (forb : List Ix) (tg : Targets) (c0 : Costs) (trials : List (List Ix))
    (kc : List Ix × Costs) (h : kc ∈ (searchLoop forb tg trials [([], c0)]).1) :
    ∀ x ∈ kc.1, x ∉ forb := by
  obtain ⟨ixs, hk, _, hf⟩ := cache_sound forb tg c0 trials kc h
  intro x hx
  rw [← hk, mem_keyOf] at hx
  exact hf x hx

theorem minBy_mem (f : Costs → Int × Int × Int) (l : List (List Ix × Costs)) (r : List Ix × Costs)
    (h : minBy f l = some r) : r ∈ l := by
  cases l with
  | nil => cases h
  | cons x t =>
    simp only [minBy, Option.some.injEq] at h
    subst h
    have : ∀ (t : List (List Ix × Costs)) (b : List Ix × Costs),
        t.foldl (fun best y => if lexLt (f y.2) (f best.2) then y else best) b = b ∨
        t.foldl (fun best y => if lexLt (f y.2) (f best.2) then y else best) b ∈ t := by
      intro t
      induction t with
      | nil => intro b; exact Or.inl rfl
      | cons y t ih =>
        intro b
        simp only [List.foldl_cons]
        rcases ih (if lexLt (f y.2) (f b.2) then y else b) with h | h
        · rw [h]
          split
          · exact Or.inr List.mem_cons_self
          · exact Or.inl rfl
        · exact Or.inr (List.mem_cons_of_mem _ h)
    rcases this t x with h | h
    · rw [h]; exact List.mem_cons_self
    · exact List.mem_cons_of_mem _ h

/-- **best_meets_targets.** Whatever the cache holds, if `best` returns `(key, cost)` then the
    pair is in the cache and every *specified* target holds for `cost`:
    `size ≤ target_size`, `nslices ≥ target_slices`, `overhead ≤ target_overhead`. -/
theorem best_meets_targets (tg : Targets) (cache : Cache) (k : List Ix) (c : Costs)
    (h : best tg cache = some (k, c)) :
    (k, c) ∈ cache ∧
    (∀ s, tg.size = some s → sizeLe c s = true) ∧
    (∀ s, tg.slices = some s → s ≤ c.nslices) ∧
    (∀ p q, tg.overhead = some (p, q) → c.totalFlops * q ≤ p * c.originalFlops) := by
  have hm := minBy_mem _ _ _ h
  rw [List.mem_filter] at hm
  obtain ⟨hmem, hv⟩ := hm
  unfold valid at hv
  simp only [Bool.and_eq_true] at hv
  refine ⟨hmem, ?_, ?_, ?_⟩
  · intro s hs; rw [hs] at hv; exact hv.1.1
  · intro s hs; rw [hs] at hv; simpa using hv.2
  · intro p q hs; rw [hs] at hv; simpa [Costs.overheadLe] using hv.1.2

/-- what "valid for the targets" means for a cache entry (the filter of `best`) -/
theorem valid_spec (tg : Targets) (c : Costs) (hv : valid tg c = true) :
    (∀ s, tg.size = some s → sizeLe c s = true) ∧
    (∀ s, tg.slices = some s → s ≤ c.nslices) ∧
    (∀ p q, tg.overhead = some (p, q) → c.totalFlops * q ≤ p * c.originalFlops) := by
  unfold valid at hv
  simp only [Bool.and_eq_true] at hv
  refine ⟨?_, ?_, ?_⟩
  · intro s hs; rw [hs] at hv; exact hv.1.1
  · intro s hs; rw [hs] at hv; simpa using hv.2
  · intro p q hs; rw [hs] at hv; simpa [Costs.overheadLe] using hv.1.2

/-- the conclusion of `search_sound` for *any* entry of a cache satisfying the cache invariant
    that passes the filter of `best` (shared by `search_sound`, `session_sound`, `bestK_sound`) -/
theorem valid_entry_sound (n : Net) (rm sliced : List Ix) (t : BT) (order : List BT) (hyp : TreeHyp n t)
    (hperm : order.Perm t.internal) (hnode : t.internal ≠ []) (c0 : Costs)
    (hinit : Costs.init (order.map (conOf n rm t)) n.sizes = some c0)
    (forb : List Ix) (tg : Targets) (cache : Cache) (hinv : CacheInv forb c0 cache)
    (k : List Ix) (c : Costs) (hmem : (k, c) ∈ cache) (hv : valid tg c = true) :
    ∃ ixs, keyOf ixs = k ∧ (∀ x ∈ ixs, x ∉ forb) ∧
      let st := n.stats (ixs.reverse ++ rm) (ixs.reverse ++ sliced) t
      let st0 := n.stats rm sliced t
      ((n.mult sliced : Nat) : Int) * c.totalFlops = (st.flops : Int) ∧
      c.size = some st.size ∧
      n.mult (ixs.reverse ++ sliced) = n.mult sliced * c.nslices ∧
      (∀ s, tg.size = some s → st.size ≤ s) ∧
      (∀ s, tg.slices = some s → s * n.mult sliced ≤ n.mult (ixs.reverse ++ sliced)) ∧
      (∀ p q, tg.overhead = some (p, q) → st.flops * q ≤ p * st0.flops) := by
  obtain ⟨hsz, hsl, hov⟩ := valid_spec tg c hv
  obtain ⟨ixs, hk, hreach, hforb⟩ := hinv (k, c) hmem
  obtain ⟨e1, e2, e3⟩ := costs_eq_sliced_tree_stats n rm sliced t order hyp hperm c0 hinit ixs c hreach hnode
  obtain ⟨_, _, _, e4⟩ := costs_remove_eq_tree n rm t order hyp hperm c0 hinit ixs c hreach
  refine ⟨ixs, hk, hforb, e1, e2, e3, ?_, ?_, ?_⟩
  · intro s hs
    have := hsz s hs
    unfold sizeLe at this
    rw [e2] at this
    simpa using this
  · intro s hs
    have := hsl s hs
    rw [e3, Nat.mul_comm]
    exact Nat.mul_le_mul_left _ this
  · intro p q hs
    have := hov p q hs
    -- multiply the integer inequality by the current number of slices
    have hm : (0 : Int) ≤ ((n.mult sliced : Nat) : Int) := Int.natCast_nonneg _
    have h2 := Int.mul_le_mul_of_nonneg_left this hm
    have hst0 : ((n.stats rm sliced t).flops : Int) = ((n.mult sliced : Nat) : Int) * c.originalFlops := by
      rw [e4]; unfold stats; simp
    have : ((n.stats (ixs.reverse ++ rm) (ixs.reverse ++ sliced) t).flops : Int) * q ≤
        p * ((n.stats rm sliced t).flops : Int) := by
      rw [← e1, hst0]
      calc ((n.mult sliced : Nat) : Int) * c.totalFlops * q
          = ((n.mult sliced : Nat) : Int) * (c.totalFlops * q) := by ring
        _ ≤ ((n.mult sliced : Nat) : Int) * (p * c.originalFlops) := h2
        _ = p * (((n.mult sliced : Nat) : Int) * c.originalFlops) := by ring
    exact_mod_cast this

theorem best_valid (tg : Targets) (cache : Cache) (k : List Ix) (c : Costs)
    (h : best tg cache = some (k, c)) : (k, c) ∈ cache ∧ valid tg c = true := by
  have hm := minBy_mem _ _ _ h
  rw [List.mem_filter] at hm
  exact hm

theorem best_on_inv_sound (n : Net) (rm sliced : List Ix) (t : BT) (order : List BT) (hyp : TreeHyp n t)
    (hperm : order.Perm t.internal) (hnode : t.internal ≠ []) (c0 : Costs)
    (hinit : Costs.init (order.map (conOf n rm t)) n.sizes = some c0)
    (forb : List Ix) (tg : Targets) (cache : Cache) (hinv : CacheInv forb c0 cache)
    (k : List Ix) (c : Costs) (h : best tg cache = some (k, c)) :
    ∃ ixs, keyOf ixs = k ∧ (∀ x ∈ ixs, x ∉ forb) ∧
      let st := n.stats (ixs.reverse ++ rm) (ixs.reverse ++ sliced) t
      let st0 := n.stats rm sliced t
      ((n.mult sliced : Nat) : Int) * c.totalFlops = (st.flops : Int) ∧
      c.size = some st.size ∧
      n.mult (ixs.reverse ++ sliced) = n.mult sliced * c.nslices ∧
      (∀ s, tg.size = some s → st.size ≤ s) ∧
      (∀ s, tg.slices = some s → s * n.mult sliced ≤ n.mult (ixs.reverse ++ sliced)) ∧
      (∀ p q, tg.overhead = some (p, q) → st.flops * q ≤ p * st0.flops) :=
  valid_entry_sound n rm sliced t order hyp hperm hnode c0 hinit forb tg cache hinv k c
    (best_valid tg cache k c h).1 (best_valid tg cache k c h).2

theorem mem_insertByScore (f : Costs → Int × Int × Int) (x y : List Ix × Costs)
    (l : List (List Ix × Costs)) : y ∈ insertByScore f x l ↔ (y = x ∨ y ∈ l) := by
  induction l with
  | nil => simp [insertByScore]
  | cons z t ih =>
    unfold insertByScore
    split
    · simp only [List.mem_cons, ih]
      constructor
      · rintro (h | h | h)
        · exact Or.inr (Or.inl h)
        · exact Or.inl h
        · exact Or.inr (Or.inr h)
      · rintro (h | h | h)
        · exact Or.inr (Or.inl h)
        · exact Or.inl h
        · exact Or.inr (Or.inr h)
    · simp [List.mem_cons]

theorem mem_sortByScore (f : Costs → Int × Int × Int) (y : List Ix × Costs)
    (l : List (List Ix × Costs)) : y ∈ sortByScore f l ↔ y ∈ l := by
  unfold sortByScore
  induction l with
  | nil => simp
  | cons z t ih => simp only [List.foldr_cons, mem_insertByScore, ih, List.mem_cons]

/-- **bestK_sound** — `SliceFinder.best(k=…)`, the list interface: on a finder with any history
    (`before`), *every* slicing in the returned list — not only the first — is a removal chain
    avoiding the forbidden set whose predicted figures are those of the tree sliced on it and on
    which every target in force holds. -/
theorem bestK_sound (n : Net) (rm sliced : List Ix) (t : BT) (order : List BT) (hyp : TreeHyp n t)
    (hperm : order.Perm t.internal) (hnode : t.internal ≠ []) (c0 : Costs)
    (hinit : Costs.init (order.map (conOf n rm t)) n.sizes = some c0)
    (forb : List Ix) (tg0 : Targets) (before : List Call) (over : Targets) (kk : Nat)
    (k : List Ix) (c : Costs)
    (h : (k, c) ∈ bestK (over.orElse tg0) (sessionCache forb tg0 before [([], c0)]) kk) :
    let tg := over.orElse tg0
    ∃ ixs, keyOf ixs = k ∧ (∀ x ∈ ixs, x ∉ forb) ∧
      let st := n.stats (ixs.reverse ++ rm) (ixs.reverse ++ sliced) t
      let st0 := n.stats rm sliced t
      ((n.mult sliced : Nat) : Int) * c.totalFlops = (st.flops : Int) ∧
      c.size = some st.size ∧
      n.mult (ixs.reverse ++ sliced) = n.mult sliced * c.nslices ∧
      (∀ s, tg.size = some s → st.size ≤ s) ∧
      (∀ s, tg.slices = some s → s * n.mult sliced ≤ n.mult (ixs.reverse ++ sliced)) ∧
      (∀ p q, tg.overhead = some (p, q) → st.flops * q ≤ p * st0.flops) := by
  intro tg
  have hinv := session_cache_sound forb tg0 c0 before _ (cacheInv_init forb c0)
  unfold bestK at h
  have h1 := List.mem_of_mem_take h
  rw [mem_sortByScore, List.mem_filter] at h1
  exact valid_entry_sound n rm sliced t order hyp hperm hnode c0 hinit forb tg _ hinv k c h1.1 h1.2

/-- **search_sound** (the property). Start a `SliceFinder` on the tree `t` (already removed `rm`,
    of which `sliced` multiply the slice count), run any trials with any oracle answers, call
    `best`. If it returns `(key, cost)`, then `key` is the set of a removal chain `ixs` that avoids
    the forbidden set, the predicted figures are those of the tree sliced on `ixs` as well, and
    every specified target holds **on that tree**: largest intermediate ≤ `target_size`, number
    of slices ≥ `target_slices` × (current number of slices), total flops ≤ `p/q` × the flops of the
    tree before. -/
theorem search_sound (n : Net) (rm sliced : List Ix) (t : BT) (order : List BT) (hyp : TreeHyp n t)
    (hperm : order.Perm t.internal) (hnode : t.internal ≠ []) (c0 : Costs)
    (hinit : Costs.init (order.map (conOf n rm t)) n.sizes = some c0)
    (forb : List Ix) (tg : Targets) (trials : List (List Ix)) (k : List Ix) (c : Costs)
    (h : best tg (searchLoop forb tg trials [([], c0)]).1 = some (k, c)) :
    ∃ ixs, keyOf ixs = k ∧ (∀ x ∈ ixs, x ∉ forb) ∧
      let st := n.stats (ixs.reverse ++ rm) (ixs.reverse ++ sliced) t
      let st0 := n.stats rm sliced t
      ((n.mult sliced : Nat) : Int) * c.totalFlops = (st.flops : Int) ∧
      c.size = some st.size ∧
      n.mult (ixs.reverse ++ sliced) = n.mult sliced * c.nslices ∧
      (∀ s, tg.size = some s → st.size ≤ s) ∧
      (∀ s, tg.slices = some s → s * n.mult sliced ≤ n.mult (ixs.reverse ++ sliced)) ∧
      (∀ p q, tg.overhead = some (p, q) → st.flops * q ≤ p * st0.flops) :=
  best_on_inv_sound n rm sliced t order hyp hperm hnode c0 hinit forb tg _
    (cache_sound forb tg c0 trials) k c h

/-- **session_sound** (the property for a finder that is *re-used*). One `SliceFinder` built with
    constructor targets `tg0`; any history `before` of earlier `search` calls on it (each with its
    own per-call targets and oracle answers, returning or raising), then a call `cl`. If that call
    returns `(key, cost)`, then — with the targets *in force for that call* (`cl.over.orElse tg0`:
    the per-call value where one was given, else the constructor's) — `key` is the set of a removal
    chain avoiding the forbidden set, the predicted figures are those of the tree sliced on it,
    and every specified target holds on that tree. -/
theorem session_sound (n : Net) (rm sliced : List Ix) (t : BT) (order : List BT) (hyp : TreeHyp n t)
    (hperm : order.Perm t.internal) (hnode : t.internal ≠ []) (c0 : Costs)
    (hinit : Costs.init (order.map (conOf n rm t)) n.sizes = some c0)
    (forb : List Ix) (tg0 : Targets) (before : List Call) (cl : Call) (k : List Ix) (c : Costs)
    (h : callResult forb tg0 cl (sessionCache forb tg0 before [([], c0)]) = some (k, c)) :
    let tg := cl.over.orElse tg0
    ∃ ixs, keyOf ixs = k ∧ (∀ x ∈ ixs, x ∉ forb) ∧
      let st := n.stats (ixs.reverse ++ rm) (ixs.reverse ++ sliced) t
      let st0 := n.stats rm sliced t
      ((n.mult sliced : Nat) : Int) * c.totalFlops = (st.flops : Int) ∧
      c.size = some st.size ∧
      n.mult (ixs.reverse ++ sliced) = n.mult sliced * c.nslices ∧
      (∀ s, tg.size = some s → st.size ≤ s) ∧
      (∀ s, tg.slices = some s → s * n.mult sliced ≤ n.mult (ixs.reverse ++ sliced)) ∧
      (∀ p q, tg.overhead = some (p, q) → st.flops * q ≤ p * st0.flops) := by
  intro tg
  have hinv0 := session_cache_sound forb tg0 c0 before _ (cacheInv_init forb c0)
  have hinv1 := searchLoop_inv forb tg c0 cl.trials _ hinv0
  unfold callResult at h
  split at h
  · rename_i cache' heq
    have hc : cache' = (searchLoop forb tg cl.trials (sessionCache forb tg0 before [([], c0)])).1 := by
      show cache' = (searchLoop forb (cl.over.orElse tg0) cl.trials _).1
      rw [heq]
    rw [hc] at h
    exact best_on_inv_sound n rm sliced t order hyp hperm hnode c0 hinit forb tg _ hinv1 k c h
  · cases h

/-- the per-call value wins where one is given; a field left `None` falls back to the constructor -/
theorem orElse_spec (call ctor : Targets) :
    (∀ s, call.size = some s → (call.orElse ctor).size = some s) ∧
    (call.size = none → (call.orElse ctor).size = ctor.size) ∧
    (∀ s, call.slices = some s → (call.orElse ctor).slices = some s) ∧
    (call.slices = none → (call.orElse ctor).slices = ctor.slices) ∧
    (∀ s, call.overhead = some s → (call.orElse ctor).overhead = some s) ∧
    (call.overhead = none → (call.orElse ctor).overhead = ctor.overhead) := by
  refine ⟨?_, ?_, ?_, ?_, ?_, ?_⟩ <;> intro h <;> (try intro h') <;> simp_all [Targets.orElse]

/-! ## ranking: `best` and `best(k=…)` return arg-mins of `best_scorer` -/

/-- `a ≤ b` in the lexicographic order of `best_scorer` tuples -/
def lexLe (a b : Int × Int × Int) : Prop := lexLt b a = false

theorem lexLt_iff (a b : Int × Int × Int) :
    lexLt a b = true ↔ (a.1 < b.1 ∨ (a.1 = b.1 ∧ (a.2.1 < b.2.1 ∨ (a.2.1 = b.2.1 ∧ a.2.2 < b.2.2)))) := by
  unfold lexLt
  simp only [Bool.or_eq_true, Bool.and_eq_true, decide_eq_true_eq, beq_iff_eq]

theorem lexLe_iff (a b : Int × Int × Int) :
    lexLe a b ↔ (a.1 < b.1 ∨ (a.1 = b.1 ∧ (a.2.1 < b.2.1 ∨ (a.2.1 = b.2.1 ∧ a.2.2 ≤ b.2.2)))) := by
  unfold lexLe
  rw [← Bool.not_eq_true, lexLt_iff]
  omega

theorem lexLe_trans {a b c : Int × Int × Int} (h1 : lexLe a b) (h2 : lexLe b c) : lexLe a c := by
  rw [lexLe_iff] at *
  omega

theorem lexLe_of_lexLt {a b : Int × Int × Int} (h : lexLt a b = true) : lexLe a b := by
  rw [lexLe_iff]; rw [lexLt_iff] at h; omega

theorem lexLe_total (a b : Int × Int × Int) : lexLe a b ∨ lexLe b a := by
  rw [lexLe_iff, lexLe_iff]; omega



theorem lexLe_refl (a : Int × Int × Int) : lexLe a a := by
  rw [lexLe_iff]; omega

def SortedBy (f : Costs → Int × Int × Int) (l : List (List Ix × Costs)) : Prop :=
  l.Pairwise (fun a b => lexLe (f a.2) (f b.2))

theorem insertByScore_sorted (f : Costs → Int × Int × Int) (x : List Ix × Costs)
    (l : List (List Ix × Costs)) (h : SortedBy f l) : SortedBy f (insertByScore f x l) := by
  induction l with
  | nil => simp [insertByScore, SortedBy]
  | cons y t ih =>
    unfold SortedBy at h
    rw [List.pairwise_cons] at h
    obtain ⟨hy, ht⟩ := h
    unfold insertByScore
    split
    · rename_i hlt
      unfold SortedBy
      rw [List.pairwise_cons]
      refine ⟨?_, ih ht⟩
      intro z hz
      rcases (mem_insertByScore f x z t).1 hz with rfl | hz
      · exact lexLe_of_lexLt hlt
      · exact hy z hz
    · rename_i hnl
      have hxy : lexLe (f x.2) (f y.2) := by
        unfold lexLe
        cases hc : lexLt (f y.2) (f x.2)
        · rfl
        · exact absurd hc hnl
      unfold SortedBy
      rw [List.pairwise_cons, List.pairwise_cons]
      refine ⟨?_, hy, ht⟩
      intro z hz
      rcases List.mem_cons.1 hz with rfl | hz
      · exact hxy
      · exact lexLe_trans hxy (hy z hz)

theorem sortByScore_sorted (f : Costs → Int × Int × Int) (l : List (List Ix × Costs)) :
    SortedBy f (sortByScore f l) := by
  unfold sortByScore
  induction l with
  | nil => simp [SortedBy]
  | cons z t ih => simpa only [List.foldr_cons] using insertByScore_sorted f z _ ih

/-- **bestK_sorted_argmin** — the list `best(k=…)` returns is sorted best first by `best_scorer`, and
    its first entry is an arg-min over *all* valid cached slicings (so `best(k=1)` and `best()`
    agree up to ties). -/
theorem bestK_sorted_argmin (tg : Targets) (cache : Cache) (k : Nat) :
    SortedBy (scorer tg) (bestK tg cache k) ∧
    ∀ x rest, bestK tg cache k = x :: rest →
      ∀ y ∈ cache, valid tg y.2 = true → lexLe (scorer tg x.2) (scorer tg y.2) := by
  have hs := sortByScore_sorted (scorer tg) (cache.filter fun kv => valid tg kv.2)
  constructor
  · unfold bestK SortedBy
    exact List.Pairwise.sublist (List.take_sublist _ _) hs
  · intro x rest hx y hy hv
    unfold bestK at hx
    have hyS : y ∈ sortByScore (scorer tg) (cache.filter fun kv => valid tg kv.2) := by
      rw [mem_sortByScore, List.mem_filter]; exact ⟨hy, hv⟩
    -- x is the head of the sorted list
    cases hS : sortByScore (scorer tg) (cache.filter fun kv => valid tg kv.2) with
    | nil => rw [hS] at hyS; cases hyS
    | cons s ss =>
      rw [hS] at hx hyS hs
      cases k with
      | zero => simp at hx
      | succ k =>
        simp only [List.take_succ_cons, List.cons.injEq] at hx
        obtain ⟨rfl, _⟩ := hx
        unfold SortedBy at hs
        rw [List.pairwise_cons] at hs
        rcases List.mem_cons.1 hyS with rfl | hm
        · exact lexLe_refl _
        · exact hs.1 y hm

/-- **best_is_argmin** — `best()` returns an arg-min of `best_scorer` over the valid cached slicings -/
theorem best_is_argmin (tg : Targets) (cache : Cache) (x : List Ix × Costs)
    (h : best tg cache = some x) :
    ∀ y ∈ cache, valid tg y.2 = true → lexLe (scorer tg x.2) (scorer tg y.2) := by
  intro y hy hv
  unfold best at h
  have hyF : y ∈ cache.filter (fun kv => valid tg kv.2) := by
    rw [List.mem_filter]; exact ⟨hy, hv⟩
  generalize cache.filter (fun kv => valid tg kv.2) = l at h hyF
  cases l with
  | nil => cases hyF
  | cons b t =>
    simp only [minBy, Option.some.injEq] at h
    have key : ∀ (t : List (List Ix × Costs)) (b : List Ix × Costs),
        lexLe (scorer tg (t.foldl (fun best y => if lexLt (scorer tg y.2) (scorer tg best.2) then y else best) b).2)
              (scorer tg b.2) ∧
        ∀ z ∈ t, lexLe (scorer tg (t.foldl (fun best y => if lexLt (scorer tg y.2) (scorer tg best.2) then y else best) b).2)
              (scorer tg z.2) := by
      intro t
      induction t with
      | nil => intro b; exact ⟨lexLe_refl _, fun _ hz => by cases hz⟩
      | cons z t ih =>
        intro b
        simp only [List.foldl_cons]
        by_cases hc : lexLt (scorer tg z.2) (scorer tg b.2) = true
        · simp only [hc, if_true]
          obtain ⟨h1, h2⟩ := ih z
          refine ⟨lexLe_trans h1 (lexLe_of_lexLt hc), ?_⟩
          intro w hw
          rcases List.mem_cons.1 hw with rfl | hw
          · exact h1
          · exact h2 w hw
        · simp only [hc]
          obtain ⟨h1, h2⟩ := ih b
          refine ⟨h1, ?_⟩
          intro w hw
          rcases List.mem_cons.1 hw with rfl | hw
          · have : lexLe (scorer tg b.2) (scorer tg w.2) := by
              unfold lexLe
              cases hcc : lexLt (scorer tg w.2) (scorer tg b.2)
              · rfl
              · exact absurd hcc hc
            exact lexLe_trans h1 this
          · exact h2 w hw
    subst h
    obtain ⟨h1, h2⟩ := key t b
    rcases List.mem_cons.1 hyF with rfl | hm
    · exact h1
    · exact h2 y hm


/-! ## non-vacuity -/

def exNet : Net :=
  { inputs := [[0, 1], [1, 2], [2, 3, 4]], output := [0], sizes := [(0, 2), (1, 3), (2, 4), (3, 5), (4, 2)] }
def exTree : BT := .node (.node (.leaf 0) (.leaf 1)) (.leaf 2)

example : exTree.leaves.Nodup ∧ (∀ i ∈ exTree.leaves, i < exNet.inputs.length) ∧ exNet.output.Nodup := by
  decide

/-- the cost object of the example tree exists, and removing the bond `2` succeeds after the
    scores were evaluated -/
example : ((Costs.init (treeCons exNet [] exTree) exNet.sizes).bind
    (fun c => c.touchAll.remove 2)).map (fun c => (c.nslices, c.flops, c.size)) = some (4, 8, some 2) := by
  decide

/-- a search with `target_slices = 3`, outer indices forbidden, one trial picking index 1: `best`
    returns the slicing `{1}` with 3 slices -/
example : ((Costs.init (treeCons exNet [] exTree) exNet.sizes).bind fun c0 =>
    best ⟨none, none, some 3⟩ (searchLoop [0] ⟨none, none, some 3⟩ [[1]] [([], c0)]).1).map
      (fun kc => (kc.1, kc.2.nslices)) = some ([1], 3) := by
  decide

/-- a re-used finder: built with `target_slices = 2`, first asked with its own targets (one trial
    picking index 1 -> 3 slices), then asked for `target_slices = 6` in the call itself (one trial
    picking 1 then 2): the second call returns the slicing `{1, 2}` with 12 slices — the per-call
    target, not the constructor's, is in force -/
example : ((Costs.init (treeCons exNet [] exTree) exNet.sizes).bind fun c0 =>
    callResult [0] ⟨none, none, some 2⟩ ⟨⟨none, none, some 6⟩, [[1, 2]]⟩
      (sessionCache [0] ⟨none, none, some 2⟩ [⟨⟨none, none, none⟩, [[1]]⟩] [([], c0)])).map
      (fun kc => (kc.1, kc.2.nslices)) = some ([1, 2], 12) := by
  decide

end Cotengra.C07
