import CotengraVerif.Lemmas.CostCache

/-!
# C04, second part — the per-node cost caches and their laziness

`Model/CostCache.lean` models `info[node]["legs"|"involved"|"size"|"flops"]` with the lazy, caching
getters of core.py:801-848 and the loop body of the repaired `remove_ind` (core.py:1607) on cached
entries. The theorems say that laziness is invisible: whatever is or is not cached yet, every
getter returns the from-scratch value of C03 and leaves a coherent cache; the population step at
the top of `remove_ind` therefore yields correct entries, and the in-place edit of an entry
(`involved`/`legs` without the index, `flops`/`size` `// d`) produces exactly the from-scratch
values for the enlarged removed set — for the root, inner nodes, sliced output indices, hyper
indices, any network (guards: output duplicate-free and occurring in the inputs, sizes ≥ 1).

The defect repaired by "fix: remove_ind must know every node's involved indices …" is the
situation these theorems exclude: an entry edited while one of its fields was still to be computed
from children that had already been edited.
-/
namespace Cotengra.C04
open Cotengra Cotengra.Net

theorem getLegs_ok (n : Net) (rm : List Ix) (s : BT) (hv : n.Valid s) (I : Info)
    (hc : n.Coherent rm I) :
    n.Coherent rm (n.getLegs rm I s).1 ∧ n.LegsOK rm s (n.getLegs rm I s).2 :=
  Net.getLegs_ok n rm s hv I hc

theorem getInvolved_ok (n : Net) (rm : List Ix) (l r : BT) (hv : n.Valid (.node l r)) (I : Info)
    (hc : n.Coherent rm I) :
    n.Coherent rm (n.getInvolved rm I l r).1 ∧
      Legs.Equiv (n.getInvolved rm I l r).2 (n.involved rm (.node l r)) :=
  Net.getInvolved_ok n rm l r hv I hc

theorem getSize_ok (n : Net) (rm : List Ix) (s : BT) (hv : n.Valid s) (I : Info)
    (hc : n.Coherent rm I) :
    n.Coherent rm (n.getSize rm I s).1 ∧
      (n.getSize rm I s).2 = n.sizeOfLegs (if n.isRoot s then n.rootLegs rm else n.legs rm s) :=
  Net.getSize_ok n rm s hv I hc

theorem getFlops_ok (n : Net) (rm : List Ix) (l r : BT) (hv : n.Valid (.node l r)) (I : Info)
    (hc : n.Coherent rm I) :
    n.Coherent rm (n.getFlops rm I l r).1 ∧ (n.getFlops rm I l r).2 = n.nodeFlops rm (.node l r) :=
  Net.getFlops_ok n rm l r hv I hc

/-- the empty cache is coherent -/
theorem coherent_empty (n : Net) (rm : List Ix) : n.Coherent rm [] := by
  refine ⟨?_, ?_, ?_, ?_⟩ <;> intro s v h <;> simp [Info.get] at h

/-- **`remove_ind` on one node, end to end**: populate the four fields lazily from *any* coherent
    cache, then edit them in place — the result is the from-scratch entry for `ix :: rm`. -/
theorem removeInd_entry_ok (n : Net) (rm : List Ix) (ix : Ix) (l r : BT) (hv : n.Valid (.node l r))
    (hout : n.output.Nodup) (houtin : ∀ ix ∈ n.output, 0 < n.appIn ix) (hd : 0 < n.size ix)
    (I : Info) (hc : n.Coherent rm I) :
    n.FullOK (ix :: rm) l r (removeIndFull ix (n.size ix) (n.fillNode rm I l r).2) :=
  Net.removeIndFull_ok n rm ix l r hv hout houtin hd _ (Net.fillNode_ok n rm l r hv I hc).2

/-! non-vacuity -/
def exNet : Net :=
  { inputs := [[0, 1], [1, 2, 4], [2, 2, 3, 4], [4, 5]], output := [0, 4],
    sizes := [(0, 2), (1, 3), (2, 4), (3, 1), (4, 2), (5, 3)] }

example : exNet.Valid (.node (.node (.leaf 0) (.leaf 1)) (.node (.leaf 2) (.leaf 3))) :=
  ⟨by decide, by decide⟩
example : exNet.output.Nodup ∧ (∀ ix ∈ exNet.output, 0 < exNet.appIn ix) := by decide

end Cotengra.C04
