import CotengraVerif.Lemmas.FlowNI
import CotengraVerif.Lemmas.RngFlowSound
import CotengraVerif.Lemmas.GatherLemmas
import CotengraVerif.Generated.FactsC17
import CotengraVerif.Generated.FactsC17Rng

/-!
# C17 — operations that take a seed are deterministic functions of their arguments

**Full statement.** Every public operation of cotengra that accepts a seed returns the same result
whenever it is called with the same arguments and the same integer seed, regardless of the state
of the process-global random generator, of what was called before, and of the interpreter's
string-hash randomisation.

**What is modelled** (`Model/Flow.lean`): an imperative semantics whose programs can read four
sources -- the generator made from the seed (`get_rng(seed)`, cotengra/utils.py:731-750), the
process-global generator (`get_rng(None)`, `random.*`, `np.random.*`), the string-hash order
(iteration order of a `set` of `str`) and the order in which the workers of an executor pool passed
as `parallel=` finish (`as_completed`).  `Model/RngFlow.lean`: the intra-procedural data flow of
the variables that carry the seed / a generator (which value reaches `get_rng(x)`, `f(seed=x)`,
`x.randint()` on which path).  `Model/Gather.lean`: gathering pool results in submission order vs
completion order, the stable sort and the restart rounds of `subtree_reconfigure_forest`.
`GetRng` (in Model/Flow.lean): the branches of `get_rng`.  Bodies are arbitrary: any deterministic store
transformer, draws, sequencing, branching, loops, calls (recursion included; fuel-bounded
execution, equal fuel on both sides, and "out of fuel" is part of the compared outcome).

**What is proved.**
* `noninterference` (Lemmas/FlowNI.lean): for *every* program and entry point, if nothing
  reachable through the call relation reads the global generator or the hash order, the outcome
  is a function of the store (arguments) and the seeded generator alone.
* `cleanFrom_sound`: the decision procedure run on a fact table is sound for every program whose
  reads and calls the table over-approximates (`Covers`).
* `seeded_apis_clean` (F): on the call graph regenerated from /repo's AST on every run
  (`Generated/FactsC17.lean`, produced by harness/c17_facts.py: every public callable with a
  `seed` parameter of the families C17 enumerates, entered with a seed), no row that draws from
  the global generator or iterates a hash-ordered set is reachable.  Closed `decide`.
* `seeded_apis_deterministic`, `same_seed_same_result`: the two combined.

**What is *not* proved** (so the property as a whole is decided *partially*): that the real
Python bodies are covered by the extracted table (`Covers` is a hypothesis: the extractor is
trusted and validated dynamically, API by API, by the subprocess correspondence of
harness/c17.py under different PYTHONHASHSEED / global-generator states); CPython's
`random.Random(seed)` being a function of the seed (`Gen.ofSeed`); determinism of native kahypar
given its seed.

The pre-repair code violated the property (DESIGN §7 l, widened): `subtree_reconfigure` did not
pass its seed to `get_subtree`, `subtree_reconfigure_forest` started its saplings unseeded and
`build_agglom` called the partition function unseeded.  `prefix_snapshot_counterexample` keeps the
extracted rows of that state and proves that the decision procedure rejects them;
`global_read_interferes` shows on a concrete program of that very shape that the result then does
depend on the global generator.  With fixes/C17-thread-seed.patch applied the table is clean and
the full obligation `seeded_apis_clean` holds.
-/
namespace Cotengra.C17
open Cotengra.Flow

/-- **(F)** no seeded API of /repo reaches the global generator or a hash-ordered iteration. -/
theorem seeded_apis_clean : cleanAll FactsC17.table FactsC17.entries = true := by decide +kernel

/-- Every program covered by the extracted table is noninterferent at every seeded API. -/
theorem seeded_apis_deterministic {σ : Type} (P : Prog σ) (hcov : Covers FactsC17.table P)
    (e : FnId) (he : e ∈ FactsC17.entries) (fuel : Nat) (e1 e2 : Env σ) (hl : LowEq e1 e2) :
    OptLowEq (exec P fuel (.call e) e1) (exec P fuel (.call e) e2) :=
  noninterference P e (cleanAll_sound FactsC17.table P hcov _ seeded_apis_clean e he) fuel e1 e2 hl

/-- ... and leaves the process-global generator where it was: the state of `random` /
    `numpy.random` after a seeded call is the state before it (observed by the harness on every
    call, `global_rng_untouched`). -/
theorem seeded_apis_leave_global_untouched {σ : Type} (P : Prog σ) (hcov : Covers FactsC17.table P)
    (e : FnId) (he : e ∈ FactsC17.entries) (fuel : Nat) (e1 e1' : Env σ)
    (hex : exec P fuel (.call e) e1 = some e1') : Untouched e1 e1' :=
  clean_leaves_global_untouched P e (cleanAll_sound FactsC17.table P hcov _ seeded_apis_clean e he) fuel e1 e1' hex

/-- The property in its own words: same arguments (`args`) and the same integer seed give the
    same result whatever the global generators `g1 g2` (state of the global RNG / what was called
    before), the hash orders `h1 h2` (PYTHONHASHSEED) and the completion orders `w1 w2` of the
    pool's workers of the two runs are. -/
theorem same_seed_same_result {σ : Type} (P : Prog σ) (hcov : Covers FactsC17.table P)
    (e : FnId) (he : e ∈ FactsC17.entries) (mk : Nat → Nat → Nat) (args : σ) (seed : Nat)
    (g1 g2 : Gen) (h1 h2 : Nat) (w1 w2 : Gen) (fuel : Nat) :
    (exec P fuel (.call e) ⟨args, Gen.ofSeed mk seed, g1, h1, w1⟩).map (·.store) =
    (exec P fuel (.call e) ⟨args, Gen.ofSeed mk seed, g2, h2, w2⟩).map (·.store) := by
  have h := seeded_apis_deterministic P hcov e he fuel
    ⟨args, Gen.ofSeed mk seed, g1, h1, w1⟩ ⟨args, Gen.ofSeed mk seed, g2, h2, w2⟩ ⟨rfl, rfl⟩
  revert h
  cases exec P fuel (.call e) ⟨args, Gen.ofSeed mk seed, g1, h1, w1⟩ <;>
    cases exec P fuel (.call e) ⟨args, Gen.ofSeed mk seed, g2, h2, w2⟩ <;>
    simp only [OptLowEq, LowEq, Option.map] <;> intro h
  · trivial
  · exact h.elim
  · exact h.elim
  · rw [h.1]

/-! ## non-vacuity: a concrete program of the shape of `subtree_reconfigure` -/

/-- store: (accumulated result, loop counter) -/
abbrev S := Nat × Nat

/-- row 0 = `subtree_reconfigure`: loops, calling `get_subtree`;
    row 1 = `get_subtree`: draws from `src` and folds the draw into the result;
    row 2 = `get_rng` (no body of its own here) -/
def demoProg (src : Src) : Prog S
  | 0 => .loop (fun s => s.2 > 0) (.seq (.call 1) (.pure fun s => (s.1, s.2 - 1)))
  | 1 => .draw src (fun v s => (s.1 * 31 + v, s.2))
  | _ => .pure id

def demoTable (g : Bool) : List Facts :=
  [⟨[1], false, false, false⟩, ⟨[], g, false, false⟩, ⟨[], false, false, false⟩]

theorem demo_covers_seeded : Covers (demoTable false) (demoProg .seeded) := by
  intro f
  match f with
  | 0 => simp [demoProg, demoTable, getFacts, Cmd.reads, Cmd.calls]
  | 1 => simp [demoProg, demoTable, getFacts, Cmd.reads, Cmd.calls]
  | 2 => simp [demoProg, demoTable, getFacts, Cmd.reads, Cmd.calls]
  | n + 3 => simp [demoProg, getFacts, Cmd.reads, Cmd.calls]

example : cleanFrom (demoTable false) 0 = true := by decide
example : cleanFrom (demoTable true) 0 = false := by decide

/-- the seeded variant really runs (3 iterations, 3 draws) and ignores the global tape -/
example :
    (exec (demoProg .seeded) 20 (.call 0) ⟨(0, 3), ⟨fun i => i + 5, 0⟩, ⟨fun _ => 1, 0⟩, 0, ⟨fun _ => 0, 0⟩⟩).map (·.store)
      = some (5 * 31 * 31 + 6 * 31 + 7, 0) := by decide
example :
    (exec (demoProg .seeded) 20 (.call 0) ⟨(0, 3), ⟨fun i => i + 5, 0⟩, ⟨fun _ => 9, 4⟩, 77, ⟨fun _ => 3, 1⟩⟩).map (·.store)
      = some (5 * 31 * 31 + 6 * 31 + 7, 0) := by decide

/-- **Necessity / counter-example.** The pre-repair shape (`get_subtree` drawing from the global
    generator) is *not* noninterferent: same store, same seeded generator, different global
    generator, different result. -/
theorem global_read_interferes :
    ∃ (e1 e2 : Env S), LowEq e1 e2 ∧
      ¬ OptLowEq (exec (demoProg .global) 20 (.call 0) e1) (exec (demoProg .global) 20 (.call 0) e2) := by
  refine ⟨⟨(0, 1), ⟨fun _ => 0, 0⟩, ⟨fun _ => 1, 0⟩, 0, ⟨fun _ => 0, 0⟩⟩,
    ⟨(0, 1), ⟨fun _ => 0, 0⟩, ⟨fun _ => 2, 0⟩, 0, ⟨fun _ => 0, 0⟩⟩, ⟨rfl, rfl⟩, ?_⟩
  simp [exec, demoProg, Env.read, Gen.next, OptLowEq, LowEq]

/-- the same for the hash order -/
theorem hash_read_interferes :
    ∃ (e1 e2 : Env S), LowEq e1 e2 ∧
      ¬ OptLowEq (exec (demoProg .hash) 20 (.call 0) e1) (exec (demoProg .hash) 20 (.call 0) e2) := by
  refine ⟨⟨(0, 1), ⟨fun _ => 0, 0⟩, ⟨fun _ => 0, 0⟩, 1, ⟨fun _ => 0, 0⟩⟩,
    ⟨(0, 1), ⟨fun _ => 0, 0⟩, ⟨fun _ => 0, 0⟩, 2, ⟨fun _ => 0, 0⟩⟩, ⟨rfl, rfl⟩, ?_⟩
  simp [exec, demoProg, Env.read, OptLowEq, LowEq]

/-- the same for the completion order of the pool's workers (the shape of seeded change C17-r2-1:
    the forest gathers with `as_completed`) -/
theorem sched_read_interferes :
    ∃ (e1 e2 : Env S), LowEq e1 e2 ∧
      ¬ OptLowEq (exec (demoProg .sched) 20 (.call 0) e1) (exec (demoProg .sched) 20 (.call 0) e2) := by
  refine ⟨⟨(0, 1), ⟨fun _ => 0, 0⟩, ⟨fun _ => 0, 0⟩, 0, ⟨fun _ => 1, 0⟩⟩,
    ⟨(0, 1), ⟨fun _ => 0, 0⟩, ⟨fun _ => 0, 0⟩, 0, ⟨fun _ => 2, 0⟩⟩, ⟨rfl, rfl⟩, ?_⟩
  simp [exec, demoProg, Env.read, Gen.next, OptLowEq, LowEq]

/-! ## the pre-repair facts (frozen excerpt of the table extracted from /repo at 7b6b8da) -/

/-- 0 subtree_reconfigure[S] → 1 get_rng[S], 2 get_subtree[U];  2 → 3 get_rng[U] (global);
    4 subtree_reconfigure_forest[S] → 1, 5 _reconfigure_tree[U] → 6 subtree_reconfigure[U] → 2, 3;
    7 build_agglom[S] → 8 jitter_dict[S] → 1; 7 → 9 labels_partition[U] → 3 -/
def prefixSnapshot : List Facts := [
  ⟨[1, 2], false, false, false⟩, ⟨[], false, false, false⟩, ⟨[3], true, false, false⟩,
  ⟨[], true, false, false⟩, ⟨[1, 5], false, false, false⟩, ⟨[6], false, false, false⟩,
  ⟨[2, 3], true, false, false⟩, ⟨[8, 9], false, false, false⟩, ⟨[1], false, false, false⟩,
  ⟨[3], true, false, false⟩]

theorem prefix_snapshot_counterexample :
    cleanFrom prefixSnapshot 0 = false ∧ cleanFrom prefixSnapshot 4 = false ∧
    cleanFrom prefixSnapshot 7 = false := by decide

/-- a row that consumes pool results in completion order is rejected (seeded change C17-r2-1:
    `subtree_reconfigure_forest` gathering with `as_completed`) -/
theorem sched_row_rejected :
    cleanFrom [⟨[1], false, false, false⟩, ⟨[], false, false, true⟩] 0 = false := by decide

/-! ## data flow of the generator-carrying variables (`Model/RngFlow.lean`) -/

open Cotengra.RFlow in
/-- **(F)** in every function on a seeded path, every sink (`get_rng(x)`, `f(.., seed=x)`,
    `{"seed": x}`, `g(.., x, ..)`, `x.randint(..)`, the generator attributes at the end of
    `__init__`) receives, on every path through the skeleton extracted from /repo on this run, a
    value derived from the seed -- never `None`, the `random` module or a value drawn from it.
    Closed kernel evaluation of the verified analysis over `FactsC17Rng.skeletons`. -/
theorem rng_dataflow_seeded : FactsC17Rng.skeletons.all (fun k => k.2.ok) = true := by decide +kernel

open Cotengra.RFlow in
/-- hence (soundness of the analysis): no execution of any extracted skeleton, entered with an
    integer seed (zero or not), performs a bad use -/
theorem rng_dataflow_no_bad_use :
    ∀ k ∈ FactsC17Rng.skeletons, ∀ (c : Var → RVal), InG c (initState k.2.nvars k.2.attrs) →
      ∀ s', Exec k.2.body ⟨c, .run, false⟩ s' → s'.badUse = false := by
  intro k hk c hc s' hex
  have h := (List.all_eq_true.1 rng_dataflow_seeded) k hk
  exact skeleton_ok_sound k.2 h c hc s' hex

namespace AgglomDemo
open Cotengra.RFlow

/-- the skeleton of `build_agglom` after seeded change C17-r2-2: variable 0 = `seed`, 1 = `rng`;
    `if random_strength: rng = get_rng(seed) [sink 0]; jitter_dict(.., rng) [sink 1] else: rng = None`
    then `while ..: self.partition_fn(.., seed=rng) [sink 2]` -/
def changed : Skeleton := ⟨2, [],
  .seq (.ite (.seq (.use 0 true (.var 0)) (.seq (.assign 1 (.getRng (.var 0))) (.use 1 true (.var 1))))
             (.assign 1 .none))
       (.loop (.use 2 true (.var 1)))⟩

/-- the same function in /repo (the generator is made unconditionally) -/
def original : Skeleton := ⟨2, [],
  .seq (.seq (.use 0 true (.var 0)) (.seq (.assign 1 (.getRng (.var 0))) (.use 1 true (.var 1))))
       (.loop (.use 2 true (.var 1)))⟩

def seedEnv : Var → RVal := fun x => if x = 0 then .goodT else .unbound

end AgglomDemo

open Cotengra.RFlow AgglomDemo in
/-- **Counter-example shape (seeded change C17-r2-2).**  The analysis reports sink 2 (the `seed=rng`
    of the partition call) for the changed skeleton and nothing for the original one, and the
    changed skeleton really has an execution -- the `else` branch, one loop iteration -- in which
    that sink receives `None`, i.e. the partition function is entered with `seed=None` and
    `get_rng(None)` is the global `random` module. -/
theorem agglom_none_counterexample :
    changed.badSinks = [2] ∧ original.ok = true ∧
    ∃ s', Exec changed.body ⟨seedEnv, .run, false⟩ s' ∧ s'.badUse = true := by
  refine ⟨by decide, by decide, ⟨upd seedEnv 1 .none, .run, true⟩, ?_, rfl⟩
  apply Exec.seqRun _ _ _ ⟨upd seedEnv 1 .none, .run, false⟩
  · apply Exec.iteR
    exact Exec.assign ⟨seedEnv, .run, false⟩ 1 .none .none (by simp [evalC])
  · rfl
  · apply Exec.loopIter _ _ ⟨upd seedEnv 1 .none, .run, true⟩
    · have h := Exec.use ⟨upd seedEnv 1 .none, .run, false⟩ 2 true (.var 1) .none
        (by simp [evalC, upd])
      simpa [isBadFor] using h
    · simp
    · exact Exec.loopExit _ _

/-! ## gathering from an executor pool (`Model/Gather.lean`) -/

open Cotengra.Gather in
/-- **`parallel=<executor>` is an argument, the speed of its workers is not.**  The forest run
    with the gather of /repo (`[f.result() for f in forest_futures]`, submission order) ends with
    the same forest for any two sequences of completion orders of the pool. -/
theorem forest_gather_deterministic {α : Type} (reconf : α → Nat → α) (score : α → Nat)
    (keep numTrees : Nat) (forest : List α) (r₁ r₂ : List (List Nat × List Nat))
    (hseeds : r₁.map (·.1) = r₂.map (·.1))
    (h₁ : ValidRun reconf score keep numTrees forest r₁) (h₂ : ValidRun reconf score keep numTrees forest r₂) :
    forestRun .submission reconf score keep numTrees forest r₁ =
    forestRun .submission reconf score keep numTrees forest r₂ :=
  forestRun_submission_deterministic reconf score keep numTrees forest r₁ r₂ hseeds h₁ h₂

namespace GatherDemo
open Cotengra.Gather

/-- trees are (name, score); reconfiguring with sub-seed `sd` gives tree `10 * name + sd` of the
    same score -- two different, equally good trees -/
def reconf (t : Nat × Nat) (sd : Nat) : Nat × Nat := (10 * t.1 + sd, t.2)

end GatherDemo

open Cotengra.Gather GatherDemo in
/-- **Counter-example shape (seeded change C17-r2-1).**  One tree, two saplings with sub-seeds 1
    and 2, equal scores: gathered in completion order the winner is whichever worker finished
    first; gathered in submission order it is the same for both pool behaviours.  (Non-vacuity of
    `forest_gather_deterministic`: both orders are valid and the run really produces two trees.) -/
theorem completion_order_tie_counterexample :
    forestRun .completion reconf (·.2) 1 2 [(7, 5)] [([1, 2], [0, 1])] = [(71, 5), (72, 5)] ∧
    forestRun .completion reconf (·.2) 1 2 [(7, 5)] [([1, 2], [1, 0])] = [(72, 5), (71, 5)] ∧
    forestRun .submission reconf (·.2) 1 2 [(7, 5)] [([1, 2], [0, 1])] = [(71, 5), (72, 5)] ∧
    forestRun .submission reconf (·.2) 1 2 [(7, 5)] [([1, 2], [1, 0])] = [(71, 5), (72, 5)] ∧
    validOrder 2 [0, 1] = true ∧ validOrder 2 [1, 0] = true := by decide

open Cotengra.Gather in
/-- a completion-order gather is harmless when no two results have the same sort key -/
theorem completion_order_harmless_without_ties {α : Type} (xs : List α) (score : α → Nat)
    (π₁ π₂ : List Nat) (h₁ : π₁.Perm (List.range xs.length)) (h₂ : π₂.Perm (List.range xs.length))
    (hinj : ∀ a b, a ∈ xs → b ∈ xs → score a = score b → a = b) :
    stableSort score (gather .completion xs π₁) = stableSort score (gather .completion xs π₂) :=
  completion_gather_distinct_scores xs score π₁ π₂ h₁ h₂ hinj

/-! ## `get_rng` -/

open Cotengra.GetRng in
/-- with an integer seed or a generator instance the values drawn through `get_rng` do not depend
    on the process-global generator, and the global generator is left untouched -/
theorem get_rng_seeded_ignores_global (mk : Nat → Nat → Nat) (arg : SeedArg) (hs : arg.seeded = true)
    (g1 g2 : Gen) (n : Nat) :
    (drawsVia mk arg g1 n).map (·.1) = (drawsVia mk arg g2 n).map (·.1) ∧
    (drawsVia mk arg g1 n).map (·.2.1) = some g1 := by
  cases arg <;> simp_all [SeedArg.seeded, drawsVia, getRng]

open Cotengra.GetRng in
/-- `get_rng(None)` and `get_rng(random)` draw from -- and advance -- the global generator -/
theorem get_rng_none_reads_global (mk : Nat → Nat → Nat) :
    drawsVia mk .none ⟨fun i => i + 1, 0⟩ 2 ≠ drawsVia mk .none ⟨fun i => i + 2, 0⟩ 2 ∧
    drawsVia mk .globalMod ⟨fun i => i + 1, 0⟩ 2 ≠ drawsVia mk .globalMod ⟨fun i => i + 2, 0⟩ 2 := by
  constructor <;> simp [drawsVia, getRng, drawN, Gen.next]

/-! ## hidden mutable state: "regardless of what was called before" on the same object -/

/-- **(F)** every attribute that `set_state_from` copies is copied at least as deep as any method
    mutates it in place (table `FactsC17.sharing`, regenerated from /repo on every run). -/
theorem no_shared_mutable_state : Share.safe FactsC17.sharing = true := by decide

/-- hence no in-place mutation made through a copy reaches a container of the original -/
theorem copies_are_private :
    ∀ r ∈ FactsC17.sharing, ∀ (o : Share.Obj), Share.AllEven o → ∀ (p : List Nat),
      p.length + 1 ≤ r.2 → ∀ q, Share.copyD r.1 o p ≠ o q :=
  Share.safe_sound FactsC17.sharing no_shared_mutable_state

/-- **Counter-example shape (seeded change C17-3).**  `already_optimized` copied with `.copy()`
    (depth 1) but mutated by `already_optimized[objective].add(…)` (depth 2): the table check
    rejects the row, and indeed the set reached by the path `[objective]` in the copy *is* the
    original's set. -/
theorem shared_state_counterexample :
    Share.safe [(1, 2)] = false ∧ ∀ (o : Share.Obj) (k : Nat), Share.copyD 1 o [k] = o [k] :=
  ⟨by decide, fun o k => Share.copy_shared o 1 [k] (by simp)⟩

end Cotengra.C17
