import CotengraVerif.Lemmas.FlowNI
import CotengraVerif.Generated.FactsC17

/-!
# C17 — operations that take a seed are deterministic functions of their arguments

**Full statement.** Every public operation of cotengra that accepts a seed returns the same result
whenever it is called with the same arguments and the same integer seed, regardless of the state
of the process-global random generator, of what was called before, and of the interpreter's
string-hash randomisation.

**What is modelled** (`Model/Flow.lean`): an imperative semantics whose programs can read three
sources -- the generator made from the seed (`get_rng(seed)`, cotengra/utils.py:710-729), the
process-global generator (`get_rng(None)`, `random.*`, `np.random.*`) and the string-hash order
(iteration order of a `set` of `str`).  Bodies are arbitrary: any deterministic store
transformer, draws, sequencing, branching, loops, calls (recursion included; fuel-bounded
execution, equal fuel on both sides, and "out of fuel" is part of the compared outcome).

**What is proved.**
* `noninterference` (Lemmas/FlowNI.lean): for *every* program and entry point, if nothing
  reachable through the call relation reads the global generator or the hash order, the outcome
  is a function of the store (arguments) and the seeded generator alone.
* `cleanFrom_sound`: the decision procedure run on a fact table is sound for every program whose
  reads and calls the table over-approximates (`Covers`).
* `seeded_apis_clean` (F): on the call graph regenerated from /repo's AST on every run
  (`Generated/FactsC17.lean`, produced by harness/c17_facts.py: every public callable with a
  `seed` parameter of the families C17 enumerates, entered with a seed), no row that draws from
  the global generator or iterates a hash-ordered set is reachable.  Closed `decide`.
* `seeded_apis_deterministic`, `same_seed_same_result`: the two combined.

**What is *not* proved** (so the property as a whole is decided *partially*): that the real
Python bodies are covered by the extracted table (`Covers` is a hypothesis: the extractor is
trusted and validated dynamically, API by API, by the subprocess correspondence of
harness/c17.py under different PYTHONHASHSEED / global-generator states); CPython's
`random.Random(seed)` being a function of the seed (`Gen.ofSeed`); determinism of native kahypar
given its seed.

The pre-repair code violated the property (DESIGN §7 l, widened): `subtree_reconfigure` did not
pass its seed to `get_subtree`, `subtree_reconfigure_forest` started its saplings unseeded and
`build_agglom` called the partition function unseeded.  `prefix_snapshot_counterexample` keeps the
extracted rows of that state and proves that the decision procedure rejects them;
`global_read_interferes` shows on a concrete program of that very shape that the result then does
depend on the global generator.  With fixes/C17-thread-seed.patch applied the table is clean and
the full obligation `seeded_apis_clean` holds.
-/
namespace Cotengra.C17
open Cotengra.Flow

/-- **(F)** no seeded API of /repo reaches the global generator or a hash-ordered iteration. -/
theorem seeded_apis_clean : cleanAll FactsC17.table FactsC17.entries = true := by decide +kernel

/-- Every program covered by the extracted table is noninterferent at every seeded API. -/
theorem seeded_apis_deterministic {σ : Type} (P : Prog σ) (hcov : Covers FactsC17.table P)
    (e : FnId) (he : e ∈ FactsC17.entries) (fuel : Nat) (e1 e2 : Env σ) (hl : LowEq e1 e2) :
    OptLowEq (exec P fuel (.call e) e1) (exec P fuel (.call e) e2) :=
  noninterference P e (cleanAll_sound FactsC17.table P hcov _ seeded_apis_clean e he) fuel e1 e2 hl

/-- The property in its own words: same arguments (`args`) and the same integer seed give the
    same result whatever the global generators `g1 g2` (state of the global RNG / what was called
    before) and the hash orders `h1 h2` (PYTHONHASHSEED) of the two runs are. -/
theorem same_seed_same_result {σ : Type} (P : Prog σ) (hcov : Covers FactsC17.table P)
    (e : FnId) (he : e ∈ FactsC17.entries) (mk : Nat → Nat → Nat) (args : σ) (seed : Nat)
    (g1 g2 : Gen) (h1 h2 : Nat) (fuel : Nat) :
    (exec P fuel (.call e) ⟨args, Gen.ofSeed mk seed, g1, h1⟩).map (·.store) =
    (exec P fuel (.call e) ⟨args, Gen.ofSeed mk seed, g2, h2⟩).map (·.store) := by
  have h := seeded_apis_deterministic P hcov e he fuel
    ⟨args, Gen.ofSeed mk seed, g1, h1⟩ ⟨args, Gen.ofSeed mk seed, g2, h2⟩ ⟨rfl, rfl⟩
  revert h
  cases exec P fuel (.call e) ⟨args, Gen.ofSeed mk seed, g1, h1⟩ <;>
    cases exec P fuel (.call e) ⟨args, Gen.ofSeed mk seed, g2, h2⟩ <;>
    simp only [OptLowEq, LowEq, Option.map] <;> intro h
  · trivial
  · exact h.elim
  · exact h.elim
  · rw [h.1]

/-! ## non-vacuity: a concrete program of the shape of `subtree_reconfigure` -/

/-- store: (accumulated result, loop counter) -/
abbrev S := Nat × Nat

/-- row 0 = `subtree_reconfigure`: loops, calling `get_subtree`;
    row 1 = `get_subtree`: draws from `src` and folds the draw into the result;
    row 2 = `get_rng` (no body of its own here) -/
def demoProg (src : Src) : Prog S
  | 0 => .loop (fun s => s.2 > 0) (.seq (.call 1) (.pure fun s => (s.1, s.2 - 1)))
  | 1 => .draw src (fun v s => (s.1 * 31 + v, s.2))
  | _ => .pure id

def demoTable (g : Bool) : List Facts := [⟨[1], false, false⟩, ⟨[], g, false⟩, ⟨[], false, false⟩]

theorem demo_covers_seeded : Covers (demoTable false) (demoProg .seeded) := by
  intro f
  match f with
  | 0 => simp [demoProg, demoTable, getFacts, Cmd.reads, Cmd.calls]
  | 1 => simp [demoProg, demoTable, getFacts, Cmd.reads, Cmd.calls]
  | 2 => simp [demoProg, demoTable, getFacts, Cmd.reads, Cmd.calls]
  | n + 3 => simp [demoProg, getFacts, Cmd.reads, Cmd.calls]

example : cleanFrom (demoTable false) 0 = true := by decide
example : cleanFrom (demoTable true) 0 = false := by decide

/-- the seeded variant really runs (3 iterations, 3 draws) and ignores the global tape -/
example :
    (exec (demoProg .seeded) 20 (.call 0) ⟨(0, 3), ⟨fun i => i + 5, 0⟩, ⟨fun _ => 1, 0⟩, 0⟩).map (·.store)
      = some (5 * 31 * 31 + 6 * 31 + 7, 0) := by decide
example :
    (exec (demoProg .seeded) 20 (.call 0) ⟨(0, 3), ⟨fun i => i + 5, 0⟩, ⟨fun _ => 9, 4⟩, 77⟩).map (·.store)
      = some (5 * 31 * 31 + 6 * 31 + 7, 0) := by decide

/-- **Necessity / counter-example.** The pre-repair shape (`get_subtree` drawing from the global
    generator) is *not* noninterferent: same store, same seeded generator, different global
    generator, different result. -/
theorem global_read_interferes :
    ∃ (e1 e2 : Env S), LowEq e1 e2 ∧
      ¬ OptLowEq (exec (demoProg .global) 20 (.call 0) e1) (exec (demoProg .global) 20 (.call 0) e2) := by
  refine ⟨⟨(0, 1), ⟨fun _ => 0, 0⟩, ⟨fun _ => 1, 0⟩, 0⟩, ⟨(0, 1), ⟨fun _ => 0, 0⟩, ⟨fun _ => 2, 0⟩, 0⟩,
    ⟨rfl, rfl⟩, ?_⟩
  simp [exec, demoProg, Env.read, Gen.next, OptLowEq, LowEq]

/-- the same for the hash order -/
theorem hash_read_interferes :
    ∃ (e1 e2 : Env S), LowEq e1 e2 ∧
      ¬ OptLowEq (exec (demoProg .hash) 20 (.call 0) e1) (exec (demoProg .hash) 20 (.call 0) e2) := by
  refine ⟨⟨(0, 1), ⟨fun _ => 0, 0⟩, ⟨fun _ => 0, 0⟩, 1⟩, ⟨(0, 1), ⟨fun _ => 0, 0⟩, ⟨fun _ => 0, 0⟩, 2⟩,
    ⟨rfl, rfl⟩, ?_⟩
  simp [exec, demoProg, Env.read, OptLowEq, LowEq]

/-! ## the pre-repair facts (frozen excerpt of the table extracted from /repo at 7b6b8da) -/

/-- 0 subtree_reconfigure[S] → 1 get_rng[S], 2 get_subtree[U];  2 → 3 get_rng[U] (global);
    4 subtree_reconfigure_forest[S] → 1, 5 _reconfigure_tree[U] → 6 subtree_reconfigure[U] → 2, 3;
    7 build_agglom[S] → 8 jitter_dict[S] → 1; 7 → 9 labels_partition[U] → 3 -/
def prefixSnapshot : List Facts := [
  ⟨[1, 2], false, false⟩, ⟨[], false, false⟩, ⟨[3], true, false⟩, ⟨[], true, false⟩,
  ⟨[1, 5], false, false⟩, ⟨[6], false, false⟩, ⟨[2, 3], true, false⟩,
  ⟨[8, 9], false, false⟩, ⟨[1], false, false⟩, ⟨[3], true, false⟩]

theorem prefix_snapshot_counterexample :
    cleanFrom prefixSnapshot 0 = false ∧ cleanFrom prefixSnapshot 4 = false ∧
    cleanFrom prefixSnapshot 7 = false := by decide

/-! ## hidden mutable state: "regardless of what was called before" on the same object -/

/-- **(F)** every attribute that `set_state_from` copies is copied at least as deep as any method
    mutates it in place (table `FactsC17.sharing`, regenerated from /repo on every run). -/
theorem no_shared_mutable_state : Share.safe FactsC17.sharing = true := by decide

/-- hence no in-place mutation made through a copy reaches a container of the original -/
theorem copies_are_private :
    ∀ r ∈ FactsC17.sharing, ∀ (o : Share.Obj), Share.AllEven o → ∀ (p : List Nat),
      p.length + 1 ≤ r.2 → ∀ q, Share.copyD r.1 o p ≠ o q :=
  Share.safe_sound FactsC17.sharing no_shared_mutable_state

/-- **Counter-example shape (seeded change C17-3).**  `already_optimized` copied with `.copy()`
    (depth 1) but mutated by `already_optimized[objective].add(…)` (depth 2): the table check
    rejects the row, and indeed the set reached by the path `[objective]` in the copy *is* the
    original's set. -/
theorem shared_state_counterexample :
    Share.safe [(1, 2)] = false ∧ ∀ (o : Share.Obj) (k : Nat), Share.copyD 1 o [k] = o [k] :=
  ⟨by decide, fun o k => Share.copy_shared o 1 [k] (by simp)⟩

end Cotengra.C17
