import CotengraVerif.Props.C01
import CotengraVerif.Props.C02

/-!
# C02, value — a transformed tree contracts to the same array

`Props/C02.lean` shows that after *every* history the recipes handed to the contractor are the
recipes of the index orders in force. What a history can still change is (i) the shape of the
tree, (ii) the per-node index orders, (iii) traversal order and recipe preference of the next
`contract` call, (iv) the removed indices (slicing, assembled by C06). This file states C02's
conclusion for (i)–(iii) on top of C01: for any two complete trees over the same network, any two
admissible index-order tables, any two children-first traversals and recipe preferences, the two
contractions succeed on well-shaped arrays over any commutative semiring and return the same
array — shape and every entry — namely the einsum of the network in the declared axis order.
No bound on the network, the trees or the history that led from one to the other.
-/
namespace Cotengra.C02
open Cotengra Cotengra.Net Cotengra.C01

section
variable {R : Type} [CommSemiring R]

/-- **before / after any transformation: same value, same axis order** -/
theorem transformation_preserves_value (n : Net) (rm : List Ix) (t₁ t₂ : BT) (I₁ I₂ : BT → List Ix)
    (o₁ o₂ : List BT) (pe₁ pe₂ : Bool) (arrays : List (Arr R)) (hN : 2 ≤ n.inputs.length)
    (hc₁ : Complete n t₁) (hc₂ : Complete n t₂) (G : Guards n)
    (hI₁ : IndsOK n rm t₁ I₁) (hI₂ : IndsOK n rm t₂ I₂)
    (h₁ : ChildrenFirst t₁ o₁) (h₂ : ChildrenFirst t₂ o₂) (hw : WellShaped n rm arrays) :
    ∃ r₁ r₂, run (extractWith n rm I₁ o₁ pe₁) arrays = .ok r₁ ∧
      run (extractWith n rm I₂ o₂ pe₂) arrays = .ok r₂ ∧
      IsEinsum n rm arrays r₁ ∧ IsEinsum n rm arrays r₂ ∧ r₁.shape = r₂.shape ∧
      ∀ σ : Ix → Nat, r₁.val ((n.outRm rm).map σ) = r₂.val ((n.outRm rm).map σ) := by
  obtain ⟨r₁, hr₁, he₁⟩ := model_contract_correct n rm t₁ I₁ o₁ pe₁ arrays hN hc₁ G hI₁ h₁ hw
  obtain ⟨r₂, hr₂, he₂⟩ := model_contract_correct n rm t₂ I₂ o₂ pe₂ arrays hN hc₂ G hI₂ h₂ hw
  exact ⟨r₁, r₂, hr₁, hr₂, he₁, he₂, he₁.1.trans he₂.1.symm,
    fun σ => (he₁.2 σ).trans (he₂.2 σ).symm⟩

end
end Cotengra.C02
