import CotengraVerif.Lemmas.Tensordot
import CotengraVerif.Lemmas.PlanOKSound

/-!
# C11 — cotengra's matmul-based einsum and tensordot agree with the reference

Model (Model/Bmm.lean, transcribed from cotengra/contract.py at HEAD): `sanitize`
(`_sanitize_equation`, :37-61), `parseSingle` (`_parse_einsum_single`, :64-122), `pureMul`
(`_parse_eq_to_pure_multiplication`, :125-167), `parseBmm` (`_parse_eq_to_batch_matmul`, :170-332),
`tensordotEq` (`_parse_tensordot_axes_to_matmul`, :475-521), `evalSingle` (`_einsum_single`,
:346-364), `evalPlan` (`_do_contraction_via_bmm`, :367-414).

Model of numpy (Model/FArr.lean, trusted, validated against numpy on every run): functional arrays
with `transpose`, `reshape` (C order), `matmul` (2-D, and 3-D with equal batch), broadcasting
`multiply`, `sum` over axes, advanced indexing with one integer range (including numpy's rule for
where the new axis lands), and the reference meaning `einsum1` / `einsum2` (sum over all
assignments of the labels that are not in the output).

All theorems are for every equation (labels are arbitrary naturals, repeated labels inside an
operand, batch, Hadamard, outer, any output order), every size assignment `sz` with positive sizes
(size 1 included) and all arrays of the corresponding shapes.

Not modelled: the `functools.lru_cache` wrappers; `autoray` dispatch (`do`, backend inference);
`numpy.einsum` itself when `_einsum_single` delegates to it (the model always takes the three-step
path, which is the code of the anchored file); dimensions of size 0; negative axes.
-/
namespace Cotengra.C11
open Cotengra Cotengra.FA Cotengra.Bmm

/-! ## single operand -/

/-- **single_plan_sound** — for every term `lhs`, every duplicate-free output `out ⊆ lhs` and every
    array of a consistent shape: `_parse_einsum_single` returns a plan, the three steps of
    `_einsum_single` (diagonals by advanced indexing, with numpy's placement of the new axis; sum;
    transpose) are all defined, and the result is the single-operand einsum. -/
theorem single_plan_sound (sz : Ix → Nat) (hpos : ∀ i, 0 < sz i) (lhs out : List Ix)
    (hout : out.Nodup) (hsub : ∀ o ∈ out, o ∈ lhs) (x : FArr) (hsh : x.shape = lhs.map sz) :
    ∃ sp y, parseSingle lhs out x.shape = some sp ∧ evalSingle sp x = some y ∧
      y.shape = (einsum1 lhs out x).shape ∧
      ∀ idx, inRange idx y.shape = true → y.get idx = (einsum1 lhs out x).get idx := by
  obtain ⟨sp, y, h1, h2, h3⟩ := single_plan_lab (sz := sz) hout hsub hsh
  have h4 := lab_einsum1 (sz := sz) (d := out) hsh hsub
  refine ⟨sp, y, h1, h2, ?_, ?_⟩
  · rw [rep_shape_single h3, rep_shape_single h4]
  · intro idx hidx
    rw [rep_shape_single h3] at hidx
    rw [rep_read h3 hpos hout hidx, rep_read h4 hpos hout hidx]
    obtain ⟨_, _, hns, hnsm⟩ := scan_spec lhs out
    apply sumEnv_of_mem_iff hns (nodup_uniq _)
    intro i
    rw [hnsm, mem_uniq, List.mem_filter]
    simp

/-- non-vacuity: `ababbac->cab` on a 2×3×2×3×3×2×2 array needs two diagonal rounds (one adjacent
    after the first, one not), no sum and a transpose -/
example : parseSingle [0, 1, 0, 1, 1, 0, 2] [2, 0, 1] [2, 3, 2, 3, 3, 2, 2] =
    some ⟨some [[none, some 3, none, some 3, some 3, none, none],
                [none, some 2, some 2, some 2, none]], none, some [2, 1, 0]⟩ := by decide

/-! ## two operands -/

/-- `desired_a` of the batched-matmul path -/
def desiredA (aT bT out : List Ix) (shA shB : List Nat) : List Ix :=
  (groups aT shA bT shB out).bat ++ (groups aT shA bT shB out).aKeep ++ (groups aT shA bT shB out).con

/-- `desired_b` of the batched-matmul path -/
def desiredB (aT bT out : List Ix) (shA shB : List Nat) : List Ix :=
  (groups aT shA bT shB out).bat ++ (groups aT shA bT shB out).con ++ (groups aT shA bT shB out).bKeep

/-- the exact condition under which the transpose shortcut of HEAD (`set(term) == set(desired)`,
    contract.py:261/272) is right: whenever the sets agree the lengths agree too -/
def ShortcutSafe (aT bT out : List Ix) (shA shB : List Nat) : Prop :=
  (sameSet aT (desiredA aT bT out shA shB) = true → aT.length = (desiredA aT bT out shA shB).length) ∧
  (sameSet bT (desiredB aT bT out shA shB) = true → bT.length = (desiredB aT bT out shA shB).length)

theorem szOf2_eq (sz : Ix → Nat) (aT bT : List Ix) {i : Ix} (hi : i ∈ aT ∨ i ∈ bT) :
    szOf2 aT (aT.map sz) bT (bT.map sz) i = sz i := by
  unfold szOf2
  by_cases ha : aT.contains i = true
  · rw [if_pos ha]; exact getD_map_idxOf sz (by simpa using ha) 1
  · rw [if_neg ha]
    have hb : i ∈ bT := hi.resolve_left (by simpa using ha)
    exact szOf_map sz hb

theorem parseBmm_pure {lc : Bool} {aT bT out : List Ix} {shA shB : List Nat}
    {sizes : List (Ix × Nat)} (hl1 : aT.length = shA.length) (hl2 : bT.length = shB.length)
    (hs : sizesOf aT shA bT shB = some sizes)
    (hc : (groups aT shA bT shB out).con.isEmpty = true) :
    parseBmm lc aT bT out shA shB = some (pureMul aT shA bT shB out) := by
  simp only [parseBmm, hl1, hl2, bne_self_eq_false, Bool.or_self, Bool.false_eq_true, ↓reduceIte,
    hs, hc]

/-- from the labelled result `Σ_C (Σ_SA A)(Σ_SB B)` to the reference einsum -/
theorem result_eq_reference {sz : Ix → Nat} (hpos : ∀ i, 0 < sz i) {aT bT out : List Ix}
    (hout : out.Nodup) (hsub : ∀ o ∈ out, o ∈ aT ∨ o ∈ bT) {a b r : FArr}
    (hsa : a.shape = aT.map sz) (hsb : b.shape = bT.map sz) {C SA SB : List Ix}
    (hlab : Lab sz out r fun env => sumEnv sz C env fun e =>
      sumEnv sz SA e (fun e' => a.get (aT.map e')) * sumEnv sz SB e (fun e' => b.get (bT.map e')))
    (hC : C.Nodup) (hSA : SA.Nodup) (hSB : SB.Nodup)
    (hCm : ∀ i, sz i ≠ 1 → (i ∈ C ↔ i ∈ aT ∧ i ∈ bT ∧ i ∉ out))
    (hSAm : ∀ i, sz i ≠ 1 → (i ∈ SA ↔ i ∈ aT ∧ i ∉ bT ∧ i ∉ out))
    (hSBm : ∀ i, sz i ≠ 1 → (i ∈ SB ↔ i ∈ bT ∧ i ∉ aT ∧ i ∉ out)) :
    r.shape = (einsum2 aT bT out a b).shape ∧
    ∀ idx, inRange idx r.shape = true → r.get idx = (einsum2 aT bT out a b).get idx := by
  have hshape : r.shape = out.map sz := rep_shape_single hlab
  constructor
  · rw [hshape]
    simp only [einsum2, hsa, hsb]
    exact (List.map_congr_left fun o ho => szOf2_eq sz aT bT (hsub o ho)).symm
  · intro idx hidx
    rw [hshape] at hidx
    rw [rep_read hlab hpos hout hidx]
    simp only [einsum2, hsa, hsb]
    rw [sumEnv_sz_congr (sz1 := szOf2 aT (aT.map sz) bT (bT.map sz)) (sz2 := sz)
      (L := uniq ((aT ++ bT).filter fun i => !out.contains i)) (fun i hi => by
      have := (List.mem_filter.1 (mem_uniq.1 hi)).1
      exact szOf2_eq sz aT bT (List.mem_append.1 this))]
    exact sum_algebra (depOn_get_map a aT) (depOn_get_map b bT) hC hSA hSB hCm hSAm hSBm
      (envOK_bindOut hpos hidx)

/-- the plan of `_parse_eq_to_batch_matmul`, run by `_do_contraction_via_bmm`, computes the
    reference einsum — for the repaired shortcut test (`lc = true`), or for HEAD's test under the
    exact guard `ShortcutSafe`. -/
theorem plan_sound_of_guard (lc : Bool) (sz : Ix → Nat) (hpos : ∀ i, 0 < sz i)
    (aT bT out : List Ix) (hout : out.Nodup) (hsub : ∀ o ∈ out, o ∈ aT ∨ o ∈ bT)
    (hg : lc = true ∨ ShortcutSafe aT bT out (aT.map sz) (bT.map sz))
    (a b : FArr) (hsa : a.shape = aT.map sz) (hsb : b.shape = bT.map sz) :
    ∃ plan r, parseBmm lc aT bT out a.shape b.shape = some plan ∧ evalPlan plan a b = some r ∧
      r.shape = (einsum2 aT bT out a b).shape ∧
      ∀ idx, inRange idx r.shape = true → r.get idx = (einsum2 aT bT out a b).get idx := by
  rw [hsa, hsb]
  by_cases hc : (groups aT (aT.map sz) bT (bT.map sz) out).con.isEmpty = true
  · -- pure multiplication
    obtain ⟨sizes, hs1, _⟩ := sizesOf_consistent sz aT bT
    obtain ⟨r, hr, hlab⟩ := pure_lab (sz := sz) hout hsub hsa hsb
    refine ⟨_, r, parseBmm_pure (by simp) (by simp) hs1 hc, hr, ?_⟩
    have hcon : ∀ i, ¬ ((i ∈ aT ∧ sz i ≠ 1) ∧ i ∈ bT ∧ i ∉ out) := by
      intro i hi
      have := (mem_con (sz := sz) (aT := aT) (bT := bT) (out := out)).2 hi
      rw [List.isEmpty_iff.1 hc] at this
      simp at this
    have hmf : ∀ (t : List Ix) i, i ∈ t → (i ∉ out.filter (has t) ↔ i ∉ out) := by
      intro t i hi
      simp [List.mem_filter, has, hi]
    obtain ⟨_, _, hnsA, hmA⟩ := scan_spec aT (out.filter (has aT))
    obtain ⟨_, _, hnsB, hmB⟩ := scan_spec bT (out.filter (has bT))
    apply result_eq_reference hpos hout hsub hsa hsb (C := []) hlab (by simp) hnsA hnsB
    · intro i hnt
      simp only [List.not_mem_nil, false_iff]
      intro h; exact hcon i ⟨⟨h.1, hnt⟩, h.2.1, h.2.2⟩
    · intro i hnt
      rw [hmA]
      constructor
      · rintro ⟨h1, h2⟩
        have ho := (hmf aT i h1).1 h2
        exact ⟨h1, fun hb => hcon i ⟨⟨h1, hnt⟩, hb, ho⟩, ho⟩
      · rintro ⟨h1, _, h3⟩; exact ⟨h1, (hmf aT i h1).2 h3⟩
    · intro i hnt
      rw [hmB]
      constructor
      · rintro ⟨h1, h2⟩
        have ho := (hmf bT i h1).1 h2
        exact ⟨h1, fun ha => hcon i ⟨⟨ha, hnt⟩, h1, ho⟩, ho⟩
      · rintro ⟨h1, _, h3⟩; exact ⟨h1, (hmf bT i h1).2 h3⟩
  · -- batched matmul
    have hne : (groups aT (aT.map sz) bT (bT.map sz) out).con.isEmpty = false := by simpa using hc
    obtain ⟨plan, r, hp, hr, hlab⟩ := bmm_lab (sz := sz) lc hout hsub
      (hg.imp id fun h => h.1) (hg.imp id fun h => h.2) hsa hsb hne
    refine ⟨plan, r, hp, hr, ?_⟩
    obtain ⟨_, hn2, _, _⟩ := nodup_groups (sz := sz) (aT := aT) (bT := bT) (out := out)
    obtain ⟨_, _, hnsA, hmA⟩ := scan_spec aT (desiredA aT bT out (aT.map sz) (bT.map sz))
    obtain ⟨_, _, hnsB, hmB⟩ := scan_spec bT (desiredB aT bT out (aT.map sz) (bT.map sz))
    simp only [desiredA, desiredB] at hnsA hmA hnsB hmB
    apply result_eq_reference hpos hout hsub hsa hsb hlab hn2 hnsA hnsB
    · intro i hnt; rw [mem_con]; tauto
    · intro i hnt
      rw [hmA]
      simp only [List.mem_append, mem_bat, mem_aKeep, mem_con]
      constructor
      · rintro ⟨ha, hn⟩
        refine ⟨ha, fun hb => ?_, fun ho => ?_⟩
        · by_cases ho : i ∈ out
          · exact hn (Or.inl (Or.inl ⟨⟨ha, hnt⟩, hb, ho⟩))
          · exact hn (Or.inr ⟨⟨ha, hnt⟩, hb, ho⟩)
        · by_cases hb : i ∈ bT
          · exact hn (Or.inl (Or.inl ⟨⟨ha, hnt⟩, hb, ho⟩))
          · exact hn (Or.inl (Or.inr ⟨⟨ha, hnt⟩, hb, ho⟩))
      · rintro ⟨ha, hb, ho⟩
        refine ⟨ha, ?_⟩
        rintro ((h | h) | h)
        · exact hb h.2.1
        · exact ho h.2.2
        · exact hb h.2.1
    · intro i hnt
      rw [hmB]
      simp only [List.mem_append, mem_bat, mem_bKeep, mem_con]
      constructor
      · rintro ⟨hb, hn⟩
        refine ⟨hb, fun ha => ?_, fun ho => ?_⟩
        · by_cases ho : i ∈ out
          · exact hn (Or.inl (Or.inl ⟨⟨ha, hnt⟩, hb, ho⟩))
          · exact hn (Or.inl (Or.inr ⟨⟨ha, hnt⟩, hb, ho⟩))
        · by_cases ha : i ∈ aT
          · exact hn (Or.inl (Or.inl ⟨⟨ha, hnt⟩, hb, ho⟩))
          · exact hn (Or.inr ⟨⟨hb, hnt⟩, ha, ho⟩)
      · rintro ⟨hb, ha, ho⟩
        refine ⟨hb, ?_⟩
        rintro ((h | h) | h)
        · exact ha h.1.1
        · exact ha h.1.1
        · exact ho h.2.2

/-- **model_plan_sound** (C11 Tier 2, for the repaired code) — for every two-operand equation
    `aT,bT->out` (duplicate-free output drawn from the operands' labels), every positive size
    assignment and all arrays of those shapes: the planner returns a plan, every step of
    `_do_contraction_via_bmm` on it is defined (each reshape preserves the element count, each
    transpose gets a permutation, the matmul dimensions agree), and the result has the shape and
    the entries of the reference einsum. -/
theorem model_plan_sound (sz : Ix → Nat) (hpos : ∀ i, 0 < sz i) (aT bT out : List Ix)
    (hout : out.Nodup) (hsub : ∀ o ∈ out, o ∈ aT ∨ o ∈ bT)
    (a b : FArr) (hsa : a.shape = aT.map sz) (hsb : b.shape = bT.map sz) :
    ∃ plan r, parseBmm true aT bT out a.shape b.shape = some plan ∧ evalPlan plan a b = some r ∧
      r.shape = (einsum2 aT bT out a b).shape ∧
      ∀ idx, inRange idx r.shape = true → r.get idx = (einsum2 aT bT out a b).get idx :=
  plan_sound_of_guard true sz hpos aT bT out hout hsub (Or.inl rfl) a b hsa hsb

/-- **head_plan_sound_partial** — the same for the code at HEAD, under the guard `ShortcutSafe`
    (the full statement without the guard is false, see `head_plan_counterexample`). -/
theorem head_plan_sound_partial (sz : Ix → Nat) (hpos : ∀ i, 0 < sz i) (aT bT out : List Ix)
    (hout : out.Nodup) (hsub : ∀ o ∈ out, o ∈ aT ∨ o ∈ bT)
    (hsafe : ShortcutSafe aT bT out (aT.map sz) (bT.map sz))
    (a b : FArr) (hsa : a.shape = aT.map sz) (hsb : b.shape = bT.map sz) :
    ∃ plan r, parseBmm false aT bT out a.shape b.shape = some plan ∧ evalPlan plan a b = some r ∧
      r.shape = (einsum2 aT bT out a b).shape ∧
      ∀ idx, inRange idx r.shape = true → r.get idx = (einsum2 aT bT out a b).get idx :=
  plan_sound_of_guard false sz hpos aT bT out hout hsub (Or.inr hsafe) a b hsa hsb

theorem shortcutSafe_of_nodup {aT bT out : List Ix} {shA shB : List Nat} (ha : aT.Nodup)
    (hb : bT.Nodup) (hdA : (desiredA aT bT out shA shB).Nodup)
    (hdB : (desiredB aT bT out shA shB).Nodup) : ShortcutSafe aT bT out shA shB := by
  constructor
  · intro h
    simp only [sameSet, Bool.and_eq_true, List.all_eq_true, has, List.contains_iff_mem] at h
    exact ((List.perm_ext_iff_of_nodup ha hdA).2 fun i => ⟨h.1 i, h.2 i⟩).length_eq
  · intro h
    simp only [sameSet, Bool.and_eq_true, List.all_eq_true, has, List.contains_iff_mem] at h
    exact ((List.perm_ext_iff_of_nodup hb hdB).2 fun i => ⟨h.1 i, h.2 i⟩).length_eq

/-- HEAD is right on every equation in which no operand repeats a label -/
theorem head_plan_sound_nodup (sz : Ix → Nat) (hpos : ∀ i, 0 < sz i) (aT bT out : List Ix)
    (hout : out.Nodup) (hsub : ∀ o ∈ out, o ∈ aT ∨ o ∈ bT) (ha : aT.Nodup) (hb : bT.Nodup)
    (a b : FArr) (hsa : a.shape = aT.map sz) (hsb : b.shape = bT.map sz) :
    ∃ plan r, parseBmm false aT bT out a.shape b.shape = some plan ∧ evalPlan plan a b = some r ∧
      r.shape = (einsum2 aT bT out a b).shape ∧
      ∀ idx, inRange idx r.shape = true → r.get idx = (einsum2 aT bT out a b).get idx :=
  head_plan_sound_partial sz hpos aT bT out hout hsub
    (shortcutSafe_of_nodup ha hb nodup_desired.1 nodup_desired.2) a b hsa hsb

/-- **head_plan_counterexample** (DESIGN §7g) — `aab,bc->ac` with sizes a=2, b=3, c=2: the
    hypotheses of `model_plan_sound` hold, HEAD's planner returns a plan whose `eq_a` is the
    2-tuple `(0, 2)` for a rank-3 operand, and its evaluation is undefined for every pair of arrays
    of these shapes (numpy: `ValueError: axes don't match array`). -/
theorem head_plan_counterexample :
    let aT := [0, 0, 1]; let bT := [1, 2]; let out := [0, 2]
    let sz : Ix → Nat := fun i => if i = 1 then 3 else 2
    out.Nodup ∧ (∀ o ∈ out, o ∈ aT ∨ o ∈ bT) ∧ (∀ i, 0 < sz i) ∧
    parseBmm false aT bT out (aT.map sz) (bT.map sz)
      = some ⟨.perm [0, 2], .none, none, none, none, none, false⟩ ∧
    ∀ a b : FArr, a.shape = aT.map sz → b.shape = bT.map sz →
      evalPlan ⟨.perm [0, 2], .none, none, none, none, none, false⟩ a b = none := by
  refine ⟨by decide, by decide, ?_, by decide, ?_⟩
  · intro i; simp only; split <;> omega
  · intro a b ha _
    simp only [evalPlan, evalPrep, transpose, ha]
    rfl

/-- non-vacuity of `model_plan_sound`: `abc,cbd->da` (batch-free, two contracted labels fused,
    output transposed) on concrete integer arrays evaluates to the reference -/
example :
    let a := FArr.ofList [2, 2, 3] [1, 2, 3, 4, 5, 6, 7, 8, 9, 10, 11, 12]
    let b := FArr.ofList [3, 2, 2] [1, 0, 2, 1, 0, 1, 1, 1, 2, 0, 0, 3]
    ((parseBmm true [0, 1, 2] [2, 1, 3] [3, 0] a.shape b.shape).bind
        fun p => evalPlan p a b).map FArr.toList
      = some (einsum2 [0, 1, 2] [2, 1, 3] [3, 0] a b).toList := by decide


/-! ## Tier 1: structure of the plan (all of it is implied by `model_plan_sound`; stated separately
because these facts hold for HEAD's planner as well, without any guard) -/

/-- **plan_groups_partition** — under consistent shapes the four groups are exactly: non-trivial
    labels on both operands and in the output (`bat`), on both and not in the output (`con`), on
    one operand and in the output (`a_keep`, `b_keep`); `singletons` are the output labels of size 1;
    `out_produced` lists every output label exactly once; `desired_a` and `desired_b` are
    duplicate-free. -/
theorem plan_groups_partition (sz : Ix → Nat) (aT bT out : List Ix) (hout : out.Nodup)
    (hsub : ∀ o ∈ out, o ∈ aT ∨ o ∈ bT) :
    (∀ i, i ∈ (groups aT (aT.map sz) bT (bT.map sz) out).bat ↔
        (i ∈ aT ∧ sz i ≠ 1) ∧ i ∈ bT ∧ i ∈ out) ∧
    (∀ i, i ∈ (groups aT (aT.map sz) bT (bT.map sz) out).con ↔
        (i ∈ aT ∧ sz i ≠ 1) ∧ i ∈ bT ∧ i ∉ out) ∧
    (∀ i, i ∈ (groups aT (aT.map sz) bT (bT.map sz) out).aKeep ↔
        (i ∈ aT ∧ sz i ≠ 1) ∧ i ∉ bT ∧ i ∈ out) ∧
    (∀ i, i ∈ (groups aT (aT.map sz) bT (bT.map sz) out).bKeep ↔
        (i ∈ bT ∧ sz i ≠ 1) ∧ i ∉ aT ∧ i ∈ out) ∧
    (∀ i, i ∈ out.filter (has (singlesSet aT (aT.map sz) bT (bT.map sz))) ↔ i ∈ out ∧ sz i = 1) ∧
    (out.filter (has (singlesSet aT (aT.map sz) bT (bT.map sz))) ++
        (groups aT (aT.map sz) bT (bT.map sz) out).bat ++
        (groups aT (aT.map sz) bT (bT.map sz) out).aKeep ++
        (groups aT (aT.map sz) bT (bT.map sz) out).bKeep).Perm out ∧
    (desiredA aT bT out (aT.map sz) (bT.map sz)).Nodup ∧
    (desiredB aT bT out (aT.map sz) (bT.map sz)).Nodup := by
  obtain ⟨hm, hn⟩ := produced_spec (sz := sz) hout hsub
  refine ⟨fun _ => mem_bat, fun _ => mem_con, fun _ => mem_aKeep, fun _ => mem_bKeep, ?_,
    (List.perm_ext_iff_of_nodup hn hout).2 hm, nodup_desired.1, nodup_desired.2⟩
  intro i
  simp only [List.mem_filter, has, List.contains_iff_mem, mem_singlesSet]
  exact ⟨fun h => ⟨h.1, h.2.2⟩, fun h => ⟨h.1, hsub i h.1, h.2⟩⟩

/-- **perm_is_perm** — the final `perm_ab`, when present, is a permutation of the output axes (for
    HEAD's and the repaired planner alike); the transpose tuples `eq_a` / `eq_b` are permutations
    of the operand's axes for the repaired planner, and for HEAD under `ShortcutSafe`
    (`head_plan_counterexample` shows the 2-tuple HEAD returns for a rank-3 operand). -/
theorem perm_is_perm (lc : Bool) (sz : Ix → Nat) (aT bT out : List Ix) (hout : out.Nodup)
    (hsub : ∀ o ∈ out, o ∈ aT ∨ o ∈ bT) (plan : Plan)
    (h : parseBmm lc aT bT out (aT.map sz) (bT.map sz) = some plan) :
    (∀ p, plan.permAB = some p → isPermOf p out.length = true) ∧
    ((lc = true ∨ ShortcutSafe aT bT out (aT.map sz) (bT.map sz)) →
      (∀ p, plan.eqA = .perm p → isPermOf p aT.length = true) ∧
      (∀ p, plan.eqB = .perm p → isPermOf p bT.length = true)) := by
  obtain ⟨sizes, hs1, _⟩ := sizesOf_consistent sz aT bT
  by_cases hc : (groups aT (aT.map sz) bT (bT.map sz) out).con.isEmpty = true
  · rw [parseBmm_pure (by simp) (by simp) hs1 hc] at h
    cases h
    refine ⟨by simp [pureMul], fun _ => ⟨?_, ?_⟩⟩
    · intro p hp; simp only [pureMul] at hp; split at hp <;> cases hp
    · intro p hp; simp only [pureMul] at hp; split at hp <;> cases hp
  · have hne : (groups aT (aT.map sz) bT (bT.map sz) out).con.isEmpty = false := by simpa using hc
    obtain ⟨hm, hn⟩ := produced_spec (sz := sz) hout hsub
    have hall : out.all (has (out.filter (has (singlesSet aT (aT.map sz) bT (bT.map sz))) ++
        (groups aT (aT.map sz) bT (bT.map sz) out).bat ++
        (groups aT (aT.map sz) bT (bT.map sz) out).aKeep ++
        (groups aT (aT.map sz) bT (bT.map sz) out).bKeep)) = true := by
      simp only [List.all_eq_true, has, List.contains_iff_mem]
      exact fun o ho => (hm o).2 ho
    rw [parseBmm_bmm (by simp) (by simp) hs1 rfl hne rfl hall] at h
    cases h
    have hprm : out.Perm _ := ((List.perm_ext_iff_of_nodup hn hout).2 hm).symm
    refine ⟨?_, fun hg => ⟨?_, ?_⟩⟩
    · intro p hp
      simp only at hp
      split at hp
      · cases hp
      · cases hp
        rw [hprm.length_eq]
        exact isPermOf_map_idxOf hn hout (fun o ho => (hm o).2 ho) (fun i hi => (hm i).1 hi)
    · intro p hp
      simp only [prepOf] at hp
      split at hp
      · cases hp
      · split at hp
        · rename_i h2
          cases hp
          have hss : sameSet aT (desiredA aT bT out (aT.map sz) (bT.map sz)) = true := by
            cases hq : sameSet aT (desiredA aT bT out (aT.map sz) (bT.map sz))
            · simp only [desiredA] at hq; rw [hq] at h2; simp at h2
            · rfl
          have hlen : aT.length = (desiredA aT bT out (aT.map sz) (bT.map sz)).length := by
            rcases hg with hlc | hsafe
            · simp only [desiredA] at hss ⊢
              rw [hlc, hss] at h2
              simpa using h2
            · exact hsafe.1 hss
          have hdn := (nodup_desired (sz := sz) (aT := aT) (bT := bT) (out := out)).1
          simp only [sameSet, Bool.and_eq_true, List.all_eq_true, has, List.contains_iff_mem] at hss
          have htn : aT.Nodup := nodup_of_sameSet hdn hss.2 hlen
          exact isPermOf_map_idxOf htn hdn hss.2 hss.1
        · cases hp
    · intro p hp
      simp only [prepOf] at hp
      split at hp
      · cases hp
      · split at hp
        · rename_i h2
          cases hp
          have hss : sameSet bT (desiredB aT bT out (aT.map sz) (bT.map sz)) = true := by
            cases hq : sameSet bT (desiredB aT bT out (aT.map sz) (bT.map sz))
            · simp only [desiredB] at hq; rw [hq] at h2; simp at h2
            · rfl
          have hlen : bT.length = (desiredB aT bT out (aT.map sz) (bT.map sz)).length := by
            rcases hg with hlc | hsafe
            · simp only [desiredB] at hss ⊢
              rw [hlc, hss] at h2
              simpa using h2
            · exact hsafe.2 hss
          have hdn := (nodup_desired (sz := sz) (aT := aT) (bT := bT) (out := out)).2
          simp only [sameSet, Bool.and_eq_true, List.all_eq_true, has, List.contains_iff_mem] at hss
          have htn : bT.Nodup := nodup_of_sameSet hdn hss.2 hlen
          exact isPermOf_map_idxOf htn hdn hss.2 hss.1
        · cases hp


/-! ## tensordot -/

theorem getD_one_pos {l : List Nat} (h : ∀ d ∈ l, 0 < d) (k : Nat) : 0 < l.getD k 1 := by
  rw [List.getD_eq_getElem?_getD]
  cases hk : l[k]? with
  | none => simp
  | some v => exact h v (List.mem_of_getElem? hk)

theorem getD_default {l : List Nat} {k : Nat} (hk : k < l.length) (d1 d2 : Nat) :
    l.getD k d1 = l.getD k d2 := by
  simp [List.getD_eq_getElem?_getD, List.getElem?_eq_getElem hk]

/-- two duplicate-free label lists whose shared labels carry equal dimensions admit one positive
    size per label -/
theorem consistent_sizes {A B : List Ix} {shA shB : List Nat} (hAn : A.Nodup) (hBn : B.Nodup)
    (hAl : A.length = shA.length) (hBl : B.length = shB.length)
    (hposA : ∀ d ∈ shA, 0 < d) (hposB : ∀ d ∈ shB, 0 < d)
    (hsh : ∀ j (hj : j < B.length), B[j] ∈ A →
      ∃ x, ∃ hx : x < A.length, A[x] = B[j] ∧ shA.getD x 0 = shB.getD j 0) :
    ∃ sz : Ix → Nat, (∀ i, 0 < sz i) ∧ shA = A.map sz ∧ shB = B.map sz := by
  refine ⟨fun i => if A.contains i then shA.getD (A.idxOf i) 1
      else if B.contains i then shB.getD (B.idxOf i) 1 else 1, ?_, ?_, ?_⟩
  · intro i
    simp only
    split
    · exact getD_one_pos hposA _
    · split
      · exact getD_one_pos hposB _
      · exact Nat.one_pos
  · apply List.ext_getElem (by simp [hAl])
    intro x h1 h2
    have hxA : x < A.length := by rw [hAl]; exact h1
    simp only [List.getElem_map]
    have hc : A.contains A[x] = true := by simpa using List.getElem_mem hxA
    rw [if_pos hc, idxOf_getElem_nodup hAn hxA, List.getD_eq_getElem?_getD,
      List.getElem?_eq_getElem h1]
    rfl
  · apply List.ext_getElem (by simp [hBl])
    intro j h1 h2
    have hjB : j < B.length := by rw [hBl]; exact h1
    simp only [List.getElem_map]
    by_cases hm : B[j] ∈ A
    · obtain ⟨x, hx, hxe, hd⟩ := hsh j hjB hm
      have hc : A.contains B[j] = true := by simpa using hm
      have hidx : A.idxOf B[j] = x := by rw [← hxe]; exact idxOf_getElem_nodup hAn hx
      rw [if_pos hc, hidx, getD_default (by rw [← hAl]; exact hx) 1 0, hd,
        List.getD_eq_getElem?_getD, List.getElem?_eq_getElem h1]
      rfl
    · have hc : A.contains B[j] = false := by simpa using hm
      have hinB : B.contains B[j] = true := by simpa using List.getElem_mem hjB
      rw [if_neg (by rw [hc]; simp), if_pos hinB, idxOf_getElem_nodup hBn hjB,
        List.getD_eq_getElem?_getD, List.getElem?_eq_getElem h1]
      rfl

/-- **tensordot_eq_wellformed** — for equally many distinct in-range axes whose dimensions match,
    `_parse_tensordot_axes_to_matmul` builds a well-formed equation `A,B->O`: the labels `A` of `a`
    are distinct; position `j` of `b` carries the label of the axis of `a` it is contracted with if
    `j` is a contracted axis and a label that `a` does not have otherwise; `B` and `O` are
    duplicate-free, `O` only uses labels of the operands; and the shapes are consistent with one
    positive size per label. -/
theorem tensordot_eq_wellformed (axesA axesB shA shB : List Nat)
    (h : AxesOK axesA axesB shA.length shB.length)
    (hdim : ∀ k < axesB.length, shA.getD (axesA.getD k 0) 0 = shB.getD (axesB.getD k 0) 0)
    (hposA : ∀ d ∈ shA, 0 < d) (hposB : ∀ d ∈ shB, 0 < d) :
    ∃ A B O, tensordotEq (.pair axesA axesB) shA shB = some (A, B, O) ∧
      A = (List.range shA.length).map niceInd ∧ A.Nodup ∧ B.Nodup ∧ B.length = shB.length ∧
      O.Nodup ∧ (∀ o ∈ O, o ∈ A ∨ o ∈ B) ∧
      (∀ j, j < shB.length → j ∈ axesB →
        B.getD j 0 = A.getD (axesA.getD (axesB.idxOf j) 0) 0) ∧
      (∀ j, j < shB.length → j ∉ axesB → B.getD j 0 ∉ A) ∧
      ∃ sz : Ix → Nat, (∀ i, 0 < sz i) ∧ shA = A.map sz ∧ shB = B.map sz := by
  have hdim' : ∀ m < shB.length, axesB.contains m = true →
      shA.getD (axesA.getD (axesB.idxOf m) 0) 0 = shB.getD m 0 := by
    intro m _ hm
    have hmB : m ∈ axesB := by simpa using hm
    have hlt := List.idxOf_lt_length_of_mem hmB
    have := hdim _ hlt
    rw [this, List.getD_eq_getElem?_getD (l := axesB), List.getElem?_eq_getElem hlt]
    simp [List.getElem_idxOf hlt]
  obtain ⟨B, O, c, hloop, hB, hBn, hOn, hOs⟩ := tdLoop_spec (shA := shA) (shB := shB) h hdim'
  have hguard : (axesA.all (· < shA.length) && axesB.all (· < shB.length)) = true := by
    simp only [Bool.and_eq_true, List.all_eq_true, decide_eq_true_eq]
    exact ⟨h.rA, h.rB⟩
  have hBlen : B.length = shB.length := by rw [hB]; simp
  have hlab : ∀ j, j < shB.length → B.getD j 0
      = tdLabel ((List.range shA.length).map niceInd) axesA axesB shA.length j := by
    intro j hj
    rw [hB, List.getD_eq_getElem?_getD, List.getElem?_eq_getElem (by simpa using hj)]
    simp
  refine ⟨_, B, O, ?_, rfl, niceInds_nodup _, hBn, hBlen, hOn, hOs, ?_, ?_, ?_⟩
  · simp only [tensordotEq, h.len, bne_self_eq_false, Bool.false_eq_true, ↓reduceIte, hguard,
      Bool.not_true, hloop]
  · intro j hj hjB
    rw [hlab j hj]
    simp only [tdLabel, List.contains_iff_mem, hjB, ↓reduceIte, lblA]
  · intro j hj hjB hmem
    rw [hlab j hj] at hmem
    have hc : axesB.contains j = false := by simpa using hjB
    simp only [tdLabel, hc, Bool.false_eq_true, ↓reduceIte] at hmem
    have := mem_niceInds.1 hmem
    omega
  · -- one size per label
    apply consistent_sizes (niceInds_nodup _) hBn (by simp) hBlen hposA hposB
    intro j hj hmem
    have h1 : j < shB.length := by rw [← hBlen]; exact hj
    have hBj : B[j] = tdLabel ((List.range shA.length).map niceInd) axesA axesB shA.length j := by
      have := hlab j h1
      rw [List.getD_eq_getElem?_getD, List.getElem?_eq_getElem hj] at this
      simpa using this
    by_cases hc : axesB.contains j = true
    · have hjm : j ∈ axesB := by simpa using hc
      have hax := axa_lt h hjm
      refine ⟨axesA.getD (axesB.idxOf j) 0, by simpa using hax, ?_, hdim' j h1 hc⟩
      rw [hBj]
      simp only [tdLabel, hc, ↓reduceIte]
      rw [lblA_eq h hjm]
      simp
    · exfalso
      have hc' : axesB.contains j = false := by simpa using hc
      rw [hBj] at hmem
      simp only [tdLabel, hc', Bool.false_eq_true, ↓reduceIte] at hmem
      have := mem_niceInds.1 hmem
      omega

/-- **tensordot_plan_sound** — for every valid axes pair (distinct, in range, matching positive
    dimensions) and all arrays: the equation of `_parse_tensordot_axes_to_matmul` is planned by the
    code *at HEAD* (no guard needed: neither operand repeats a label) and the plan evaluates,
    every step being defined, to the einsum of that equation — i.e. to `tensordot(a, b, axes)` by
    `tensordot_eq_wellformed`. -/
theorem tensordot_plan_sound (axesA axesB : List Nat) (a b : FArr)
    (h : AxesOK axesA axesB a.shape.length b.shape.length)
    (hdim : ∀ k < axesB.length,
      a.shape.getD (axesA.getD k 0) 0 = b.shape.getD (axesB.getD k 0) 0)
    (hposA : ∀ d ∈ a.shape, 0 < d) (hposB : ∀ d ∈ b.shape, 0 < d) :
    ∃ A B O plan r, tensordotEq (.pair axesA axesB) a.shape b.shape = some (A, B, O) ∧
      parseBmm false A B O a.shape b.shape = some plan ∧ evalPlan plan a b = some r ∧
      r.shape = (einsum2 A B O a b).shape ∧
      ∀ idx, inRange idx r.shape = true → r.get idx = (einsum2 A B O a b).get idx := by
  obtain ⟨A, B, O, h1, _, hAn, hBn, _, hOn, hOs, _, _, sz, hpos, hsa, hsb⟩ :=
    tensordot_eq_wellformed axesA axesB a.shape b.shape h hdim hposA hposB
  obtain ⟨plan, r, h2, h3, h4, h5⟩ :=
    head_plan_sound_nodup sz hpos A B O hOn hOs hAn hBn a b hsa hsb
  exact ⟨A, B, O, plan, r, h1, h2, h3, h4, h5⟩

/-- non-vacuity: `tensordot(a(2,3,4), b(4,5,3), axes=((2,1),(0,2)))` -/
example : tensordotEq (.pair [2, 1] [0, 2]) [2, 3, 4] [4, 5, 3]
    = some ([97, 98, 99], [99, 100, 98], [97, 100]) := by decide


/-! ## Tier 2 in certificate form: the checker `planOK` run on *real* plans -/

theorem shape_of_zipAll {sz : Ix → Nat} {t : List Ix} {sh : List Nat} (hl : t.length = sh.length)
    (h : (t.zip sh).all (fun p => sz p.1 == p.2) = true) : sh = t.map sz := by
  induction t generalizing sh with
  | nil => cases sh <;> simp_all
  | cons a r ih =>
    cases sh with
    | nil => simp at hl
    | cons d ds =>
      simp only [List.zip_cons_cons, List.all_cons, Bool.and_eq_true, beq_iff_eq] at h
      simp only [List.map_cons, List.cons.injEq]
      exact ⟨h.1.symm, ih (by simpa using hl) h.2⟩

theorem szOf2_pos {aT bT : List Ix} {shA shB : List Nat} (hA : ∀ d ∈ shA, 0 < d)
    (hB : ∀ d ∈ shB, 0 < d) (i : Ix) : 0 < szOf2 aT shA bT shB i := by
  unfold szOf2 szOf
  split
  · exact getD_one_pos hA _
  · split
    · exact getD_one_pos hB _
    · exact Nat.one_pos

theorem algebraCheck_sound {sz : Ix → Nat} {aT bT out dA dB C : List Ix}
    (h : algebraCheck sz aT bT out dA dB C = true) :
    (∀ i, sz i ≠ 1 → (i ∈ C ↔ i ∈ aT ∧ i ∈ bT ∧ i ∉ out)) ∧
    (∀ i, sz i ≠ 1 → (i ∈ (scan aT dA).2 ↔ i ∈ aT ∧ i ∉ bT ∧ i ∉ out)) ∧
    (∀ i, sz i ≠ 1 → (i ∈ (scan bT dB).2 ↔ i ∈ bT ∧ i ∉ aT ∧ i ∉ out)) := by
  simp only [algebraCheck, Bool.and_eq_true, List.all_eq_true, Bool.or_eq_true, beq_iff_eq,
    List.mem_append] at h
  obtain ⟨⟨h1, h2⟩, h3⟩ := h
  refine ⟨?_, ?_, ?_⟩
  · intro i hnt
    by_cases hin : (i ∈ aT ∨ i ∈ bT) ∨ i ∈ C
    · rcases h1 i hin with h | h
      · exact absurd h hnt
      · have := congrArg (· = true) h
        simp only [List.contains_iff_mem, Bool.and_eq_true, Bool.not_eq_eq_eq_not, Bool.not_true,
          List.contains_eq_mem, decide_eq_false_iff_not, eq_iff_iff] at this
        simpa [and_assoc] using this
    · simp only [not_or] at hin
      exact ⟨fun h => absurd h hin.2, fun h => absurd h.1 hin.1.1⟩
  · intro i hnt
    rw [(scan_spec aT dA).2.2.2 i]
    constructor
    · rintro ⟨ha, hd⟩
      rcases h2 i ha with h | h
      · exact absurd h hnt
      · have := congrArg (· = true) h
        simp only [Bool.not_eq_eq_eq_not, Bool.not_true, List.contains_eq_mem,
          decide_eq_false_iff_not, Bool.and_eq_true, eq_iff_iff] at this
        exact ⟨ha, this.1 hd⟩
    · rintro ⟨ha, hb, ho⟩
      refine ⟨ha, ?_⟩
      rcases h2 i ha with h | h
      · exact absurd h hnt
      · have := congrArg (· = true) h
        simp only [Bool.not_eq_eq_eq_not, Bool.not_true, List.contains_eq_mem,
          decide_eq_false_iff_not, Bool.and_eq_true, eq_iff_iff] at this
        exact this.2 ⟨hb, ho⟩
  · intro i hnt
    rw [(scan_spec bT dB).2.2.2 i]
    constructor
    · rintro ⟨hb, hd⟩
      rcases h3 i hb with h | h
      · exact absurd h hnt
      · have := congrArg (· = true) h
        simp only [Bool.not_eq_eq_eq_not, Bool.not_true, List.contains_eq_mem,
          decide_eq_false_iff_not, Bool.and_eq_true, eq_iff_iff] at this
        exact ⟨hb, this.1 hd⟩
    · rintro ⟨hb, ha, ho⟩
      refine ⟨hb, ?_⟩
      rcases h3 i hb with h | h
      · exact absurd h hnt
      · have := congrArg (· = true) h
        simp only [Bool.not_eq_eq_eq_not, Bool.not_true, List.contains_eq_mem,
          decide_eq_false_iff_not, Bool.and_eq_true, eq_iff_iff] at this
        exact this.2 ⟨ha, ho⟩

/-- **planOK_sound** (DESIGN's Tier 2 in certificate form) — whatever plan the real planner returns
    for an equation and shapes: if the checker `planOK` (Model/PlanOK.lean, run by the harness on
    every real plan) accepts it, then executing it with `_do_contraction_via_bmm` is defined at
    every step and gives the reference einsum, for **all** arrays of those shapes. -/
theorem planOK_sound (aT bT out : List Ix) (shA shB : List Nat) (pl : Plan)
    (h : planOK aT bT out shA shB pl = true) (a b : FArr) (hsa : a.shape = shA)
    (hsb : b.shape = shB) :
    ∃ r, evalPlan pl a b = some r ∧ r.shape = (einsum2 aT bT out a b).shape ∧
      ∀ idx, inRange idx r.shape = true → r.get idx = (einsum2 aT bT out a b).get idx := by
  unfold planOK at h
  simp only [Bool.and_eq_true, beq_iff_eq, List.all_eq_true, decide_eq_true_eq, Bool.or_eq_true,
    List.contains_iff_mem] at h
  obtain ⟨⟨⟨⟨⟨⟨⟨⟨hl1, hl2⟩, hc1⟩, hc2⟩, hp1⟩, hp2⟩, hout⟩, hsub⟩, hrest⟩ := h
  have hA : shA = aT.map (szOf2 aT shA bT shB) :=
    shape_of_zipAll hl1 (by simpa [List.all_eq_true] using hc1)
  have hB : shB = bT.map (szOf2 aT shA bT shB) :=
    shape_of_zipAll hl2 (by simpa [List.all_eq_true] using hc2)
  have hpos := szOf2_pos (aT := aT) (bT := bT) hp1 hp2
  generalize szOf2 aT shA bT shB = sz at *
  rw [hA] at hsa
  rw [hB] at hsb
  split at hrest
  · rename_i dA dB hpa hpb
    obtain ⟨a1, ha1, hla1⟩ := prepCheck_sound (sz := sz) hpa hsa
    obtain ⟨b1, hb1, hlb1⟩ := prepCheck_sound (sz := sz) hpb hsb
    obtain ⟨_, _, hnsA, _⟩ := scan_spec aT dA
    obtain ⟨_, _, hnsB, _⟩ := scan_spec bT dB
    split at hrest
    · -- pure multiplication
      rename_i hpure
      simp only [Bool.and_eq_true] at hrest
      obtain ⟨hpc, halg⟩ := hrest
      obtain ⟨hCm, hSAm, hSBm⟩ := algebraCheck_sound halg
      unfold pureCheck at hpc
      split at hpc
      · rename_i sA sB hsA hsB
        simp only [Bool.and_eq_true, beq_iff_eq, List.all_eq_true, Bool.or_eq_true,
          List.contains_iff_mem] at hpc
        obtain ⟨⟨⟨⟨h1, h2⟩, h3⟩, h4⟩, h5⟩ := hpc
        obtain ⟨a2, ha2, hra2⟩ := pure_operand_sound h1 h2 hla1
        obtain ⟨b2, hb2, hrb2⟩ := pure_operand_sound h3 h4 hlb1
        obtain ⟨r, hr, hlr⟩ := rep_mul' hra2 hrb2 (by
          intro o ho
          rcases h5 o ho with (h | h) | h
          · exact Or.inl (by simpa using h)
          · exact Or.inr (Or.inl (by simpa using h))
          · exact Or.inr (Or.inr h))
        refine ⟨r, ?_, ?_⟩
        · simp only [evalPlan, ha1, hb1, Option.bind_some, hsA, hsB, ha2, hb2, hpure, ↓reduceIte, hr]
        · exact result_eq_reference hpos hout (by
            intro o ho; exact hsub o ho) hsa hsb (C := []) hlr (by simp) hnsA hnsB hCm hSAm hSBm
      · cases hpc
    · -- batched matmul
      rename_i hpure
      split at hrest
      · rename_i Da Db hra hrb
        obtain ⟨a2, ha2, hra2⟩ := reshapeCheck_sound hra hla1
        obtain ⟨b2, hb2, hrb2⟩ := reshapeCheck_sound hrb hlb1
        split at hrest
        · rename_i Dab C hmm
          obtain ⟨ab, hab, hrab⟩ := matmulCheck_sound hmm hra2 hrb2
          have hCn : C.Nodup := by
            unfold matmulCheck at hmm
            split at hmm
            · split at hmm
              · rename_i hc
                simp only [Option.some.injEq, Prod.mk.injEq] at hmm
                simp only [Bool.and_eq_true, decide_eq_true_eq] at hc
                rw [← hmm.2]; exact hc.1.1.2
              · cases hmm
            · split at hmm
              · rename_i hc
                simp only [Option.some.injEq, Prod.mk.injEq] at hmm
                simp only [Bool.and_eq_true, decide_eq_true_eq] at hc
                rw [← hmm.2]; exact hc.1.1.1.2
              · cases hmm
            · cases hmm
          split at hrest
          · rename_i D1 hr1
            obtain ⟨ab1, hab1, hrab1⟩ := reshapeCheck_sound hr1 hrab
            split at hrest
            · rename_i D2 ht2
              obtain ⟨r, hr, hrr⟩ := transposeCheck_sound ht2 hrab1
              simp only [Bool.and_eq_true] at hrest
              obtain ⟨hfin, halg⟩ := hrest
              obtain ⟨hCm, hSAm, hSBm⟩ := algebraCheck_sound halg
              have hlr := finalCheck_sound hfin hrr
              refine ⟨r, ?_, ?_⟩
              · have hp : pl.pure = false := by simpa using hpure
                simp only [evalPlan, ha1, hb1, Option.bind_some, ha2, hb2, hp, Bool.false_eq_true,
                  ↓reduceIte, hab, hab1]
                exact hr
              · exact result_eq_reference hpos hout (by
                  intro o ho; exact hsub o ho) hsa hsb hlr hCn hnsA hnsB hCm hSAm hSBm
            · cases hrest
          · cases hrest
        · cases hrest
      · cases hrest
  · cases hrest

/-- non-vacuity: the checker accepts the repaired planner's plan for `aab,bc->ac` and rejects HEAD's -/
example : planOK [0, 0, 1] [1, 2] [0, 2] [2, 2, 3] [3, 2]
    ⟨.eins [0, 0, 1] [0, 1], .none, none, none, none, none, false⟩ = true := by decide
example : planOK [0, 0, 1] [1, 2] [0, 2] [2, 2, 3] [3, 2]
    ⟨.perm [0, 2], .none, none, none, none, none, false⟩ = false := by decide

end Cotengra.C11
