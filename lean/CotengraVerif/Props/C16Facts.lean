import CotengraVerif.Props.C16
import CotengraVerif.Generated.FactsC16

/-!
# C16 — closed obligations over the source-derived fact tables

`Generated/FactsC16.lean` is rewritten from the AST of `cotengra/pathfinders/path_basic.py`,
`cotengra/reusable.py`, `cotengra/presets.py` and `cotengra/hyperoptimizers/hyper.py` by `harness/c16.py: gen_facts` on every run.
The obligations are what the model and the invariant of `C16.per_thread_isolation` take from the
source: which shared attributes the query path writes, and under which key.
-/
namespace Cotengra.C16
open Cotengra.Generated.C16

/-- **presets_stateless** — `GreedyOptimizer` and `OptimalOptimizer` (the objects behind the
    presets 'greedy', 'eager', 'opportunistic', 'optimal', 'dp', 'dynamic-programming',
    'optimal-outer') store nothing through `self` in `search / __call__ / ssa_path`: a call cannot
    leave anything behind for the next one. -/
theorem presets_stateless :
    presetStores.map (·.1) = ["GreedyOptimizer", "OptimalOptimizer"] ∧
      ∀ p ∈ presetStores, p.2 = [] := by decide

/-- **shared_stores_keyed_by_thread** — on the query path `ReusableOptimizer` writes only
    `_suboptimizers[<own thread ident>]` and `_cache[h]`, `last_opt` reads the caller's own ident,
    and `AutoOptimizer` writes only entries of `_hyperoptimizers_by_thread` (which Reusable object a
    thread is handed is `Cfg.objOf`, arbitrary in the theorem): exactly the stores of
    `Reuse.stepLocal` (the premise of the frame lemma `stepLocal_subopts_other`). -/
theorem shared_stores_keyed_by_thread :
    (∀ s ∈ reusableStores, s ∈ ["self._cache[h]", "self._suboptimizers[<ident>]"]) ∧
      lastOptReadsIdent = true ∧
      (∀ p ∈ autoStores, p.1 = "_hyperoptimizers_by_thread" ∧ p.2 ≠ "") := by decide

/-- **futures_fresh_per_search** — the premise `freshList = true` of `pool_isolation`
    (Props/C16Pool.lean), read off hyper.py: `_gen_results_parallel` binds `self._futures` to a
    fresh empty container before it uses it, no class-level mutable container of `HyperOptimizer`
    (or a subclass) is mutated in place through `self`, and `_futures` is reached through `self`
    only — so the list of in-flight trials is one object per search. -/
theorem futures_fresh_per_search :
    futuresFreshPerSearch = true ∧ hyperClassMutables = [] ∧ futuresForeignUses = [] := by decide

/-- **iface_key_is_full_tuple** — the premise `KeySeparates` of `iface_path_isolation`
    (Props/C16Iface.lean), read off interface.py: the key of `_PATH_CACHE` is the tuple returned by
    `hash_contraction`, which contains `inputs` and `output` as they are, the items of `size_dict`
    and `optimize`, and is not passed through `hash`; `dict` lookups compare full keys. -/
theorem iface_key_is_full_tuple :
    ifaceKeyReturnsTuple = true ∧ ifaceKeyCallsHash = false ∧ ifaceCacheKeyedByIt = true ∧
      (∀ n ∈ ["inputs", "output", "size_dict", "optimize"], n ∈ ifaceKeyNames) ∧
      (∀ n ∈ ["inputs", "output"], n ∈ ifaceKeyBare) := by decide

/-- **suboptimizer_fresh_per_call** — the premise `policy = fresh` of
    `fresh_suboptimizer_isolation` (Props/C16Shared.lean), read off hyper.py / path_basic.py /
    reusable.py: every `_get_suboptimizer` of a `ReusableOptimizer` subclass is a single
    `return <Class>(...)`, and `_run_optimizer` calls it exactly once. -/
theorem suboptimizer_fresh_per_call :
    suboptFreshPerCall ≠ [] ∧ (∀ p ∈ suboptFreshPerCall, p.2 = true) ∧ suboptCallsPerRun = 1 := by
  decide

end Cotengra.C16
