import CotengraVerif.Model.Cache
import CotengraVerif.Generated.FactsC13

/-!
# C13 — in-memory caching is invisible

Model (Model/Cache.lean), transcribed from cotengra/interface.py: `hash_contraction` (:112-120,
the key), `array_contract_path` (:283-294, `_PATH_CACHE`), `array_contract_expression`
(:759-786, `_CONTRACT_EXPR_CACHE`): "look the key up, else build and store"; and
`functools.lru_cache` on the parsers (contract.py:37,64,170,475; utils.py:1557).

* `cache_transparent` — for **every history** of calls (any mix of `cache=True/False`, any
  eviction/clearing in between) a cache whose key is *faithful* (`key a = key b → build a =
  build b`) returns, call by call, exactly what the uncached code returns;
* `provenance` — with **any** key, a value is only ever handed to a request with the same key
  as the request it was built for;
* `tuple_key_faithful` + the source-derived tables (Generated/FactsC13.lean, regenerated from
  /repo's AST on every run): every caller variable that reaches `_build_expression` /
  `find_path` also enters the key tuple, hence the tuple key is faithful for *any* builder that
  is a function of its arguments: `expr_cache_transparent`, `path_cache_transparent`;
* `key_is_structural` — the tuple itself is the dict key (the repaired code).  For the code as
  it was (`hash(tuple)`) faithfulness needs Python's `hash` to be injective on the tuples of the
  history — it is not: `hash_collision` (for every string hash and every tuple-combining
  function, from CPython's `hash(-1) = hash(-2) = -2`) and `hash_collision_counterexample`.
* `lru_transparent` — `lru_cache` with any eviction is invisible for a function of its
  arguments.

Not modelled / trusted (design/C13.md): that `_build_expression`/`find_path`/the parsers are
functions of the arguments they are given (no hidden global state: presets registered later,
RNG-driven optimizers give *a* valid path, not *the same* path); Python `==` on key tuples is
equality of the contraction specification (no `1 == 1.0 == True` label mixing); an expression
does not capture arrays (C01's program model).
-/
namespace Cotengra.C13
open Cotengra.Cache

variable {Q K V : Type} [DecidableEq K]

theorem lookup_mem (cache : List (K × V)) (k : K) (v : V) (h : lookup cache k = some v) :
    (k, v) ∈ cache := by
  induction cache with
  | nil => simp [lookup] at h
  | cons hd tl ih =>
    obtain ⟨k', v'⟩ := hd
    simp only [lookup] at h
    by_cases e : k' = k
    · simp only [e, if_true, Option.some.injEq] at h
      subst e; subst h; exact List.mem_cons_self
    · simp only [e, if_false] at h
      exact List.mem_cons_of_mem _ (ih h)

/-- every entry holds the value the builder gives for *every* request with that key -/
def Good (key : Q → K) (build : Q → V) (cache : List (K × V)) : Prop :=
  ∀ kv ∈ cache, ∀ q, key q = kv.1 → kv.2 = build q

theorem cache_transparent_from (key : Q → K) (build : Q → V)
    (hf : ∀ a b, key a = key b → build a = build b) (calls : List (Call Q K)) :
    ∀ cache, Good key build cache → runCached key build cache calls = calls.map (fun c => build c.q) := by
  induction calls with
  | nil => intro _ _; rfl
  | cons c rest ih =>
    intro cache hg
    have hg' : Good key build (cache.filter fun kv => !c.evict kv.1) :=
      fun kv hkv q hq => hg kv (List.mem_filter.1 hkv).1 q hq
    simp only [runCached, List.map_cons]
    cases hc : c.useCache with
    | false => simp only [Bool.false_eq_true, if_false]; rw [ih _ hg']
    | true =>
      simp only [if_true, cachedCall]
      cases hl : lookup (cache.filter fun kv => !c.evict kv.1) (key c.q) with
      | some v =>
        simp only []
        have hv : v = build c.q := hg' (key c.q, v) (lookup_mem _ _ _ hl) c.q rfl
        rw [ih _ hg', hv]
      | none =>
        simp only []
        rw [ih]
        intro kv hkv q hq
        simp only [List.mem_cons] at hkv
        rcases hkv with rfl | hkv
        · exact hf _ _ hq.symm
        · exact hg' kv hkv q hq

/-- **cache_transparent.**  For every history — any requests, any interleaving of cached and
    uncached calls, any eviction between calls — a cache with a faithful key returns, call by
    call, exactly what the uncached code returns. -/
theorem cache_transparent (key : Q → K) (build : Q → V)
    (hf : ∀ a b, key a = key b → build a = build b) (calls : List (Call Q K)) :
    runCached key build [] calls = calls.map (fun c => build c.q) :=
  cache_transparent_from key build hf calls [] (fun _ h => by cases h)

/-- **provenance** (no assumption on the key): every value a cached call returns was built for a
    request with the *same key* as the request it is returned to. -/
theorem provenance (key : Q → K) (build : Q → V) (calls : List (Call Q K)) :
    ∀ cache : List (K × (Q × V)),
      (∀ kv ∈ cache, key kv.2.1 = kv.1 ∧ kv.2.2 = build kv.2.1) →
      ∀ p ∈ List.zip calls (runCached key (fun q => (q, build q)) cache calls),
        key p.2.1 = key p.1.q ∧ p.2.2 = build p.2.1 := by
  induction calls with
  | nil => intro _ _ p hp; simp [runCached] at hp
  | cons c rest ih =>
    intro cache hg
    have hg' : ∀ kv ∈ (cache.filter fun kv => !c.evict kv.1), key kv.2.1 = kv.1 ∧ kv.2.2 = build kv.2.1 :=
      fun kv hkv => hg kv (List.mem_filter.1 hkv).1
    simp only [runCached]
    cases hc : c.useCache with
    | false =>
      simp only [Bool.false_eq_true, if_false, List.zip_cons_cons, List.mem_cons]
      rintro p (rfl | hp)
      · exact ⟨rfl, rfl⟩
      · exact ih _ hg' p hp
    | true =>
      simp only [if_true, cachedCall]
      cases hl : lookup (cache.filter fun kv => !c.evict kv.1) (key c.q) with
      | some v =>
        simp only [List.zip_cons_cons, List.mem_cons]
        rintro p (rfl | hp)
        · exact hg' (key c.q, v) (lookup_mem _ _ _ hl)
        · exact ih _ hg' p hp
      | none =>
        simp only [List.zip_cons_cons, List.mem_cons]
        rintro p (rfl | hp)
        · exact ⟨rfl, rfl⟩
        · refine ih _ ?_ p hp
          intro kv hkv
          simp only [List.mem_cons] at hkv
          rcases hkv with rfl | hkv
          · exact ⟨rfl, rfl⟩
          · exact hg' kv hkv

/-! ## the key tuple covers everything the builder reads -/

/-- **tuple_key_faithful.**  If every argument the builder is given is among the key fields, two
    requests with equal key tuples give equal results — for *any* builder `B` that is a function
    of the arguments it is given. -/
theorem tuple_key_faithful {W A : Type} (keyF buildF : List String) (hsub : ∀ a ∈ buildF, a ∈ keyF)
    (B : List A → W) (q₁ q₂ : Query A) (h : keyTuple keyF q₁ = keyTuple keyF q₂) :
    B (keyTuple buildF q₁) = B (keyTuple buildF q₂) := by
  have hk : ∀ a ∈ keyF, q₁ a = q₂ a := by
    unfold keyTuple at h
    exact List.map_inj_left.1 h
  congr 1
  unfold keyTuple
  exact List.map_congr_left fun a ha => hk a (hsub a ha)

/-! ### obligations over the tables extracted from /repo's source on this run -/

open Cotengra.Generated.C13

/-- everything `_build_expression` is given enters the expression key … -/
theorem expr_key_covers_build : ∀ a ∈ exprBuildArgs, a ∈ exprKeySource := by decide
/-- … and everything `find_path` is given enters the path key -/
theorem path_key_covers_build : ∀ a ∈ pathBuildArgs, a ∈ pathKeySource := by decide
/-- the source's key has at least the fields of the model's key (used by the driver's `shareOK`) -/
theorem model_key_within_source :
    (∀ a ∈ exprKeyFields, a ∈ exprKeySource) ∧ (∀ a ∈ pathKeyFields, a ∈ pathKeySource) := by decide
theorem model_key_covers_build :
    (∀ a ∈ exprBuildArgs, a ∈ exprKeyFields) ∧ (∀ a ∈ pathBuildArgs, a ∈ pathKeyFields) := by decide
/-- the dict key is the tuple itself, not its `hash` -/
theorem key_is_structural : keyIsHashed = false := by decide

/-- **The expression cache is invisible**, for every history and every builder that is a
    function of the arguments the source passes to it (tables from this run's source). -/
theorem expr_cache_transparent {A W : Type} [DecidableEq A] (B : List A → W)
    (calls : List (Call (Query A) (List A))) :
    runCached (keyTuple exprKeySource) (fun q => B (keyTuple exprBuildArgs q)) [] calls =
      calls.map (fun c => B (keyTuple exprBuildArgs c.q)) :=
  cache_transparent _ _ (fun a b h => tuple_key_faithful _ _ expr_key_covers_build B a b h) calls

theorem path_cache_transparent {A W : Type} [DecidableEq A] (B : List A → W)
    (calls : List (Call (Query A) (List A))) :
    runCached (keyTuple pathKeySource) (fun q => B (keyTuple pathBuildArgs q)) [] calls =
      calls.map (fun c => B (keyTuple pathBuildArgs c.q)) :=
  cache_transparent _ _ (fun a b h => tuple_key_faithful _ _ path_key_covers_build B a b h) calls

/-- the driver's sharing test is sound: requests it lets share a cached value have equal results -/
theorem shareOK_sound {A W : Type} [DecidableEq A] (B : List A → W) (q₁ q₂ : Query A)
    (h : shareOK exprKeyFields q₁ q₂ = true) :
    B (keyTuple exprBuildArgs q₁) = B (keyTuple exprBuildArgs q₂) :=
  tuple_key_faithful _ _ model_key_covers_build.1 B q₁ q₂ (by simpa [shareOK] using h)

/-- … also with the constants field added (the driver's test for expression objects) -/
theorem shareOK_sound_with_constants {A W : Type} [DecidableEq A] (B : List A → W) (q₁ q₂ : Query A)
    (h : shareOK exprShareFields q₁ q₂ = true) :
    B (keyTuple exprBuildArgs q₁) = B (keyTuple exprBuildArgs q₂) ∧ q₁ "constants" = q₂ "constants" := by
  have hk : keyTuple exprShareFields q₁ = keyTuple exprShareFields q₂ := by simpa [shareOK] using h
  have hall : ∀ a ∈ exprShareFields, q₁ a = q₂ a := by
    unfold keyTuple at hk
    exact List.map_inj_left.1 hk
  refine ⟨?_, hall "constants" (by decide)⟩
  apply tuple_key_faithful exprKeyFields _ model_key_covers_build.1 B
  unfold keyTuple
  exact List.map_congr_left fun a ha => hall a (by simp [exprShareFields, ha])

/-- The function with folded constants captures the constant arrays by reference, and arrays
    cannot enter a dict key by value; so the only sound policy for
    `_array_contract_expression_with_constants` is the one the code has: it does not store what
    it builds in any module-level cache (table from this run's source). -/
theorem constants_path_not_cached : constPathStoresInCache = false := by decide

/-- the size dict enters the key as `(label, size)` pairs, not as sizes or labels alone -/
theorem size_dict_fully_keyed : sizeDictFullyKeyed = true := by decide

/-- **lru_transparent**: `functools.lru_cache` (identity key, arbitrary eviction) around a
    function of its arguments is invisible. -/
theorem lru_transparent {A W : Type} [DecidableEq A] (f : A → W) (calls : List (Call A A)) :
    runCached id f [] calls = calls.map (fun c => f c.q) :=
  cache_transparent id f (fun a b h => by simp only [id] at h; rw [h]) calls

/-! ## the key as it was: `hash(tuple)` is the gap -/

/-- two contractions that differ only in the order of the output `(-1, -2)` / `(-2, -1)`:
    `inputs = ((-1, 0), (0, -2))`, sizes `{-1: 2, 0: 3, -2: 4}`, `optimize = 'auto'`, no kwargs -/
def tupleOf (out : List Int) : PyVal :=
  .tup [.tup [.tup [.int (-1), .int 0], .tup [.int 0, .int (-2)]],
        .tup (out.map PyVal.int),
        .tup [.tup [.int (-1), .int 2], .tup [.int 0, .int 3], .tup [.int (-2), .int 4]],
        .str "auto", .tup []]

/-- **hash_is_the_gap / hash_collision**: whatever the string hash and whatever function
    combines the element hashes of a tuple, the two key tuples collide, because
    `hash(-1) = hash(-2)` in CPython. -/
theorem hash_collision (hs : String → Int) (comb : List Int → Int) :
    pyHash hs comb (tupleOf [-1, -2]) = pyHash hs comb (tupleOf [-2, -1]) := by
  simp [tupleOf, pyHash, pyHashList]

theorem tuples_differ : tupleOf [-1, -2] ≠ tupleOf [-2, -1] := by
  intro h
  have := congrArg (fun v => match v with
    | .tup (_ :: .tup (.int i :: _) :: _) => i
    | _ => 0) h
  simp [tupleOf] at this

/-- **hash_collision_counterexample** (defect 7h): with the key `(hash(tuple), len(inputs))` the
    history "request with output (−1,−2), then the *different* request with output (−2,−1)"
    hands the first request's value (here: its axis order) to the second — for every string
    hash and every tuple-combining function.  The uncached code returns the right one. -/
theorem hash_collision_counterexample (hs : String → Int) (comb : List Int → Int) :
    let key : List Int → Int × Nat := fun out => hashedKey hs comb (tupleOf out) 2
    let build : List Int → List Int := fun out => out
    let calls : List (Call (List Int) (Int × Nat)) :=
      [⟨[-1, -2], true, fun _ => false⟩, ⟨[-2, -1], true, fun _ => false⟩]
    runCached key build [] calls = [[-1, -2], [-1, -2]] ∧
    calls.map (fun c => build c.q) = [[-1, -2], [-2, -1]] := by
  intro key build calls
  have hk : key [-2, -1] = key [-1, -2] := by
    simp only [key, hashedKey, hash_collision hs comb]
  refine ⟨?_, rfl⟩
  simp only [calls, runCached, cachedCall, lookup, List.filter, hk, if_true, Bool.not_false]
  rfl

/-! ## non-vacuity -/

/-- a three-call history with a hit, an uncached call and an eviction -/
example :
    let q (o : Nat) : Query Nat := fun f => if f = "output" then o else 7
    let B : List Nat → Nat := fun l => l.sum
    runCached (keyTuple exprKeySource) (fun r => B (keyTuple exprBuildArgs r)) []
        [⟨q 1, true, fun _ => false⟩, ⟨q 2, true, fun _ => false⟩, ⟨q 1, false, fun _ => false⟩,
         ⟨q 1, true, fun _ => true⟩] = [29, 30, 29, 29] := by
  decide

example : shareOK exprKeyFields (fun f => if f = "output" then 1 else 7)
    (fun f => if f = "output" then 2 else (7 : Nat)) = false := by decide

end Cotengra.C13
