import CotengraVerif.Lemmas.Front

/-!
# C12 — the einsum front end accepts what numpy.einsum accepts and means the same

Model (Model/EinsumFront.lean, transcribed from cotengra/utils.py:784-830, 1184-1207, 1405-1617 and
cotengra/interface.py:584-621, 1126-1137 at HEAD, with one `Cfg` flag per repaired defect).

What is proved here is about *parsing and relabelling* (and the single-operand fast paths): the
front end turns every call form into the contraction numpy documents.  That the multi-operand
contraction engine behind it then computes that contraction is property C01; the harness
compares the whole pipeline with `numpy.einsum` itself on every run.

Not modelled: `lru_cache`; shapes beyond their ranks (the size dictionary, where numpy's size-1
broadcasting is lost — a known finding); `constants`; `strip_exponent`; backends; `Ellipsis` inside
the interleaved theorem (the conversion of `Ellipsis` to `"..."` is modelled and tied, the theorem
`interleaved_eq` is stated for sublists without it).
-/
namespace Cotengra.C12
open Cotengra Cotengra.FA Cotengra.Bmm Cotengra.Front

/-! ## ellipsis expansion -/

theorem le_maxList {l : List Nat} {k : Nat} (h : k ∈ l) : k ≤ maxList l := by
  induction l with
  | nil => simp at h
  | cons a r ih =>
    simp only [maxList]
    rcases List.mem_cons.1 h with rfl | h
    · exact Nat.le_max_left _ _
    · exact Nat.le_trans (ih h) (Nat.le_max_right _ _)

/-- the symbols chosen for the ellipsis dimensions: as many as the largest ellipsis needs, pairwise
    distinct, none of them occurs in any input term, all of them proper einsum symbols -/
theorem ellSyms_spec (inputs : List (List Nat)) (ks : List (Option Nat)) :
    (ellSyms inputs ks).length = maxList (ks.filterMap id) ∧ (ellSyms inputs ks).Nodup ∧
    ∀ s ∈ ellSyms inputs ks, s ∉ inputs.flatten ∧ (∃ c, s = getSymbol c) ∧
      s ≠ cDot ∧ s ≠ cComma ∧ s ≠ cMinus ∧ s ≠ cGt := by
  unfold ellSyms
  refine ⟨?_, freshSyms_nodup _ _ _ _, ?_⟩
  · apply freshSyms_length
    have : pending inputs.flatten 0 ≤ inputs.flatten.length := by
      unfold pending; exact List.length_filter_le _ _
    omega
  · intro s hs
    obtain ⟨⟨c, _, rfl⟩, h2⟩ := freshSyms_mem _ _ _ _ _ hs
    have := getSymbol_not_sep c
    exact ⟨h2, ⟨c, rfl⟩, this.1, this.2.1, this.2.2.1, this.2.2.2.1⟩

/-- one term with an ellipsis: the `...` is replaced, in place, by the *last* `k` of the ellipsis
    symbols (right alignment), and the expanded term has exactly the operand's rank -/
theorem expandTerm_spec {E : List Nat} {req : Nat} (hE : E.length = req) {t : List Nat}
    (ht : checkEllipsis t = .ok true) {rk k : Nat} (hk : k = rk - (t.length - 3)) (hkr : k ≤ req) :
    ∃ pre post, t = pre ++ [cDot, cDot, cDot] ++ post ∧ cDot ∉ pre ∧ cDot ∉ post ∧
      expandTerm E req t (some k) = pre ++ E.drop (E.length - k) ++ post ∧
      (E.drop (E.length - k)).length = k ∧
      (t.length - 3 ≤ rk → (expandTerm E req t (some k)).length = rk) := by
  obtain ⟨pre, post, rfl, hp, hq⟩ := split_of_checkEllipsis ht
  refine ⟨pre, post, rfl, hp, hq, ?_, ?_, ?_⟩
  · simp only [expandTerm, hE]
    exact replaceEllipsis_split _ _ _ hp
  · simp only [List.length_drop]; omega
  · intro hle
    simp only [expandTerm]
    rw [replaceEllipsis_split _ _ _ hp]
    simp only [List.length_append, List.length_drop, List.length_cons, List.length_nil] at hk hle ⊢
    omega

theorem zip_map_zip {α β γ : Type} (h : α × β → γ) :
    ∀ (l : List α) (m : List β),
      l.zip ((l.zip m).map h) = (l.zip m).map fun p => (p.1, h p)
  | [], _ => rfl
  | _ :: _, [] => by simp
  | a :: l, b :: m => by simp [zip_map_zip h l m]

theorem mapM_checkEllipsis {inputs : List (List Nat)} {flags : List Bool}
    (h : inputs.mapM checkEllipsis = .ok flags) :
    flags.length = inputs.length ∧ ∀ p ∈ inputs.zip flags, checkEllipsis p.1 = .ok p.2 := by
  induction inputs generalizing flags with
  | nil =>
    simp only [List.mapM_nil, pure, Except.pure, Except.ok.injEq] at h
    subst h; simp
  | cons t r ih =>
    rw [List.mapM_cons] at h
    cases hc : checkEllipsis t with
    | error e => rw [hc] at h; cases h
    | ok f =>
      rw [hc] at h
      cases hr : r.mapM checkEllipsis with
      | error e => rw [hr] at h; cases h
      | ok fs =>
        rw [hr] at h
        simp only [bind, Except.bind, pure, Except.pure, Except.ok.injEq] at h
        subst h
        obtain ⟨h1, h2⟩ := ih hr
        refine ⟨by simp [h1], ?_⟩
        intro p hp
        simp only [List.zip_cons_cons, List.mem_cons] at hp
        rcases hp with rfl | hp
        · exact hc
        · exact h2 p hp

/-- **ellipsis_expansion_spec** — numpy's documented ellipsis semantics, for every equation whose
    left-hand side has an ellipsis (`inputs` = its terms, `flags` = which of them have one,
    `ranks` = the operands' ranks):

    * the expansion symbols `E` are pairwise distinct, occur in no input term, and there are
      `max_i k_i` of them, where `k_i = rank_i - (len(term_i) - 3)`;
    * a term without ellipsis is unchanged; a term with one is `pre ++ "..." ++ post` and becomes
      `pre ++ (last k_i symbols of E) ++ post`, whose length is the operand's rank;
    * an explicit output with `...` gets all of `E` in its place, one without is unchanged, and an
      implicit output is `E` followed by the sorted symbols that occur exactly once. -/
theorem ellipsis_expansion_spec (inputs : List (List Nat)) (ranks : List Nat) (flags : List Bool)
    (hflags : inputs.mapM checkEllipsis = .ok flags) (hlen : inputs.length = ranks.length)
    (lhs : List Nat) (rhs : List (List Nat)) :
    let ks := ellCounts inputs ranks flags
    let E := ellSyms inputs ks
    (E.length = maxList (ks.filterMap id) ∧ E.Nodup ∧ ∀ s ∈ E, s ∉ inputs.flatten) ∧
    (∀ ins out, expand inputs ks lhs rhs = .ok (ins, out) →
      ins = (inputs.zip (ranks.zip flags)).map (fun q =>
        expandTerm E E.length q.1 (if q.2.2 then some (q.2.1 - (q.1.length - 3)) else none)) ∧
      (∀ q ∈ inputs.zip (ranks.zip flags), q.2.2 = false →
        expandTerm E E.length q.1 none = q.1) ∧
      (∀ q ∈ inputs.zip (ranks.zip flags), q.2.2 = true →
        ∃ pre post, q.1 = pre ++ [cDot, cDot, cDot] ++ post ∧ cDot ∉ pre ∧ cDot ∉ post ∧
          expandTerm E E.length q.1 (some (q.2.1 - (q.1.length - 3)))
            = pre ++ E.drop (E.length - (q.2.1 - (q.1.length - 3))) ++ post ∧
          (E.drop (E.length - (q.2.1 - (q.1.length - 3)))).length = q.2.1 - (q.1.length - 3) ∧
          (q.1.length - 3 ≤ q.2.1 →
            (expandTerm E E.length q.1 (some (q.2.1 - (q.1.length - 3)))).length = q.2.1)) ∧
      (rhs = [] → out = E ++ findOutputStr lhs) ∧
      (∀ o rest, rhs = o :: rest → checkEllipsis o = .ok false → out = o) ∧
      (∀ o rest, rhs = o :: rest → checkEllipsis o = .ok true →
        ∃ pre post, o = pre ++ [cDot, cDot, cDot] ++ post ∧ out = pre ++ E ++ post)) := by
  intro ks E
  obtain ⟨hE1, hE2, hE3⟩ := ellSyms_spec inputs ks
  obtain ⟨hfl, hfc⟩ := mapM_checkEllipsis hflags
  refine ⟨⟨hE1, hE2, fun s hs => (hE3 s hs).1⟩, ?_⟩
  intro ins out hexp
  -- the new inputs, whatever the output branch
  have hins : ins = (inputs.zip ks).map fun p => expandTerm E (maxList (ks.filterMap id)) p.1 p.2 := by
    unfold expand at hexp
    simp only at hexp
    split at hexp
    · split at hexp
      · cases hexp
      · cases hexp; rfl
      · cases hexp; rfl
    · cases hexp; rfl
  have hzip : inputs.zip ks = (inputs.zip (ranks.zip flags)).map fun p =>
      (p.1, if p.2.2 then some (p.2.1 - (p.1.length - 3)) else none) := by
    show inputs.zip (ellCounts inputs ranks flags) = _
    unfold ellCounts
    rw [zip_map_zip]
  -- every `k` is at most the number of symbols
  have hkle : ∀ q ∈ inputs.zip (ranks.zip flags), q.2.2 = true →
      q.2.1 - (q.1.length - 3) ≤ E.length := by
    intro q hq hf
    rw [hE1]
    apply le_maxList
    rw [List.mem_filterMap]
    refine ⟨some (q.2.1 - (q.1.length - 3)), ?_, rfl⟩
    show _ ∈ ellCounts inputs ranks flags
    unfold ellCounts
    rw [List.mem_map]
    exact ⟨q, hq, by simp [hf]⟩
  refine ⟨?_, ?_, ?_, ?_, ?_, ?_⟩
  · rw [hins, hzip, List.map_map, hE1]
    rfl
  · intro q _ _; rfl
  · intro q hq hf
    have hqf : (q.1, q.2.2) ∈ inputs.zip flags := by
      obtain ⟨t, rk, f⟩ := q
      have h1 := List.of_mem_zip hq
      have : (t, rk, f) ∈ inputs.zip (ranks.zip flags) := hq
      -- project the middle component away
      have hz : ∀ (l : List (List Nat)) (m : List Nat) (n : List Bool),
          (t, rk, f) ∈ l.zip (m.zip n) → (t, f) ∈ l.zip n := by
        intro l
        induction l with
        | nil => intro m n h; simp at h
        | cons a l ih =>
          intro m n h
          cases m with
          | nil => simp at h
          | cons b m =>
            cases n with
            | nil => simp at h
            | cons c n =>
              simp only [List.zip_cons_cons, List.mem_cons, Prod.mk.injEq] at h ⊢
              rcases h with ⟨rfl, _, rfl⟩ | h
              · exact Or.inl ⟨rfl, rfl⟩
              · exact Or.inr (ih m n h)
      exact hz _ _ _ this
    have hce := hfc _ hqf
    simp only [hf] at hce
    exact expandTerm_spec rfl hce rfl (hkle q hq hf)
  · intro hr
    subst hr
    unfold expand at hexp
    cases hexp; rfl
  · intro o rest hr hco
    subst hr
    unfold expand at hexp
    simp only [hco] at hexp
    cases hexp; rfl
  · intro o rest hr hco
    subst hr
    unfold expand at hexp
    simp only [hco] at hexp
    obtain ⟨pre, post, rfl, hp, _⟩ := split_of_checkEllipsis hco
    refine ⟨pre, post, rfl, ?_⟩
    cases hexp
    exact replaceEllipsis_split _ _ _ hp

/-- non-vacuity: `'a...b,...b,c...->...ca'` with ranks 4, 2, 1 under HEAD and the repaired parser:
    two fresh symbols (`d`, `e`: `a`, `b`, `c` are in use), right-aligned per operand -/
example : parseEllipses Cfg.head
    [97, 46, 46, 46, 98, 44, 46, 46, 46, 98, 44, 99, 46, 46, 46, 45, 62, 46, 46, 46, 99, 97]
    [4, 2, 1] = .ok ([[97, 100, 101, 98], [101, 98], [99]], [100, 101, 99, 97]) := by decide

/-! ## implicit outputs -/

/-- **implicit_output_documented** (array_contract form) — `find_output_from_inputs` returns
    exactly the labels that occur once over all inputs, in the order of their first appearance
    (a sub-sequence of the first-appearance order), without repetition -/
theorem implicit_output_documented (inputs : List (List Nat)) :
    findOutputFromInputs inputs
        = (uniq inputs.flatten).filter (fun x => inputs.flatten.count x == 1) ∧
    (findOutputFromInputs inputs).Nodup ∧
    (findOutputFromInputs inputs).Sublist (uniq inputs.flatten) ∧
    ∀ x, x ∈ findOutputFromInputs inputs ↔ inputs.flatten.count x = 1 := by
  rw [findOutputFromInputs_eq]
  refine ⟨rfl, (nodup_uniq _).filter _, List.filter_sublist, ?_⟩
  intro x
  simp only [List.mem_filter, mem_uniq, beq_iff_eq]
  constructor
  · exact fun h => h.2
  · intro h
    exact ⟨List.count_pos_iff.1 (by omega), h⟩

/-- **find_output_str_sorted** (string form) — `find_output_str` returns the symbols (commas
    aside) that occur exactly once, strictly increasing -/
theorem find_output_str_sorted (lhs : List Nat) :
    (findOutputStr lhs).Pairwise (· < ·) ∧
    ∀ s, s ∈ findOutputStr lhs ↔ (s ≠ cComma ∧ lhs.count s = 1) := by
  unfold findOutputStr
  simp only
  constructor
  · have hs := (sorted_sortIx (uniq (lhs.filter (· != cComma)))).filter
      (fun s => (lhs.filter (· != cComma)).count s == 1)
    have hn := (nodup_sortIx (nodup_uniq (lhs.filter (· != cComma)))).filter
      (fun s => (lhs.filter (· != cComma)).count s == 1)
    have hne := List.nodup_iff_pairwise_ne.1 hn
    exact (hs.and hne).imp fun h => Nat.lt_of_le_of_ne h.1 h.2
  · intro s
    simp only [List.mem_filter, mem_sortIx, mem_uniq, bne_iff_ne, ne_eq, beq_iff_eq]
    constructor
    · rintro ⟨⟨_, h2⟩, h3⟩
      rw [List.count_filter (by simpa using h2)] at h3
      exact ⟨h2, h3⟩
    · rintro ⟨h1, h2⟩
      refine ⟨⟨List.count_pos_iff.1 (by omega), h1⟩, ?_⟩
      rw [List.count_filter (by simpa using h1)]
      exact h2

example : findOutputFromInputs [[5, 3], [3, 9], [7, 5, 2]] = [9, 7, 2] := by decide
example : findOutputStr [99, 98, 44, 98, 97] = [97, 99] := by decide

/-! ## canonicalisation -/

theorem rankOf_injOn (seq : List Nat) : InjOn (fun l => getSymbol (rankOf seq l)) seq := by
  intro a ha b hb h
  have h1 := getSymbol_injective h
  simp only [rankOf] at h1
  have hau : a ∈ uniq seq := mem_uniq.2 ha
  have hbu : b ∈ uniq seq := mem_uniq.2 hb
  have e1 := List.getElem_idxOf (List.idxOf_lt_length_of_mem hau)
  have e2 := List.getElem_idxOf (List.idxOf_lt_length_of_mem hbu)
  rw [← e1, ← e2]
  simp [h1]

theorem findOutput_map_injOn {ρ : Nat → Nat} {inputs : List (List Nat)}
    (h : InjOn ρ inputs.flatten) :
    findOutputFromInputs (inputs.map (·.map ρ)) = (findOutputFromInputs inputs).map ρ := by
  rw [findOutputFromInputs_eq, findOutputFromInputs_eq]
  have hfl : (inputs.map (·.map ρ)).flatten = inputs.flatten.map ρ := by
    induction inputs with
    | nil => rfl
    | cons t r ih =>
      simp only [List.map_cons, List.flatten_cons, List.map_append]
      rw [ih (h.mono fun a ha => by simp [ha])]
  rw [hfl, uniq_map_injOn h (fun a ha => ha), List.filter_map]
  congr 1
  apply List.filter_congr
  intro x hx
  simp only [Function.comp]
  rw [count_map_injOn h (fun a ha => ha) (mem_uniq.1 hx)]

/-- **canonicalize_is_renaming** — `canonicalize_inputs` applies one relabelling `ρ` to every
    input term and to the output; `ρ` is injective on the labels in use; and when no output is
    given, the computed output is the renaming of the documented implicit output of the original
    labels (first-appearance order of the once-only labels). -/
theorem canonicalize_is_renaming (inputs : List (List Nat)) (output : Option (List Nat)) :
    ∃ ρ : Nat → Nat,
      InjOn ρ (inputs.flatten ++ output.getD []) ∧
      (canonicalize inputs output).1 = inputs.map (·.map ρ) ∧
      (canonicalize inputs output).2 = ((output.getD (findOutputFromInputs inputs)).map ρ) := by
  cases output with
  | some out =>
    refine ⟨fun l => getSymbol (rankOf (inputs.flatten ++ out) l), ?_, rfl, rfl⟩
    exact rankOf_injOn _
  | none =>
    refine ⟨fun l => getSymbol (rankOf inputs.flatten l), ?_, rfl, ?_⟩
    · simpa using rankOf_injOn inputs.flatten
    · simp only [canonicalize, Option.getD_none]
      exact findOutput_map_injOn (rankOf_injOn inputs.flatten)

example : canonicalize [[7, 3], [3, 12]] none = ([[97, 98], [98, 99]], [97, 99]) := by decide

/-! ### an injective renaming does not change the value of an einsum -/

/-- product of the operands' entries selected by a label assignment -/
def termProd : List (List Nat) → List FArr → (Nat → Nat) → Int
  | t :: ts, x :: xs, env => x.get (t.map env) * termProd ts xs env
  | _, _, _ => 1

/-- the reference meaning of an `n`-operand einsum with sizes `sz` -/
def einsumN (inputs : List (List Nat)) (out : List Nat) (sz : Nat → Nat) (xs : List FArr)
    (idx : List Nat) : Int :=
  sumEnv sz (uniq (inputs.flatten.filter fun i => !out.contains i)) (bindOut out idx)
    (termProd inputs xs)

theorem termProd_rename (ρ : Nat → Nat) (inputs : List (List Nat)) (xs : List FArr)
    (e' : Nat → Nat) :
    termProd (inputs.map (·.map ρ)) xs e' = termProd inputs xs (fun l => e' (ρ l)) := by
  induction inputs generalizing xs with
  | nil => rfl
  | cons t r ih =>
    cases xs with
    | nil => rfl
    | cons x xs =>
      simp only [List.map_cons, termProd, List.map_map, ih]
      rfl

theorem termProd_depOn (inputs : List (List Nat)) (xs : List FArr) :
    DepOn (termProd inputs xs) inputs.flatten := by
  intro e1 e2 h
  induction inputs generalizing xs with
  | nil => rfl
  | cons t r ih =>
    cases xs with
    | nil => rfl
    | cons x xs =>
      simp only [termProd]
      have h1 : t.map e1 = t.map e2 := List.map_congr_left fun i hi => h i (by simp [hi])
      rw [h1, ih xs fun i hi => h i (by simp [hi])]

theorem sumEnv_rename {ρ : Nat → Nat} {S : List Nat} (hρ : InjOn ρ S) {sz sz' : Nat → Nat}
    (hsz : ∀ i ∈ S, sz' (ρ i) = sz i) {f : (Nat → Nat) → Int} (hf : DepOn f S) (L : List Nat)
    (hL : ∀ i ∈ L, i ∈ S) :
    ∀ (env env' : Nat → Nat), (∀ i ∈ S, env' (ρ i) = env i) →
      sumEnv sz' (L.map ρ) env' (fun e' => f fun l => e' (ρ l)) = sumEnv sz L env f := by
  induction L with
  | nil =>
    intro env env' h
    simp only [List.map_nil, sumEnv_nil]
    exact hf _ _ h
  | cons i r ih =>
    intro env env' h
    have hi : i ∈ S := hL i (by simp)
    simp only [List.map_cons, sumEnv_cons, hsz i hi]
    apply sumTo_congr
    intro v _
    apply ih (fun j hj => hL j (by simp [hj]))
    intro j hj
    by_cases hji : j = i
    · subst hji; simp
    · rw [upd_other _ _ hji, upd_other _ _ (fun he => hji (hρ j hj i hi he))]
      exact h j hj

theorem bindOut_rename {ρ : Nat → Nat} {S : List Nat} (hρ : InjOn ρ S) (out : List Nat)
    (ho : ∀ o ∈ out, o ∈ S) (idx : List Nat) :
    ∀ i ∈ S, bindOut (out.map ρ) idx (ρ i) = bindOut out idx i := by
  induction out generalizing idx with
  | nil => intro i _; rfl
  | cons o r ih =>
    intro i hi
    cases idx with
    | nil => rfl
    | cons v vs =>
      simp only [List.map_cons, bindOut]
      have hoS : o ∈ S := ho o (by simp)
      by_cases hio : i = o
      · subst hio; simp
      · rw [upd_other _ _ hio, upd_other _ _ (fun he => hio (hρ i hi o hoS he))]
        exact ih (fun o' ho' => ho o' (by simp [ho'])) vs i hi

/-- **rename_preserves_einsum** — relabelling all inputs and the output by a map that is injective
    on the labels in use (and carrying the sizes along) leaves every entry of the einsum unchanged;
    this is what makes `canonicalize_inputs` (and the symbol maps of the interleaved form)
    semantically invisible. -/
theorem rename_preserves_einsum {ρ : Nat → Nat} (inputs : List (List Nat)) (out : List Nat)
    (hρ : InjOn ρ (inputs.flatten ++ out)) (sz sz' : Nat → Nat)
    (hsz : ∀ i ∈ inputs.flatten ++ out, sz' (ρ i) = sz i) (xs : List FArr) (idx : List Nat) :
    einsumN (inputs.map (·.map ρ)) (out.map ρ) sz' xs idx = einsumN inputs out sz xs idx := by
  unfold einsumN
  have hfl : (inputs.map (·.map ρ)).flatten = inputs.flatten.map ρ := by
    clear hρ hsz
    induction inputs with
    | nil => rfl
    | cons t r ih => simp only [List.map_cons, List.flatten_cons, List.map_append, ih]
  have hin : ∀ a ∈ inputs.flatten, a ∈ inputs.flatten ++ out := fun a ha => by simp [ha]
  have hout : ∀ a ∈ out, a ∈ inputs.flatten ++ out := fun a ha => by simp [ha]
  -- the summed labels are the renamed summed labels
  have hsum : uniq ((inputs.flatten.map ρ).filter fun i => !(out.map ρ).contains i)
      = (uniq (inputs.flatten.filter fun i => !out.contains i)).map ρ := by
    rw [List.filter_map, uniq_map_injOn hρ (fun a ha => hin a (List.mem_filter.1 ha).1)]
    congr 2
    apply List.filter_congr
    intro x hx
    simp only [Function.comp, Bool.not_eq_eq_eq_not, Bool.not_not, List.contains_eq_mem,
      decide_eq_decide]
    exact mem_map_injOn hρ hout (hin x hx)
  rw [hfl, hsum]
  have hfun : termProd (inputs.map (·.map ρ)) xs
      = fun e' => termProd inputs xs fun l => e' (ρ l) := by
    funext e'; exact termProd_rename ρ inputs xs e'
  rw [hfun]
  apply sumEnv_rename hρ hsz ((termProd_depOn inputs xs).mono hin) _
    (fun i hi => hin i (List.mem_filter.1 (mem_uniq.1 hi)).1)
  exact bindOut_rename hρ out hout idx

/-! ## interleaved form -/

theorem splitComma_join {ts : List (List Nat)} (hne : ts ≠ []) (hc : ∀ t ∈ ts, cComma ∉ t) :
    splitComma (joinComma ts) = ts := by
  have hnc : ∀ t : List Nat, cComma ∉ t → ∀ r, splitComma (t ++ cComma :: r) = t :: splitComma r := by
    intro t ht r
    induction t with
    | nil => simp [splitComma]
    | cons a t iht =>
      simp only [List.mem_cons, not_or] at ht
      have ha : a ≠ cComma := fun h => ht.1 h.symm
      simp only [List.cons_append, splitComma, ha, ↓reduceIte, iht ht.2]
  have hone : ∀ t : List Nat, cComma ∉ t → splitComma t = [t] := by
    intro t ht
    induction t with
    | nil => rfl
    | cons a t iht =>
      simp only [List.mem_cons, not_or] at ht
      have ha : a ≠ cComma := fun h => ht.1 h.symm
      simp only [splitComma, ha, ↓reduceIte, iht ht.2]
  induction ts with
  | nil => exact absurd rfl hne
  | cons t r ih =>
    cases r with
    | nil => exact hone t (hc t (by simp))
    | cons t2 r2 =>
      simp only [joinComma]
      rw [hnc t (hc t (by simp))]
      congr 1
      exact ih (by simp) fun t' ht' => hc t' (by simp [ht'])

theorem splitArrow_none {l : List Nat} (h : cMinus ∉ l) : splitArrow l = [l] := by
  induction l with
  | nil => rfl
  | cons a r ih =>
    simp only [List.mem_cons, not_or] at h
    have ha : a ≠ cMinus := fun e => h.1 e.symm
    cases r with
    | nil => rfl
    | cons b r' =>
      simp only [splitArrow, ha, false_and, ↓reduceIte, ih h.2]

theorem splitArrow_one {l r : List Nat} (h : cMinus ∉ l) :
    splitArrow (l ++ cMinus :: cGt :: r) = l :: splitArrow r := by
  induction l with
  | nil => simp [splitArrow]
  | cons a t ih =>
    simp only [List.mem_cons, not_or] at h
    have ha : a ≠ cMinus := fun e => h.1 e.symm
    cases t with
    | nil =>
      simp only [List.cons_append, List.nil_append, splitArrow, ha, false_and, ↓reduceIte, and_self]
    | cons b t' =>
      have := ih h.2
      simp only [List.cons_append] at this ⊢
      simp only [splitArrow, ha, false_and, ↓reduceIte, this]

theorem flatten_filterMap_some (inputs : List (List Nat)) :
    (inputs.map (·.map some)).flatten.filterMap id = inputs.flatten := by
  induction inputs with
  | nil => rfl
  | cons t r ih =>
    simp only [List.map_cons, List.flatten_cons, List.filterMap_append, ih, List.filterMap_map]
    simp

/-- **interleaved_eq** — for sublists of integer labels (no `Ellipsis`) and an explicit output
    sublist whose labels all occur in the inputs: `convert_from_interleaved` succeeds, and the
    string it builds splits back (at `->` and `,`) into exactly the relabelled sublists, under one
    relabelling `σ` that is injective on the labels in use. -/
theorem interleaved_eq (sorted : Bool) (inputs : List (List Nat)) (out : List Nat)
    (hne : inputs ≠ []) (hout : ∀ o ∈ out, o ∈ inputs.flatten) :
    ∃ σ : Nat → Nat, InjOn σ inputs.flatten ∧
      ∃ eq, convertInterleaved sorted (inputs.map (·.map some)) (some (out.map some)) = .ok eq ∧
        splitArrow eq = [joinComma (inputs.map (·.map σ)), out.map σ] ∧
        splitComma (joinComma (inputs.map (·.map σ))) = inputs.map (·.map σ) := by
  have hflat : (inputs.map (·.map some)).flatten.filterMap id = inputs.flatten :=
    flatten_filterMap_some inputs
  have hlab : realLabels (inputs.map (·.map some)) = uniq inputs.flatten := by
    unfold realLabels; rw [hflat]
  refine ⟨fun l => getSymbol ((uniq inputs.flatten).idxOf l), ?_, ?_⟩
  · have := rankOf_injOn inputs.flatten
    exact this
  · -- every label of a term that lies inside `inputs.flatten` is mapped to one symbol
    have hterm : ∀ t : List Nat, (∀ l ∈ t, l ∈ inputs.flatten) →
        ((t.map some).mapM (symOf (uniq inputs.flatten))).map List.flatten
          = some (t.map fun l => getSymbol ((uniq inputs.flatten).idxOf l)) := by
      intro t ht
      induction t with
      | nil => rfl
      | cons a r ih =>
        have ha : (uniq inputs.flatten).contains a = true := by
          simpa using mem_uniq.2 (ht a (by simp))
        have ihr := ih fun l hl => ht l (by simp [hl])
        simp only [List.map_cons, List.mapM_cons, symOf, ha, ↓reduceIte]
        cases hm : (r.map some).mapM (symOf (uniq inputs.flatten)) with
        | none => rw [hm] at ihr; simp at ihr
        | some v =>
          rw [hm] at ihr
          simp only [Option.map_some, Option.some.injEq] at ihr
          simp [ihr]
    have hts : (inputs.map (·.map some)).mapM
        (fun t => ((t.mapM (symOf (uniq inputs.flatten))).map List.flatten))
        = some (inputs.map (·.map fun l => getSymbol ((uniq inputs.flatten).idxOf l))) := by
      have : ∀ (ins : List (List Nat)), (∀ t ∈ ins, ∀ l ∈ t, l ∈ inputs.flatten) →
          (ins.map (·.map some)).mapM
            (fun t => ((t.mapM (symOf (uniq inputs.flatten))).map List.flatten))
          = some (ins.map (·.map fun l => getSymbol ((uniq inputs.flatten).idxOf l))) := by
        intro ins
        induction ins with
        | nil => intro _; rfl
        | cons t r ih =>
          intro h
          simp only [List.map_cons, List.mapM_cons, hterm t (h t (by simp)),
            ih fun t' ht' => h t' (by simp [ht'])]
          rfl
      exact this inputs fun t ht l hl => List.mem_flatten.2 ⟨t, ht, hl⟩
    have hnoell : ((out.map some).contains none) = false := by
      simp
    refine ⟨joinComma (inputs.map (·.map fun l => getSymbol ((uniq inputs.flatten).idxOf l)))
      ++ [cMinus, cGt] ++ out.map fun l => getSymbol ((uniq inputs.flatten).idxOf l), ?_, ?_, ?_⟩
    · simp only [convertInterleaved, hlab, hts, hnoell, Bool.false_and, Bool.false_eq_true,
        ↓reduceIte, hterm out hout]
    · -- no `-` among the symbols or commas
      have hsym : ∀ t : List Nat, cMinus ∉ t.map fun l => getSymbol ((uniq inputs.flatten).idxOf l) := by
        intro t hm
        obtain ⟨l, _, hl⟩ := List.mem_map.1 hm
        exact (getSymbol_not_sep _).2.2.1 hl
      have hjoin : ∀ ts : List (List Nat), (∀ t ∈ ts, cMinus ∉ t) → cMinus ∉ joinComma ts := by
        intro ts
        induction ts with
        | nil => intro _; simp [joinComma]
        | cons t r ih =>
          intro h
          cases r with
          | nil => simpa [joinComma] using h t (by simp)
          | cons t2 r2 =>
            simp only [joinComma, List.mem_append, List.mem_cons, not_or]
            refine ⟨h t (by simp), by decide, ?_⟩
            exact ih fun t' ht' => h t' (by simp [ht'])
      rw [List.append_assoc, List.cons_append, List.cons_append, List.nil_append,
        splitArrow_one (hjoin _ (by
          intro t ht
          obtain ⟨t0, _, rfl⟩ := List.mem_map.1 ht
          exact hsym t0)),
        splitArrow_none (hsym out)]
    · apply splitComma_join (by simpa using hne)
      intro t ht hm
      obtain ⟨t0, _, rfl⟩ := List.mem_map.1 ht
      obtain ⟨l, _, hl⟩ := List.mem_map.1 hm
      exact (getSymbol_not_sep _).2.1 hl

example : convertInterleaved false [[some 5, some 2], [some 2, some 9]] (some [some 9, some 5])
    = .ok [97, 98, 44, 98, 99, 45, 62, 99, 97] := by decide

/-- **interleaved_implicit_counterexample** (new finding) — at HEAD the interleaved call
    `einsum(x, [1, 0])` becomes the equation `ab` whose implicit output is `ab`, i.e. the labels
    `(1, 0)`: the identity, where numpy (labels sorted: `(0, 1)`) transposes.  The repaired
    conversion writes the output `ba` = labels `(0, 1)` explicitly. -/
theorem interleaved_implicit_counterexample :
    convertInterleaved false [[some 1, some 0]] none = .ok [97, 98] ∧
    findOutputStr [97, 98] = [97, 98] ∧
    convertInterleaved true [[some 1, some 0]] none = .ok [97, 98, 45, 62, 98, 97] := by decide

/-! ## single-operand fast paths -/

/-- **single_operand_paths_sound** — for a single operand with a duplicate-free output drawn from
    its labels, every *admissible* path (`pathOK`: return the array only when `term = output`;
    transpose only with equally many labels and by `tuple(map(term.index, output))`; or call
    einsum) yields the single-operand einsum.  The harness runs `pathOK` on the path the real
    `_build_expression` took. -/
theorem single_operand_paths_sound (sz : Nat → Nat) (hpos : ∀ i, 0 < sz i) (term out : List Nat)
    (hout : out.Nodup) (hsub : ∀ o ∈ out, o ∈ term) (x : FArr) (hsh : x.shape = term.map sz)
    (p : SinglePath) (hp : pathOK term out p = true) :
    ∃ y, evalPath term out p x = some y ∧ y.shape = (einsum1 term out x).shape ∧
      ∀ idx, inRange idx y.shape = true → y.get idx = (einsum1 term out x).get idx := by
  have hx : Lab sz term x (fun e => x.get (term.map e)) := lab_iff.2 ⟨hsh, fun _ _ => rfl⟩
  have he := lab_einsum1 (sz := sz) (d := out) hsh hsub
  cases p with
  | identity =>
    have h1 : term = out := by simpa [pathOK] using hp
    subst h1
    refine ⟨x, rfl, ?_, ?_⟩
    · rw [rep_shape_single hx, rep_shape_single he]
    · intro idx hidx
      rw [rep_shape_single hx] at hidx
      rw [rep_read hx hpos hout hidx, rep_read he hpos hout hidx]
      have : uniq (term.filter fun i => !term.contains i) = [] := by
        have : (term.filter fun i => !term.contains i) = [] := by
          apply List.filter_eq_nil_iff.2
          intro a ha
          simp [ha]
        rw [this]; rfl
      rw [this, sumEnv_nil]
  | transpose q =>
    simp only [pathOK, Bool.and_eq_true, beq_iff_eq] at hp
    obtain ⟨h2, rfl⟩ := hp
    have hperm : out.Perm term := (hout.subperm hsub).perm_of_length_le (by omega)
    have htn : term.Nodup := hperm.nodup_iff.1 hout
    have hto : ∀ i ∈ term, i ∈ out := fun i hi => hperm.mem_iff.2 hi
    obtain ⟨y, hy1, hy2⟩ := lab_transpose hx htn hout hsub hto
    refine ⟨y, hy1, ?_, ?_⟩
    · rw [rep_shape_single hy2, rep_shape_single he]
    · intro idx hidx
      rw [rep_shape_single hy2] at hidx
      rw [rep_read hy2 hpos hout hidx, rep_read he hpos hout hidx]
      have : uniq (term.filter fun i => !out.contains i) = [] := by
        have : (term.filter fun i => !out.contains i) = [] := by
          apply List.filter_eq_nil_iff.2
          intro a ha
          simp [hto a ha]
        rw [this]; rfl
      rw [this, sumEnv_nil]
  | einsum => exact ⟨_, rfl, rfl, fun _ _ => rfl⟩

/-- the path the model of `_build_expression` takes is admissible -/
theorem singlePath_ok (term out : List Nat) : pathOK term out (singlePath term out) = true := by
  unfold singlePath
  by_cases h1 : term = out
  · simp [h1, pathOK]
  · by_cases h2 : term.length = out.length
    · simp [h1, h2, pathOK]
    · simp [h1, h2, pathOK]

example : singlePath [0, 1, 2] [2, 0, 1] = .transpose [2, 0, 1] := by decide
example : singlePath [0, 0, 1] [1, 0] = .einsum := by decide

/-! ## ncon -/

theorem mem_insertDesc {x y : Int} {l : List Int} : y ∈ insertDesc x l ↔ y = x ∨ y ∈ l := by
  induction l with
  | nil => simp [insertDesc]
  | cons a r ih =>
    unfold insertDesc
    split
    · simp
    · simp only [List.mem_cons, ih]; tauto

theorem sorted_insertDesc {x : Int} {l : List Int} (h : l.Pairwise (· ≥ ·)) :
    (insertDesc x l).Pairwise (· ≥ ·) := by
  induction l with
  | nil => simp [insertDesc]
  | cons a r ih =>
    unfold insertDesc
    have ha := List.pairwise_cons.1 h
    split
    · rename_i hax
      refine List.pairwise_cons.2 ⟨?_, h⟩
      intro b hb
      rcases List.mem_cons.1 hb with rfl | hb
      · exact hax
      · exact Int.le_trans (ha.1 b hb) hax
    · rename_i hax
      refine List.pairwise_cons.2 ⟨?_, ih ha.2⟩
      intro b hb
      rcases mem_insertDesc.1 hb with rfl | hb
      · omega
      · exact ha.1 b hb

theorem nodup_insertDesc {x : Int} {l : List Int} (h : l.Nodup) (hx : x ∉ l) :
    (insertDesc x l).Nodup := by
  induction l with
  | nil => simp [insertDesc]
  | cons a r ih =>
    unfold insertDesc
    have ha := List.nodup_cons.1 h
    simp only [List.mem_cons, not_or] at hx
    split
    · exact List.nodup_cons.2 ⟨by simp [hx.1, hx.2], h⟩
    · refine List.nodup_cons.2 ⟨?_, ih ha.2 hx.2⟩
      intro hm
      rcases mem_insertDesc.1 hm with rfl | hm
      · exact hx.1 rfl
      · exact ha.1 hm

theorem mem_dedupInt {l : List Int} {x : Int} : x ∈ dedupInt l ↔ x ∈ l := by
  induction l with
  | nil => simp [dedupInt]
  | cons a r ih =>
    simp only [dedupInt, List.mem_cons, List.mem_filter, bne_iff_ne, ne_eq, ih]
    constructor
    · rintro (h | h)
      · exact Or.inl h
      · exact Or.inr h.1
    · rintro (h | h)
      · exact Or.inl h
      · by_cases hxa : x = a
        · exact Or.inl hxa
        · exact Or.inr ⟨h, hxa⟩

theorem nodup_dedupInt (l : List Int) : (dedupInt l).Nodup := by
  induction l with
  | nil => simp [dedupInt]
  | cons a r ih =>
    simp only [dedupInt, List.nodup_cons, List.mem_filter, bne_self_eq_false, Bool.false_eq_true,
      and_false, not_false_eq_true, true_and]
    exact ih.filter _

/-- **ncon_output_order** — the output of `ncon` consists of exactly the negative labels, each
    once, in strictly decreasing order: `-1, -2, -3, …` -/
theorem ncon_output_order (indices : List (List Int)) :
    (nconOutput indices).Pairwise (· > ·) ∧
    ∀ x, x ∈ nconOutput indices ↔ (x < 0 ∧ x ∈ indices.flatten) := by
  unfold nconOutput
  have hmem : ∀ (l : List Int) x, x ∈ l.foldr insertDesc [] ↔ x ∈ l := by
    intro l
    induction l with
    | nil => simp
    | cons a r ih => intro x; simp only [List.foldr_cons, mem_insertDesc, ih, List.mem_cons]
  have hsorted : ∀ l : List Int, (l.foldr insertDesc []).Pairwise (· ≥ ·) := by
    intro l
    induction l with
    | nil => simp
    | cons a r ih => exact sorted_insertDesc ih
  have hnodup : ∀ l : List Int, l.Nodup → (l.foldr insertDesc []).Nodup := by
    intro l
    induction l with
    | nil => simp
    | cons a r ih =>
      intro h
      have ha := List.nodup_cons.1 h
      simp only [List.foldr_cons]
      exact nodup_insertDesc (ih ha.2) (fun hm => ha.1 ((hmem r a).1 hm))
  constructor
  · have h1 := hsorted (dedupInt (indices.flatten.filter (· < 0)))
    have h2 := List.nodup_iff_pairwise_ne.1 (hnodup _ (nodup_dedupInt (indices.flatten.filter (· < 0))))
    exact (h1.and h2).imp fun h => by omega
  · intro x
    rw [hmem, mem_dedupInt, List.mem_filter]
    simp only [decide_eq_true_eq]
    tauto

example : nconOutput [[-2, 1], [1, -1, -3]] = [-1, -2, -3] := by decide

end Cotengra.C12
