import CotengraVerif.Model.Reuse
import CotengraVerif.Lemmas.HyperLemmas
import CotengraVerif.Props.C08

/-!
# C16 — one optimizer object can serve many contractions, in sequence or across threads

Modelled (Model/Reuse.lean): `ReusableOptimizer.search / _maybe_run_optimizer / _run_optimizer /
hash_query / last_opt` (cotengra/reusable.py:141-143, 166-178, 231-289) and
`AutoOptimizer.search / _get_optimizer_hyper_threadsafe` with and without caching
(cotengra/presets.py:41-123), as a small-step semantics: one step of a thread = its code up to and
including its next access to shared state; a schedule is an arbitrary list of thread ids; threads
are a total function, so their number is unbounded.  The sub-optimizer is the `HyperOptimizer`
state of Model/Hyper.lean (`best` persists between searches on the same object).

The theorems quantify over: every schedule, every assignment of query queues to threads, every
behaviour of the trial functions (scores, failures, completion order), every hash function
(collisions included), all `overwrite` modes, `cache_only`.

Not modelled: pre-emption *inside* a single dict operation (GIL atomicity assumed), the on-disk
part of `DiskDict`, thread idents other than as opaque naturals (a re-used ident is the same `t`
asking further queries), that `_reconstruct_tree` succeeds (C14).
-/
namespace Cotengra.C16
open Cotengra Cotengra.Hyper Cotengra.Reuse

/-! ## the sub-optimizer: a fresh `HyperOptimizer` searched on `q` only ever holds a tree of `q` -/

/-- every tree the optimizer state can return is a tree of contraction `n` -/
def TreeOf (n : Nat) (st : HState) : Prop := ∀ m, st.tree = some m → m = n

theorem treeOf_init (n : Nat) : TreeOf n HState.init := by
  intro m h; simp [HState.tree, HState.init] at h

theorem treeOf_complete {n : Nat} {st : HState} (h : TreeOf n st) (s : Setting) (t : Trial)
    (ht : ∀ m, t.tree = some m → m = n) : TreeOf n (complete st s t) := by
  intro m hm
  have hb := complete_best st s t
  by_cases hlt : slt t.score st.curBest = true
  · rw [if_pos hlt] at hb
    simp only [HState.tree, hb] at hm
    exact ht m hm
  · rw [if_neg hlt] at hb
    apply h m
    simp only [HState.tree, hb] at hm ⊢
    exact hm

theorem treeOf_runLog_stamp (q : Query) (log : Log) {st : HState} (h : TreeOf q.net st) :
    TreeOf q.net (runLog st (stamp q log)) := by
  induction log generalizing st with
  | nil => exact h
  | cons e l ih =>
    simp only [stamp, List.map_cons, runLog, List.foldl_cons]
    apply ih
    apply treeOf_complete h
    intro m hm
    cases ht : e.2.tree with
    | none => simp [ht] at hm
    | some x => simp [ht] at hm; exact hm.symm

/-! ## the invariant -/

/-- the cases in which the code guarantees isolation: everything except the non-caching
    AutoOptimizer that re-uses its per-thread `HyperOptimizer` (the code as found, DESIGN 7k) -/
def Good (cfg : Cfg) : Prop := cfg.mode = .autoPlain → cfg.freshPlain = true

/-- what thread `t` can rely on at its program point; `r` is the Reusable object it talks to -/
def PcInv (t : Nat) (r : RState) : PC → Prop
  | .ran q _ opt => TreeOf q.net opt
  | .stored q _ _ => ∃ opt, r.subopts t = some opt ∧ TreeOf q.net opt
  | .compare q _ _ => ∃ opt, r.subopts t = some opt ∧ TreeOf q.net opt
  | .have q true _ => ∃ opt, r.subopts t = some opt ∧ TreeOf q.net opt
  | _ => True

/-- every tree returned so far belongs to the query it was returned for -/
def ResultsOk (th : Thread) : Prop := ∀ q n, (q, some n) ∈ th.results → n = q.net

structure LocalInv (t : Nat) (th : Thread) (r : RState) : Prop where
  results : ResultsOk th
  pc : PcInv t r th.pc

/-- the invariant: `_suboptimizers[t]` of the object thread `t` talks to holds, whenever `t` is
    between "stored" and "tree fetched", an optimizer whose tree is a tree of `t`'s current query;
    and all answers given so far are right -/
def Inv (cfg : Cfg) (s : Sys) : Prop := ∀ t, LocalInv t (s.threads t) (s.objs (cfg.objOf t))

theorem inv_start (cfg : Cfg) (queues : Nat → List Query) : Inv cfg (Sys.start queues) := by
  intro t
  exact ⟨by intro q n h; simp [Sys.start] at h, by simp [Sys.start, PcInv]⟩

@[simp] theorem updFn_same {α : Type} (f : Nat → α) (k : Nat) (v : α) : updFn f k v k = v := by
  simp [updFn]
theorem updFn_other {α : Type} (f : Nat → α) (k i : Nat) (v : α) (h : i ≠ k) :
    updFn f k v i = f i := by simp [updFn, h]

theorem resultsOk_finish {th : Thread} (h : ResultsOk th) (q : Query) (res : Option Nat)
    (hr : ∀ n, res = some n → n = q.net) : ResultsOk (th.finish q res) := by
  intro q' n hm
  simp only [Thread.finish, List.mem_append, List.mem_singleton, Prod.mk.injEq] at hm
  rcases hm with hm | ⟨rfl, rfl⟩
  · exact h q' n hm
  · exact hr n rfl

theorem resultsOk_congr {th th' : Thread} (h : ResultsOk th) (he : th'.results = th.results) :
    ResultsOk th' := by
  intro q n hm; rw [he] at hm; exact h q n hm

/-- a step of `t` never writes another thread's slot of `_suboptimizers` -/
theorem stepLocal_subopts_other (cfg : Cfg) (t t' : Nat) (th : Thread) (r : RState) (pl : HState)
    (h : t' ≠ t) : (stepLocal cfg t th r pl).r.subopts t' = r.subopts t' := by
  unfold stepLocal
  cases th.pc with
  | idle =>
    simp only
    cases th.queue with
    | nil => rfl
    | cons q rest =>
      simp only
      cases cfg.mode <;> simp only <;> (try split) <;> rfl
  | gotOpt q => simp only; cases cfg.mode <;> rfl
  | hashed q m =>
    simp only
    split
    · split
      · rfl
      · split <;> rfl
    · split <;> rfl
  | ran q m opt => simp only [updFn, h, if_false]
  | stored q m con =>
    simp only
    split
    · split <;> rfl
    · rfl
  | compare q con old => simp only; split <;> rfl
  | «have» q b con =>
    simp only
    split
    · split <;> rfl
    · rfl

/-- the step of thread `t` keeps `t`'s own invariant -/
theorem stepLocal_inv (cfg : Cfg) (hg : Good cfg) (t : Nat) (th : Thread) (r : RState)
    (pl : HState) (hinv : LocalInv t th r) :
    LocalInv t (stepLocal cfg t th r pl).th (stepLocal cfg t th r pl).r := by
  obtain ⟨hres, hpc⟩ := hinv
  unfold stepLocal
  cases hpcv : th.pc with
  | idle =>
    simp only
    cases hq : th.queue with
    | nil => simp only; exact ⟨hres, by rw [hpcv]; trivial⟩
    | cons q rest =>
      simp only
      cases hm : cfg.mode with
      | reusable => simp only; exact ⟨resultsOk_congr hres rfl, trivial⟩
      | autoCached =>
        simp only
        split
        · exact ⟨resultsOk_congr hres rfl, trivial⟩
        · exact ⟨resultsOk_finish (resultsOk_congr hres rfl) q _ (by intro n h; simpa using h.symm),
            trivial⟩
      | autoPlain =>
        simp only
        split
        · exact ⟨resultsOk_congr hres rfl, trivial⟩
        · exact ⟨resultsOk_finish (resultsOk_congr hres rfl) q _ (by intro n h; simpa using h.symm),
            trivial⟩
  | gotOpt q =>
    simp only
    cases hm : cfg.mode with
    | autoPlain =>
      simp only
      have hf : cfg.freshPlain = true := hg hm
      simp only [hf, if_true]
      exact ⟨resultsOk_finish (resultsOk_congr hres rfl) q _
        (treeOf_runLog_stamp q _ (treeOf_init q.net)), trivial⟩
    | reusable => simp only; exact ⟨resultsOk_congr hres rfl, trivial⟩
    | autoCached => simp only; exact ⟨resultsOk_congr hres rfl, trivial⟩
  | hashed q missing =>
    simp only
    split
    · split
      · exact ⟨resultsOk_finish hres q none (by intro n h; cases h), trivial⟩
      · split
        · exact ⟨resultsOk_finish (resultsOk_congr hres rfl) q none (by intro n h; cases h), trivial⟩
        · exact ⟨resultsOk_congr hres rfl, treeOf_runLog_stamp q _ (treeOf_init q.net)⟩
    · split
      · exact ⟨resultsOk_finish hres q none (by intro n h; cases h), trivial⟩
      · exact ⟨resultsOk_congr hres rfl, trivial⟩
  | ran q missing opt =>
    simp only
    rw [hpcv] at hpc
    exact ⟨resultsOk_congr hres rfl, ⟨opt, by simp, hpc⟩⟩
  | stored q missing con =>
    simp only
    rw [hpcv] at hpc
    split
    · split
      · exact ⟨resultsOk_finish hres q none (by intro n h; cases h), trivial⟩
      · exact ⟨resultsOk_congr hres rfl, hpc⟩
    · exact ⟨resultsOk_congr hres rfl, hpc⟩
  | compare q con old =>
    simp only
    rw [hpcv] at hpc
    split
    · exact ⟨resultsOk_congr hres rfl, hpc⟩
    · exact ⟨resultsOk_finish hres q _ (by intro n h; simpa using h.symm), trivial⟩
  | «have» q searched con =>
    simp only
    rw [hpcv] at hpc
    cases searched with
    | true =>
      simp only [if_true]
      obtain ⟨opt, hopt, htree⟩ := hpc
      rw [hopt]
      exact ⟨resultsOk_finish hres q _ htree, trivial⟩
    | false =>
      simp only [Bool.false_eq_true, if_false]
      exact ⟨resultsOk_finish hres q _ (by intro n h; simpa using h.symm), trivial⟩

theorem pcInv_frame (t' : Nat) (r r' : RState) (pc : PC) (hsub : r'.subopts t' = r.subopts t')
    (h : PcInv t' r pc) : PcInv t' r' pc := by
  cases pc with
  | idle => trivial
  | gotOpt q => trivial
  | hashed q m => trivial
  | ran q m opt => exact h
  | stored q m con => simpa [PcInv, hsub] using h
  | compare q con old => simpa [PcInv, hsub] using h
  | «have» q searched con =>
    cases searched with
    | true => simpa [PcInv, hsub] using h
    | false => trivial

/-- one step of any thread keeps the invariant of every thread -/
theorem step_inv (cfg : Cfg) (hg : Good cfg) (s : Sys) (t : Nat) (hinv : Inv cfg s) :
    Inv cfg (step cfg s t) := by
  intro t'
  unfold step
  by_cases h : t' = t
  · subst h
    simp only [updFn_same]
    exact stepLocal_inv cfg hg t' _ _ _ (hinv t')
  · obtain ⟨hres, hpc⟩ := hinv t'
    simp only [updFn_other _ _ _ _ h]
    refine ⟨hres, ?_⟩
    by_cases ho : cfg.objOf t' = cfg.objOf t
    · rw [ho, updFn_same]
      rw [ho] at hpc
      exact pcInv_frame t' _ _ _ (stepLocal_subopts_other cfg t t' _ _ _ h) hpc
    · rw [updFn_other _ _ _ _ ho]; exact hpc

theorem runSched_inv (cfg : Cfg) (hg : Good cfg) (s : Sys) (sched : List Nat) (hinv : Inv cfg s) :
    Inv cfg (runSched cfg s sched) := by
  induction sched generalizing s with
  | nil => exact hinv
  | cons t rest ih => exact ih (step cfg s t) (step_inv cfg hg s t hinv)

/-! ## no spurious errors: every call that can return a tree does -/

/-- the sub-searches always have a successful trial, and successful trials carry trees -/
def GoodTrials (cfg : Cfg) : Prop :=
  ∀ t i, (∃ e ∈ cfg.trials t i, slt e.2.score none = true) ∧
    ∀ e ∈ cfg.trials t i, slt e.2.score none = true → e.2.tree.isSome = true

theorem fresh_search_has_tree (q : Query) (log : Log)
    (h1 : ∃ e ∈ log, slt e.2.score none = true)
    (h2 : ∀ e ∈ log, slt e.2.score none = true → e.2.tree.isSome = true) :
    (runLog HState.init (stamp q log)).tree.isSome = true := by
  obtain ⟨e, he, hfin⟩ := h1
  have hmem : (e.1, { e.2 with tree := e.2.tree.map fun _ => q.net }) ∈ stamp q log :=
    List.mem_map.2 ⟨e, he, rfl⟩
  obtain ⟨b, hb, _⟩ := C08.some_finite_gives_winner none (stamp q log) _ hmem hfin
  obtain ⟨⟨s, hbm, _, _⟩, hbfin⟩ := C08.winner_is_a_finite_trial none (stamp q log) b hb
  obtain ⟨e', he', heq⟩ := List.mem_map.1 hbm
  have htree : b.trial.tree.isSome = true := by
    have h3 := h2 e' he'
    have : b.trial = { e'.2 with tree := e'.2.tree.map fun _ => q.net } := by
      have := congrArg Prod.snd heq; simpa using this.symm
    rw [this] at hbfin ⊢
    simp only [Option.isSome_map]
    exact h3 hbfin
  have hinit : (HState.init : HState) = HState.init none := rfl
  rw [hinit]
  simp only [HState.tree, hb]
  exact htree

/-- no answer so far was an exception -/
def NoErr (th : Thread) : Prop := ∀ q, (q, (none : Option Nat)) ∉ th.results

/-- the entry `hash_query` saw is still in the cache -/
def CacheOk (r : RState) (q : Query) (missing : Bool) : Prop :=
  missing = false → (r.cache q.key).isSome = true

/-- what a thread needs at its program point in order not to raise -/
def PcLive (t : Nat) (r : RState) : PC → Prop
  | .hashed q m => CacheOk r q m
  | .ran q m opt => CacheOk r q m ∧ opt.tree.isSome = true
  | .stored q m _ => CacheOk r q m ∧ ∃ opt, r.subopts t = some opt ∧ opt.tree.isSome = true
  | .compare _ _ _ => ∃ opt, r.subopts t = some opt ∧ opt.tree.isSome = true
  | .have _ true _ => ∃ opt, r.subopts t = some opt ∧ opt.tree.isSome = true
  | _ => True

structure LiveInv (t : Nat) (th : Thread) (r : RState) : Prop where
  noerr : NoErr th
  pc : PcLive t r th.pc

theorem noErr_finish {th : Thread} (h : NoErr th) (q : Query) (res : Option Nat)
    (hr : res.isSome = true) : NoErr (th.finish q res) := by
  intro q' hm
  simp only [Thread.finish, List.mem_append, List.mem_singleton, Prod.mk.injEq] at hm
  rcases hm with hm | ⟨_, h2⟩
  · exact h q' hm
  · rw [← h2] at hr; simp at hr

theorem noErr_congr {th th' : Thread} (h : NoErr th) (he : th'.results = th.results) : NoErr th' := by
  intro q hm; rw [he] at hm; exact h q hm

/-- cache entries are never removed -/
theorem stepLocal_cache_mono (cfg : Cfg) (t : Nat) (th : Thread) (r : RState) (pl : HState)
    (k : Nat) (h : (r.cache k).isSome = true) :
    ((stepLocal cfg t th r pl).r.cache k).isSome = true := by
  unfold stepLocal
  cases th.pc with
  | idle =>
    simp only
    cases th.queue with
    | nil => exact h
    | cons q rest =>
      simp only
      cases cfg.mode <;> simp only <;> (try split) <;> exact h
  | gotOpt q => simp only; cases cfg.mode <;> exact h
  | hashed q m =>
    simp only
    split
    · split
      · exact h
      · split <;> exact h
    · split <;> exact h
  | ran q m opt => exact h
  | stored q m con =>
    simp only
    split
    · split <;> exact h
    · simp only [updFn]; split <;> simp_all
  | compare q con old =>
    simp only
    split
    · simp only [updFn]; split <;> simp_all
    · exact h
  | «have» q b con =>
    simp only
    split
    · split <;> exact h
    · exact h

theorem stepLocal_live (cfg : Cfg) (hco : cfg.cacheOnly = false) (hgt : GoodTrials cfg) (t : Nat)
    (th : Thread) (r : RState) (pl : HState) (hfresh : cfg.mode = .autoPlain → cfg.freshPlain = true)
    (hinv : LiveInv t th r) :
    LiveInv t (stepLocal cfg t th r pl).th (stepLocal cfg t th r pl).r := by
  obtain ⟨hne, hpc⟩ := hinv
  have hsub := fresh_search_has_tree
  unfold stepLocal
  cases hpcv : th.pc with
  | idle =>
    simp only
    cases hq : th.queue with
    | nil => simp only; exact ⟨hne, by rw [hpcv]; trivial⟩
    | cons q rest =>
      simp only
      cases hm : cfg.mode with
      | reusable =>
        simp only
        refine ⟨noErr_congr hne rfl, ?_⟩
        intro hc
        cases hk : r.cache q.key <;> simp_all
      | autoCached =>
        simp only
        split
        · exact ⟨noErr_congr hne rfl, trivial⟩
        · exact ⟨noErr_finish (noErr_congr hne rfl) q _ rfl, trivial⟩
      | autoPlain =>
        simp only
        split
        · exact ⟨noErr_congr hne rfl, trivial⟩
        · exact ⟨noErr_finish (noErr_congr hne rfl) q _ rfl, trivial⟩
  | gotOpt q =>
    simp only
    cases hm : cfg.mode with
    | autoPlain =>
      simp only [hfresh hm, if_true]
      exact ⟨noErr_finish (noErr_congr hne rfl) q _
        (hsub q _ (hgt t th.nsearch).1 (hgt t th.nsearch).2), trivial⟩
    | reusable =>
      simp only
      refine ⟨noErr_congr hne rfl, ?_⟩
      intro hc
      cases hk : r.cache q.key <;> simp_all
    | autoCached =>
      simp only
      refine ⟨noErr_congr hne rfl, ?_⟩
      intro hc
      cases hk : r.cache q.key <;> simp_all
  | hashed q missing =>
    simp only
    rw [hpcv] at hpc
    have htree := hsub q _ (hgt t th.nsearch).1 (hgt t th.nsearch).2
    split
    · simp only [hco, Bool.false_eq_true, if_false]
      split
      · rename_i hnone; rw [hnone] at htree; simp at htree
      · exact ⟨noErr_congr hne rfl, hpc, htree⟩
    · rename_i hrun
      have hmf : missing = false := by
        cases missing <;> simp_all
      obtain ⟨con, hcon⟩ := Option.isSome_iff_exists.1 (hpc hmf)
      rw [hcon]
      exact ⟨noErr_congr hne rfl, trivial⟩
  | ran q missing opt =>
    simp only
    rw [hpcv] at hpc
    exact ⟨noErr_congr hne rfl, hpc.1, opt, by simp, hpc.2⟩
  | stored q missing con =>
    simp only
    rw [hpcv] at hpc
    obtain ⟨hc, hopt⟩ := hpc
    split
    · rename_i hcond
      have hmf : missing = false := by
        cases missing <;> simp_all
      obtain ⟨old, hold⟩ := Option.isSome_iff_exists.1 (hc hmf)
      rw [hold]
      exact ⟨noErr_congr hne rfl, hopt⟩
    · exact ⟨noErr_congr hne rfl, hopt⟩
  | compare q con old =>
    simp only
    rw [hpcv] at hpc
    split
    · exact ⟨noErr_congr hne rfl, hpc⟩
    · exact ⟨noErr_finish hne q _ rfl, trivial⟩
  | «have» q searched con =>
    simp only
    rw [hpcv] at hpc
    cases searched with
    | true =>
      simp only [if_true]
      obtain ⟨opt, hopt, htree⟩ := hpc
      rw [hopt]
      exact ⟨noErr_finish hne q _ htree, trivial⟩
    | false =>
      simp only [Bool.false_eq_true, if_false]
      exact ⟨noErr_finish hne q _ rfl, trivial⟩

theorem pcLive_frame (t' : Nat) (r r' : RState) (pc : PC) (hsub : r'.subopts t' = r.subopts t')
    (hmono : ∀ k, (r.cache k).isSome = true → (r'.cache k).isSome = true)
    (h : PcLive t' r pc) : PcLive t' r' pc := by
  cases pc with
  | idle => trivial
  | gotOpt q => trivial
  | hashed q m => exact fun hm => hmono _ (h hm)
  | ran q m opt => exact ⟨fun hm => hmono _ (h.1 hm), h.2⟩
  | stored q m con => exact ⟨fun hm => hmono _ (h.1 hm), by simpa [hsub] using h.2⟩
  | compare q con old => simpa [PcLive, hsub] using h
  | «have» q searched con =>
    cases searched with
    | true => simpa [PcLive, hsub] using h
    | false => trivial

def Live (cfg : Cfg) (s : Sys) : Prop := ∀ t, LiveInv t (s.threads t) (s.objs (cfg.objOf t))

theorem step_live (cfg : Cfg) (hco : cfg.cacheOnly = false) (hgt : GoodTrials cfg)
    (hg : Good cfg) (s : Sys) (t : Nat) (h : Live cfg s) : Live cfg (step cfg s t) := by
  intro t'
  unfold step
  by_cases htt : t' = t
  · subst htt
    simp only [updFn_same]
    exact stepLocal_live cfg hco hgt t' _ _ _ hg (h t')
  · obtain ⟨hne, hpc⟩ := h t'
    simp only [updFn_other _ _ _ _ htt]
    refine ⟨hne, ?_⟩
    by_cases ho : cfg.objOf t' = cfg.objOf t
    · rw [ho, updFn_same]
      rw [ho] at hpc
      exact pcLive_frame t' _ _ _ (stepLocal_subopts_other cfg t t' _ _ _ htt)
        (fun k hk => stepLocal_cache_mono cfg t _ _ _ k hk) hpc
    · rw [updFn_other _ _ _ _ ho]; exact hpc

theorem live_start (cfg : Cfg) (queues : Nat → List Query) : Live cfg (Sys.start queues) := by
  intro t
  exact ⟨by intro q h; simp [Sys.start] at h, by simp [Sys.start, PcLive]⟩

/-- **no_spurious_errors** — for every schedule and any number of threads: if every sub-search
    has at least one successful trial (and successful trials carry trees) and `cache_only` is off,
    then no call ever raises — in particular `last_opt` is never `None` when it is read, and a
    cache entry seen by `hash_query` is still there when it is fetched.  Together with
    `per_thread_isolation`: every call returns a tree of its own contraction. -/
theorem no_spurious_errors (cfg : Cfg) (hg : Good cfg) (hco : cfg.cacheOnly = false)
    (hgt : GoodTrials cfg) (queues : Nat → List Query) (sched : List Nat) (t : Nat) (q : Query) :
    (q, (none : Option Nat)) ∉ ((runSched cfg (Sys.start queues) sched).threads t).results := by
  have key : ∀ (sched : List Nat) (s : Sys), Live cfg s → Live cfg (runSched cfg s sched) := by
    intro sched
    induction sched with
    | nil => intro s hs; exact hs
    | cons t0 rest ih => intro s hs; exact ih _ (step_live cfg hco hgt hg s t0 hs)
  exact (key sched _ (live_start cfg queues) t).noerr q

/-! ## the property -/

/-- **per_thread_isolation** — for every schedule, any number of threads with any queues of
    queries, every behaviour of the trial functions, every hash function and every
    `overwrite`/`cache_only` setting: each tree returned by a shared `Reusable*Optimizer`, by a
    caching `AutoOptimizer`, or by a non-caching `AutoOptimizer` that uses a fresh sub-optimizer
    per call, is a tree of the contraction that call asked about. -/
theorem per_thread_isolation (cfg : Cfg) (hg : Good cfg) (queues : Nat → List Query)
    (sched : List Nat) (t : Nat) (q : Query) (n : Nat)
    (h : (q, some n) ∈ ((runSched cfg (Sys.start queues) sched).threads t).results) :
    n = q.net :=
  (runSched_inv cfg hg _ sched (inv_start cfg queues) t).results q n h

/-- the same from any reachable state (e.g. after earlier traffic on the same object) -/
theorem per_thread_isolation_from (cfg : Cfg) (hg : Good cfg) (s : Sys) (hinv : Inv cfg s)
    (sched : List Nat) (t : Nat) (q : Query) (n : Nat)
    (h : (q, some n) ∈ ((runSched cfg s sched).threads t).results) : n = q.net :=
  (runSched_inv cfg hg s sched hinv t).results q n h

/-- **sequential_fresh** — one thread asking any sequence of queries of a non-caching
    `AutoOptimizer` that starts every call from a fresh sub-optimizer gets, for each query, a tree
    of that query.  (The one-thread instance of `per_thread_isolation`; it is stated separately
    because it is exactly what fails on the code as found.) -/
theorem sequential_fresh (trials : Nat → Nat → Log) (qs : List Query) (steps : Nat) (q : Query)
    (n : Nat)
    (h : (q, some n) ∈ ((runSched { mode := .autoPlain, freshPlain := true, trials := trials }
      (Sys.start fun t => if t = 0 then qs else []) (List.replicate steps 0)).threads 0).results) :
    n = q.net :=
  per_thread_isolation _ (fun _ => rfl) _ _ 0 q n h

/-! ## DESIGN 7k: the non-caching AutoOptimizer as found re-uses its HyperOptimizer, whose `best`
       survives -/

def tr (score : Nat) : Trial :=
  { score := some score, flops := some 1, write := some 1, size := some 1, tree := some 0 }

def q1 : Query := { net := 1, key := 1, hard := true }
def q2 : Query := { net := 2, key := 2, hard := true }

/-- the first contraction is cheap (score 1), the second dearer (score 5) -/
def exTrials : Nat → Nat → Log := fun _ i => [(⟨0, i⟩, tr (if i = 0 then 1 else 5))]

def cfgFound : Cfg := { mode := .autoPlain, freshPlain := false, trials := exTrials }
def cfgFixed : Cfg := { mode := .autoPlain, freshPlain := true, trials := exTrials }

/-- **sequential_fresh_counterexample** — with the per-thread `HyperOptimizer` re-used
    (`freshPlain = false`, the code as found) the second query is answered with the first
    contraction's tree: the full statement of C16 is false for it. -/
theorem sequential_fresh_counterexample :
    ((runSched cfgFound (Sys.start fun t => if t = 0 then [q1, q2] else []) [0, 0, 0, 0]).threads
      0).results = [(q1, some 1), (q2, some 1)] := by decide

/-- the same history on the repaired policy -/
example : ((runSched cfgFixed (Sys.start fun t => if t = 0 then [q1, q2] else []) [0, 0, 0, 0]).threads
    0).results = [(q1, some 1), (q2, some 2)] := by decide

/-- number of hard queries a thread still has to put to its private optimizer -/
def hardsLeft (th : Thread) : Nat :=
  (th.queue.filter (·.hard)).length + (match th.pc with | .gotOpt _ => 1 | _ => 0)

structure PlainInv (th : Thread) (pl : HState) : Prop where
  results : ResultsOk th
  le_one : hardsLeft th ≤ 1
  pristine : hardsLeft th = 1 → pl = HState.init
  pc : match th.pc with | .idle => True | .gotOpt _ => True | _ => False

theorem stepLocal_plainInv (trials : Nat → Nat → Log) (t : Nat) (th : Thread) (r : RState)
    (pl : HState) (h : PlainInv th pl) :
    let l := stepLocal { mode := .autoPlain, freshPlain := false, trials := trials } t th r pl
    PlainInv l.th l.pl := by
  obtain ⟨hres, hle, hinit, hpc⟩ := h
  intro l
  show PlainInv (stepLocal _ t th r pl).th (stepLocal _ t th r pl).pl
  unfold stepLocal
  cases hpcv : th.pc with
  | idle =>
    simp only
    cases hq : th.queue with
    | nil =>
      simp only
      exact ⟨hres, hle, hinit, by rw [hpcv]; trivial⟩
    | cons q0 rest0 =>
      simp only
      by_cases hh : q0.hard = true
      · simp only [hh, if_true]
        simp only [hardsLeft, hpcv, hq, List.filter_cons, hh, if_true, List.length_cons] at hle hinit
        refine ⟨resultsOk_congr hres rfl, ?_, ?_, trivial⟩
        · simp only [hardsLeft]; omega
        · intro _; exact hinit (by omega)
      · simp only [hh, Bool.false_eq_true, if_false]
        simp only [hardsLeft, hpcv, hq, List.filter_cons, hh, Bool.false_eq_true, if_false]
          at hle hinit
        refine ⟨resultsOk_finish (resultsOk_congr hres rfl) q0 _ (by intro n h; simpa using h.symm),
          ?_, ?_, by simp [Thread.finish]⟩
        · simpa [hardsLeft, Thread.finish] using hle
        · simpa [hardsLeft, Thread.finish] using hinit
  | gotOpt q0 =>
    simp only [Bool.false_eq_true, if_false]
    simp only [hardsLeft, hpcv] at hle hinit
    have h0 : (th.queue.filter (·.hard)).length = 0 := by omega
    have hpl : pl = HState.init := hinit (by omega)
    refine ⟨?_, ?_, ?_, by simp [Thread.finish]⟩
    · rw [hpl]
      exact resultsOk_finish (resultsOk_congr hres rfl) q0 _
        (treeOf_runLog_stamp q0 _ (treeOf_init q0.net))
    · simp [hardsLeft, Thread.finish, h0]
    · intro hc; simp [hardsLeft, Thread.finish, h0] at hc
  | hashed q m => rw [hpcv] at hpc; exact absurd hpc (by simp)
  | ran q m o => rw [hpcv] at hpc; exact absurd hpc (by simp)
  | stored q m c => rw [hpcv] at hpc; exact absurd hpc (by simp)
  | compare q c o => rw [hpcv] at hpc; exact absurd hpc (by simp)
  | «have» q b c => rw [hpcv] at hpc; exact absurd hpc (by simp)

/-- **sequential_fresh_partial** — on the code as found (the per-thread `HyperOptimizer` is
    re-used) the statement holds under the guard that excludes the bad region: every thread id
    puts at most one hard query to the non-caching AutoOptimizer.  For every schedule and any
    number of threads. -/
theorem sequential_fresh_partial (trials : Nat → Nat → Log) (queues : Nat → List Query)
    (sched : List Nat) (t : Nat) (q : Query) (n : Nat)
    (hone : ∀ t, ((queues t).filter (·.hard)).length ≤ 1)
    (h : (q, some n) ∈ ((runSched { mode := .autoPlain, freshPlain := false, trials := trials }
      (Sys.start queues) sched).threads t).results) : n = q.net := by
  have key : ∀ (sched : List Nat) (s : Sys), (∀ t, PlainInv (s.threads t) (s.plain t)) →
      ∀ t, PlainInv ((runSched { mode := .autoPlain, freshPlain := false, trials := trials }
        s sched).threads t)
        ((runSched { mode := .autoPlain, freshPlain := false, trials := trials } s sched).plain t) := by
    intro sched
    induction sched with
    | nil => intro s hs t; exact hs t
    | cons t0 rest ih =>
      intro s hs
      apply ih
      intro t'
      unfold step
      by_cases htt : t' = t0
      · subst htt
        simp only [updFn_same]
        exact stepLocal_plainInv trials t' _ _ _ (hs t')
      · simp only [updFn_other _ _ _ _ htt]
        exact hs t'
  have hstart : ∀ t, PlainInv ((Sys.start queues).threads t) ((Sys.start queues).plain t) := by
    intro t
    refine ⟨by intro q n h; simp [Sys.start] at h, ?_, fun _ => rfl, by simp [Sys.start]⟩
    simpa [hardsLeft, Sys.start] using hone t
  exact (key sched _ hstart t).results q n h

/-! ## non-vacuity: two threads racing on one shared ReusableOptimizer, all three overwrite modes -/

def qa : Query := { net := 10, key := 7, hard := true }
def qb : Query := { net := 11, key := 8, hard := true }

def raceTrials : Nat → Nat → Log := fun t i => [(⟨0, 0⟩, tr (3 + t + i))]

def raceCfg (ov : Overwrite) : Cfg :=
  { mode := .reusable, overwrite := ov, trials := raceTrials, objOf := fun _ => 0 }

def raceStart : Sys := Sys.start fun t => if t = 0 then [qa, qb] else if t = 1 then [qb, qa] else []

/-- the hypotheses of `no_spurious_errors` are satisfiable -/
example : GoodTrials (raceCfg .improved) ∧ (raceCfg .improved).cacheOnly = false ∧
    Good (raceCfg .improved) := by
  refine ⟨?_, rfl, fun h => by cases h⟩
  intro t i
  simp [raceCfg, raceTrials, tr]

/-- thread 1's store lands between thread 0's store and thread 0's read of `last_opt`: each still
    gets its own tree (they write different keys of `_suboptimizers`) -/
example : let s := runSched (raceCfg .no) raceStart [0, 1, 0, 1, 0, 1, 1, 0, 0, 1, 0, 1, 0, 0, 1, 1, 1, 0];
    (s.threads 0).results = [(qa, some 10), (qb, some 11)] ∧
    (s.threads 1).results = [(qb, some 11), (qa, some 10)] := by decide
def schedSeq : List Nat := [0, 0, 0, 0, 0, 1, 1, 1, 1, 1, 0, 0, 0, 0, 0, 0, 1, 1, 1, 1, 1, 1]
example : let s := runSched (raceCfg .improved) raceStart schedSeq;
    (s.threads 0).results = [(qa, some 10), (qb, some 11)] ∧
    (s.threads 1).results = [(qb, some 11), (qa, some 10)] ∧
    (s.threads 0).nsearch = 2 ∧ (s.threads 1).nsearch = 2 := by decide
/-- `overwrite = no`: the second asker of a contraction is served from the cache -/
example : let s := runSched (raceCfg .no) raceStart schedSeq;
    (s.threads 0).nsearch = 1 ∧ (s.threads 1).nsearch = 1 ∧
    (s.threads 0).results = [(qa, some 10), (qb, some 11)] := by decide

end Cotengra.C16
