import CotengraVerif.Generated.FactsC05
import CotengraVerif.Model.BestSoFar

/-!
# C05 — closed obligations over the source-derived preset table

`Generated/FactsC05.lean` is rewritten on every run of `./check C05` from the live preset registry
of the checkout under test (`cotengra.interface._PRESETS_PATH / _PRESETS_TREE`, filled by
cotengra/__init__.py:277-383, presets.py:164-196, pathfinders/path_random.py:45, …) and from the
source of the classes whose instances sit in it (`harness/c05_presets.py`).

`C05.preset_fresh_per_call_valid` needs a preset to be bound to a function that builds its
optimizer inside the call (`Binding.freshPerCall`); `C05.preset_shared_instance_counterexample`
shows what happens when one best-so-far keeping instance serves every call. The obligation below
closes the gap for the code as it stands: every registered name is bound to

* a function / `functools.partial` of a function that refers to no module-level optimizer
  instance, assigns no module global and closes over no optimizer (`fresh`), or
* an instance (bound method of an instance) of a class that carries nothing from call to call
  (`stateless`: `GreedyOptimizer`, `OptimalOptimizer` — the same fact as `C16.presets_stateless`,
  from an independent extractor — and `RandomOptimizer`), or
* an `AutoOptimizer` / `AutoHQOptimizer`, whose only carried attribute is the per-thread table of
  `ReusableHyperOptimizer`s (`keyedCache`: entries are keyed by the contraction, C13/C16).
-/
namespace Cotengra.C05
open Cotengra.Generated.C05

/-- attributes a registered class may carry: per-thread tables of *keyed* caches -/
def allowedCarried : List (String × List String) :=
  [("AutoOptimizer", ["self._hyperoptimizers_by_thread[<ident>]"]),
   ("AutoHQOptimizer", ["self._hyperoptimizers_by_thread[<ident>]"])]

inductive Safety where
  | fresh | stateless | keyedCache | sharedStateful | unknown
deriving DecidableEq, Repr

/-- how a row of the table is classified -/
def classify (b : String × String × String × String × List String) : Safety :=
  let kind := b.2.2.1
  let target := b.2.2.2.1
  let shared := b.2.2.2.2
  if kind = "function" ∨ kind = "partial" then
    (if shared = [] then .fresh else .sharedStateful)
  else if kind = "instance" ∨ kind = "method" then
    match classCarried.lookup target with
    | none => .unknown
    | some [] => .stateless
    | some st =>
      if st.all (fun x => ((allowedCarried.lookup target).getD []).contains x) then .keyedCache
      else .sharedStateful
  else .unknown

/-- the model-level binding of a row -/
def bindingOf (b : String × String × String × String × List String) : BestSoFar.Binding :=
  if b.2.2.1 = "function" ∨ b.2.2.1 = "partial" then .freshPerCall else .sharedInstance

/-- **presets_bound_safely** — no registered preset name (path or tree route) is bound to an
    object that keeps a best-so-far (or anything else outside a keyed cache) between calls. -/
theorem presets_bound_safely :
    ∀ b ∈ presetBindings,
      classify b = .fresh ∨ classify b = .stateless ∨ classify b = .keyedCache := by decide

/-- **random_greedy_presets_fresh** — in particular the presets that run a
    `RandomGreedyOptimizer` are bound to a function building a fresh one per call
    (`Binding.freshPerCall`, the hypothesis of `preset_fresh_per_call_valid`). -/
theorem random_greedy_presets_fresh :
    ∀ b ∈ presetBindings, (b.1 = "random-greedy" ∨ b.1 = "random-greedy-128") →
      bindingOf b = .freshPerCall ∧ classify b = .fresh := by decide

/-- the table is not empty and names the presets the property lists -/
theorem presets_listed :
    ∀ n ∈ ["greedy", "optimal", "optimal-outer", "auto", "auto-hq", "random", "random-greedy"],
      n ∈ presetBindings.map (·.1) := by decide

end Cotengra.C05
