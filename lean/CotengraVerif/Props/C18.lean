import CotengraVerif.Lemmas.SimsProc
import CotengraVerif.Lemmas.SimsLeaf
import CotengraVerif.Lemmas.SlicerTree
import CotengraVerif.Lemmas.HyperGraphForest

/-!
# C18 — internal cost simulators agree; optimizers report the cost of what they return

Four separately written simulators, each compared with the leaf-set characterisation L1
(`Net.legs_get_eq_spec`, `Net.mem_legs_iff_surv`, `C03.size_eq_spec`, `C03.flops_eq_spec`):

* tree: `Net.legs / involved / nodeSize / nodeFlops` (core.py:816-848) — C03;
* annealing: `Anneal.info` = `compute_contracted_info` (path_simulated_annealing.py:19-68);
* processor: `Proc.contracted / size / flops / initLegs / simplified` = `compute_contracted`,
  `compute_size`, `compute_flops`, the initial legs, `compute_simplified`
  (path_basic.py:17-118, 391-420), `remove_ix`/`simplify_batch` as removal of the batch indices;
* hypergraph: `HG.contract / computeContractedInds / nodeSize / contractPairCost`
  (hypergraph.py:123-151, 235-313) — see `Lemmas/HyperGraph.lean`.

Not modelled: which pair an optimizer picks (greedy scores, heaps, Gumbel noise): every theorem
is for all trees / all contraction sequences; `log10` of the reported flops (the harness compares
through one stated tolerance).
-/
namespace Cotengra.C18
open Cotengra Cotengra.Net Cotengra.Legs

/-! ## annealing rule = tree rule (no guard) -/

/-- **anneal_eq_tree.** For any two legs dicts with distinct keys, `compute_contracted_info`
    returns exactly the dict the tree computes (`keepOpen (union a b)`, same order), the tree's
    flops (`sizeOfLegs` of the union) and the tree's size. -/
theorem anneal_eq_tree (n : Net) (a b : Legs) (ha : (keys a).Nodup) (hb : (keys b).Nodup) :
    Anneal.info n a b =
      (n.keepOpen (Legs.union a b), n.sizeOfLegs (Legs.union a b),
       n.sizeOfLegs (n.keepOpen (Legs.union a b))) := by
  unfold Anneal.info
  rw [Anneal.left_eq, Anneal.right_eq]
  simp only
  rw [union_eq b a hb ha]
  unfold keepOpen
  rw [List.filter_append, sizeOfLegs_eq_prod, sizeOfLegs_eq_prod]
  refine Prod.ext ?_ (Prod.ext ?_ ?_)
  · rfl
  · show Anneal.prodOf n a * _ = _
    have : Anneal.prodOf n a = Anneal.prodOf n (a.map fun kv => (kv.1, kv.2 + get b kv.1)) := by
      unfold Anneal.prodOf keys
      rw [List.map_map, List.map_map, List.map_map]
      rfl
    rw [this, ← Anneal.prodOf_append]; rfl
  · show Anneal.prodOf n _ * Anneal.prodOf n _ = _
    rw [← Anneal.prodOf_append]; rfl

/-- at a node of the tree the annealing evaluator therefore reports the tree's legs, flops, size -/
theorem anneal_at_node (n : Net) (rm : List Ix) (l r : BT) :
    Anneal.info n (n.legs rm l) (n.legs rm r) =
      (n.legs rm (.node l r), n.nodeFlops rm (.node l r), n.nodeSize rm (.node l r)) :=
  anneal_eq_tree n _ _ (keys_nodup_legs n rm l) (keys_nodup_legs n rm r)

/-! ## processor rule -/

/-- the processor's legs along a tree, from given leaf legs -/
def procLegs (n : Net) (leafL : Nat → PLegs) : BT → PLegs
  | .leaf i => leafL i
  | .node l r => Proc.contracted n.app (procLegs n leafL l) (procLegs n leafL r)

/-- `compute_flops` of the step that creates the node -/
def procFlops (n : Net) (leafL : Nat → PLegs) : BT → Nat
  | .leaf _ => 0
  | .node l r => Proc.flops n.size (procLegs n leafL l) (procLegs n leafL r)

/-- the leaf legs hold what the tree holds at that leaf (after `simplify_single_terms`, with the
    indices `B` removed by `simplify_batch`), as sorted positive `(ix, count)` lists -/
structure LeafSpec (n : Net) (B : List Ix) (leafL : Nat → PLegs) (i : Nat) : Prop where
  sorted : Proc.Sorted (leafL i)
  pos : Pos (leafL i)
  get : ∀ x, Legs.get (leafL i) x = Legs.get (n.leafLegs B i) x

/-- **proc_contracted_get**: the sorted merge, as a function of the two counts -/
theorem proc_contracted_get (app : Nat → Nat) (a b : PLegs) (ha : Proc.Sorted a) (hb : Proc.Sorted b)
    (x : Nat) :
    Legs.get (Proc.contracted app a b) x =
      if Legs.has a x && Legs.has b x then
        (if Legs.get a x + Legs.get b x ≠ app x then Legs.get a x + Legs.get b x else 0)
      else Legs.get a x + Legs.get b x :=
  Proc.contracted_get app a b ha hb x

theorem procLegs_wf (n : Net) (B : List Ix) (leafL : Nat → PLegs) (t : BT)
    (hl : ∀ i ∈ t.leaves, LeafSpec n B leafL i) :
    Proc.Sorted (procLegs n leafL t) ∧ Pos (procLegs n leafL t) := by
  induction t with
  | leaf i => exact ⟨(hl i (by simp [BT.leaves])).sorted, (hl i (by simp [BT.leaves])).pos⟩
  | node l r ihl ihr =>
    have h1 := ihl (fun i hi => hl i (by simp [BT.leaves, hi]))
    have h2 := ihr (fun i hi => hl i (by simp [BT.leaves, hi]))
    exact ⟨Proc.contracted_sorted _ _ _ h1.1 h2.1, Proc.contracted_pos _ _ _ h1.2 h2.2⟩

theorem has_iff_get_pos (L : PLegs) (hs : Proc.Sorted L) (hp : Pos L) (x : Nat) :
    Legs.has L x = true ↔ 0 < Legs.get L x := by
  rw [has_iff_mem, mem_keys_iff_get_pos L (Proc.sorted_nodup L hs) hp]

/-- **proc_eq_tree (legs).** Along any tree with distinct in-range leaves, the processor's legs
    hold, index by index, the counts the tree holds (for the network with `B` removed) — hence,
    by L1, the leaf-set characterisation. -/
theorem proc_legs_eq_tree (n : Net) (B : List Ix) (leafL : Nat → PLegs) (t : BT)
    (hd : t.leaves.Nodup) (hb : ∀ i ∈ t.leaves, i < n.inputs.length)
    (hl : ∀ i ∈ t.leaves, LeafSpec n B leafL i) (x : Ix) :
    Legs.get (procLegs n leafL t) x = Legs.get (n.legs B t) x := by
  induction t with
  | leaf i => exact (hl i (by simp [BT.leaves])).get x
  | node l r ihl ihr =>
    have hdl : l.leaves.Nodup := (List.nodup_append.1 hd).1
    have hdr : r.leaves.Nodup := (List.nodup_append.1 hd).2.1
    have hbl : ∀ i ∈ l.leaves, i < n.inputs.length := fun i hi => hb i (by simp [BT.leaves, hi])
    have hbr : ∀ i ∈ r.leaves, i < n.inputs.length := fun i hi => hb i (by simp [BT.leaves, hi])
    have hll : ∀ i ∈ l.leaves, LeafSpec n B leafL i := fun i hi => hl i (by simp [BT.leaves, hi])
    have hlr : ∀ i ∈ r.leaves, LeafSpec n B leafL i := fun i hi => hl i (by simp [BT.leaves, hi])
    have wl := procLegs_wf n B leafL l hll
    have wr := procLegs_wf n B leafL r hlr
    have el := ihl hdl hbl hll
    have er := ihr hdr hbr hlr
    show Legs.get (Proc.contracted n.app (procLegs n leafL l) (procLegs n leafL r)) x = _
    rw [Proc.contracted_get _ _ _ wl.1 wr.1]
    unfold Proc.mergeSpec
    -- the tree side through L1
    have hle := cnt_le_appIn n B (.node l r) hd hb x
    rw [cnt_node] at hle
    have tl := legs_get_eq_spec n B l hdl hbl x
    have tr := legs_get_eq_spec n B r hdr hbr x
    have tt := legs_get_eq_spec n B (.node l r) hd hb x
    rw [cnt_node] at tt
    rw [tt]
    have hcl : Legs.has (procLegs n leafL l) x = decide (0 < Legs.get (n.legs B l) x) := by
      rw [← el]
      by_cases h : 0 < Legs.get (procLegs n leafL l) x
      · rw [(has_iff_get_pos _ wl.1 wl.2 x).2 h]; simp [h]
      · have : ¬ Legs.has (procLegs n leafL l) x = true := fun e => h ((has_iff_get_pos _ wl.1 wl.2 x).1 e)
        simp [h, this]
    have hcr : Legs.has (procLegs n leafL r) x = decide (0 < Legs.get (n.legs B r) x) := by
      rw [← er]
      by_cases h : 0 < Legs.get (procLegs n leafL r) x
      · rw [(has_iff_get_pos _ wr.1 wr.2 x).2 h]; simp [h]
      · have : ¬ Legs.has (procLegs n leafL r) x = true := fun e => h ((has_iff_get_pos _ wr.1 wr.2 x).1 e)
        simp [h, this]
    rw [hcl, hcr, el, er, tl, tr]
    unfold app at *
    by_cases h1 : n.cnt B l x < n.appIn x + occ n.output x <;>
    by_cases h2 : n.cnt B r x < n.appIn x + occ n.output x <;>
    by_cases h3 : n.cnt B l x + n.cnt B r x < n.appIn x + occ n.output x <;>
    by_cases h4 : 0 < n.cnt B l x <;> by_cases h5 : 0 < n.cnt B r x <;>
    simp [h1, h2, h3, h4, h5] <;> omega

theorem prod_of_same_keys (sz : Nat → Nat) (k1 k2 : List Nat) (h1 : k1.Nodup) (h2 : k2.Nodup)
    (hm : ∀ x, x ∈ k1 ↔ x ∈ k2) : (k1.map sz).prod = (k2.map sz).prod :=
  (((List.perm_ext_iff_of_nodup h1 h2).2 hm).map sz).prod_eq

theorem mem_keys_filter_not_has (L M : Legs) (x : Ix) :
    x ∈ keys (L.filter (fun kv => !(Legs.has M kv.1))) ↔ (x ∈ keys L ∧ x ∉ keys M) := by
  unfold keys
  constructor
  · intro h
    obtain ⟨kv, hkv, rfl⟩ := List.mem_map.1 h
    have hf := List.mem_filter.1 hkv
    refine ⟨List.mem_map.2 ⟨kv, hf.1, rfl⟩, fun hm => ?_⟩
    have : Legs.has M kv.1 = true := (has_iff_mem M kv.1).2 hm
    rw [this] at hf; exact absurd hf.2 (by simp)
  · rintro ⟨h1, h2⟩
    obtain ⟨kv, hkv, rfl⟩ := List.mem_map.1 h1
    refine List.mem_map.2 ⟨kv, List.mem_filter.2 ⟨hkv, ?_⟩, rfl⟩
    have : ¬ Legs.has M kv.1 = true := fun e => h2 ((has_iff_mem M kv.1).1 e)
    simpa using this

theorem proc_keys_eq_tree (n : Net) (B : List Ix) (leafL : Nat → PLegs) (t : BT)
    (hd : t.leaves.Nodup) (hb : ∀ i ∈ t.leaves, i < n.inputs.length)
    (hl : ∀ i ∈ t.leaves, LeafSpec n B leafL i) (x : Ix) :
    x ∈ keys (procLegs n leafL t) ↔ x ∈ keys (n.legs B t) := by
  have w := procLegs_wf n B leafL t hl
  rw [mem_keys_iff_get_pos _ (Proc.sorted_nodup _ w.1) w.2,
    mem_keys_iff_get_pos _ (keys_nodup_legs n B t) (pos_legs n B t),
    proc_legs_eq_tree n B leafL t hd hb hl x]

/-- **proc_eq_tree (size, flops).** `compute_size` of the processor's legs is the tree's
    `get_size`; `compute_flops` of a step is the tree's `get_flops` of that step. -/
theorem proc_eq_tree (n : Net) (B : List Ix) (leafL : Nat → PLegs) (l r : BT)
    (hd : (BT.node l r).leaves.Nodup) (hb : ∀ i ∈ (BT.node l r).leaves, i < n.inputs.length)
    (hl : ∀ i ∈ (BT.node l r).leaves, LeafSpec n B leafL i) :
    Proc.size n.size (procLegs n leafL (.node l r)) = n.nodeSize B (.node l r) ∧
    procFlops n leafL (.node l r) = n.nodeFlops B (.node l r) ∧
    (∀ x, x ∈ keys (procLegs n leafL (.node l r)) ↔ n.Surv B (.node l r) x) := by
  have hdl : l.leaves.Nodup := (List.nodup_append.1 hd).1
  have hdr : r.leaves.Nodup := (List.nodup_append.1 hd).2.1
  have hbl : ∀ i ∈ l.leaves, i < n.inputs.length := fun i hi => hb i (by simp [BT.leaves, hi])
  have hbr : ∀ i ∈ r.leaves, i < n.inputs.length := fun i hi => hb i (by simp [BT.leaves, hi])
  have hll : ∀ i ∈ l.leaves, LeafSpec n B leafL i := fun i hi => hl i (by simp [BT.leaves, hi])
  have hlr : ∀ i ∈ r.leaves, LeafSpec n B leafL i := fun i hi => hl i (by simp [BT.leaves, hi])
  have w := procLegs_wf n B leafL (.node l r) hl
  have wl := procLegs_wf n B leafL l hll
  have wr := procLegs_wf n B leafL r hlr
  refine ⟨?_, ?_, ?_⟩
  · rw [Proc.size_eq_prod]
    unfold nodeSize
    rw [sizeOfLegs_eq_prod]
    exact prod_of_same_keys _ _ _ (Proc.sorted_nodup _ w.1) (keys_nodup_legs n B _)
      (proc_keys_eq_tree n B leafL _ hd hb hl)
  · show Proc.flops n.size (procLegs n leafL l) (procLegs n leafL r) = n.nodeFlops B (.node l r)
    rw [Proc.flops_eq_prod]
    show _ = n.sizeOfLegs (Legs.union (n.legs B l) (n.legs B r))
    have hku : keys (Legs.union (n.legs B l) (n.legs B r)) =
        keys (n.legs B l) ++ keys ((n.legs B r).filter (fun kv => !(Legs.has (n.legs B l) kv.1))) := by
      rw [union_eq _ _ (keys_nodup_legs n B r) (keys_nodup_legs n B l)]
      unfold keys
      rw [List.map_append, List.map_map]
      rfl
    rw [sizeOfLegs_eq_prod, hku, List.map_append, List.prod_append]
    congr 1
    · exact prod_of_same_keys _ _ _ (Proc.sorted_nodup _ wl.1) (keys_nodup_legs n B l)
        (proc_keys_eq_tree n B leafL l hdl hbl hll)
    · apply prod_of_same_keys
      · exact (Proc.sorted_nodup _ wr.1).filter _
      · exact keys_nodup_filter _ _ (keys_nodup_legs n B r)
      · intro x
        have kl := proc_keys_eq_tree n B leafL l hdl hbl hll x
        have kr := proc_keys_eq_tree n B leafL r hdr hbr hlr x
        rw [mem_keys_filter_not_has, List.mem_filter, kr]
        constructor
        · rintro ⟨h1, h2⟩
          refine ⟨h1, fun hm => ?_⟩
          have : (keys (procLegs n leafL l)).contains x = true := by simpa using kl.2 hm
          rw [this] at h2; cases h2
        · rintro ⟨h1, h2⟩
          refine ⟨h1, ?_⟩
          have : ¬ (keys (procLegs n leafL l)).contains x = true := by
            intro e; exact h2 (kl.1 (by simpa using e))
          simpa using this
  · intro x
    rw [proc_keys_eq_tree n B leafL _ hd hb hl x, Net.mem_legs_iff_surv n B _ hd hb x]


/-! ## indices on all tensors (`simplify_batch`) and the reported flops -/

/-- `ix` occurs in every input tensor -/
def OnAll (n : Net) (ix : Ix) : Prop := ∀ i, i < n.inputs.length → ix ∈ n.term i

theorem leaves_ne_nil (t : BT) : t.leaves ≠ [] := by
  induction t with
  | leaf i => simp [BT.leaves]
  | node l r ihl _ => simp [BT.leaves, ihl]

theorem cnt_pos_of_onAll (n : Net) (rm : List Ix) (t : BT) (hb : ∀ i ∈ t.leaves, i < n.inputs.length)
    (ix : Ix) (hon : OnAll n ix) (hrm : ix ∉ rm) : 0 < n.cnt rm t ix := by
  obtain ⟨i, hi⟩ := List.exists_mem_of_ne_nil _ (leaves_ne_nil t)
  exact Slicer.cnt_pos_of_occ n rm t ix i hi (hon i (hb i hi)) hrm

/-- an index on all tensors is involved in every contraction step -/
theorem surv_of_onAll (n : Net) (rm : List Ix) (l r : BT) (hd : (BT.node l r).leaves.Nodup)
    (hb : ∀ i ∈ (BT.node l r).leaves, i < n.inputs.length) (ix : Ix) (hon : OnAll n ix) (hrm : ix ∉ rm) :
    n.Surv rm l ix := by
  have hbl : ∀ i ∈ l.leaves, i < n.inputs.length := fun i hi => hb i (by simp [BT.leaves, hi])
  have hbr : ∀ i ∈ r.leaves, i < n.inputs.length := fun i hi => hb i (by simp [BT.leaves, hi])
  have h1 := cnt_pos_of_onAll n rm l hbl ix hon hrm
  have h2 := cnt_pos_of_onAll n rm r hbr ix hon hrm
  have hle := cnt_le_appIn n rm (.node l r) hd hb ix
  rw [cnt_node] at hle
  unfold Surv app
  omega

theorem termRm_congr (n : Net) (rm rm' : List Ix) (h : ∀ x, x ∈ rm ↔ x ∈ rm') (i : Nat) :
    n.termRm rm i = n.termRm rm' i := by
  unfold termRm
  apply List.filter_congr
  intro x _
  by_cases hx : x ∈ rm
  · have hx' := (h x).1 hx
    simp [hx, hx']
  · have hx' : x ∉ rm' := fun e => hx ((h x).2 e)
    simp [hx, hx']

theorem legs_congr (n : Net) (rm rm' : List Ix) (h : ∀ x, x ∈ rm ↔ x ∈ rm') (t : BT) :
    n.legs rm t = n.legs rm' t := by
  induction t with
  | leaf i =>
    show n.leafLegs rm i = n.leafLegs rm' i
    unfold leafLegs leafLegsPre
    rw [termRm_congr n rm rm' h i]
  | node l r ihl ihr => simp only [legs, ihl, ihr]

theorem nodeFlops_congr (n : Net) (rm rm' : List Ix) (h : ∀ x, x ∈ rm ↔ x ∈ rm') (t : BT) :
    n.nodeFlops rm t = n.nodeFlops rm' t := by
  cases t with
  | leaf i => rfl
  | node l r =>
    show n.sizeOfLegs (Legs.union (n.legs rm l) (n.legs rm r)) = n.sizeOfLegs (Legs.union (n.legs rm' l) (n.legs rm' r))
    rw [legs_congr n rm rm' h l, legs_congr n rm rm' h r]

theorem prodSizes_cons (n : Net) (ix : Ix) (B : List Ix) : n.prodSizes (ix :: B) = n.size ix * n.prodSizes B := by
  unfold prodSizes
  rw [← List.prod_eq_foldl, ← List.prod_eq_foldl]
  simp

/-- **batch_factor.** Let `B` be distinct indices that sit on every input tensor (what
    `simplify_batch` removes). Every contraction step of every tree costs, on the full network,
    exactly `∏ size(B)` times what it costs on the network with `B` removed. -/
theorem batch_factor (n : Net) (B rm : List Ix) (hB : B.Nodup) (hall : ∀ ix ∈ B, OnAll n ix ∧ ix ∉ rm)
    (l r : BT) (hd : (BT.node l r).leaves.Nodup) (hb : ∀ i ∈ (BT.node l r).leaves, i < n.inputs.length) :
    n.nodeFlops rm (.node l r) = n.prodSizes B * n.nodeFlops (B ++ rm) (.node l r) := by
  induction B generalizing rm with
  | nil => simp [prodSizes]
  | cons ix0 B' ih =>
    have hnd := List.nodup_cons.1 hB
    have h0 := hall ix0 List.mem_cons_self
    have hs := C03.slice_flops n rm ix0 l r hd hb
    have hsurv := surv_of_onAll n rm l r hd hb ix0 h0.1 h0.2
    rw [if_pos (Or.inl hsurv)] at hs
    have ih' := ih (ix0 :: rm) hnd.2 (by
      intro ix hix
      refine ⟨(hall ix (List.mem_cons_of_mem _ hix)).1, ?_⟩
      intro hm
      rcases List.mem_cons.1 hm with e | e
      · subst e; exact hnd.1 hix
      · exact (hall ix (List.mem_cons_of_mem _ hix)).2 e)
    have hc : n.nodeFlops (B' ++ ix0 :: rm) (.node l r) = n.nodeFlops (ix0 :: B' ++ rm) (.node l r) := by
      apply nodeFlops_congr
      intro x; simp only [List.mem_append, List.mem_cons, List.cons_append]
      constructor
      · rintro (h | h | h)
        · exact Or.inr (Or.inl h)
        · exact Or.inl h
        · exact Or.inr (Or.inr h)
      · rintro (h | h | h)
        · exact Or.inr (Or.inl h)
        · exact Or.inl h
        · exact Or.inr (Or.inr h)
    rw [← hs, ih', hc, prodSizes_cons]
    ring

/-- total flops the processor accumulates along a tree (`cp.flops` with `track_flops`) -/
def procTotal (n : Net) (leafL : Nat → PLegs) (t : BT) : Nat := (t.internal.map (procFlops n leafL)).sum

theorem sum_map_mul (c : Nat) (l : List BT) (f : BT → Nat) : (l.map fun s => c * f s).sum = c * (l.map f).sum := by
  induction l with
  | nil => simp
  | cons a t ih => simp only [List.map_cons, List.sum_cons, ih]; ring

/-- **reported_flops_batch.** What `RandomGreedyOptimizer.best_flops` reports (`cp.flops`, the sum
    of `compute_flops` over the steps after `simplify_batch`) times the dimensions of the indices
    on all tensors is `tree.total_flops()` of the tree built from the same path. -/
theorem reported_flops_batch (n : Net) (B : List Ix) (hB : B.Nodup) (hall : ∀ ix ∈ B, OnAll n ix)
    (leafL : Nat → PLegs) (t : BT) (hd : t.leaves.Nodup) (hb : ∀ i ∈ t.leaves, i < n.inputs.length)
    (hl : ∀ i ∈ t.leaves, LeafSpec n B leafL i) :
    (n.stats [] [] t).flops = n.prodSizes B * procTotal n leafL t := by
  unfold stats procTotal
  simp only [mult, prodSizes, List.map_nil, List.foldl_nil, Nat.one_mul]
  rw [← sum_map_mul]
  congr 1
  apply List.map_congr_left
  intro s hs
  obtain ⟨l, r, rfl⟩ := C03.internal_is_node t s hs
  have hsub := C03.internal_leaves_sublist t _ hs
  have hd' := hd.sublist hsub
  have hb' : ∀ i ∈ (BT.node l r).leaves, i < n.inputs.length := fun i hi => hb i (hsub.subset hi)
  have hl' : ∀ i ∈ (BT.node l r).leaves, LeafSpec n B leafL i := fun i hi => hl i (hsub.subset hi)
  have bf := batch_factor n B [] hB (fun ix hix => ⟨hall ix hix, by simp⟩) l r hd' hb'
  rw [List.append_nil] at bf
  rw [bf, (proc_eq_tree n B leafL l r hd' hb' hl').2.1]
  rfl

/-- **reported_flops_partial**: the property's claim ("the reported cost equals the cost of the
    tree built from the returned path") under the guard that no index sits on all tensors.
    Full statement (false, see the counter-example): `(n.stats [] [] t).flops = procTotal n leafL t`
    for every network. -/
theorem reported_flops_partial (n : Net) (leafL : Nat → PLegs) (t : BT) (hd : t.leaves.Nodup)
    (hb : ∀ i ∈ t.leaves, i < n.inputs.length) (hl : ∀ i ∈ t.leaves, LeafSpec n [] leafL i) :
    (n.stats [] [] t).flops = procTotal n leafL t := by
  have := reported_flops_batch n [] List.nodup_nil (fun _ h => by cases h) leafL t hd hb hl
  simpa [prodSizes] using this

/-- the processor's leaf legs: initial sorted legs, batch indices removed (`remove_ix`), then
    `compute_simplified` -/
def procLeaf (n : Net) (B : List Ix) (i : Nat) : PLegs :=
  Proc.simplified n.app ((Proc.initLegs (n.term i)).filter (fun kv => !B.contains kv.1))

/-- **procLeaf_spec.** For *every* term (repeated, traced, dangling indices included) the
    processor's leaf legs after `remove_ix` of the batch indices and `compute_simplified` hold the
    counts of the tree's leaf legs, strictly sorted and positive: `LeafSpec` is met by the real
    leaf computation, so the processor theorems hold without any guard on the network. -/
theorem procLeaf_spec (n : Net) (B : List Ix) (i : Nat) : LeafSpec n B (procLeaf n B) i := by
  obtain ⟨hs, hp, ht⟩ := Proc.initLegs_spec (n.term i)
  have hs' : Proc.SortedLE ((Proc.initLegs (n.term i)).filter (fun kv => !B.contains kv.1)) :=
    List.Pairwise.sublist List.filter_sublist hs
  have hp' : Pos ((Proc.initLegs (n.term i)).filter (fun kv => !B.contains kv.1)) := pos_filter _ _ hp
  obtain ⟨g, so, po⟩ := Proc.simplified_spec n.app _ hs' hp'
  refine ⟨so, po, ?_⟩
  intro x
  show Legs.get (Proc.simplified n.app _) x = _
  rw [g x, Proc.total_filter_key _ (fun k => !B.contains k) x, ht x, get_leafLegs]
  have hocc : occ (n.termRm B i) x = if (!B.contains x) = true then (n.term i).count x else 0 := by
    unfold occ termRm
    by_cases hb : B.contains x = true
    · simp only [hb, Bool.not_true, Bool.false_eq_true, if_false]
      apply List.count_eq_zero_of_not_mem
      intro hm
      have := (List.mem_filter.1 hm).2
      rw [hb] at this
      exact absurd this (by simp)
    · have hb' : B.contains x = false := by simpa using hb
      simp only [hb', Bool.not_false, if_true]
      exact List.count_filter (by rw [hb']; rfl)
  rw [hocc]

/-- `proc_eq_tree` for the processor's own leaf computation: no hypothesis on the network -/
theorem proc_eq_tree_real (n : Net) (B : List Ix) (l r : BT) (hd : (BT.node l r).leaves.Nodup)
    (hb : ∀ i ∈ (BT.node l r).leaves, i < n.inputs.length) :
    Proc.size n.size (procLegs n (procLeaf n B) (.node l r)) = n.nodeSize B (.node l r) ∧
    procFlops n (procLeaf n B) (.node l r) = n.nodeFlops B (.node l r) ∧
    (∀ x, x ∈ keys (procLegs n (procLeaf n B) (.node l r)) ↔ n.Surv B (.node l r) x) :=
  proc_eq_tree n B (procLeaf n B) l r hd hb (fun i _ => procLeaf_spec n B i)

/-- `reported_flops_batch` for the processor's own leaf computation -/
theorem reported_flops_batch_real (n : Net) (B : List Ix) (hB : B.Nodup) (hall : ∀ ix ∈ B, OnAll n ix)
    (t : BT) (hd : t.leaves.Nodup) (hb : ∀ i ∈ t.leaves, i < n.inputs.length) :
    (n.stats [] [] t).flops = n.prodSizes B * procTotal n (procLeaf n B) t :=
  reported_flops_batch n B hB hall (procLeaf n B) t hd hb (fun i _ => procLeaf_spec n B i)

def cexNet : Net := { inputs := [[0, 1], [0, 2], [0, 1, 2]], output := [], sizes := [(0, 2), (1, 3), (2, 3)] }
def cexTree : BT := .node (.node (.leaf 0) (.leaf 1)) (.leaf 2)

/-- **reported_flops_counterexample**: on `ab,ac,abc->` with `|a| = 2` the processor, after
    `simplify_batch` removed `a`, accumulates 18 flops while the tree built from the same path
    has `total_flops = 36`. (Replayed on the implementation by the harness: known finding.) -/
theorem reported_flops_counterexample :
    procTotal cexNet (procLeaf cexNet [0]) cexTree = 18 ∧ (cexNet.stats [] [] cexTree).flops = 36 ∧
    (cexNet.stats [] [] cexTree).flops ≠ procTotal cexNet (procLeaf cexNet [0]) cexTree := by
  decide


/-! ## hypergraph rule -/
open HGu

/-- the forest after replaying `path` from the uncontracted network -/
def hgRun (n : Net) (path : List (Nat × Nat)) : Option (HG × Forest) :=
  runPath path (HG.ofInputs n.inputs n.output n.sizes, forest0 n.inputs.length)

theorem hg_size_eq (n : Net) (h : HG) (hsd : h.sizeDict = n.sizes) (e : Ix) : h.size e = n.size e := by
  unfold HG.size
  rw [hsd, Slicer.size_eq_szOf]; rfl

theorem hg_edgesSize_eq (n : Net) (h : HG) (hsd : h.sizeDict = n.sizes) (es : List Ix) :
    h.edgesSize es = (es.map n.size).prod := by
  unfold HG.edgesSize
  rw [List.prod_eq_foldl]
  congr 1
  exact List.map_congr_left (fun e _ => hg_size_eq n h hsd e)

/-- **hg_contract_legs.** For a network without repeated indices, replay *any* sequence of
    `HyperGraph.contract(i, j)` calls that does not raise. Every node then standing for a
    contracted sub-tree `node l r` carries each of exactly the leaf-set survivors once
    (`Net.Surv`, the characterisation of L1 — the tree's legs), and `node_size` is the tree's
    `get_size`. -/
theorem hg_contract_legs (n : Net) (hnr : NoRepeat n) (path : List (Nat × Nat)) (h : HG) (F : Forest)
    (hrun : hgRun n path = some (h, F)) (k : Nat) (l r : BT) (inds : List Ix)
    (hF : AL.get? F k = some (.node l r)) (hN : AL.get? h.nodes k = some inds) :
    inds.Nodup ∧ (∀ e, e ∈ inds ↔ n.Surv [] (.node l r) e) ∧
    (∀ e, e ∈ inds ↔ e ∈ keys (n.legs [] (.node l r))) ∧
    h.nodeSize k = n.nodeSize [] (.node l r) := by
  have inv := runPath_inv n hnr path _ _ h F (inv_init n hnr) hrun
  have hl := inv.lnd k _ hF
  have hsem : ∀ e, e ∈ inds ↔ n.Surv [] (.node l r) e := inv.sem k _ inds hF hN
  have hkeys : ∀ e, e ∈ inds ↔ e ∈ keys (n.legs [] (.node l r)) := by
    intro e; rw [hsem e, Net.mem_legs_iff_surv n [] _ hl.1 hl.2 e]
  refine ⟨inv.cons.nd k inds hN, hsem, hkeys, ?_⟩
  unfold HG.nodeSize HG.getNode
  rw [hN, hg_edgesSize_eq n h inv.sd]
  unfold nodeSize
  rw [sizeOfLegs_eq_prod]
  exact prod_of_same_keys _ _ _ (inv.cons.nd k inds hN) (keys_nodup_legs n [] _) hkeys

theorem any_not_pair (l : List Nat) (i j : Nat) :
    (l.any fun k => !([i, j].contains k)) = true ↔ ∃ k, k ≠ i ∧ k ≠ j ∧ k ∈ l := by
  rw [List.any_eq_true]
  constructor
  · rintro ⟨k, hk, hc⟩
    have hn : ¬ [i, j].contains k = true := by simpa using hc
    have hn' : k ∉ [i, j] := fun hm => hn (by simpa using hm)
    simp only [List.mem_cons, List.not_mem_nil, or_false, not_or] at hn'
    exact ⟨k, hn'.1, hn'.2, hk⟩
  · rintro ⟨k, h1, h2, hk⟩
    refine ⟨k, hk, ?_⟩
    have hn' : k ∉ [i, j] := by simp [h1, h2]
    have : ¬ [i, j].contains k = true := fun hc => hn' (by simpa using hc)
    simpa using this

/-- **hg_predicted_inds.** `compute_contracted_inds((i, j))` and `candidate_contraction_size(i, j)`
    (no cap), read before the contraction, predict exactly the node that `contract(i, j)` then
    creates: same index set, same size — on any consistent hypergraph. -/
theorem hg_predicted_inds (h : HG) (i j : Nat) (ii ij : List Ix) (hc : HG.Cons h) (hij : i ≠ j)
    (hi : AL.get? h.nodes i = some ii) (hj : AL.get? h.nodes j = some ij)
    (hfresh : AL.has h.nodes h.nextCand = false) :
    ∃ h' keep, h.contract i j = some (h.nextCand, h') ∧ AL.get? h'.nodes h.nextCand = some keep ∧
      (∀ e, e ∈ h.computeContractedInds [i, j] ↔ e ∈ keep) ∧
      h.candidateContractionSize i j none = h'.nodeSize h.nextCand := by
  obtain ⟨h', keep, hcon, co⟩ := HG.contract_spec h i j ii ij hc hij hi hj hfresh
  have hk : AL.get? h'.nodes h.nextCand = some keep := by rw [co.nodes]; simp
  have hmem : ∀ e, e ∈ h.computeContractedInds [i, j] ↔ e ∈ keep := by
    intro e
    rw [co.keep e]
    unfold HG.computeContractedInds HG.getNode
    rw [HG.mem_dedup, List.mem_filter, Bool.or_eq_true, any_not_pair]
    simp only [List.flatMap_cons, List.flatMap_nil, List.append_nil, hi, hj, Option.getD_some,
      List.mem_append, List.contains_iff_mem]
  refine ⟨h', keep, hcon, hk, hmem, ?_⟩
  unfold HG.candidateContractionSize HG.nodeSize HG.getNode
  simp only [hk, Option.getD_some]
  have hes : ∀ (g : HG) (es : List Ix), g.edgesSize es = (es.map g.size).prod := by
    intro g es; unfold HG.edgesSize; rw [List.prod_eq_foldl]
  rw [hes, hes]
  have hsz : h'.size = h.size := by
    funext e; unfold HG.size; rw [co.sd]
  rw [hsz]
  exact prod_of_same_keys _ _ _ (HG.nodup_dedup _) co.keepNd hmem

/-- no index of input `i` is confined to that tensor and absent from the output -/
def NoDanglingAt (n : Net) (i : Nat) : Prop := ∀ e ∈ n.term i, Outside n (.leaf i) e

/-- what a forest tree's hypergraph node holds equals the tree's legs, unless it is a leaf with a
    dangling index -/
theorem nodeSem_iff_legs (n : Net) (hnr : NoRepeat n) (s : BT) (hd : s.leaves.Nodup)
    (hb : ∀ i ∈ s.leaves, i < n.inputs.length) (hdang : ∀ i, s = .leaf i → NoDanglingAt n i) (e : Ix) :
    NodeSem n s e ↔ e ∈ keys (n.legs [] s) := by
  rw [Net.mem_legs_iff_surv n [] s hd hb e]
  cases s with
  | leaf i =>
    rw [surv_iff n hnr _ hd hb e]
    show e ∈ n.term i ↔ _
    constructor
    · intro h; exact ⟨⟨i, by simp [BT.leaves], h⟩, hdang i rfl e h⟩
    · rintro ⟨⟨i', hi', h⟩, _⟩
      simp only [BT.leaves, List.mem_singleton] at hi'
      subst hi'; exact h
  | node l r => rfl

/-- **hg_cost_eq_tree_partial.** `contract_pair_cost(i, j)`, read just before the contraction, is
    the tree's `get_flops` of that step — under the guard that neither operand is an input tensor
    with a dangling index. (Full statement without the guard: false, see the counter-example.) -/
theorem hg_cost_eq_tree_partial (n : Net) (hnr : NoRepeat n) (path : List (Nat × Nat)) (h : HG) (F : Forest)
    (hrun : hgRun n path = some (h, F)) (i j : Nat) (a b : BT) (hij : i ≠ j)
    (ha : AL.get? F i = some a) (hb : AL.get? F j = some b)
    (hda : ∀ x, a = .leaf x → NoDanglingAt n x) (hdb : ∀ x, b = .leaf x → NoDanglingAt n x) :
    h.contractPairCost i j = n.nodeFlops [] (.node a b) := by
  have inv := runPath_inv n hnr path _ _ h F (inv_init n hnr) hrun
  have hla := inv.lnd i a ha
  have hlb := inv.lnd j b hb
  have hhi : AL.has h.nodes i = true := by rw [← inv.dom i]; exact (AL.has_iff _ _).2 ⟨a, ha⟩
  have hhj : AL.has h.nodes j = true := by rw [← inv.dom j]; exact (AL.has_iff _ _).2 ⟨b, hb⟩
  obtain ⟨ii, hii⟩ := (AL.has_iff _ _).1 hhi
  obtain ⟨ij, hjj⟩ := (AL.has_iff _ _).1 hhj
  unfold HG.contractPairCost HG.getNode
  rw [hii, hjj, hg_edgesSize_eq n h inv.sd]
  show _ = n.sizeOfLegs (n.involved [] (.node a b))
  rw [sizeOfLegs_eq_prod]
  apply prod_of_same_keys _ _ _ (HG.nodup_dedup _) (keys_nodup_involved n [] _)
  intro e
  show e ∈ dedup (ii ++ ij) ↔ _
  rw [HG.mem_dedup, List.mem_append, mem_involved_iff, inv.sem i a ii ha hii e, inv.sem j b ij hb hjj e,
    nodeSem_iff_legs n hnr a hla.1 hla.2 hda e, nodeSem_iff_legs n hnr b hlb.1 hlb.2 hdb e]

def dangNet : Net := { inputs := [[0, 1], [1, 2]], output := [2], sizes := [(0, 2), (1, 3), (2, 4)] }

/-- **hg_cost_counterexample**: on `ab,bc->c` (`a` dangling) the hypergraph charges 2·3·4 = 24 for
    the only step, the tree 3·4 = 12 (it sums `a` at the leaf); the contracted node and its size
    agree. (Replayed on the implementation by the harness: known finding.) -/
theorem hg_cost_counterexample :
    (HG.ofInputs dangNet.inputs dangNet.output dangNet.sizes).contractPairCost 0 1 = 24 ∧
    dangNet.nodeFlops [] (.node (.leaf 0) (.leaf 1)) = 12 ∧ ¬ NoDanglingAt dangNet 0 := by
  refine ⟨by decide, by decide, ?_⟩
  intro h
  have := h 0 (by decide)
  rcases this with ⟨i, h1, h2, h3⟩ | h
  · have : i = 0 ∨ i = 1 := by
      have : i < 2 := h1
      omega
    rcases this with rfl | rfl
    · exact h2 (by simp [BT.leaves])
    · revert h3; decide
  · revert h; decide

/-! ## the four rules side by side -/

/-- **four_rules_agree.** For one step `node l r` of one tree (distinct in-range leaves), the index
    set each simulator derives is the set of leaf-set survivors `Net.Surv` (L1), and the sizes /
    operation counts coincide with the tree's:
    (1) tree — L1 itself; (2) annealing evaluator — on every network, exactly;
    (3) processor — for leaf legs meeting `LeafSpec` (what `simplify_single_terms` leaves, batch
    indices `B` removed ⇒ figures of the network without `B`);
    (4) hypergraph — for networks without repeated indices, after any replayed sequence; the pair
    cost under the no-dangling guard. -/
theorem four_rules_agree (n : Net) (l r : BT) (hd : (BT.node l r).leaves.Nodup)
    (hb : ∀ i ∈ (BT.node l r).leaves, i < n.inputs.length) :
    -- (1) tree
    (∀ e, e ∈ keys (n.legs [] (.node l r)) ↔ n.Surv [] (.node l r) e) ∧
    -- (2) annealing
    Anneal.info n (n.legs [] l) (n.legs [] r) =
      (n.legs [] (.node l r), n.nodeFlops [] (.node l r), n.nodeSize [] (.node l r)) ∧
    -- (3) processor
    (∀ (leafL : Nat → PLegs), (∀ i ∈ (BT.node l r).leaves, LeafSpec n [] leafL i) →
      (∀ e, e ∈ keys (procLegs n leafL (.node l r)) ↔ n.Surv [] (.node l r) e) ∧
      Proc.size n.size (procLegs n leafL (.node l r)) = n.nodeSize [] (.node l r) ∧
      procFlops n leafL (.node l r) = n.nodeFlops [] (.node l r)) ∧
    -- (4) hypergraph
    (NoRepeat n → ∀ (path : List (Nat × Nat)) (h : HG) (F : Forest) (k : Nat) (inds : List Ix),
      hgRun n path = some (h, F) → AL.get? F k = some (.node l r) → AL.get? h.nodes k = some inds →
      (∀ e, e ∈ inds ↔ n.Surv [] (.node l r) e) ∧ h.nodeSize k = n.nodeSize [] (.node l r)) := by
  refine ⟨fun e => Net.mem_legs_iff_surv n [] _ hd hb e, anneal_at_node n [] l r, ?_, ?_⟩
  · intro leafL hl
    obtain ⟨h1, h2, h3⟩ := proc_eq_tree n [] leafL l r hd hb hl
    exact ⟨h3, h1, h2⟩
  · intro hnr path h F k inds hrun hF hN
    obtain ⟨_, h2, _, h4⟩ := hg_contract_legs n hnr path h F hrun k l r inds hF hN
    exact ⟨h2, h4⟩

/-! ## non-vacuity -/

def exNet : Net :=
  { inputs := [[0, 1], [1, 2, 4], [2, 3, 4], [4, 5]], output := [0, 4],
    sizes := [(0, 2), (1, 3), (2, 4), (3, 1), (4, 2), (5, 3)] }
def exTree : BT := .node (.node (.leaf 0) (.leaf 1)) (.node (.leaf 2) (.leaf 3))

example : exTree.leaves.Nodup ∧ (∀ i ∈ exTree.leaves, i < exNet.inputs.length) := by decide
example : ∀ i ∈ exTree.leaves, (exNet.term i).Nodup := by decide
/-- the hypergraph replay of the example runs and creates the nodes 4, 5, 6 -/
example : (hgRun exNet [(0, 1), (2, 3), (4, 5)]).map (fun st => st.1.nodes) = some [(6, [0, 4])] := by decide
/-- the processor's total on the example equals the tree's (no index on all tensors) -/
example : procTotal exNet (procLeaf exNet []) exTree = (exNet.stats [] [] exTree).flops := by decide

end Cotengra.C18
