import CotengraVerif.Lemmas.TreeState
import CotengraVerif.Lemmas.MaxCounter

/-!
# C04 — incrementally tracked costs equal a from-scratch rebuild after any history

Model: `Model/TreeState.lean` — the mutable tree as a state machine over
`contract_nodes_pair` (core.py:1264), `_remove_node` (:714), `remove_ind` (:1607, slice and
project) and `restore_ind` (:1687), carrying `multiplicity` and the tracked `_flops`, `_write`,
`_sizes` with exactly the delta edits of the code (`new = old // d`, `+= new - old`,
`discard`/`add`). Compound public operations (subtree reconfiguration, annealing, forests, slice
search, slice-and-reconfigure, unslice_*) are words over these primitives chosen by optimizers and
PRNGs; the theorems quantify over *all* words.

`Tracked s`: the tracked totals equal the from-scratch sums over the current structure under the
current removed set (and the from-scratch per-node figures are, by C03, the leaf-set definition).

Not modelled here (checked on dumps of the real tree on every run instead): the per-node cache
dictionaries and the laziness of the getters.
-/
namespace Cotengra.C04
open Cotengra Cotengra.TS

/-- structural well-formedness of a state -/
structure WF (s : TS) : Prop where
  keys_nodup : (s.children.map (·.1)).Nodup
  pairs : ∀ e ∈ s.children, GoodPair s e.2.1 e.2.2
  nodes : ∀ e ∈ s.children, GoodNode s e.1
  union : ∀ e ∈ s.children, e.1.Perm (e.2.1 ++ e.2.2)
  out_nodup : s.net.output.Nodup
  out_in : ∀ ix ∈ s.net.output, 0 < s.net.appIn ix
  sizes_pos : ∀ ix, 0 < s.net.size ix

/-- the tracked totals are the from-scratch sums over the current structure -/
structure Tracked (s : TS) : Prop where
  flops : s.flops = s.scratchFlops
  write : s.write = s.scratchWrite
  sizes : s.sizes.Perm s.scratchSizes

@[simp] theorem sizeOf_def (s : TS) (p : Node) : s.sizeOf p = figSize s.net s.rm p := rfl
@[simp] theorem flopsOf_def (s : TS) (l r : Node) : s.flopsOf l r = figFlops s.net s.rm l r := rfl

theorem tracked_init (n : Net) : Tracked (TS.init n) :=
  ⟨rfl, rfl, List.Perm.refl _⟩

/-! ### contract_nodes_pair -/

theorem setChild_fresh (cs : List (Node × Node × Node)) (p l r : Node)
    (h : p ∉ cs.map (·.1)) : setChild cs p l r = cs ++ [(p, l, r)] := by
  unfold setChild
  have : cs.any (fun e => e.1 == p) = false := by
    rw [List.any_eq_false]
    intro e he hc
    exact h (List.mem_map.2 ⟨e, he, by simpa using hc⟩)
  simp [this]

theorem tracked_contractPair (s : TS) (x y : Node) (ht : Tracked s)
    (hfresh : mergeNodes x y ∉ s.children.map (·.1)) : Tracked (s.contractPair x y) := by
  obtain ⟨hf, hw, hs⟩ := ht
  unfold contractPair
  simp only
  rw [setChild_fresh _ _ _ _ hfresh]
  refine ⟨?_, ?_, ?_⟩
  · show s.flops + ((s.flopsOf (orderPair x y).1 (orderPair x y).2 : Nat) : Int) = _
    unfold scratchFlops at *
    simp only [List.map_append, List.map_cons, List.map_nil, List.sum_append, List.sum_cons,
      List.sum_nil, Nat.add_zero, Int.natCast_add]
    rw [hf]; rfl
  · show s.write + ((s.sizeOf (mergeNodes x y) : Nat) : Int) = _
    unfold scratchWrite at *
    simp only [List.map_append, List.map_cons, List.map_nil, List.sum_append, List.sum_cons,
      List.sum_nil, Nat.add_zero, Int.natCast_add]
    rw [hw]; rfl
  · show (s.sizeOf (mergeNodes x y) :: s.sizes).Perm _
    unfold scratchSizes at *
    simp only [List.map_append, List.map_cons, List.map_nil]
    exact (List.Perm.cons _ hs).trans (List.perm_append_singleton _ _).symm

/-! ### _remove_node -/

theorem sum_filter_key (cs : List (Node × Node × Node)) (p l r : Node) (f : Node × Node × Node → Nat)
    (hnd : (cs.map (·.1)).Nodup) (hmem : (p, l, r) ∈ cs) :
    ((cs.filter (fun e => !(e.1 == p))).map f).sum + f (p, l, r) = (cs.map f).sum := by
  induction cs with
  | nil => cases hmem
  | cons a t ih =>
    simp only [List.map_cons, List.nodup_cons] at hnd
    rcases List.mem_cons.1 hmem with e | e
    · subst e
      have hfil : t.filter (fun e => !(e.1 == p)) = t := by
        apply List.filter_eq_self.2
        intro x hx
        have : x.1 ≠ p := fun c => hnd.1 (List.mem_map.2 ⟨x, hx, c⟩)
        simpa using this
      simp [List.filter_cons, hfil, Nat.add_comm]
    · have hne : a.1 ≠ p := by
        intro c
        exact hnd.1 (List.mem_map.2 ⟨(p, l, r), e, c.symm⟩)
      have : (a :: t).filter (fun e => !(e.1 == p)) = a :: t.filter (fun e => !(e.1 == p)) := by
        simp [List.filter_cons, hne]
      rw [this]
      simp only [List.map_cons, List.sum_cons]
      rw [Nat.add_assoc, ih hnd.2 e]

theorem perm_filter_key (cs : List (Node × Node × Node)) (p l r : Node) (f : Node × Node × Node → Nat)
    (hnd : (cs.map (·.1)).Nodup) (hmem : (p, l, r) ∈ cs) :
    (cs.map f).Perm (f (p, l, r) :: (cs.filter (fun e => !(e.1 == p))).map f) := by
  induction cs with
  | nil => cases hmem
  | cons a t ih =>
    simp only [List.map_cons, List.nodup_cons] at hnd
    rcases List.mem_cons.1 hmem with e | e
    · subst e
      have hfil : t.filter (fun e => !(e.1 == p)) = t := by
        apply List.filter_eq_self.2
        intro x hx
        have : x.1 ≠ p := fun c => hnd.1 (List.mem_map.2 ⟨x, hx, c⟩)
        simpa using this
      simp [List.filter_cons, hfil]
    · have hne : a.1 ≠ p := by
        intro c
        exact hnd.1 (List.mem_map.2 ⟨(p, l, r), e, c.symm⟩)
      have : (a :: t).filter (fun e => !(e.1 == p)) = a :: t.filter (fun e => !(e.1 == p)) := by
        simp [List.filter_cons, hne]
      rw [this]
      simp only [List.map_cons]
      exact (List.Perm.cons _ (ih hnd.2 e)).trans (List.Perm.swap _ _ _)

theorem find_key (cs : List (Node × Node × Node)) (p : Node) (e : Node × Node × Node)
    (h : cs.find? (fun e => e.1 == p) = some e) : e ∈ cs ∧ e.1 = p := by
  have := List.find?_some h
  exact ⟨List.mem_of_find?_eq_some h, by simpa using this⟩

theorem tracked_removeNode (s s' : TS) (p : Node) (hwf : WF s) (ht : Tracked s)
    (h : s.removeNode p = some s') : Tracked s' := by
  obtain ⟨hf, hw, hs⟩ := ht
  unfold removeNode at h
  split at h
  · cases h
  · rename_i q l r hfind
    obtain ⟨hmem, hq⟩ := find_key _ _ _ hfind
    simp only at hq; subst hq
    cases h
    refine ⟨?_, ?_, ?_⟩
    · show s.flops - ((s.flopsOf l r : Nat) : Int) = _
      have := sum_filter_key s.children q l r (fun e => s.flopsOf e.2.1 e.2.2) hwf.keys_nodup hmem
      unfold scratchFlops at *
      simp only [flopsOf_def, sizeOf_def] at this hf ⊢
      rw [hf, ← this]; push_cast; omega
    · show s.write - ((s.sizeOf q : Nat) : Int) = _
      have := sum_filter_key s.children q l r (fun e => s.sizeOf e.1) hwf.keys_nodup hmem
      unfold scratchWrite at *
      simp only [flopsOf_def, sizeOf_def] at this hw ⊢
      rw [hw, ← this]; push_cast; omega
    · show (s.sizes.erase (s.sizeOf q)).Perm _
      have hp := perm_filter_key s.children q l r (fun e => s.sizeOf e.1) hwf.keys_nodup hmem
      unfold scratchSizes at *
      have h2 := (hs.trans hp).erase (s.sizeOf q)
      simpa using h2


/-! ### remove_ind -/

/-- what one iteration of the `remove_ind` loop does to the three running totals -/
theorem removeIndNode_eq (s : TS) (ix : Ix) (e : Node × Node × Node)
    (gp : GoodNode s e.1) (g : GoodPair s e.2.1 e.2.2) (hu : e.1.Perm (e.2.1 ++ e.2.2))
    (hout : s.net.output.Nodup) (houtin : ∀ ix ∈ s.net.output, 0 < s.net.appIn ix)
    (hd : 0 < s.net.size ix) (f w : Int) (z : List Nat) :
    s.removeIndNode ix (s.net.size ix) (f, w, z) e =
      (f + (figFlops s.net (ix :: s.rm) e.2.1 e.2.2 : Nat) - (figFlops s.net s.rm e.2.1 e.2.2 : Nat),
       w + (figSize s.net (ix :: s.rm) e.1 : Nat) - (figSize s.net s.rm e.1 : Nat),
       if (s.legsOf e.1).has ix then
         figSize s.net (ix :: s.rm) e.1 :: z.erase (figSize s.net s.rm e.1) else z) ∧
    ((s.legsOf e.1).has ix = false → figSize s.net (ix :: s.rm) e.1 = figSize s.net s.rm e.1) := by
  obtain ⟨p, l, r⟩ := e
  simp only at gp g hu
  have hF := flopsOf_cons s l r g ix hd
  have hS := sizeOf_cons s p gp ix hd hout
  simp only [withRm, flopsOf_def, sizeOf_def] at hF hS
  have himp := legs_has_imp_involved s p l r gp g hu houtin ix
  constructor
  · unfold removeIndNode
    simp only [flopsOf_def, sizeOf_def]
    by_cases hi : (s.involvedOf l r).has ix = true
    · simp only [hi, Bool.not_true, Bool.false_eq_true, if_false, if_true] at hF ⊢
      by_cases hl : (s.legsOf p).has ix = true
      · simp only [hl, if_true] at hS ⊢
        rw [hF, hS]
        refine Prod.ext ?_ (Prod.ext ?_ rfl) <;> simp only <;> omega
      · simp only [hl, Bool.false_eq_true, if_false] at hS ⊢
        rw [hF, hS]
        refine Prod.ext ?_ (Prod.ext ?_ rfl) <;> simp only <;> omega
    · have hl : ¬ (s.legsOf p).has ix = true := fun c => hi (himp c)
      simp only [hi, hl, Bool.not_false, if_true, Bool.false_eq_true, if_false] at hF hS ⊢
      rw [hF, hS]
      refine Prod.ext ?_ (Prod.ext ?_ rfl) <;> simp only <;> omega
  · intro hl
    simp only [hl, Bool.false_eq_true, if_false] at hS
    exact hS

theorem fold_removeInd (s : TS) (ix : Ix) (cs : List (Node × Node × Node))
    (hn : ∀ e ∈ cs, GoodNode s e.1) (hp : ∀ e ∈ cs, GoodPair s e.2.1 e.2.2)
    (hu : ∀ e ∈ cs, e.1.Perm (e.2.1 ++ e.2.2))
    (hout : s.net.output.Nodup) (houtin : ∀ ix ∈ s.net.output, 0 < s.net.appIn ix)
    (hd : 0 < s.net.size ix) (f w : Int) (z A : List Nat)
    (hz : z.Perm (A ++ cs.map fun e => figSize s.net s.rm e.1)) :
    let res := cs.foldl (s.removeIndNode ix (s.net.size ix)) (f, w, z)
    res.1 = f + ((cs.map fun e => figFlops s.net (ix :: s.rm) e.2.1 e.2.2).sum : Nat)
              - ((cs.map fun e => figFlops s.net s.rm e.2.1 e.2.2).sum : Nat) ∧
    res.2.1 = w + ((cs.map fun e => figSize s.net (ix :: s.rm) e.1).sum : Nat)
              - ((cs.map fun e => figSize s.net s.rm e.1).sum : Nat) ∧
    res.2.2.Perm (A ++ cs.map fun e => figSize s.net (ix :: s.rm) e.1) := by
  induction cs generalizing f w z A with
  | nil => simp only [List.foldl_nil, List.map_nil, List.sum_nil]; exact ⟨by simp, by simp, by simpa using hz⟩
  | cons e t ih =>
    have he := removeIndNode_eq s ix e (hn e List.mem_cons_self) (hp e List.mem_cons_self)
      (hu e List.mem_cons_self) hout houtin hd f w z
    simp only [List.foldl_cons]
    rw [he.1]
    have hz' : (if (s.legsOf e.1).has ix then
        figSize s.net (ix :: s.rm) e.1 :: z.erase (figSize s.net s.rm e.1) else z).Perm
        ((A ++ [figSize s.net (ix :: s.rm) e.1]) ++ t.map fun e => figSize s.net s.rm e.1) := by
      simp only [List.map_cons] at hz
      by_cases hl : (s.legsOf e.1).has ix = true
      · simp only [hl, if_true]
        have h1 : z.Perm (figSize s.net s.rm e.1 :: (A ++ t.map fun e => figSize s.net s.rm e.1)) :=
          hz.trans List.perm_middle
        have h2 := h1.erase (figSize s.net s.rm e.1)
        rw [List.erase_cons_head] at h2
        refine (List.Perm.cons _ h2).trans ?_
        rw [List.append_assoc]
        exact List.perm_middle.symm
      · have hl' : (s.legsOf e.1).has ix = false := by simpa using hl
        simp only [hl', Bool.false_eq_true, if_false]
        rw [he.2 hl', List.append_assoc]
        exact hz
    have := ih (fun x hx => hn x (List.mem_cons_of_mem _ hx)) (fun x hx => hp x (List.mem_cons_of_mem _ hx))
      (fun x hx => hu x (List.mem_cons_of_mem _ hx))
      (f + (figFlops s.net (ix :: s.rm) e.2.1 e.2.2 : Nat) - (figFlops s.net s.rm e.2.1 e.2.2 : Nat))
      (w + (figSize s.net (ix :: s.rm) e.1 : Nat) - (figSize s.net s.rm e.1 : Nat))
      _ (A ++ [figSize s.net (ix :: s.rm) e.1]) hz'
    obtain ⟨h1, h2, h3⟩ := this
    refine ⟨?_, ?_, ?_⟩
    · rw [h1]; simp only [List.map_cons, List.sum_cons]; push_cast; omega
    · rw [h2]; simp only [List.map_cons, List.sum_cons]; push_cast; omega
    · rw [List.append_assoc] at h3
      simpa using h3

/-- `remove_ind` (slice or project) keeps the tracked totals equal to the from-scratch sums -/
theorem tracked_removeInd (s s' : TS) (ix : Ix) (project : Bool) (hwf : WF s) (ht : Tracked s)
    (h : s.removeInd ix project = some s') : Tracked s' := by
  obtain ⟨hf, hw, hs⟩ := ht
  unfold removeInd at h
  split at h
  · cases h
  · have hfold := fold_removeInd s ix s.children hwf.nodes hwf.pairs hwf.union hwf.out_nodup
      hwf.out_in (hwf.sizes_pos ix) s.flops s.write s.sizes []
      (by simpa [scratchSizes] using hs)
    simp only at h
    cases h
    obtain ⟨h1, h2, h3⟩ := hfold
    refine ⟨?_, ?_, ?_⟩
    · simp only [scratchFlops, flopsOf_def] at hf ⊢
      rw [h1, hf]; omega
    · simp only [scratchWrite, sizeOf_def] at hw ⊢
      rw [h2, hw]; omega
    · simp only [scratchSizes, sizeOf_def]
      simpa using h3


/-! ### restore_ind -/

theorem figSize_congr (n : Net) (rm1 rm2 : List Ix) (h : ∀ x, x ∈ rm1 ↔ x ∈ rm2) (p : Node) :
    figSize n rm1 p = figSize n rm2 p := by
  unfold figSize figLegs
  rw [Net.rootLegs_congr n rm1 rm2 h, Net.legs_congr n rm1 rm2 h]

theorem figFlops_congr (n : Net) (rm1 rm2 : List Ix) (h : ∀ x, x ∈ rm1 ↔ x ∈ rm2) (l r : Node) :
    figFlops n rm1 l r = figFlops n rm2 l r := by
  unfold figFlops figInvolved
  rw [Net.legs_congr n rm1 rm2 h, Net.legs_congr n rm1 rm2 h]

theorem mem_cons_filter_ne (rm : List Ix) (ix : Ix) (h : ix ∈ rm) (x : Ix) :
    x ∈ rm ↔ x ∈ ix :: rm.filter (· != ix) := by
  simp only [List.mem_cons, List.mem_filter, bne_iff_ne, ne_eq]
  constructor
  · intro hx
    by_cases e : x = ix
    · exact Or.inl e
    · exact Or.inr ⟨hx, e⟩
  · rintro (e | e)
    · exact e ▸ h
    · exact e.1

/-- the state `restore_ind` moves to, before the totals are edited -/
def restored (s : TS) (ix : Ix) : TS :=
  { s with rm := s.rm.filter (· != ix), sliced := s.sliced.filter (· != ix),
           mult := if s.sliced.contains ix then s.mult / s.net.size ix else s.mult }

/-- the test at core.py:1722 -/
def affected (s : TS) (ix : Ix) (e : Node × Node × Node) : Bool :=
  (s.net.legs (s.rm.filter (· != ix)) (combOf e.2.1)).has ix ||
    (s.net.legs (s.rm.filter (· != ix)) (combOf e.2.2)).has ix

theorem unaffected_same (s : TS) (ix : Ix) (hin : ix ∈ s.rm) (e : Node × Node × Node)
    (gp : GoodNode s e.1) (g : GoodPair s e.2.1 e.2.2) (hu : e.1.Perm (e.2.1 ++ e.2.2))
    (hout : s.net.output.Nodup) (houtin : ∀ ix ∈ s.net.output, 0 < s.net.appIn ix)
    (hd : 0 < s.net.size ix) (ha : affected s ix e = false) :
    figFlops s.net (s.rm.filter (· != ix)) e.2.1 e.2.2 = figFlops s.net s.rm e.2.1 e.2.2 ∧
    figSize s.net (s.rm.filter (· != ix)) e.1 = figSize s.net s.rm e.1 := by
  obtain ⟨p, l, r⟩ := e
  simp only at gp g hu
  let s' : TS := s.withRm (s.rm.filter (· != ix))
  have gp' : GoodNode s' p := ⟨gp.ne, gp.nodup, gp.inrange⟩
  have g' : GoodPair s' l r := ⟨g.nel, g.ner, g.nodup, g.inrange⟩
  have hmem := mem_cons_filter_ne s.rm ix hin
  have hF := flopsOf_cons s' l r g' ix hd
  have hS := sizeOf_cons s' p gp' ix hd hout
  have himp := legs_has_imp_involved s' p l r gp' g' hu houtin ix
  -- the model's test is `involved under the new removed set`
  have hinv : (s'.involvedOf l r).has ix = false := by
    by_contra hc
    have hc' : (s'.involvedOf l r).has ix = true := by simpa using hc
    rw [involvedOf_has_iff s' l r g'] at hc'
    unfold affected at ha
    simp only [Bool.or_eq_false_iff] at ha
    have hdl : (combOf l).leaves.Nodup := by
      rw [leaves_combOf l g.nel]; exact (List.nodup_append.1 g.nodup).1
    have hdr : (combOf r).leaves.Nodup := by
      rw [leaves_combOf r g.ner]; exact (List.nodup_append.1 g.nodup).2.1
    have hbl : ∀ i ∈ (combOf l).leaves, i < s.net.inputs.length := by
      rw [leaves_combOf l g.nel]; exact fun i hi => g.inrange i (List.mem_append_left _ hi)
    have hbr : ∀ i ∈ (combOf r).leaves, i < s.net.inputs.length := by
      rw [leaves_combOf r g.ner]; exact fun i hi => g.inrange i (List.mem_append_right _ hi)
    rcases hc' with hc' | hc'
    · have := (Net.mem_legs_iff_surv s.net _ (combOf l) hdl hbl ix).2 hc'
      have := (Legs.has_iff_mem_keys _ _).2 this
      simp [s', withRm, ha.1] at this
    · have := (Net.mem_legs_iff_surv s.net _ (combOf r) hdr hbr ix).2 hc'
      have := (Legs.has_iff_mem_keys _ _).2 this
      simp [s', withRm, ha.2] at this
  have hleg : (s'.legsOf p).has ix = false := by
    by_contra hc
    have := himp (by simpa using hc)
    rw [hinv] at this; cases this
  rw [hinv] at hF
  rw [hleg] at hS
  simp only [Bool.false_eq_true, if_false, withRm, flopsOf_def, sizeOf_def, s'] at hF hS
  constructor
  · rw [figFlops_congr s.net s.rm _ hmem]; exact hF.symm
  · rw [figSize_congr s.net s.rm _ hmem]; exact hS.symm

theorem fold_restoreInd (s : TS) (ix : Ix) (cs : List (Node × Node × Node))
    (hsame : ∀ e ∈ cs, affected s ix e = false →
      figFlops s.net (s.rm.filter (· != ix)) e.2.1 e.2.2 = figFlops s.net s.rm e.2.1 e.2.2 ∧
      figSize s.net (s.rm.filter (· != ix)) e.1 = figSize s.net s.rm e.1)
    (f w : Int) (z A : List Nat)
    (hz : z.Perm (A ++ cs.map fun e => figSize s.net s.rm e.1)) :
    let step := fun (acc : Int × Int × List Nat) (e : Node × Node × Node) =>
      if affected s ix e then
        (acc.1 - (figFlops s.net s.rm e.2.1 e.2.2 : Nat)
            + (figFlops s.net (s.rm.filter (· != ix)) e.2.1 e.2.2 : Nat),
         acc.2.1 - (figSize s.net s.rm e.1 : Nat) + (figSize s.net (s.rm.filter (· != ix)) e.1 : Nat),
         figSize s.net (s.rm.filter (· != ix)) e.1 :: acc.2.2.erase (figSize s.net s.rm e.1))
      else acc
    let res := cs.foldl step (f, w, z)
    res.1 = f + ((cs.map fun e => figFlops s.net (s.rm.filter (· != ix)) e.2.1 e.2.2).sum : Nat)
              - ((cs.map fun e => figFlops s.net s.rm e.2.1 e.2.2).sum : Nat) ∧
    res.2.1 = w + ((cs.map fun e => figSize s.net (s.rm.filter (· != ix)) e.1).sum : Nat)
              - ((cs.map fun e => figSize s.net s.rm e.1).sum : Nat) ∧
    res.2.2.Perm (A ++ cs.map fun e => figSize s.net (s.rm.filter (· != ix)) e.1) := by
  induction cs generalizing f w z A with
  | nil => simp only [List.foldl_nil, List.map_nil, List.sum_nil]; exact ⟨by simp, by simp, by simpa using hz⟩
  | cons e t ih =>
    simp only [List.foldl_cons]
    simp only [List.map_cons] at hz
    have iht := fun f w z A hz => ih (fun x hx => hsame x (List.mem_cons_of_mem _ hx)) f w z A hz
    by_cases ha : affected s ix e = true
    · simp only [ha, if_true]
      have hz' : (figSize s.net (s.rm.filter (· != ix)) e.1 :: z.erase (figSize s.net s.rm e.1)).Perm
          ((A ++ [figSize s.net (s.rm.filter (· != ix)) e.1]) ++ t.map fun e => figSize s.net s.rm e.1) := by
        have h1 : z.Perm (figSize s.net s.rm e.1 :: (A ++ t.map fun e => figSize s.net s.rm e.1)) :=
          hz.trans List.perm_middle
        have h2 := h1.erase (figSize s.net s.rm e.1)
        rw [List.erase_cons_head] at h2
        refine (List.Perm.cons _ h2).trans ?_
        rw [List.append_assoc]
        exact List.perm_middle.symm
      obtain ⟨h1, h2, h3⟩ := iht _ _ _ _ hz'
      refine ⟨?_, ?_, ?_⟩
      · rw [h1]; simp only [List.map_cons, List.sum_cons]; push_cast; omega
      · rw [h2]; simp only [List.map_cons, List.sum_cons]; push_cast; omega
      · rw [List.append_assoc] at h3; simpa using h3
    · have ha' : affected s ix e = false := by simpa using ha
      obtain ⟨e1, e2⟩ := hsame e List.mem_cons_self ha'
      simp only [ha', Bool.false_eq_true, if_false]
      have hz' : z.Perm ((A ++ [figSize s.net (s.rm.filter (· != ix)) e.1]) ++
          t.map fun e => figSize s.net s.rm e.1) := by
        rw [e2, List.append_assoc]; exact hz
      obtain ⟨h1, h2, h3⟩ := iht f w z _ hz'
      refine ⟨?_, ?_, ?_⟩
      · rw [h1]; simp only [List.map_cons, List.sum_cons]; rw [e1]; push_cast; omega
      · rw [h2]; simp only [List.map_cons, List.sum_cons]; rw [e2]; push_cast; omega
      · rw [List.append_assoc] at h3; simpa using h3

/-- `restore_ind` keeps the tracked totals equal to the from-scratch sums -/
theorem tracked_restoreInd (s s' : TS) (ix : Ix) (hwf : WF s) (ht : Tracked s)
    (h : s.restoreInd ix = some s') : Tracked s' := by
  obtain ⟨hf, hw, hs⟩ := ht
  unfold restoreInd at h
  split at h
  · cases h
  · rename_i hc
    have hin : ix ∈ s.rm := by simpa using hc
    have hfold := fold_restoreInd s ix s.children
      (fun e he ha => unaffected_same s ix hin e (hwf.nodes e he) (hwf.pairs e he) (hwf.union e he)
        hwf.out_nodup hwf.out_in (hwf.sizes_pos ix) ha)
      s.flops s.write s.sizes [] (by simpa [scratchSizes] using hs)
    simp only at h
    cases h
    obtain ⟨h1, h2, h3⟩ := hfold
    refine ⟨?_, ?_, ?_⟩
    · refine h1.trans ?_
      simp only [scratchFlops, flopsOf_def, sizeOf_def] at hf ⊢
      rw [hf]; omega
    · refine h2.trans ?_
      simp only [scratchWrite, flopsOf_def, sizeOf_def] at hw ⊢
      rw [hw]; omega
    · refine h3.trans ?_
      simp only [scratchSizes, flopsOf_def, sizeOf_def]
      simp


/-! ### every reachable state -/

/-- the network-level guards: duplicate-free output whose indices occur in some input, sizes ≥ 1 -/
structure NetOK (n : Net) : Prop where
  out_nodup : n.output.Nodup
  out_in : ∀ ix ∈ n.output, 0 < n.appIn ix
  sizes_pos : ∀ ix, 0 < n.size ix

theorem insertSorted_perm (a : Nat) (l : List Nat) : (insertSorted a l).Perm (a :: l) := by
  induction l with
  | nil => exact List.Perm.refl _
  | cons b t ih =>
    unfold insertSorted
    split
    · exact List.Perm.refl _
    · exact (List.Perm.cons b ih).trans (List.Perm.swap a b t)

theorem mergeNodes_perm (x y : Node) : (mergeNodes x y).Perm (x ++ y) := by
  unfold mergeNodes
  induction x with
  | nil => exact List.Perm.refl _
  | cons a t ih =>
    simp only [List.foldr_cons, List.cons_append]
    exact (insertSorted_perm a _).trans (List.Perm.cons a ih)

theorem orderPair_cases (x y : Node) : orderPair x y = (x, y) ∨ orderPair x y = (y, x) := by
  unfold orderPair
  split
  · split <;> simp
  · split <;> simp

/-- when is a primitive applicable with the real code's own preconditions: a new parent is not
    yet in the tree and its operands are disjoint, non-empty, in-range leaf sets -/
def OpOk (s : TS) : Op → Prop
  | .contract x y => mergeNodes x y ∉ s.children.map (·.1) ∧ GoodPair s x y
  | _ => True

theorem goodPair_swap {s : TS} {x y : Node} (g : GoodPair s x y) : GoodPair s y x :=
  ⟨g.ner, g.nel, (List.perm_append_comm.nodup_iff).1 g.nodup,
   fun i hi => g.inrange i ((List.perm_append_comm.mem_iff).1 hi)⟩

theorem wf_contractPair (s : TS) (x y : Node) (hwf : WF s)
    (hfresh : mergeNodes x y ∉ s.children.map (·.1)) (g : GoodPair s x y) :
    WF (s.contractPair x y) := by
  have hperm := mergeNodes_perm x y
  have hgood : GoodPair s (orderPair x y).1 (orderPair x y).2 ∧
      (mergeNodes x y).Perm ((orderPair x y).1 ++ (orderPair x y).2) := by
    rcases orderPair_cases x y with h | h <;> rw [h]
    · exact ⟨g, hperm⟩
    · exact ⟨goodPair_swap g, hperm.trans List.perm_append_comm⟩
  have hnode : GoodNode s (mergeNodes x y) :=
    ⟨fun c => g.nel (by
        have := hperm.length_eq
        rw [c] at this
        simp at this
        exact List.eq_nil_of_length_eq_zero (by omega)),
     (hperm.nodup_iff).2 g.nodup, fun i hi => g.inrange i ((hperm.mem_iff).1 hi)⟩
  unfold contractPair
  simp only
  rw [setChild_fresh _ _ _ _ hfresh]
  refine ⟨?_, ?_, ?_, ?_, hwf.out_nodup, hwf.out_in, hwf.sizes_pos⟩
  · simp only [List.map_append, List.map_cons, List.map_nil]
    exact List.nodup_append.2 ⟨hwf.keys_nodup, by simp, by
      intro a ha b hb
      simp at hb; subst hb
      intro e; subst e; exact hfresh ha⟩
  · intro e he
    rcases List.mem_append.1 he with h | h
    · exact ⟨(hwf.pairs e h).nel, (hwf.pairs e h).ner, (hwf.pairs e h).nodup, (hwf.pairs e h).inrange⟩
    · simp at h; subst h
      exact ⟨hgood.1.nel, hgood.1.ner, hgood.1.nodup, hgood.1.inrange⟩
  · intro e he
    rcases List.mem_append.1 he with h | h
    · exact ⟨(hwf.nodes e h).ne, (hwf.nodes e h).nodup, (hwf.nodes e h).inrange⟩
    · simp at h; subst h
      exact ⟨hnode.ne, hnode.nodup, hnode.inrange⟩
  · intro e he
    rcases List.mem_append.1 he with h | h
    · exact hwf.union e h
    · simp at h; subst h
      exact hgood.2

theorem wf_of_children_sub (s s' : TS) (hwf : WF s) (hn : s'.net = s.net)
    (hsub : s'.children.Sublist s.children) : WF s' := by
  have hN : s'.N = s.N := by unfold TS.N; rw [hn]
  refine ⟨(hsub.map _).nodup hwf.keys_nodup, ?_, ?_, ?_, hn ▸ hwf.out_nodup, hn ▸ hwf.out_in,
    hn ▸ hwf.sizes_pos⟩
  · intro e he
    have g := hwf.pairs e (hsub.subset he)
    exact ⟨g.nel, g.ner, g.nodup, fun i hi => hN ▸ g.inrange i hi⟩
  · intro e he
    have g := hwf.nodes e (hsub.subset he)
    exact ⟨g.ne, g.nodup, fun i hi => hN ▸ g.inrange i hi⟩
  · intro e he
    exact hwf.union e (hsub.subset he)

theorem wf_step (s : TS) (o : Op) (hwf : WF s) (hok : OpOk s o) : WF (s.step o).1 := by
  cases o with
  | contract x y => exact wf_contractPair s x y hwf hok.1 hok.2
  | remove p =>
    simp only [step]
    cases h : s.removeNode p with
    | none => exact hwf
    | some s' =>
      simp only
      unfold removeNode at h
      split at h
      · cases h
      · cases h
        exact wf_of_children_sub s _ hwf rfl List.filter_sublist
  | removeInd ix pr =>
    simp only [step]
    cases h : s.removeInd ix pr with
    | none => exact hwf
    | some s' =>
      simp only
      unfold TS.removeInd at h
      split at h
      · cases h
      · simp only at h; cases h
        exact wf_of_children_sub s _ hwf rfl (List.Sublist.refl _)
  | restoreInd ix =>
    simp only [step]
    cases h : s.restoreInd ix with
    | none => exact hwf
    | some s' =>
      simp only
      unfold TS.restoreInd at h
      split at h
      · cases h
      · simp only at h; cases h
        exact wf_of_children_sub s _ hwf rfl (List.Sublist.refl _)

theorem tracked_step (s : TS) (o : Op) (hwf : WF s) (ht : Tracked s) (hok : OpOk s o) :
    Tracked (s.step o).1 := by
  cases o with
  | contract x y => exact tracked_contractPair s x y ht hok.1
  | remove p =>
    simp only [step]
    cases h : s.removeNode p with
    | none => exact ht
    | some s' => exact tracked_removeNode s s' p hwf ht h
  | removeInd ix pr =>
    simp only [step]
    cases h : s.removeInd ix pr with
    | none => exact ht
    | some s' => exact tracked_removeInd s s' ix pr hwf ht h
  | restoreInd ix =>
    simp only [step]
    cases h : s.restoreInd ix with
    | none => exact ht
    | some s' => exact tracked_restoreInd s s' ix hwf ht h

/-- states reachable from the empty tree of a network by any word of applicable primitives -/
inductive Reach (n : Net) : TS → Prop
  | init : Reach n (TS.init n)
  | step (s : TS) (o : Op) : Reach n s → OpOk s o → Reach n (s.step o).1

theorem wf_init (n : Net) (h : NetOK n) : WF (TS.init n) :=
  ⟨by simp [TS.init], by simp [TS.init], by simp [TS.init], by simp [TS.init],
   h.out_nodup, h.out_in, h.sizes_pos⟩

/-- **C04, all histories.** After any sequence of the primitive mutators (hence after any
    sequence of the public transformations, which are words over them), the tracked totals are the
    from-scratch sums over the current structure and the current removed indices. -/
theorem reachable_tracked (n : Net) (hn : NetOK n) (s : TS) (hr : Reach n s) : WF s ∧ Tracked s := by
  induction hr with
  | init => exact ⟨wf_init n hn, tracked_init n⟩
  | step s o _ hok ih => exact ⟨wf_step s o ih.1 hok, tracked_step s o ih.1 ih.2 hok⟩

/-- tracked figures are determined by the structure and the *set* of removed indices: two tracked
    states over the same structure (e.g. the live tree and a freshly rebuilt one) report the same
    totals, whatever their histories. -/
theorem tracked_determined (s1 s2 : TS) (h1 : Tracked s1) (h2 : Tracked s2) (hn : s1.net = s2.net)
    (hc : s1.children = s2.children) (hrm : ∀ x, x ∈ s1.rm ↔ x ∈ s2.rm) :
    s1.flops = s2.flops ∧ s1.write = s2.write ∧ s1.sizes.Perm s2.sizes := by
  have ef : s1.scratchFlops = s2.scratchFlops := by
    unfold scratchFlops
    simp only [flopsOf_def, hc, hn]
    congr 2
    apply List.map_congr_left
    intro e _
    exact figFlops_congr s2.net s1.rm s2.rm hrm _ _
  have ew : s1.scratchSizes = s2.scratchSizes := by
    unfold scratchSizes
    simp only [sizeOf_def, hc, hn]
    apply List.map_congr_left
    intro e _
    exact figSize_congr s2.net s1.rm s2.rm hrm _
  refine ⟨by rw [h1.flops, h2.flops, ef], ?_, (h1.sizes.trans (ew ▸ List.Perm.refl _)).trans h2.sizes.symm⟩
  rw [h1.write, h2.write]
  unfold scratchWrite
  unfold scratchSizes at ew
  rw [ew]

/-- slicing (or projecting) an index and restoring it returns every total to the original -/
theorem slice_unslice_id (s s1 s2 : TS) (ix : Ix) (project : Bool) (hwf : WF s) (ht : Tracked s)
    (h1 : s.removeInd ix project = some s1) (h2 : s1.restoreInd ix = some s2) :
    s2.flops = s.flops ∧ s2.write = s.write ∧ s2.sizes.Perm s.sizes := by
  have ht1 := tracked_removeInd s s1 ix project hwf ht h1
  have hs1 : s1.net = s.net ∧ s1.children = s.children ∧ s1.rm = ix :: s.rm ∧ ix ∉ s.rm := by
    unfold TS.removeInd at h1
    split at h1
    · cases h1
    · rename_i hc
      simp only at h1; cases h1
      exact ⟨rfl, rfl, rfl, by simpa using hc⟩
  have hwf1 : WF s1 := wf_of_children_sub s s1 hwf hs1.1 (hs1.2.1 ▸ List.Sublist.refl _)
  have ht2 := tracked_restoreInd s1 s2 ix hwf1 ht1 h2
  have hs2 : s2.net = s1.net ∧ s2.children = s1.children ∧ s2.rm = s1.rm.filter (· != ix) := by
    unfold TS.restoreInd at h2
    split at h2
    · cases h2
    · simp only at h2; cases h2
      exact ⟨rfl, rfl, rfl⟩
  apply tracked_determined s2 s ht2 ht (hs2.1.trans hs1.1) (hs2.2.1.trans hs1.2.1)
  intro x
  rw [hs2.2.2, hs1.2.2.1]
  simp only [List.filter_cons, bne_self_eq_false, Bool.false_eq_true, if_false, List.mem_filter,
    bne_iff_ne, ne_eq]
  constructor
  · exact fun h => h.1
  · intro h
    exact ⟨h, fun e => hs1.2.2.2 (e ▸ h)⟩


/-! ### MaxCounter (utils.py:210), the container behind `_sizes` -/

inductive MCOp where
  | add (x : Nat)
  | discard (x : Nat)

/-- run a sequence of operations -/
def mcRun : MC → List MCOp → MC
  | m, [] => m
  | m, .add x :: t => mcRun (m.add x) t
  | m, .discard x :: t => mcRun (m.discard x) t

/-- the multiset semantics: add = insert, discard = remove one copy if present -/
def specRun : List Nat → List MCOp → List Nat
  | l, [] => l
  | l, .add x :: t => specRun (x :: l) t
  | l, .discard x :: t => specRun (l.erase x) t

theorem mcRun_inv (m0 : MC) (l0 : List Nat) (ops : List MCOp) (hinv : MC.Inv m0)
    (hc : ∀ y, m0.c.get y = l0.count y) :
    MC.Inv (mcRun m0 ops) ∧ ∀ y, (mcRun m0 ops).c.get y = (specRun l0 ops).count y := by
  induction ops generalizing m0 l0 with
  | nil => exact ⟨hinv, hc⟩
  | cons o t ih =>
    cases o with
    | add x =>
      simp only [mcRun, specRun]
      apply ih (m0.add x) (x :: l0) (MC.inv_add m0 x hinv)
      intro y
      rw [MC.get_add_count, hc y, List.count_cons]
      by_cases e : x = y <;> simp [e]
    | discard x =>
      simp only [mcRun, specRun]
      apply ih (m0.discard x) (l0.erase x) (MC.inv_discard m0 x hinv)
      intro y
      rw [MC.get_discard_count m0 x y hinv, hc y]
      by_cases e : x = y
      · subst e
        simp only [if_true]
        rw [List.count_erase_self]
      · simp only [e, if_false, Nat.sub_zero]
        rw [List.count_erase_of_ne (fun c => e c.symm)]

/-- **MaxCounter.** After any sequence of `add`/`discard` the cached maximum is the maximum of the
    multiset of elements added and not yet discarded (`none` = `-inf` iff the multiset is empty), and
    the counter holds exactly that multiset; discarding an absent element is a no-op. -/
theorem maxcounter_inv (ops : List MCOp) :
    (∀ y, (mcRun MC.empty ops).c.get y = (specRun [] ops).count y) ∧
    (match (mcRun MC.empty ops).max with
     | none => specRun [] ops = []
     | some M => M ∈ specRun [] ops ∧ ∀ a ∈ specRun [] ops, a ≤ M) := by
  obtain ⟨hinv, hc⟩ := mcRun_inv MC.empty [] ops MC.inv_empty (by intro y; simp [MC.empty])
  refine ⟨hc, ?_⟩
  generalize mcRun MC.empty ops = m at *
  have hmem : ∀ a, a ∈ Legs.keys m.c ↔ a ∈ specRun [] ops := by
    intro a
    rw [Legs.mem_keys_iff_get_pos m.c hinv.nodup hinv.pos a, hc a, List.count_pos_iff]
  have hm := hinv.ismax
  unfold MC.max
  cases hmx : m.mx with
  | none =>
    rw [hmx] at hm
    simp only [MC.IsMaxOf] at hm
    simp only
    apply List.eq_nil_iff_forall_not_mem.2
    intro a ha
    have := (hmem a).2 ha
    rw [hm] at this; cases this
  | some M =>
    rw [hmx] at hm
    simp only [MC.IsMaxOf] at hm
    simp only
    exact ⟨(hmem M).1 hm.1, fun a ha => hm.2 a ((hmem a).2 ha)⟩

example : mcRun MC.empty [.add 3, .add 3, .add 2, .discard 3, .add 10, .discard 10, .discard 3] =
    { c := [(2, 1)], mx := some 2 } := by decide

/-- a `discard` of an absent element is a no-op (`Counter.__delitem__` does not raise) -/
example : mcRun MC.empty [.add 3, .discard 4] = { c := [(3, 1)], mx := some 3 } := by decide

end Cotengra.C04
