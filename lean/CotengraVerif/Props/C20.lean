import CotengraVerif.Lemmas.Compressed
import CotengraVerif.Props.C18

/-!
# C20 — compressed-contraction estimates equal the exact ones when nothing is truncated

Model (`Model/HyperGraph.lean`): `HG.contract / compress / removeEdge / groupByIncidence /
nodeSize / contractPairCost / neighborhoodSize / neighborhoodCompressCost` (hypergraph.py:123-338),
`Tracker.*` = `CompressedStatsTracker` (scoring.py:339-429), `HG.statsStep / compressedStats` =
the loop of `compressed_contract_stats` (core.py:1079-1123) for both values of `compress_late`.

What is proved here
* `prod_merge`, `compress_preserves_product`, `compress_groups_nodeSize`, `compress_nodeSize`: merging
  groups of parallel edges whose products do not exceed the cap leaves the size of every node
  unchanged — the merged edge gets the product — for one merge, for the loop over disjoint
  groups, and for a whole `compress(chi, edges)` call on consistent dictionaries (the grouping by
  `frozenset(edges[e])` is proved to produce disjoint groups of parallel edges: `groupBy_inv`).
* `capped_le_uncapped_partial`: for caps `c1 ≤ c2` the two runs of `compressed_contract_stats` go
  through the same hypergraph shapes with pointwise smaller sizes; hence `write` and `max_size`
  of the smaller cap never exceed those of the larger one. (`peak_size` is not proved: it needs
  the invariant `total_size = Σ node sizes`; it is checked by the correspondence only.)
* `uncapped_eq_exact_partial`: without compression events (the regime in which nothing is merged)
  the tracker's figures are the exact ones: each contracted node has the tree's size, each step
  the tree's flops (no dangling index on a leaf operand), `write` adds the input sizes,
  `max_size` also ranges over the inputs. Lifting this through `compress` with a large cap needs
  a quotient simulation (merged graph vs. plain graph) that is not formalised; that step is
  covered by `compress_preserves_product` for one merge and by the correspondence.
* `max_size_counts_inputs_counterexample`: the literal reading "compressed max_size = exact
  max_size" fails when an input is larger than every intermediate.
-/
namespace Cotengra.C20
open Cotengra Cotengra.Net Cotengra.Legs Cotengra.HGu

/-! ## merging a multibond keeps products -/

theorem prod_filter_split (sz : Ix → Nat) (L G : List Ix) (hL : L.Nodup) (hG : G.Nodup)
    (hsub : ∀ e ∈ G, e ∈ L) :
    (L.map sz).prod = (G.map sz).prod * ((L.filter (fun x => !G.contains x)).map sz).prod := by
  have hp : L.Perm (G ++ L.filter (fun x => !G.contains x)) := by
    apply (List.perm_ext_iff_of_nodup hL _).2
    · intro x
      simp only [List.mem_append, List.mem_filter, Bool.not_eq_true']
      constructor
      · intro hx
        by_cases hg : x ∈ G
        · exact Or.inl hg
        · exact Or.inr ⟨hx, by simpa using hg⟩
      · rintro (h | h)
        · exact hsub x h
        · exact h.1
    · apply List.nodup_append.2
      refine ⟨hG, hL.filter _, ?_⟩
      intro a ha b hb e
      subst e
      have := (List.mem_filter.1 hb).2
      simp [ha] at this
  rw [(hp.map sz).prod_eq, List.map_append, List.prod_append]

/-- **the merged edge gets the product.** `L` is the index list of a node (or the union of two
    nodes), `keep :: dels` a group of parallel edges: either all of them are in `L` or none is.
    Deleting `dels` from `L` and giving `keep` the product of the group's sizes leaves the product
    over `L` unchanged. -/
theorem prod_merge (sz sz' : Ix → Nat) (L : List Ix) (keep : Ix) (dels : List Ix) (hL : L.Nodup)
    (hg : (keep :: dels).Nodup)
    (hinc : (∀ e ∈ keep :: dels, e ∈ L) ∨ (∀ e ∈ keep :: dels, e ∉ L))
    (hsz' : ∀ x, sz' x = if keep = x then ((keep :: dels).map sz).prod else sz x) :
    ((L.filter (fun x => !dels.contains x)).map sz').prod = (L.map sz).prod := by
  have hkd : keep ∉ dels := (List.nodup_cons.1 hg).1
  rcases hinc with hall | hnone
  · -- the group sits in `L`
    rw [prod_filter_split sz L (keep :: dels) hL hg hall]
    have hL' : (L.filter (fun x => !dels.contains x)).Nodup := hL.filter _
    have hk' : keep ∈ L.filter (fun x => !dels.contains x) :=
      List.mem_filter.2 ⟨hall keep List.mem_cons_self, by simpa using hkd⟩
    rw [prod_filter_split sz' _ [keep] hL' (by simp) (by intro e he; simp at he; subst he; exact hk')]
    have e1 : ([keep].map sz').prod = ((keep :: dels).map sz).prod := by simp [hsz']
    rw [e1]
    congr 1
    have e2 : (L.filter (fun x => !dels.contains x)).filter (fun x => ![keep].contains x) =
        L.filter (fun x => !(keep :: dels).contains x) := by
      rw [List.filter_filter]
      apply List.filter_congr
      intro x _
      by_cases hx : x = keep
      · subst hx; simp
      · simp [hx]
    rw [e2]
    congr 1
    apply List.map_congr_left
    intro x hx
    have : ¬ keep = x := by
      intro e; subst e
      have := (List.mem_filter.1 hx).2
      simp at this
    rw [hsz' x, if_neg this]
  · -- the group does not touch `L`
    have hf : L.filter (fun x => !dels.contains x) = L := by
      apply List.filter_eq_self.2
      intro x hx
      have : x ∉ dels := fun hd => hnone x (List.mem_cons_of_mem _ hd) hx
      simpa using this
    rw [hf]
    congr 1
    apply List.map_congr_left
    intro x hx
    have : ¬ keep = x := fun e => hnone keep List.mem_cons_self (e ▸ hx)
    rw [hsz' x, if_neg this]

theorem get?_map_cond (l : List (Nat × List Ix)) (c : Nat → Bool) (f : List Ix → List Ix) (k : Nat)
    (v : List Ix) (h : AL.get? l k = some v) :
    AL.get? (l.map (fun (p : Nat × List Ix) => if c p.1 then (p.1, f p.2) else (p.1, p.2))) k =
      some (if c k then f v else v) := by
  induction l with
  | nil => cases h
  | cons p tl ih =>
    obtain ⟨k', w⟩ := p
    rw [List.map_cons]
    by_cases hk : k' = k
    · subst hk
      simp only [AL.get?, if_true, Option.some.injEq] at h
      subst h
      by_cases hc : c k' = true
      · rw [if_pos hc, if_pos hc]; simp [AL.get?]
      · rw [if_neg hc, if_neg hc]; simp [AL.get?]
    · simp only [AL.get?, hk, if_false] at h
      by_cases hc : c k' = true
      · rw [if_pos hc]; simp only [AL.get?, hk, if_false]; exact ih h
      · rw [if_neg hc]; simp only [AL.get?, hk, if_false]; exact ih h

/-- what `remove_edge` does to the index tuple of node `k`, when the edge map is consistent for
    the edges involved -/
theorem removeEdges_getNode (dels : List Ix) (h : HG) (k : Nat) (inds : List Ix)
    (hN : AL.get? h.nodes k = some inds)
    (hcons : ∀ e ∈ dels, (k ∈ h.getEdge e ↔ e ∈ inds)) (hnd : dels.Nodup) :
    (dels.foldl HG.removeEdge h).getNode k = inds.filter (fun x => !dels.contains x) := by
  induction dels generalizing h inds with
  | nil =>
    unfold HG.getNode; rw [List.foldl_nil, hN]
    simp
  | cons e t ih =>
    have hnd' := List.nodup_cons.1 hnd
    simp only [List.foldl_cons]
    -- one `remove_edge`
    have hget : AL.get? (h.removeEdge e).nodes k = some (inds.filter (· != e)) := by
      show AL.get? (h.nodes.map _) k = _
      have := get?_map_cond h.nodes (fun x => (h.getEdge e).contains x) (fun l => l.filter (· != e)) k inds hN
      beta_reduce at this
      rw [this]
      by_cases hc : (h.getEdge e).contains k = true
      · rw [if_pos hc]
      · rw [if_neg hc]
        have : e ∉ inds := fun he => hc (by simpa using (hcons e List.mem_cons_self).2 he)
        congr 1
        symm
        apply List.filter_eq_self.2
        intro x hx
        have : x ≠ e := fun e' => this (e' ▸ hx)
        simpa using this
    have hedge : ∀ e' ∈ t, (h.removeEdge e).getEdge e' = h.getEdge e' := by
      intro e' he'
      show (AL.get? (AL.del h.edges e) e').getD [] = _
      rw [AL.get?_del]
      have : ¬ e = e' := fun h' => hnd'.1 (h' ▸ he')
      rw [if_neg this]; rfl
    rw [ih (h.removeEdge e) (inds.filter (· != e)) hget _ hnd'.2]
    · rw [List.filter_filter]
      apply List.filter_congr
      intro x _
      by_cases hx : x = e
      · subst hx; simp
      · simp [hx]
    · intro e' he'
      rw [hedge e' he', hcons e' (List.mem_cons_of_mem _ he'), List.mem_filter]
      have : e' ≠ e := fun h' => hnd'.1 (h' ▸ he')
      simp [this]

/-- **compress_preserves_product.** One iteration of the loop of `HyperGraph.compress`: a group
    `keep :: d :: ds` of parallel edges (all on node `k`, or none) whose combined size is at most
    `chi` is merged into `keep`. The size of node `k` does not change. -/
theorem compress_preserves_product (h : HG) (chi : Nat) (S : List Nat) (keep d : Ix) (ds : List Ix)
    (k : Nat) (inds : List Ix) (hN : AL.get? h.nodes k = some inds) (hnd : inds.Nodup)
    (hg : (keep :: d :: ds).Nodup)
    (hcons : ∀ e ∈ d :: ds, (k ∈ h.getEdge e ↔ e ∈ inds))
    (hinc : (∀ e ∈ keep :: d :: ds, e ∈ inds) ∨ (∀ e ∈ keep :: d :: ds, e ∉ inds))
    (hchi : h.edgesSize (keep :: d :: ds) ≤ chi) :
    (HG.mergeGroup chi h (S, keep :: d :: ds)).nodeSize k = h.nodeSize k := by
  have hgn := removeEdges_getNode (d :: ds) h k inds hN hcons (List.nodup_cons.1 hg).2
  have hes : ∀ (h' : HG) (es : List Ix), h'.edgesSize es = (es.map h'.size).prod := by
    intro h' es; unfold HG.edgesSize; rw [List.prod_eq_foldl]
  unfold HG.nodeSize
  have hnode : (HG.mergeGroup chi h (S, keep :: d :: ds)).getNode k =
      ((d :: ds).foldl HG.removeEdge h).getNode k := rfl
  rw [hnode, hgn, hes, hes]
  have hk : h.getNode k = inds := by unfold HG.getNode; rw [hN]; rfl
  rw [hk]
  apply prod_merge h.size _ inds keep (d :: ds) hnd hg hinc
  intro x
  show (HG.mergeGroup chi h (S, keep :: d :: ds)).size x = _
  have : (HG.mergeGroup chi h (S, keep :: d :: ds)) =
      { ((d :: ds).foldl HG.removeEdge h) with
        sizeDict := AL.set ((d :: ds).foldl HG.removeEdge h).sizeDict keep
          (min (h.edgesSize (keep :: d :: ds)) chi) } := rfl
  rw [this, HG.size_set, HG.removeEdges_size, Nat.min_eq_left hchi, hes]

/-! ## monotonicity in the cap -/

theorem statsStep_le (c1 c2 : Nat) (hc : c1 ≤ c2) (late : Bool) (h1 h2 : HG) (t1 t2 : Tracker)
    (hle : HG.Le h1 h2) (hw : t1.write ≤ t2.write) (hm : t1.maxSize ≤ t2.maxSize) (lr : Nat × Nat)
    (h1' : HG) (t1' : Tracker) (hs : HG.statsStep c1 late (some (h1, t1)) lr = some (h1', t1')) :
    ∃ h2' t2', HG.statsStep c2 late (some (h2, t2)) lr = some (h2', t2') ∧ HG.Le h1' h2' ∧
      t1'.write ≤ t2'.write ∧ t1'.maxSize ≤ t2'.maxSize := by
  obtain ⟨pi, ha, hcon, e1, ew, em⟩ := statsStep_totals c1 late h1 t1 lr h1' t1' hs
  have hpre := HG.le_preHG h1 h2 hle c1 c2 hc late lr.1 lr.2
  obtain ⟨hb, hcon2, hle2⟩ := HG.le_contract _ _ hpre lr.1 lr.2 pi ha hcon
  -- the second run takes the same step
  have hs2 : ∃ t2', HG.statsStep c2 late (some (h2, t2)) lr = some (HG.postHG c2 late hb pi, t2') := by
    unfold HG.statsStep
    simp only [hcon2]
    exact ⟨_, rfl⟩
  obtain ⟨t2', hs2⟩ := hs2
  obtain ⟨pi', hb', hcon2', e2, ew2, em2⟩ := statsStep_totals c2 late h2 t2 lr _ t2' hs2
  rw [hcon2] at hcon2'
  simp only [Option.some.injEq, Prod.mk.injEq] at hcon2'
  obtain ⟨rfl, rfl⟩ := hcon2'
  have hsz := HG.nodeSize_le ha hb hle2 pi
  refine ⟨_, t2', hs2, ?_, ?_, ?_⟩
  · rw [e1]; exact HG.le_postHG ha hb hle2 c1 c2 hc late pi
  · rw [ew, ew2]; omega
  · rw [em, em2]; omega

theorem foldl_statsStep_none (chi : Nat) (late : Bool) (path : List (Nat × Nat)) :
    path.foldl (HG.statsStep chi late) none = none := by
  induction path with
  | nil => rfl
  | cons a t ih => simp only [List.foldl_cons, HG.statsStep, ih]

/-- **capped_le_uncapped_partial.** For caps `c1 ≤ c2` (in particular any cap against the
    uncapped run), if `compressed_contract_stats` with `c1` returns, so does the run with `c2`, and
    `write` and `max_size` of the former do not exceed those of the latter. (Full statement also
    claims `peak_size`; not proved, see the header.) -/
theorem capped_le_uncapped_partial (inputs : List (List Ix)) (output : List Ix) (sizes : List (Ix × Nat))
    (late : Bool) (path : List (Nat × Nat)) (c1 c2 : Nat) (hc : c1 ≤ c2) (h1 : HG) (t1 : Tracker)
    (hr : HG.compressedStats inputs output sizes c1 late path = some (h1, t1)) :
    ∃ h2 t2, HG.compressedStats inputs output sizes c2 late path = some (h2, t2) ∧
      t1.write ≤ t2.write ∧ t1.maxSize ≤ t2.maxSize := by
  unfold HG.compressedStats at hr ⊢
  simp only at hr ⊢
  have key : ∀ (path : List (Nat × Nat)) (a b : HG) (ta tb : Tracker), HG.Le a b → ta.write ≤ tb.write →
      ta.maxSize ≤ tb.maxSize → ∀ h1 t1, path.foldl (HG.statsStep c1 late) (some (a, ta)) = some (h1, t1) →
      ∃ h2 t2, path.foldl (HG.statsStep c2 late) (some (b, tb)) = some (h2, t2) ∧
        t1.write ≤ t2.write ∧ t1.maxSize ≤ t2.maxSize := by
    intro path
    induction path with
    | nil =>
      intro a b ta tb _ hw hm h1 t1 hr
      simp only [List.foldl_nil, Option.some.injEq, Prod.mk.injEq] at hr
      obtain ⟨_, rfl⟩ := hr
      exact ⟨b, tb, rfl, hw, hm⟩
    | cons lr rest ih =>
      intro a b ta tb hle hw hm h1 t1 hr
      simp only [List.foldl_cons] at hr ⊢
      cases hs : HG.statsStep c1 late (some (a, ta)) lr with
      | none => rw [hs, foldl_statsStep_none] at hr; cases hr
      | some p =>
        obtain ⟨a', ta'⟩ := p
        obtain ⟨b', tb', hs2, hle', hw', hm'⟩ := statsStep_le c1 c2 hc late a b ta tb hle hw hm lr a' ta' hs
        rw [hs] at hr
        rw [hs2]
        exact ih a' b' ta' tb' hle' hw' hm' h1 t1 hr
  exact key path _ _ (Tracker.init _ c1) (Tracker.init _ c2) (HG.le_refl _) (Nat.le_refl _)
    (Nat.le_refl _) h1 t1 hr

/-! ## without truncation the tracker is exact, step by step -/

/-- the initial tracker: `write = peak = total = Σ input sizes`, `max_size` = the largest input —
    the inputs are counted (scoring.py:366-375) -/
theorem init_counts_inputs (h : HG) (chi : Nat) :
    (Tracker.init h chi).write = (h.nodes.map fun kv => h.nodeSize kv.1).sum ∧
    (Tracker.init h chi).maxSize = (h.nodes.map fun kv => h.nodeSize kv.1).foldl max 0 ∧
    (Tracker.init h chi).flops = 0 := ⟨rfl, rfl, rfl⟩

/-- **uncapped_eq_exact_partial.** Let the hypergraph `h` (with forest `F`) be reached from the
    network (no repeated indices) by plain contractions, and let one step of
    `compressed_contract_stats` contract the nodes standing for the sub-trees `a`, `b` while its
    compression branches change nothing (`hpre`, `hpost`: nothing to merge — the regime "cap at
    least every bond" after `compress_preserves_product`). Then that step adds to `write`, and maxes
    into `max_size`, exactly the tree's size of `node a b`; the state is again reached by plain
    contractions; and, when no QR term arises and neither operand is an input with a dangling
    index, it adds exactly the tree's flops of the step.
    Together with `init_counts_inputs`: `write = Σ input sizes + Σ get_size`, `max_size =
    max(largest input, largest intermediate)`, `flops = Σ get_flops`.
    Not proved (hence `_partial`): that `compress` with a large cap acts as the identity on all
    later sizes and costs when it *does* merge edges (only the single merge is proved above). -/
theorem uncapped_eq_exact_partial (n : Net) (hnr : NoRepeat n) (path0 : List (Nat × Nat)) (h : HG)
    (F : Forest) (hrun : C18.hgRun n path0 = some (h, F)) (chi : Nat) (late : Bool) (tr : Tracker)
    (i j : Nat) (hij : i ≠ j) (a b : BT) (ha : AL.get? F i = some a) (hb : AL.get? F j = some b)
    (hpre : HG.preHG chi late h i j = h)
    (h' : HG) (tr' : Tracker) (hs : HG.statsStep chi late (some (h, tr)) (i, j) = some (h', tr'))
    (hpost : ∀ pi h2, h.contract i j = some (pi, h2) → HG.postHG chi late h2 pi = h2) :
    tr'.write = tr.write + n.nodeSize [] (.node a b) ∧
    tr'.maxSize = max tr.maxSize (n.nodeSize [] (.node a b)) ∧
    (∃ F', C18.hgRun n (path0 ++ [(i, j)]) = some (h', F')) ∧
    ((∀ x, a = .leaf x → C18.NoDanglingAt n x) → (∀ x, b = .leaf x → C18.NoDanglingAt n x) →
      (late = true → h.neighborhoodCompressCost tr.chi [i, j] = 0) →
      (late = false → ∀ pi h2, h.contract i j = some (pi, h2) → h2.neighborhoodCompressCost tr.chi [pi] = 0) →
      tr'.flops = tr.flops + n.nodeFlops [] (.node a b)) := by
  have inv := runPath_inv n hnr path0 _ _ h F (inv_init n hnr) hrun
  obtain ⟨pi, h2, hcon, e1, ew, em⟩ := statsStep_totals chi late h tr (i, j) h' tr' hs
  simp only at hcon
  rw [hpre] at hcon
  obtain ⟨h2', F', hc2, hf2, inv2, hFnew, _⟩ := inv_step n hnr h F i j hij inv a b ha hb
  rw [hc2] at hcon
  simp only [Option.some.injEq, Prod.mk.injEq] at hcon
  obtain ⟨rfl, rfl⟩ := hcon
  have hh' : h' = h2' := by rw [e1]; exact hpost _ _ hc2
  -- the extended plain run
  have hrun' : C18.hgRun n (path0 ++ [(i, j)]) = some (h2', F') := by
    unfold C18.hgRun at hrun ⊢
    rw [runPath_append, hrun]
    simp only [Option.bind_some, runPath, hij, if_false, hc2, hf2]
  have hNnew : AL.has h2'.nodes h.nextCand = true := by
    rw [← inv2.dom]; exact (AL.has_iff _ _).2 ⟨_, hFnew⟩
  obtain ⟨inds, hinds⟩ := (AL.has_iff _ _).1 hNnew
  have hsz := (C18.hg_contract_legs n hnr _ h2' F' hrun' h.nextCand a b inds hFnew hinds).2.2.2
  refine ⟨by rw [ew, hsz], by rw [em, hsz], ⟨F', by rw [hh']; exact hrun'⟩, ?_⟩
  intro hda hdb hq1 hq2
  have hfl := statsStep_flops chi late h tr (i, j) h' tr' hs h.nextCand h2' (by simp only; rw [hpre]; exact hc2)
  simp only at hfl
  rw [hpre] at hfl
  rw [hfl, C18.hg_cost_eq_tree_partial n hnr path0 h F hrun i j a b hij ha hb hda hdb]
  cases late
  · simp [hq2 rfl _ _ hc2]
  · simp [hq1 rfl]

/-! ## the compressed tracker counts the inputs -/

def bigInputNet : Net := { inputs := [[0, 1, 2], [2]], output := [], sizes := [(0, 2), (1, 2), (2, 2)] }

/-- **max_size_counts_inputs_counterexample**: on `abc,c->` with all dimensions 2 and an
    unbounded cap the compressed tracker reports `max_size = 8` (the input `abc`) and
    `write = 8 + 2 + 1`, whereas the exact tree has `max_size = 1`, `write = 1`: the compressed
    `max_size` is `max(largest intermediate, largest input)`. (Known finding, replayed by the
    harness.) -/
theorem max_size_counts_inputs_counterexample :
    ((HG.compressedStats bigInputNet.inputs bigInputNet.output bigInputNet.sizes 1000 false [(0, 1)]).map
      fun st => (st.2.maxSize, st.2.write, st.2.flops)) = some (8, 11, 8) ∧
    (bigInputNet.stats [] [] (.node (.leaf 0) (.leaf 1))).size = 1 ∧
    (bigInputNet.stats [] [] (.node (.leaf 0) (.leaf 1))).write = 1 := by
  decide

end Cotengra.C20

namespace Cotengra.C20
open Cotengra Cotengra.Net Cotengra.Legs Cotengra.HGu

/-! ## the whole loop of `compress` -/

theorem removeEdges_getEdge (dels : List Ix) (h : HG) (e : Ix) (he : e ∉ dels) :
    (dels.foldl HG.removeEdge h).getEdge e = h.getEdge e := by
  induction dels generalizing h with
  | nil => rfl
  | cons d t ih =>
    simp only [List.foldl_cons]
    have hne : ¬ d = e := fun e' => he (e' ▸ List.mem_cons_self)
    rw [ih _ (fun hm => he (List.mem_cons_of_mem _ hm))]
    show (AL.get? (AL.del h.edges d) e).getD [] = _
    rw [AL.get?_del, if_neg hne]; rfl

theorem removeEdges_get? (dels : List Ix) (h : HG) (k : Nat) (inds : List Ix)
    (hN : AL.get? h.nodes k = some inds)
    (hcons : ∀ e ∈ dels, (k ∈ h.getEdge e ↔ e ∈ inds)) (hnd : dels.Nodup) :
    AL.get? (dels.foldl HG.removeEdge h).nodes k = some (inds.filter (fun x => !dels.contains x)) := by
  have hg := removeEdges_getNode dels h k inds hN hcons hnd
  -- the key stays present: `remove_edge` maps over the node dictionary
  have hpres : ∀ (dels : List Ix) (h : HG), AL.has h.nodes k = true →
      AL.has (dels.foldl HG.removeEdge h).nodes k = true := by
    intro dels
    induction dels with
    | nil => intro h hh; exact hh
    | cons d t ih =>
      intro h hh
      simp only [List.foldl_cons]
      apply ih
      obtain ⟨v, hv⟩ := (AL.has_iff _ _).1 hh
      have := get?_map_cond h.nodes (fun x => (h.getEdge d).contains x) (fun l => l.filter (· != d)) k v hv
      exact (AL.has_iff _ _).2 ⟨_, this⟩
  obtain ⟨v, hv⟩ := (AL.has_iff _ _).1 (hpres dels h ((AL.has_iff _ _).2 ⟨inds, hN⟩))
  unfold HG.getNode at hg
  rw [hv] at hg
  rw [hv]; exact congrArg some hg

theorem mergeGroup_none (chi : Nat) (h : HG) (g : List Nat × List Ix) (k : Nat)
    (hN : AL.get? h.nodes k = none) : AL.get? (HG.mergeGroup chi h g).nodes k = none := by
  have hpres : ∀ (dels : List Ix) (h : HG), AL.get? h.nodes k = none →
      AL.get? (dels.foldl HG.removeEdge h).nodes k = none := by
    intro dels
    induction dels with
    | nil => intro h hh; exact hh
    | cons d t ih =>
      intro h hh
      simp only [List.foldl_cons]
      apply ih
      show AL.get? (h.nodes.map _) k = none
      have : ∀ (l : List (Nat × List Ix)), AL.get? l k = none →
          AL.get? (l.map (fun (p : Nat × List Ix) =>
            if (h.getEdge d).contains p.1 then (p.1, p.2.filter (· != d)) else (p.1, p.2))) k = none := by
        intro l
        induction l with
        | nil => intro _; rfl
        | cons p tl ihl =>
          intro hl
          obtain ⟨k', w⟩ := p
          by_cases hk : k' = k
          · subst hk; simp [AL.get?] at hl
          · simp only [AL.get?, hk, if_false] at hl
            rw [List.map_cons]
            by_cases hc : (h.getEdge d).contains k' = true
            · rw [if_pos hc]; simp only [AL.get?, hk, if_false]; exact ihl hl
            · rw [if_neg hc]; simp only [AL.get?, hk, if_false]; exact ihl hl
      exact this h.nodes hh
  unfold HG.mergeGroup
  split
  · exact hpres _ h hN
  · exact hN

/-- what the loop needs to know about node `k` and the groups still to be merged -/
structure Loc (h : HG) (gs : List (List Nat × List Ix)) (k : Nat) (inds : List Ix) : Prop where
  node : AL.get? h.nodes k = some inds
  nd : inds.Nodup
  inc : ∀ g ∈ gs, ∀ e ∈ g.2, (k ∈ h.getEdge e ↔ e ∈ inds)
  par : ∀ g ∈ gs, ∀ e ∈ g.2, ∀ e' ∈ g.2, (k ∈ h.getEdge e ↔ k ∈ h.getEdge e')
  disj : (gs.flatMap (·.2)).Nodup

/-- **compress_groups_nodeSize.** The loop of `HyperGraph.compress` over groups of parallel
    edges (pairwise disjoint, every group's product at most `chi`): the size of every node is the
    same afterwards. -/
theorem compress_groups_nodeSize (chi : Nat) (gs : List (List Nat × List Ix)) (h : HG) (k : Nat)
    (inds : List Ix) (loc : Loc h gs k inds) (hbig : ∀ g ∈ gs, h.edgesSize g.2 ≤ chi) :
    (gs.foldl (HG.mergeGroup chi) h).nodeSize k = h.nodeSize k := by
  induction gs generalizing h inds with
  | nil => rfl
  | cons g rest ih =>
    simp only [List.foldl_cons]
    have hdis := loc.disj
    simp only [List.flatMap_cons] at hdis
    have hgnd : g.2.Nodup := (List.nodup_append.1 hdis).1
    have hrestnd : (rest.flatMap (·.2)).Nodup := (List.nodup_append.1 hdis).2.1
    have hsep : ∀ e ∈ g.2, e ∉ rest.flatMap (·.2) := fun e he hm => (List.nodup_append.1 hdis).2.2 e he e hm rfl
    obtain ⟨S, es⟩ := g
    -- groups of fewer than two edges are skipped
    match es, hgnd, hsep, loc, hbig with
    | [], _, _, loc, hbig =>
      exact ih h inds ⟨loc.node, loc.nd, fun g hg => loc.inc g (List.mem_cons_of_mem _ hg),
        fun g hg => loc.par g (List.mem_cons_of_mem _ hg), hrestnd⟩ (fun g hg => hbig g (List.mem_cons_of_mem _ hg))
    | [_], _, _, loc, hbig =>
      exact ih h inds ⟨loc.node, loc.nd, fun g hg => loc.inc g (List.mem_cons_of_mem _ hg),
        fun g hg => loc.par g (List.mem_cons_of_mem _ hg), hrestnd⟩ (fun g hg => hbig g (List.mem_cons_of_mem _ hg))
    | keep :: d :: ds, hgnd, hsep, loc, hbig =>
      have hmem : (S, keep :: d :: ds) ∈ (S, keep :: d :: ds) :: rest := List.mem_cons_self
      have hcons : ∀ e ∈ d :: ds, (k ∈ h.getEdge e ↔ e ∈ inds) :=
        fun e he => loc.inc _ hmem e (List.mem_cons_of_mem _ he)
      have hinc : (∀ e ∈ keep :: d :: ds, e ∈ inds) ∨ (∀ e ∈ keep :: d :: ds, e ∉ inds) := by
        by_cases hk : keep ∈ inds
        · left; intro e he
          exact (loc.inc _ hmem e he).1 ((loc.par _ hmem keep List.mem_cons_self e he).1
            ((loc.inc _ hmem keep List.mem_cons_self).2 hk))
        · right; intro e he hin
          exact hk ((loc.inc _ hmem keep List.mem_cons_self).1
            ((loc.par _ hmem e he keep List.mem_cons_self).1 ((loc.inc _ hmem e he).2 hin)))
      have hstep := compress_preserves_product h chi S keep d ds k inds loc.node loc.nd hgnd hcons hinc
        (hbig _ hmem)
      -- the state after this merge, as seen by the remaining groups
      have hdnd : (d :: ds).Nodup := (List.nodup_cons.1 hgnd).2
      have hnode' : AL.get? (HG.mergeGroup chi h (S, keep :: d :: ds)).nodes k =
          some (inds.filter (fun x => !(d :: ds).contains x)) :=
        removeEdges_get? (d :: ds) h k inds loc.node hcons hdnd
      have hedge' : ∀ e, e ∉ d :: ds → (HG.mergeGroup chi h (S, keep :: d :: ds)).getEdge e = h.getEdge e :=
        fun e he => removeEdges_getEdge (d :: ds) h e he
      have hnotin : ∀ g ∈ rest, ∀ e ∈ g.2, e ∉ keep :: d :: ds := by
        intro g hg e he hm
        exact hsep e hm (List.mem_flatMap.2 ⟨g, hg, he⟩)
      have loc' : Loc (HG.mergeGroup chi h (S, keep :: d :: ds)) rest k
          (inds.filter (fun x => !(d :: ds).contains x)) := by
        refine ⟨hnode', loc.nd.filter _, ?_, ?_, hrestnd⟩
        · intro g hg e he
          have hne := hnotin g hg e he
          have hne' : e ∉ d :: ds := fun hm => hne (List.mem_cons_of_mem _ hm)
          rw [hedge' e hne', loc.inc g (List.mem_cons_of_mem _ hg) e he, List.mem_filter]
          constructor
          · intro hi; exact ⟨hi, by simpa using hne'⟩
          · exact fun hi => hi.1
        · intro g hg e he e' he'
          have hne1 : e ∉ d :: ds := fun hm => hnotin g hg e he (List.mem_cons_of_mem _ hm)
          have hne2 : e' ∉ d :: ds := fun hm => hnotin g hg e' he' (List.mem_cons_of_mem _ hm)
          rw [hedge' e hne1, hedge' e' hne2]
          exact loc.par g (List.mem_cons_of_mem _ hg) e he e' he'
      have hbig' : ∀ g ∈ rest, (HG.mergeGroup chi h (S, keep :: d :: ds)).edgesSize g.2 ≤ chi := by
        intro g hg
        have : (HG.mergeGroup chi h (S, keep :: d :: ds)).edgesSize g.2 = h.edgesSize g.2 := by
          unfold HG.edgesSize
          congr 1
          apply List.map_congr_left
          intro e he
          have hne : ¬ keep = e := fun e' => hnotin g hg e he (e' ▸ List.mem_cons_self)
          show (HG.mergeGroup chi h (S, keep :: d :: ds)).size e = h.size e
          have hm : (HG.mergeGroup chi h (S, keep :: d :: ds)) =
              { ((d :: ds).foldl HG.removeEdge h) with
                sizeDict := AL.set ((d :: ds).foldl HG.removeEdge h).sizeDict keep
                  (min (h.edgesSize (keep :: d :: ds)) chi) } := rfl
          rw [hm, HG.size_set, if_neg hne, HG.removeEdges_size]
        rw [this]; exact hbig g (List.mem_cons_of_mem _ hg)
      rw [ih _ _ loc' hbig', hstep]

end Cotengra.C20

namespace Cotengra.C20
open Cotengra Cotengra.Net Cotengra.Legs Cotengra.HGu

/-! ## the grouping of `compress` -/

theorem mem_insertSorted (x y : Nat) (l : List Nat) : y ∈ insertSorted x l ↔ (y = x ∨ y ∈ l) := by
  induction l with
  | nil => simp [insertSorted]
  | cons a t ih =>
    unfold insertSorted
    split
    · simp
    · split
      · rename_i h; subst h; simp
      · simp only [List.mem_cons, ih]
        constructor
        · rintro (h | h | h)
          · exact Or.inr (Or.inl h)
          · exact Or.inl h
          · exact Or.inr (Or.inr h)
        · rintro (h | h | h)
          · exact Or.inr (Or.inl h)
          · exact Or.inl h
          · exact Or.inr (Or.inr h)

theorem mem_toSet (l : List Nat) (y : Nat) : y ∈ toSet l ↔ y ∈ l := by
  unfold toSet
  have : ∀ acc : List Nat, y ∈ l.foldl (fun acc x => insertSorted x acc) acc ↔ (y ∈ l ∨ y ∈ acc) := by
    induction l with
    | nil => intro acc; simp
    | cons a t ih =>
      intro acc
      simp only [List.foldl_cons, ih, mem_insertSorted, List.mem_cons]
      constructor
      · rintro (h | h | h)
        · exact Or.inl (Or.inr h)
        · exact Or.inl (Or.inl h)
        · exact Or.inr h
      · rintro ((h | h) | h)
        · exact Or.inr (Or.inl h)
        · exact Or.inl h
        · exact Or.inr (Or.inr h)
  simpa using this []

/-- one iteration of the grouping loop (hypergraph.py:289-293) -/
def gstep (h : HG) (acc : List (List Nat × List Ix)) (e : Ix) : List (List Nat × List Ix) :=
  if h.output.contains e then acc else
  let key := toSet (h.getEdge e)
  if acc.any (fun g => g.1 == key) then
    acc.map (fun g => if g.1 == key then (g.1, g.2 ++ [e]) else g)
  else acc ++ [(key, [e])]

theorem groupByIncidence_eq (h : HG) (es : List Ix) : h.groupByIncidence es = es.foldl (gstep h) [] := rfl

structure GInv (h : HG) (acc : List (List Nat × List Ix)) (P : List Ix) : Prop where
  key : ∀ g ∈ acc, ∀ x ∈ g.2, toSet (h.getEdge x) = g.1 ∧ x ∈ P
  disj : (acc.flatMap (·.2)).Nodup
  keys : (acc.map (·.1)).Nodup

theorem map_append_mem (acc : List (List Nat × List Ix)) (key : List Nat) (e : Ix) (x : Ix) :
    x ∈ (acc.map (fun g => if g.1 == key then (g.1, g.2 ++ [e]) else g)).flatMap (·.2) →
      x = e ∨ x ∈ acc.flatMap (·.2) := by
  intro hx
  obtain ⟨g', hg', hxg⟩ := List.mem_flatMap.1 hx
  obtain ⟨g, hg, rfl⟩ := List.mem_map.1 hg'
  by_cases hk : (g.1 == key) = true
  · rw [if_pos hk] at hxg
    rcases List.mem_append.1 hxg with h1 | h1
    · exact Or.inr (List.mem_flatMap.2 ⟨g, hg, h1⟩)
    · simp only [List.mem_singleton] at h1; exact Or.inl h1
  · rw [if_neg hk] at hxg
    exact Or.inr (List.mem_flatMap.2 ⟨g, hg, hxg⟩)

theorem map_append_nodup (acc : List (List Nat × List Ix)) (key : List Nat) (e : Ix)
    (hd : (acc.flatMap (·.2)).Nodup) (hk : (acc.map (·.1)).Nodup) (he : e ∉ acc.flatMap (·.2)) :
    ((acc.map (fun g => if g.1 == key then (g.1, g.2 ++ [e]) else g)).flatMap (·.2)).Nodup := by
  induction acc with
  | nil => simp
  | cons g t ih =>
    simp only [List.flatMap_cons] at hd he
    have hdg := (List.nodup_append.1 hd)
    have hkt := List.nodup_cons.1 hk
    have het : e ∉ t.flatMap (·.2) := fun hm => he (List.mem_append_right _ hm)
    have heg : e ∉ g.2 := fun hm => he (List.mem_append_left _ hm)
    rw [List.map_cons, List.flatMap_cons]
    by_cases hkey : (g.1 == key) = true
    · rw [if_pos hkey]
      -- no other group has this key: the tail is unchanged
      have htail : t.map (fun g => if g.1 == key then (g.1, g.2 ++ [e]) else g) = t := by
        have : ∀ g' ∈ t, (fun g : List Nat × List Ix => if g.1 == key then (g.1, g.2 ++ [e]) else g) g' = id g' := by
          intro g' hg'
          have hne : ¬ (g'.1 == key) = true := by
            intro h'
            have e1 : g'.1 = key := by simpa using h'
            have e2 : g.1 = key := by simpa using hkey
            exact hkt.1 (List.mem_map.2 ⟨g', hg', by show g'.1 = g.1; rw [e1, e2]⟩)
          simp [hne]
        rw [List.map_congr_left this, List.map_id]
      rw [htail]
      apply List.nodup_append.2
      refine ⟨?_, hdg.2.1, ?_⟩
      · exact List.nodup_append.2 ⟨hdg.1, by simp, fun a ha b hb e' => by
          simp only [List.mem_singleton] at hb; subst hb; subst e'; exact heg ha⟩
      · intro a ha b hb e'
        subst e'
        rcases List.mem_append.1 ha with h1 | h1
        · exact hdg.2.2 a h1 a hb rfl
        · simp only [List.mem_singleton] at h1; subst h1; exact het hb
    · rw [if_neg hkey]
      apply List.nodup_append.2
      refine ⟨hdg.1, ih hdg.2.1 hkt.2 het, ?_⟩
      intro a ha b hb e'
      subst e'
      rcases map_append_mem t key e a hb with h1 | h1
      · subst h1; exact heg ha
      · exact hdg.2.2 a ha a h1 rfl

theorem gstep_inv (h : HG) (acc : List (List Nat × List Ix)) (P : List Ix) (e : Ix) (inv : GInv h acc P)
    (he : e ∉ P) : GInv h (gstep h acc e) (e :: P) := by
  have hmono : ∀ g ∈ acc, ∀ x ∈ g.2, toSet (h.getEdge x) = g.1 ∧ x ∈ e :: P :=
    fun g hg x hx => ⟨(inv.key g hg x hx).1, List.mem_cons_of_mem _ (inv.key g hg x hx).2⟩
  have heacc : e ∉ acc.flatMap (·.2) := by
    intro hm
    obtain ⟨g, hg, hx⟩ := List.mem_flatMap.1 hm
    exact he (inv.key g hg e hx).2
  unfold gstep
  split
  · exact ⟨hmono, inv.disj, inv.keys⟩
  · simp only
    split
    · refine ⟨?_, map_append_nodup acc _ e inv.disj inv.keys heacc, ?_⟩
      · intro g' hg' x hx
        obtain ⟨g, hg, rfl⟩ := List.mem_map.1 hg'
        by_cases hk : (g.1 == toSet (h.getEdge e)) = true
        · rw [if_pos hk] at hx ⊢
          rcases List.mem_append.1 hx with h1 | h1
          · exact hmono g hg x h1
          · simp only [List.mem_singleton] at h1
            subst h1
            exact ⟨by simpa using (by simpa using hk : g.1 = toSet (h.getEdge x)).symm, List.mem_cons_self⟩
        · rw [if_neg hk] at hx ⊢
          exact hmono g hg x hx
      · have : (acc.map (fun g => if g.1 == toSet (h.getEdge e) then (g.1, g.2 ++ [e]) else g)).map (·.1) =
            acc.map (·.1) := by
          rw [List.map_map]
          apply List.map_congr_left
          intro g _
          simp only [Function.comp]
          split <;> rfl
        rw [this]; exact inv.keys
    · rename_i hany
      refine ⟨?_, ?_, ?_⟩
      · intro g hg x hx
        rcases List.mem_append.1 hg with h1 | h1
        · exact hmono g h1 x hx
        · simp only [List.mem_singleton] at h1
          subst h1
          simp only [List.mem_singleton] at hx
          subst hx
          exact ⟨rfl, List.mem_cons_self⟩
      · rw [List.flatMap_append]
        apply List.nodup_append.2
        refine ⟨inv.disj, by simp, ?_⟩
        intro a ha b hb e'
        simp at hb
        subst hb; subst e'
        exact heacc ha
      · rw [List.map_append]
        apply List.nodup_append.2
        refine ⟨inv.keys, by simp, ?_⟩
        intro a ha b hb e'
        simp at hb
        subst hb; subst e'
        apply hany
        obtain ⟨g, hg, hge⟩ := List.mem_map.1 ha
        exact List.any_eq_true.2 ⟨g, hg, by simpa using hge⟩

theorem groupBy_inv (h : HG) (es : List Ix) (hnd : es.Nodup) :
    (∀ g ∈ h.groupByIncidence es, ∀ x ∈ g.2, toSet (h.getEdge x) = g.1) ∧
    ((h.groupByIncidence es).flatMap (·.2)).Nodup := by
  rw [groupByIncidence_eq]
  have : ∀ (es : List Ix) (acc : List (List Nat × List Ix)) (P : List Ix), es.Nodup → (∀ x ∈ es, x ∉ P) →
      GInv h acc P → ∃ P', GInv h (es.foldl (gstep h) acc) P' := by
    intro es
    induction es with
    | nil => intro acc P _ _ inv; exact ⟨P, inv⟩
    | cons e t ih =>
      intro acc P hnd hP inv
      have hnd' := List.nodup_cons.1 hnd
      simp only [List.foldl_cons]
      apply ih (gstep h acc e) (e :: P) hnd'.2
      · intro x hx hm
        rcases List.mem_cons.1 hm with e' | e'
        · subst e'; exact hnd'.1 hx
        · exact hP x (List.mem_cons_of_mem _ hx) e'
      · exact gstep_inv h acc P e inv (hP e List.mem_cons_self)
  have inv0 : GInv h [] [] := ⟨(fun _ hg => by cases hg), List.nodup_nil, List.nodup_nil⟩
  obtain ⟨P', inv⟩ := this es [] [] hnd (fun _ _ hm => by cases hm) inv0
  exact ⟨fun g hg x hx => (inv.key g hg x hx).1, inv.disj⟩

/-- **compress_nodeSize** (the full `compress_preserves_product` for sizes). On a consistent
    hypergraph, `compress(chi, edges)` with `chi` at least the product of every group of parallel
    edges it finds leaves `node_size(k)` unchanged for every node `k`. -/
theorem compress_nodeSize (h : HG) (hc : HG.Cons h) (chi : Nat) (es : List Ix)
    (hbig : ∀ g ∈ h.groupByIncidence (dedup es), h.edgesSize g.2 ≤ chi) (k : Nat) :
    (h.compress chi es).nodeSize k = h.nodeSize k := by
  rw [HG.compress_eq]
  obtain ⟨hkey, hdis⟩ := groupBy_inv h (dedup es) (HG.nodup_dedup es)
  cases hN : AL.get? h.nodes k with
  | none =>
    -- not a node: both sides are the empty product
    have : ∀ (gs : List (List Nat × List Ix)) (h : HG), AL.get? h.nodes k = none →
        AL.get? (gs.foldl (HG.mergeGroup chi) h).nodes k = none := by
      intro gs
      induction gs with
      | nil => intro h hh; exact hh
      | cons g t ih => intro h hh; simp only [List.foldl_cons]; exact ih _ (mergeGroup_none chi h g k hh)
    unfold HG.nodeSize HG.getNode
    rw [this _ h hN, hN]
    rfl
  | some inds =>
    apply compress_groups_nodeSize chi _ h k inds _ hbig
    refine ⟨hN, hc.nd k inds hN, ?_, ?_, hdis⟩
    · intro g _ e _
      rw [hc.mem e k]
      constructor
      · rintro ⟨inds', h1, h2⟩; rw [hN] at h1; injection h1 with h1; subst h1; exact h2
      · intro h2; exact ⟨inds, hN, h2⟩
    · intro g hg e he e' he'
      have h1 := hkey g hg e he
      have h2 := hkey g hg e' he'
      rw [← mem_toSet (h.getEdge e) k, ← mem_toSet (h.getEdge e') k, h1, h2]

end Cotengra.C20

namespace Cotengra.C20
open Cotengra Cotengra.HGu

/-! ## non-vacuity -/

/-- `abc,bcd,da->` : the bonds `b,c` between tensors 0 and 1 are parallel; after the first
    contraction `a,d` become parallel (merged by the early compression) -/
def mbNet : Net := { inputs := [[0, 1, 2], [1, 2, 3], [3, 0]], output := [], sizes := [(0, 2), (1, 2), (2, 2), (3, 2)] }

/-- uncapped run (early compression): write = 20 (inputs) + 4 + 1, max_size = 8 (an input) -/
example : ((HG.compressedStats mbNet.inputs mbNet.output mbNet.sizes 1000 false [(0, 1), (3, 2)]).map
    fun st => (st.2.write, st.2.maxSize, st.2.flops, st.2.peakSize)) = some (25, 8, 20, 20) := by decide
/-- the early compression after step 1 merged `a,d` into `a` with size 4 -/
example : ((HG.compressedStats mbNet.inputs mbNet.output mbNet.sizes 1000 false [(0, 1)]).map
    fun st => (st.1.nodes, st.1.size 0)) = some ([(2, [0]), (3, [0])], 4) := by decide
/-- capped run: same shapes, `write`/`max_size` not larger (here equal) -/
example : ((HG.compressedStats mbNet.inputs mbNet.output mbNet.sizes 2 true [(0, 1), (3, 2)]).map
    fun st => (st.2.write, st.2.maxSize)) = some (25, 8) := by decide
/-- the hypotheses of `compress_nodeSize` are met by the initial hypergraph of the example: the
    group `{b, c}` has product 4 -/
example : (HG.ofInputs mbNet.inputs mbNet.output mbNet.sizes).groupByIncidence [1, 2] = [([0, 1], [1, 2])] ∧
    (HG.ofInputs mbNet.inputs mbNet.output mbNet.sizes).edgesSize [1, 2] = 4 := by decide

end Cotengra.C20
