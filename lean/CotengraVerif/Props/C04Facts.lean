import CotengraVerif.Generated.FactsC04

/-!
  C04, source-derived obligation `copy_independent`: `ContractionTree.copy()` (`set_state_from`)
  copies every attribute at least as deep as any method mutates it in place, so that transforming a
  copy (every non-inplace transformation works on one) can never change the figures the original
  reports. The table is regenerated from /repo's AST on every run by `harness/c04.py`
  (extractor `harness/c17_facts.sharing_facts`); a forgotten `.copy()` makes this file stop
  compiling. The dynamic counterpart is the "trees kept aside" comparison of the history harness.
-/
namespace Cotengra.C04
open Facts

theorem copy_independent : ∀ r ∈ sharing, r.2.2 ≤ r.2.1 := by decide

/-- non-vacuity: the table has the tracked containers, and some of them do need a copy -/
theorem copy_table_nonvacuous :
    sharing.length ≥ 15 ∧ (sharing.filter fun r => decide (1 ≤ r.2.2)).length ≥ 5 ∧
      (sharing.filter fun r => decide (2 ≤ r.2.2)).length ≥ 1 := by decide

end Cotengra.C04
